/-
C07 — external-data layout is well formed; save restores the model (property theorems).
Models: `IrVerif/Model/Layout.lean`, `Model/LayoutSt.lean`, `Model/LayoutSeq.lean`, `Model/LayoutStSave.lean` (+ `Model/Pack.lean` and
`Props/C04.lean`, read-only); helper lemmas: `IrVerif/Lemmas/Layout*.lean`.  Core Lean only.

What is claimed for which backend:
* raw data files: offsets (order, disjointness, alignment, file size), sharding, shard names,
  classification by threshold with every value paired with its own record, read-back of every
  externalised tensor from the written files (`C07_roundtrip`, `C07_roundtrip_value`), order
  independence of the writes, restoration of the model at every failure point;
* safetensors: sharding, shard names, classification by threshold (shard and length of every
  record), restoration of the model; since the deepening round also the container itself
  (`Model/LayoutSt.lean`: the writer's order, contiguous `data_offsets`, header JSON, file image,
  `_read_safetensors`, `_replace_tensors` by name, dtype tables): exact cover, non-overlap,
  containment, order, read-back of every entry (`C07_st_readback`) and of every saved value after
  re-pointing by name (`C07_st_roundtrip`), dtype/shape round trip (`C07_st_dtype_roundtrip`).
  The container format is the LIBRARY's: it is modelled and compared with the real library byte
  for byte on every run, not verified.  `placeSt`/`unloadSt` (offset 0) remain as the
  classification-level model of the older theorems.
* both: the `finally` restore loop step by step through the `const_value` setter
  (`C07_model_restored_checked`, `C07_restore_stops`), `nbytes = len(tobytes())` imported from C04
  (`C07_roundtrip_value_c04`), shared tensor objects (`C07_readback_shared`), call sequences
  save / load / load_to_model / unload_from_model / convert_tensors_from_external
  (`C07_sequence_preserves`, `C07_sequence_save_load`, raw backend instance `C07_rawBackend_ok`).
* third round (`Model/LayoutStSave.lean`): the safetensors save on INITIALIZER POSITIONS of the main graph and
  of every subgraph (`C07_st_unload_values`: classification + sharding + container + re-pointing by name
  composed, the counterpart of `C07_threshold` + `C07_roundtrip_value`; `C07_st_roundtrip_values`: what
  `ir.load` of the saved model holds - external iff not STRING and at least the threshold, original dtype /
  shape / bytes); the safetensors `Backend.Ok` instance (`C07_stBackend_ok`) and sequences mixing both
  backends (`C07_sequence_mixed`, `C07_sequence_mixed_save_load`); the restore loop under an asynchronous
  exception (`C07_restore_async`); dtypes without entry in the save table, i.e. COMPLEX128
  (`C07_st_keyerror_iff`).
`readAt`/`writeAt` are the model of file reads and writes; they are compared with real files and
with `ExternalTensor.tobytes()` of the reloaded model through `layout.image` / `layout.read`.
-/
import IrVerif.Lemmas.Layout
import IrVerif.Lemmas.LayoutNames
import IrVerif.Lemmas.LayoutSave
import IrVerif.Lemmas.LayoutSt
import IrVerif.Lemmas.LayoutSeq
import IrVerif.Lemmas.LayoutStSave
import IrVerif.Props.C04
namespace IrVerif.Layout

/-! ## Offsets in one data file -/

/-- **C07_disjoint** (which contains **C07_monotone**): in declaration order every recorded
    range ends before the next one starts — for every later tensor, not only the neighbour. -/
theorem C07_disjoint (al : Option Nat) (thr : Nat) (sizes : List Nat) :
    (computeInfos al thr sizes).Pairwise (fun a b => a.offset + a.length ≤ b.offset) := by
  unfold computeInfos
  generalize 0 = cur
  induction sizes generalizing cur with
  | nil => simp [computeInfosFrom]
  | cons s rest ih =>
    simp only [computeInfosFrom, List.pairwise_cons]
    exact ⟨fun b hb => computeInfosFrom_ge _ _ _ _ b hb, ih _⟩

/-- **C07_monotone**: offsets follow declaration order. -/
theorem C07_monotone (al : Option Nat) (thr : Nat) (sizes : List Nat) :
    (computeInfos al thr sizes).Pairwise (fun a b => a.offset ≤ b.offset) :=
  (C07_disjoint al thr sizes).imp (by intro a b h; omega)

/-- every tensor is recorded with its own length, in order (nothing lost or duplicated) -/
theorem C07_lengths (al : Option Nat) (thr : Nat) (sizes : List Nat) :
    (computeInfos al thr sizes).map (·.length) = sizes :=
  computeInfosFrom_lengths _ _ _ _

theorem serial_length_from (al : Option Nat) (thr : Nat) (bs : List (List Nat)) (cur : Nat)
    (img : List Nat) (himg : img.length = cur) :
    (applyWrites img (((computeInfosFrom al thr cur (bs.map List.length)).zip bs).map
      fun p => (p.1.offset, p.2))).length = layoutEndFrom al thr cur (bs.map List.length) := by
  induction bs generalizing cur img with
  | nil => simpa [computeInfosFrom, applyWrites, layoutEndFrom] using himg
  | cons b rest ih =>
    simp only [List.map_cons, computeInfosFrom, List.zip_cons_cons, applyWrites_cons, layoutEndFrom]
    apply ih
    rw [writeAt_length]
    have hge := alignOffset_ge cur b.length al thr
    split
    · rename_i hb; subst hb
      simp [alignOffset_small, himg]
    · omega

/-- **C07_within**: every recorded range lies inside the file, and the file the serial writer
    produces is exactly as long as the end of the last range (`current_offset` after the loop). -/
theorem C07_within (al : Option Nat) (thr : Nat) (bs : List (List Nat)) :
    (serialImage (writesOf al thr bs)).length = layoutEnd al thr (bs.map List.length) ∧
    ∀ i ∈ computeInfos al thr (bs.map List.length),
      i.offset + i.length ≤ layoutEnd al thr (bs.map List.length) := by
  constructor
  · exact serial_length_from al thr bs 0 [] rfl
  · exact computeInfosFrom_le_end al thr 0 _

/-- adjacent-pair view of the layout: list of (end of previous range, info) -/
def withPrevEnd (al : Option Nat) (thr : Nat) : Nat → List Nat → List (Nat × Info)
  | _, [] => []
  | cur, s :: rest =>
    let off := alignOffset cur s al thr
    (cur, ⟨off, s⟩) :: withPrevEnd al thr (off + s) rest

theorem withPrevEnd_snd (al : Option Nat) (thr : Nat) (cur : Nat) (sizes : List Nat) :
    (withPrevEnd al thr cur sizes).map (·.2) = computeInfosFrom al thr cur sizes := by
  induction sizes generalizing cur with
  | nil => rfl
  | cons s rest ih => simp [withPrevEnd, computeInfosFrom, ih]

/-- `prev` really is the end of the previous range (`cur`, i.e. 0, for the first) -/
theorem withPrevEnd_eq_zip (al : Option Nat) (thr : Nat) (cur : Nat) (sizes : List Nat) :
    withPrevEnd al thr cur sizes =
      List.zip (cur :: (computeInfosFrom al thr cur sizes).map Info.stop)
        (computeInfosFrom al thr cur sizes) := by
  induction sizes generalizing cur with
  | nil => rfl
  | cons s rest ih => simp [withPrevEnd, computeInfosFrom, ih, Info.stop]

theorem aligned_from (al : Option Nat) (thr : Nat) (cur : Nat) (sizes : List Nat) :
    ∀ p ∈ withPrevEnd al thr cur sizes,
      p.1 ≤ p.2.offset ∧
      (al = none ∨ p.2.length ≤ thr → p.2.offset = p.1) ∧
      (∀ a, al = some a → thr < p.2.length →
        p.2.offset % max 4096 a = 0 ∧ p.2.offset < p.1 + max 4096 a) := by
  induction sizes generalizing cur with
  | nil => intro p hp; simp [withPrevEnd] at hp
  | cons s rest ih =>
    intro p hp
    simp only [withPrevEnd, List.mem_cons] at hp
    rcases hp with rfl | hp
    · refine ⟨alignOffset_ge _ _ _ _, ?_, ?_⟩
      · rintro (h | h)
        · subst h; rfl
        · exact alignOffset_small _ _ _ _ h
      · intro a ha hlt
        subst ha
        exact ⟨alignOffset_aligned _ _ _ _ hlt, alignOffset_lt _ _ _ _⟩
    · exact ih _ p hp

/-- **C07_aligned**: pair every recorded range with the end of the range before it (0 for the
    first).  With `alignment = some a` every tensor longer than `align_threshold` starts at a
    multiple of `max 4096 a` and the padding before it is shorter than that factor; every other
    tensor starts exactly where the previous one ended; with `alignment = none` the file is
    densely packed. -/
theorem C07_aligned (al : Option Nat) (thr : Nat) (sizes : List Nat) :
    ∀ p ∈ List.zip (0 :: (computeInfos al thr sizes).map Info.stop) (computeInfos al thr sizes),
      p.1 ≤ p.2.offset ∧
      (al = none ∨ p.2.length ≤ thr → p.2.offset = p.1) ∧
      (∀ a, al = some a → thr < p.2.length →
        p.2.offset % max 4096 a = 0 ∧ p.2.offset < p.1 + max 4096 a) := by
  unfold computeInfos
  rw [← withPrevEnd_eq_zip]
  exact aligned_from al thr 0 sizes

theorem C07_first_at_zero (al : Option Nat) (thr : Nat) (s : Nat) (rest : List Nat) :
    (computeInfos al thr (s :: rest)).head? = some ⟨0, s⟩ := by
  simp [computeInfos, computeInfosFrom, alignOffset_zero]

/-! ## Sharding (raw data files) -/

section Shard
variable {α : Type} (size : α → Nat)

theorem shardRawGo_flatten (limit : Nat) (al : Option Nat) (thr : Nat) (cur : List α) (sz : Nat)
    (ts : List α) : (shardRawGo size limit al thr cur sz ts).flatten = cur ++ ts := by
  induction ts generalizing cur sz with
  | nil => simp [shardRawGo]
  | cons t rest ih =>
    simp only [shardRawGo]
    split
    · simp [ih]
    · simp [ih]

theorem shardRawGo_nonempty (limit : Nat) (al : Option Nat) (thr : Nat) (cur : List α) (sz : Nat)
    (ts : List α) (h : cur ≠ [] ∨ ts ≠ []) :
    ∀ sh ∈ shardRawGo size limit al thr cur sz ts, sh ≠ [] := by
  induction ts generalizing cur sz with
  | nil =>
    intro sh hsh
    simp only [shardRawGo, List.mem_singleton] at hsh
    subst hsh
    simpa using h
  | cons t rest ih =>
    intro sh hsh
    simp only [shardRawGo] at hsh
    split at hsh
    · rename_i hc
      rcases List.mem_cons.mp hsh with rfl | hsh
      · exact hc.2
      · exact ih [t] _ (Or.inl (by simp)) sh hsh
    · exact ih (cur ++ [t]) _ (Or.inl (by simp)) sh hsh

/-- **C07_shards_partition**: concatenating the shards gives back the tensor list (every tensor
    in exactly one shard, declaration order kept) and no shard is empty unless there is nothing
    to write. -/
theorem C07_shards_partition (limit : Nat) (al : Option Nat) (thr : Nat) (ts : List α) :
    (shardRaw size limit al thr ts).flatten = ts ∧
    (ts ≠ [] → ∀ sh ∈ shardRaw size limit al thr ts, sh ≠ []) := by
  constructor
  · simpa [shardRaw] using shardRawGo_flatten size limit al thr [] 0 ts
  · intro h
    exact shardRawGo_nonempty size limit al thr [] 0 ts (Or.inr h)

theorem shardRawGo_limit (limit : Nat) (al : Option Nat) (thr : Nat) (cur : List α) (sz : Nat)
    (ts : List α) (hsz : sz = layoutEnd al thr (cur.map size))
    (hinv : sz ≤ limit ∨ cur.length ≤ 1) :
    ∀ sh ∈ shardRawGo size limit al thr cur sz ts,
      layoutEnd al thr (sh.map size) ≤ limit ∨ sh.length ≤ 1 := by
  induction ts generalizing cur sz with
  | nil =>
    intro sh hsh
    simp only [shardRawGo, List.mem_singleton] at hsh
    subst hsh; subst hsz; exact hinv
  | cons t rest ih =>
    intro sh hsh
    simp only [shardRawGo] at hsh
    split at hsh
    · rcases List.mem_cons.mp hsh with rfl | hsh
      · subst hsz; exact hinv
      · refine ih [t] _ ?_ (Or.inr (by simp)) sh hsh
        simp [layoutEnd_single]
    · rename_i hc
      refine ih (cur ++ [t]) _ ?_ ?_ sh hsh
      · subst hsz; simp [layoutEnd_snoc]
      · by_cases hcur : cur = []
        · subst hcur; right; simp
        · left
          have : ¬ (alignOffset sz (size t) al thr + size t > limit) := fun h => hc ⟨h, hcur⟩
          omega

/-- **C07_shard_limit**: the on-disk size of a shard (its own running offset, padding included)
    exceeds `max_shard_size_bytes` only if the shard holds a single tensor. -/
theorem C07_shard_limit (limit : Nat) (al : Option Nat) (thr : Nat) (ts : List α) :
    ∀ sh ∈ shardRaw size limit al thr ts,
      limit < layoutEnd al thr (sh.map size) → sh.length = 1 := by
  intro sh hsh hbig
  have h1 := shardRawGo_limit size limit al thr [] 0 ts (by simp [layoutEnd, layoutEndFrom])
    (Or.inr (by simp)) sh hsh
  have hne : sh ≠ [] := by
    intro h; subst h; simp [layoutEnd, layoutEndFrom] at hbig
  have : 0 < sh.length := List.length_pos_iff.mpr hne
  omega

end Shard

/-! ## Read-back -/

/-- **C07_readback**: whatever the order in which the (pairwise disjoint) tensor writes are
    carried out and whatever the file contained before, reading `(offset, length)` of any
    written tensor afterwards returns exactly that tensor's bytes. -/
theorem C07_readback (img0 : List Nat) (ws ws' : List Write) (hperm : ws'.Perm ws)
    (hd : ws.Pairwise Write.disjoint) (w : Write) (hw : w ∈ ws) :
    readAt (applyWrites img0 ws') w.1 w.2.length = w.2 := by
  have hd' : ws'.Pairwise Write.disjoint :=
    (hperm.pairwise_iff (fun h => Write.disjoint_symm h)).mpr hd
  have hw' : w ∈ ws' := hperm.mem_iff.mpr hw
  by_cases hne : w.2 = []
  · simp [readAt, hne]
  · exact readAt_eq_of_getD _ _ _ (applyWrites_length_written img0 ws' w hw' hne)
      (fun j hj => applyWrites_getD_written img0 ws' hd' w hw' j hj)

/-- the writes of a layout are pairwise disjoint when every tensor delivers as many bytes as
    its recorded length -/
theorem writesOf_disjoint (al : Option Nat) (thr : Nat) (bs : List (List Nat)) :
    (writesOf al thr bs).Pairwise Write.disjoint := by
  unfold writesOf computeInfos
  generalize 0 = cur
  induction bs generalizing cur with
  | nil => simp [computeInfosFrom]
  | cons b rest ih =>
    simp only [List.map_cons, computeInfosFrom, List.zip_cons_cons, List.pairwise_cons]
    refine ⟨?_, ih _⟩
    intro w hw
    simp only [List.mem_map] at hw
    obtain ⟨p, hp, rfl⟩ := hw
    have := computeInfosFrom_ge _ _ _ _ p.1 (List.of_mem_zip hp).1
    left; simpa using this

/-- **C07_readback_layout**: for the layout the code computes, serial writing, or preallocation
    followed by the writes in any order (any worker schedule), reads back every tensor. -/
theorem C07_readback_layout (al : Option Nat) (thr : Nat) (bs : List (List Nat))
    (ws' : List Write) (hperm : ws'.Perm (writesOf al thr bs)) (total : Nat)
    (w : Write) (hw : w ∈ writesOf al thr bs) :
    readAt (parallelImage total ws') w.1 w.2.length = w.2 ∧
    readAt (serialImage (writesOf al thr bs)) w.1 w.2.length = w.2 :=
  ⟨C07_readback _ _ _ hperm (writesOf_disjoint al thr bs) w hw,
   C07_readback _ _ _ (List.Perm.refl _) (writesOf_disjoint al thr bs) w hw⟩

/-! ## Sharding (safetensors backend, as fixed by D62) -/

section ShardSt
variable {α : Type} (size : α → Nat)

theorem shardStGo_flatten (limit : Nat) (cur : List α) (sz : Nat) (ts : List α) :
    (shardStGo size limit cur sz ts).flatten = cur ++ ts := by
  induction ts generalizing cur sz with
  | nil => simp [shardStGo]
  | cons t rest ih =>
    simp only [shardStGo]
    split <;> simp [ih]

theorem shardStGo_nonempty (limit : Nat) (cur : List α) (sz : Nat) (ts : List α)
    (h : cur ≠ [] ∨ ts ≠ []) : ∀ sh ∈ shardStGo size limit cur sz ts, sh ≠ [] := by
  induction ts generalizing cur sz with
  | nil =>
    intro sh hsh
    simp only [shardStGo, List.mem_singleton] at hsh
    subst hsh; simpa using h
  | cons t rest ih =>
    intro sh hsh
    simp only [shardStGo] at hsh
    split at hsh
    · rename_i hc
      rcases List.mem_cons.mp hsh with rfl | hsh
      · exact hc.2
      · exact ih [t] _ (Or.inl (by simp)) sh hsh
    · exact ih (cur ++ [t]) _ (Or.inl (by simp)) sh hsh

theorem shardStGo_limit (limit : Nat) (cur : List α) (sz : Nat) (ts : List α)
    (hsz : sz = (cur.map size).sum) (hinv : sz ≤ limit ∨ cur.length ≤ 1) :
    ∀ sh ∈ shardStGo size limit cur sz ts, (sh.map size).sum ≤ limit ∨ sh.length ≤ 1 := by
  induction ts generalizing cur sz with
  | nil =>
    intro sh hsh
    simp only [shardStGo, List.mem_singleton] at hsh
    subst hsh; subst hsz; exact hinv
  | cons t rest ih =>
    intro sh hsh
    simp only [shardStGo] at hsh
    split at hsh
    · rcases List.mem_cons.mp hsh with rfl | hsh
      · subst hsz; exact hinv
      · exact ih [t] _ (by simp) (Or.inr (by simp)) sh hsh
    · rename_i hc
      refine ih (cur ++ [t]) _ (by subst hsz; simp) ?_ sh hsh
      by_cases hcur : cur = []
      · subst hcur; right; simp
      · left
        have : ¬ (sz + size t > limit) := fun h => hc ⟨h, hcur⟩
        omega

/-- **C07_shards_partition_st** / **C07_shard_limit_st**: the safetensors sharder (with the
    emptiness test of D62.diff) partitions the tensors in order, never emits an empty shard for
    a non-empty input, and a shard whose payload exceeds the limit holds a single tensor. -/
theorem C07_shards_partition_st (limit : Option Nat) (ts : List α) :
    (shardSt size limit ts).flatten = ts ∧
    (ts ≠ [] → ∀ sh ∈ shardSt size limit ts, sh ≠ []) := by
  cases limit with
  | none => simp [shardSt]
  | some l =>
    constructor
    · simpa [shardSt] using shardStGo_flatten size l [] 0 ts
    · intro h; exact shardStGo_nonempty size l [] 0 ts (Or.inr h)

theorem C07_shard_limit_st (limit : Nat) (ts : List α) :
    ∀ sh ∈ shardSt size (some limit) ts, limit < (sh.map size).sum → sh.length = 1 := by
  intro sh hsh hbig
  have h1 := shardStGo_limit size limit [] 0 ts (by simp) (Or.inr (by simp)) sh hsh
  have hne : sh ≠ [] := by intro h; subst h; simp at hbig
  have : 0 < sh.length := List.length_pos_iff.mpr hne
  omega

end ShardSt

/-- the safetensors sharder as it was before fix D62 (`current_shard_size > 0` instead of an
    emptiness test); not part of the model, kept to show what the emptiness test is for -/
def shardStGoPreD62 (limit : Nat) : List Nat → Nat → List Nat → List (List Nat)
  | cur, _, [] => [cur]
  | cur, sz, t :: rest =>
    if sz + t > limit ∧ sz > 0 then cur :: shardStGoPreD62 limit [t] (0 + t) rest
    else shardStGoPreD62 limit (cur ++ [t]) (sz + t) rest

-- sizes [0, 100] with limit 10: one shard of 100 bytes holding two tensors (the statement of
-- `C07_shard_limit_st` fails for the pre-fix sharder)
example : ∃ sh ∈ shardStGoPreD62 10 [] 0 [0, 100], 10 < sh.sum ∧ sh.length ≠ 1 :=
  ⟨[0, 100], by decide, by decide, by decide⟩

/-! ## `save` restores the model -/

theorem saveRun_restored (st : Store) (plan : SavePlan) (stop : Option Nat)
    (h : ∀ v t, Step.assign v t ∈ plan.prog → v ∈ plan.snapshot) :
    (saveRun st plan stop).2 = st := by
  funext v
  simp only [saveRun]
  by_cases hv : v ∈ plan.snapshot
  · exact assignAll_saved st _ plan.snapshot v hv
  · rw [assignAll_not_mem]
    · apply execSteps_untouched
      intro t ht
      apply hv
      apply h v t
      cases stop with
      | none => exact ht
      | some n => exact List.mem_of_mem_take ht
    · intro p hp
      simp only [List.mem_map] at hp
      obtain ⟨u, hu, rfl⟩ := hp
      intro e; exact hv (e ▸ hu)

/-- **C07_model_restored**: the save is the effect sequence of the source — remember the
    tensors, (validate, load small external tensors, write, re-point, serialize, write the
    proto), and in `finally` put the remembered tensors back.  For every initializer list,
    threshold and store, and wherever an exception surfaces (`stop = some n`: after any number
    `n` of completed steps, in the safetensors backend also between the early re-pointing of
    small external tensors and the writes) or if none does (`stop = none`), every value cell
    holds afterwards the tensor object it held before — for both backends.  (The safetensors
    snapshot holds only values with a non-string tensor: the proof shows nothing else is ever
    re-pointed.) -/
theorem C07_model_restored (vs : List Init) (thr : Int) (fresh : Nat) (st : Store)
    (stop : Option Nat) :
    (saveRun st (rawPlan vs thr fresh) stop).2 = st ∧
    (saveRun st (stPlan vs thr fresh) stop).2 = st := by
  constructor
  · apply saveRun_restored
    intro v t hvt
    have h := (mem_rawPlan vs thr fresh v t).mp hvt
    have hlt : v < vs.length := by
      unfold splitRaw at h
      rw [splitRawGo_eq] at h
      rcases h.1 with h1 | h1
      · obtain ⟨j, hj, rfl, _⟩ := (splitBy_mem_fst _ _ 0 vs v).mp h1; simpa using hj
      · obtain ⟨j, hj, rfl, _⟩ := (splitBy_mem_snd _ _ 0 vs v).mp h1; simpa using hj
    simpa [rawPlan] using hlt
  · apply saveRun_restored
    intro v t hvt
    have h := (mem_stPlan vs thr fresh v t).mp hvt
    unfold splitSt at h
    rw [splitStGo_eq] at h
    have hprop : ∃ hlt : v < vs.length, vs[v].hasConst = true ∧ vs[v].isString = false := by
      rcases h.1 with h1 | h1
      · obtain ⟨j, hj, rfl, hp⟩ := (splitBy_mem_fst _ _ 0 vs v).mp h1
        simp only [extSt, Bool.and_eq_true, Bool.not_eq_true'] at hp
        exact ⟨by simpa using hj, by simpa using hp.1.1, by simpa using hp.1.2⟩
      · obtain ⟨j, hj, rfl, hp⟩ := (splitBy_mem_snd _ _ 0 vs v).mp h1
        simp only [memSt, Bool.and_eq_true, Bool.not_eq_true'] at hp
        exact ⟨by simpa using hj, by simpa using hp.1.1.1, by simpa using hp.1.1.2⟩
    obtain ⟨hlt, hc, hs⟩ := hprop
    simp only [stPlan, List.mem_filter, List.mem_range, Bool.and_eq_true, Bool.not_eq_true']
    simp [hlt, List.getD_eq_getElem?_getD, hc, hs]

/-! ## The data file does not depend on the order of the writes -/

theorem applyWrites_length_le (img : List Nat) (ws : List Write) (L : Nat) (himg : img.length ≤ L)
    (hws : ∀ w ∈ ws, w.1 + w.2.length ≤ L) : (applyWrites img ws).length ≤ L := by
  induction ws generalizing img with
  | nil => exact himg
  | cons w ws ih =>
    rw [applyWrites_cons]
    apply ih
    · rw [writeAt_length]
      have := hws w (List.mem_cons_self ..)
      split <;> omega
    · exact fun v hv => hws v (List.mem_cons_of_mem _ hv)

theorem totalSize_from (al : Option Nat) (thr : Nat) (cur : Nat) (sizes : List Nat) :
    (computeInfosFrom al thr cur sizes).foldl (fun m i => max m i.stop) cur =
      layoutEndFrom al thr cur sizes := by
  induction sizes generalizing cur with
  | nil => rfl
  | cons s rest ih =>
    simp only [computeInfosFrom, List.foldl_cons, layoutEndFrom, Info.stop]
    have := alignOffset_ge cur s al thr
    rw [Nat.max_eq_right (by omega)]
    exact ih _

theorem totalSize_eq_layoutEnd (al : Option Nat) (thr : Nat) (sizes : List Nat) :
    totalSize (computeInfos al thr sizes) = layoutEnd al thr sizes :=
  totalSize_from al thr 0 sizes

theorem writesOf_stop_le (al : Option Nat) (thr : Nat) (bs : List (List Nat)) :
    ∀ w ∈ writesOf al thr bs, w.1 + w.2.length ≤ layoutEnd al thr (bs.map List.length) := by
  intro w hw
  simp only [writesOf, List.mem_map] at hw
  obtain ⟨p, hp, rfl⟩ := hw
  have hmem := (List.of_mem_zip hp).1
  have hle := computeInfosFrom_le_end al thr 0 _ p.1 hmem
  -- p.2.length = p.1.length
  have hlen : p.1.length = p.2.length := by
    have hz : ∀ (cur : Nat) (bs : List (List Nat)) (q : Info × List Nat),
        q ∈ (computeInfosFrom al thr cur (bs.map List.length)).zip bs → q.1.length = q.2.length := by
      intro cur bs
      induction bs generalizing cur with
      | nil => intro q hq; simp [computeInfosFrom] at hq
      | cons b rest ih =>
        intro q hq
        simp only [List.map_cons, computeInfosFrom, List.zip_cons_cons, List.mem_cons] at hq
        rcases hq with rfl | hq
        · rfl
        · exact ih _ q hq
    exact hz 0 bs p hp
  simp only [Info.stop] at hle
  simp only [layoutEnd]
  omega

/-- **C07_image_order_independent**: preallocating the file to `total_size` and carrying out
    the tensor writes in any order (any schedule of the worker threads) produces byte for byte
    the file the serial writer produces. -/
theorem C07_image_order_independent (al : Option Nat) (thr : Nat) (bs : List (List Nat))
    (ws' : List Write) (hperm : ws'.Perm (writesOf al thr bs)) :
    parallelImage (totalSize (computeInfos al thr (bs.map List.length))) ws' =
      serialImage (writesOf al thr bs) := by
  have hd := writesOf_disjoint al thr bs
  have hd' : ws'.Pairwise Write.disjoint :=
    (hperm.pairwise_iff (fun h => Write.disjoint_symm h)).mpr hd
  have hL := (C07_within al thr bs).1
  rw [totalSize_eq_layoutEnd]
  generalize hLdef : layoutEnd al thr (bs.map List.length) = L at *
  have hstop := writesOf_stop_le al thr bs
  rw [hLdef] at hstop
  have hlen1 : (parallelImage L ws').length = L := by
    apply Nat.le_antisymm
    · exact applyWrites_length_le _ _ L (by simp) (fun w hw => hstop w (hperm.mem_iff.mp hw))
    · have := applyWrites_length_ge (List.replicate L 0) ws'
      simpa [parallelImage] using this
  apply List.ext_getElem (by rw [hlen1, hL])
  intro i h1 h2
  have hgetD : ∀ (l : List Nat) (h : i < l.length), l[i] = l.getD i 0 := by
    intro l h; simp [List.getD_eq_getElem?_getD, List.getElem?_eq_getElem h]
  rw [hgetD _ h1, hgetD _ h2]
  by_cases hcov : ∃ w ∈ writesOf al thr bs, w.1 ≤ i ∧ i < w.1 + w.2.length
  · obtain ⟨w, hw, hlo, hhi⟩ := hcov
    have e1 := applyWrites_getD_written (List.replicate L 0) ws' hd' w (hperm.mem_iff.mpr hw)
      (i - w.1) (by omega)
    have e2 := applyWrites_getD_written [] (writesOf al thr bs) hd w hw (i - w.1) (by omega)
    have hi : w.1 + (i - w.1) = i := by omega
    rw [hi] at e1 e2
    simp only [parallelImage, serialImage]
    rw [e1, e2]
  · have hnc : ∀ w ∈ writesOf al thr bs, ¬ (w.1 ≤ i ∧ i < w.1 + w.2.length) :=
      fun w hw hc => hcov ⟨w, hw, hc⟩
    simp only [parallelImage, serialImage]
    rw [applyWrites_getD_untouched _ _ _ (fun w hw => hnc w (hperm.mem_iff.mp hw)),
      applyWrites_getD_untouched _ _ _ hnc]
    simp [List.getD_eq_getElem?_getD, List.getElem?_replicate]
    split <;> rfl

/-! ## End to end: every externalised tensor can be read back from its data file -/

theorem shardRawGo_map {α : Type} (size : α → Nat) (limit : Nat) (al : Option Nat) (thr : Nat)
    (cur : List α) (sz : Nat) (ts : List α) :
    (shardRawGo size limit al thr cur sz ts).map (List.map size) =
      shardRawGo id limit al thr (cur.map size) sz (ts.map size) := by
  induction ts generalizing cur sz with
  | nil => simp [shardRawGo]
  | cons t rest ih =>
    simp only [shardRawGo, List.map_cons, id]
    have e : (cur.map size ≠ []) ↔ cur ≠ [] := by simp
    simp only [e]
    by_cases hc : alignOffset sz (size t) al thr + size t > limit ∧ cur ≠ []
    · rw [if_pos hc, if_pos hc, List.map_cons, ih]; simp
    · rw [if_neg hc, if_neg hc, ih]; simp

/-- the shards of byte strings behind `dataFiles` -/
def byteShards (bs : List (List Nat)) (maxShard : Option Nat) (al : Option Nat) (athr : Nat) :
    List (List (List Nat)) :=
  match maxShard with
  | none => [bs]
  | some m => shardRaw List.length m al athr bs

theorem byteShards_flatten (bs : List (List Nat)) (maxShard : Option Nat) (al : Option Nat)
    (athr : Nat) : (byteShards bs maxShard al athr).flatten = bs := by
  cases maxShard with
  | none => simp [byteShards]
  | some m => exact (C07_shards_partition List.length m al athr bs).1

/-- placements paired with the tensors' bytes, shard by shard -/
theorem place_zip_from (al : Option Nat) (athr : Nat) (total : Nat) (shards : List (List (List Nat)))
    (start : Nat) :
    ((((shards.map (List.map List.length)).zipIdx start).flatMap fun (sh, i) =>
        (computeInfos al athr sh).map fun inf => (⟨i, total, inf.offset, inf.length⟩ : Placement)).zip
      shards.flatten) =
    (shards.zipIdx start).flatMap fun (sh, i) =>
      ((computeInfos al athr (sh.map List.length)).zip sh).map fun q =>
        ((⟨i, total, q.1.offset, q.1.length⟩ : Placement), q.2) := by
  induction shards generalizing start with
  | nil => rfl
  | cons sh rest ih =>
    simp only [List.map_cons, List.zipIdx_cons, List.flatMap_cons, List.flatten_cons]
    rw [List.zip_append (by simp [computeInfos, computeInfosFrom_length]), ih]
    congr 1
    rw [List.zip_map_left]
    simp [List.map_map, Function.comp_def]

theorem dataFiles_serial (bs : List (List Nat)) (maxShard : Option Nat) (al : Option Nat)
    (athr : Nat) :
    dataFiles bs maxShard al athr none =
      (byteShards bs maxShard al athr).map fun sh => serialImage (writesOf al athr sh) := by
  unfold dataFiles byteShards
  cases maxShard <;> rfl

/-- **C07_roundtrip**: for every shard limit, alignment and threshold, pairing the placements
    `unload_from_model` records (in the order it zips them onto the initializers) with the
    tensors' bytes: the data file named by the placement exists among the written files and
    reading `(offset, length)` from it returns exactly that tensor's bytes. -/
theorem C07_roundtrip (bs : List (List Nat)) (maxShard : Option Nat) (al : Option Nat)
    (athr : Nat) :
    ∀ pb ∈ (placeRaw (bs.map List.length) maxShard al athr).zip bs,
      ∃ img, (dataFiles bs maxShard al athr none)[pb.1.shard]? = some img ∧
        readAt img pb.1.offset pb.1.length = pb.2 := by
  intro pb hpb
  rw [dataFiles_serial]
  have hkey : ∀ (shards : List (List (List Nat))) (total : Nat),
      ∀ pb ∈ (shards.zipIdx 0).flatMap (fun (sh, i) =>
        ((computeInfos al athr (sh.map List.length)).zip sh).map fun q =>
          ((⟨i, total, q.1.offset, q.1.length⟩ : Placement), q.2)),
      ∃ img, (shards.map fun sh => serialImage (writesOf al athr sh))[pb.1.shard]? = some img ∧
        readAt img pb.1.offset pb.1.length = pb.2 := by
    intro shards total pb hpb
    simp only [List.mem_flatMap, List.mem_map] at hpb
    obtain ⟨⟨sh, i⟩, hsh, q, hq, rfl⟩ := hpb
    have hidx := List.mem_zipIdx hsh
    have hi : i < shards.length := by have := hidx.2.1; omega
    have hshi : sh = shards[i] := by have := hidx.2.2; simpa using this
    refine ⟨serialImage (writesOf al athr sh), by simp [hi, hshi], ?_⟩
    have hw : (q.1.offset, q.2) ∈ writesOf al athr sh := by
      simp only [writesOf, List.mem_map]
      exact ⟨q, hq, rfl⟩
    have hlen : q.1.length = q.2.length := by
      have hz : ∀ (cur : Nat) (bs : List (List Nat)) (q : Info × List Nat),
          q ∈ (computeInfosFrom al athr cur (bs.map List.length)).zip bs →
            q.1.length = q.2.length := by
        intro cur bs
        induction bs generalizing cur with
        | nil => intro q hq; simp [computeInfosFrom] at hq
        | cons b rest ih =>
          intro q hq
          simp only [List.map_cons, computeInfosFrom, List.zip_cons_cons, List.mem_cons] at hq
          rcases hq with rfl | hq
          · rfl
          · exact ih _ q hq
      exact hz 0 sh q hq
    have := (C07_readback_layout al athr sh (writesOf al athr sh) (List.Perm.refl _) 0
      (q.1.offset, q.2) hw).2
    simpa [hlen] using this
  cases maxShard with
  | none =>
    have h1 := place_zip_from al athr 1 [bs] 0
    simp only [List.map_cons, List.map_nil, List.zipIdx_cons, List.zipIdx_nil, List.flatMap_cons,
      List.flatMap_nil, List.append_nil, List.flatten_cons, List.flatten_nil] at h1
    have : (placeRaw (bs.map List.length) none al athr).zip bs =
        ((computeInfos al athr (bs.map List.length)).zip bs).map fun q =>
          ((⟨0, 1, q.1.offset, q.1.length⟩ : Placement), q.2) := by
      simpa [placeRaw] using h1
    rw [this] at hpb
    exact hkey [bs] 1 pb (by simpa using hpb)
  | some m =>
    have hmap : shardRaw id m al athr (bs.map List.length) =
        (shardRaw List.length m al athr bs).map (List.map List.length) := by
      simpa [shardRaw] using (shardRawGo_map List.length m al athr [] 0 bs).symm
    have hflat := (C07_shards_partition List.length m al athr bs).1
    have h1 := place_zip_from al athr (shardRaw List.length m al athr bs).length
      (shardRaw List.length m al athr bs) 0
    rw [hflat] at h1
    simp only [placeRaw, placeShards, hmap, List.length_map] at hpb
    rw [h1] at hpb
    exact hkey _ _ pb hpb

/-- a worker schedule that is a permutation of each shard's writes gives the same data files
    as serial writing (so `C07_roundtrip` holds for the parallel writer too) -/
theorem C07_dataFiles_schedule (bs : List (List Nat)) (maxShard : Option Nat) (al : Option Nat)
    (athr : Nat) (order : List Nat)
    (hperm : ∀ sh ∈ byteShards bs maxShard al athr,
      (reorder (writesOf al athr sh) order).Perm (writesOf al athr sh)) :
    dataFiles bs maxShard al athr (some order) = dataFiles bs maxShard al athr none := by
  have : ∀ shards : List (List (List Nat)),
      (∀ sh ∈ shards, (reorder (writesOf al athr sh) order).Perm (writesOf al athr sh)) →
      (shards.map fun sh => parallelImage (totalSize (computeInfos al athr (sh.map List.length)))
        (reorder (writesOf al athr sh) order)) =
      shards.map fun sh => serialImage (writesOf al athr sh) := by
    intro shards h
    apply List.map_congr_left
    intro sh hsh
    exact C07_image_order_independent al athr sh _ (h sh hsh)
  unfold dataFiles
  unfold byteShards at hperm
  cases maxShard with
  | none => exact this [bs] hperm
  | some m => exact this _ hperm

/-! ## Shard file names -/

/-- **C07_filename_dir**: a shard file lives in the directory of the base name, and its file
    name part is the stem/counter/extension string of `C07_filename_parts` (`posixpath.split`
    of the shard name returns the directory `posixpath.split` returns for the base name). -/
theorem C07_filename_dir (base : List Char) (idx total : Nat) (sc : Option Nat) (ht : total ≠ 1) :
    posixSplit (shardFilename base idx total sc) =
      ((posixSplit base).1, shardBasename (posixSplit base).2 idx total sc) := by
  have hslash : '/' ∉ (posixSplit base).2 := by
    simp only [posixSplit]; exact not_mem_drop_rfindSucc '/' base
  have hf := slash_not_mem_shardBasename (posixSplit base).2 idx total sc hslash
  have hfne : shardBasename (posixSplit base).2 idx total sc ≠ [] := by
    unfold shardBasename; simp
  rw [shardFilename_eq _ _ _ _ ht]
  split
  · rename_i hdir
    exact posixSplit_join base _ hf hfne hdir
  · rename_i hdir
    have hd : (posixSplit base).1 = [] := by simpa using hdir
    rw [hd]
    generalize shardBasename (posixSplit base).2 idx total sc = f at *
    unfold posixSplit
    simp [(rfindSucc_eq_zero '/' f).mpr hf]

/-- **C07_filename_inj**: for a fixed base name, distinct (shard index, shard count) pairs give
    distinct file names — also across different shard counts (a re-save with another count
    never reuses a name of the old layout), for both backends (`suffixCount = none` for raw data
    files, `some 1` for safetensors) and any base name (dotted stems, sub-directories). -/
theorem C07_filename_inj (base : List Char) (sc : Option Nat) (i j total total' : Nat)
    (ht : total ≠ 1) (ht' : total' ≠ 1)
    (h : shardFilename base i total sc = shardFilename base j total' sc) :
    i = j ∧ total = total' := by
  have h1 := congrArg posixSplit h
  rw [C07_filename_dir base i total sc ht, C07_filename_dir base j total' sc ht'] at h1
  exact shardBasename_injective2 _ _ (Prod.mk.inj h1).2

/-- a sharded name never equals the single-file name of the same base -/
theorem C07_filename_ne_base (base : List Char) (sc : Option Nat) (i j total : Nat) (ht : total ≠ 1) :
    shardFilename base i total sc ≠ shardFilename base j 1 sc := by
  intro h
  have h1 := congrArg (fun p => (posixSplit p).2.length) h
  simp only [C07_filename_dir base i total sc ht] at h1
  have hb : shardFilename base j 1 sc = base := by simp [shardFilename]
  rw [hb] at h1
  have hsplit := peelSuffixes_append ((posixSplit base).2.length + 1) sc (posixSplit base).2 []
  simp only [List.reverse_nil, List.flatten_nil, List.append_nil] at hsplit
  have hl := congrArg List.length hsplit
  simp only [shardBasename, List.length_append, List.length_cons] at h1 hl
  omega

/-- **C07_filename_parts**: a single shard keeps the base name; otherwise the name is the
    directory of the base name joined with `stem-XXXXX-of-YYYYY` followed by the extension
    chain, where
    * `stem ++ extensions` is exactly the original file name (nothing of a dotted stem is lost),
    * every extension starts with `.` and is an extension suffix in the sense of
      `_is_extension_suffix` (ASCII letter, then letters, digits or `_`),
    * at most `suffix_count` extensions are taken, and when that bound is not what stopped the
      loop the stem has no further extension suffix (the chain is maximal),
    * the two counters print back to the shard index and count. -/
theorem C07_filename_parts (base : List Char) (idx total : Nat) (sc : Option Nat) :
    shardFilename base idx 1 sc = base ∧
    (total ≠ 1 → ∃ (stem : List Char) (exts : List (List Char)),
      stem ++ exts.flatten = (posixSplit base).2 ∧
      (∀ e ∈ exts, e.head? = some '.' ∧ isExtensionSuffix e = true) ∧
      (∀ c, sc = some c → exts.length ≤ c) ∧
      ((∀ c, sc = some c → exts.length < c) →
        (splitext stem).2 = [] ∨ isExtensionSuffix (splitext stem).2 = false) ∧
      valOf (pad5 idx) = idx ∧ valOf (pad5 total) = total ∧
      shardFilename base idx total sc =
        (if (posixSplit base).1 ≠ [] then posixJoin (posixSplit base).1 else id)
          (stem ++ '-' :: pad5 idx ++ "-of-".toList ++ pad5 total ++ exts.flatten)) := by
  constructor
  · simp [shardFilename]
  · intro ht
    have hspec := peelSuffixes_spec ((posixSplit base).2.length + 1) sc (posixSplit base).2 []
      (by omega)
    obtain ⟨⟨new, hnew, hall⟩, hbound, hmax⟩ := hspec
    simp only [List.nil_append] at hnew
    refine ⟨(peelSuffixes ((posixSplit base).2.length + 1) sc (posixSplit base).2 []).1,
      (peelSuffixes ((posixSplit base).2.length + 1) sc (posixSplit base).2 []).2.reverse,
      ?_, ?_, ?_, ?_, valOf_pad5 _, valOf_pad5 _, ?_⟩
    · simpa using peelSuffixes_append ((posixSplit base).2.length + 1) sc (posixSplit base).2 []
    · intro e he
      rw [hnew] at he
      exact hall e (by simpa using he)
    · intro c hc; simpa using hbound c hc
    · intro h; exact hmax (fun c hc => by simpa using h c hc)
    · rw [shardFilename_eq _ _ _ _ ht]
      unfold shardBasename
      split <;> rfl

/-! ## Threshold split and re-pointing -/

/-- the two assignment loops of the unload step, for any classification `pe` (becomes
    external) / `pm` (loaded to memory): the `c`-th selected initializer gets the `c`-th record -/
theorem unload_generic (vs : List Init) (pe pm : Init → Bool)
    (hex : ∀ v, pe v = true → pm v = false)
    (places : List Placement)
    (hplaces : places.length = (vs.filter pe).length)
    (k : Nat) (hk : k < vs.length) :
    let res := assignZip (assignZip (List.replicate vs.length NewConst.same) (splitBy pe pm 0 vs).1
            (places.map NewConst.external))
          (splitBy pe pm 0 vs).2 ((splitBy pe pm 0 vs).2.map fun _ => NewConst.memory)
    (pe vs[k] = true → ∃ hc : (vs.take k).countP pe < places.length,
        res[k]? = some (.external places[(vs.take k).countP pe])) ∧
    (pe vs[k] = false → pm vs[k] = true → res[k]? = some .memory) ∧
    (pe vs[k] = false → pm vs[k] = false → res[k]? = some .same) := by
  intro res
  have hE := splitBy_mem_fst pe pm 0 vs
  have hM := splitBy_mem_snd pe pm 0 vs
  have hEs := nodup_of_sorted (splitBy_sorted_fst pe pm 0 vs)
  have hMs := nodup_of_sorted (splitBy_sorted_snd pe pm 0 vs)
  have hidx := splitBy_index pe pm 0 vs
  have hfil := splitBy_map_filter pe pm [] vs
  simp only [List.length_nil, List.nil_append] at hfil
  have hpl : places.length = (splitBy pe pm 0 vs).1.length := by
    rw [hplaces, ← hfil]; simp
  simp only [res]
  generalize hext : (splitBy pe pm 0 vs).1 = ext at *
  generalize hmem : (splitBy pe pm 0 vs).2 = mem at *
  have hEb : ∀ i ∈ ext, i < (List.replicate vs.length NewConst.same).length := by
    intro i hi; obtain ⟨j, hj, rfl, _⟩ := (hE i).mp hi; simpa using hj
  have hMb : ∀ i ∈ mem, i < (assignZip (List.replicate vs.length NewConst.same) ext
      (places.map NewConst.external)).length := by
    intro i hi; obtain ⟨j, hj, rfl, _⟩ := (hM i).mp hi
    rw [assignZip_length]; simpa using hj
  have hnotE : pe vs[k] = false → k ∉ ext := by
    intro he hm
    obtain ⟨j, hj, hkj, hp⟩ := (hE k).mp hm
    have : j = k := by omega
    subst this; rw [he] at hp; exact absurd hp (by simp)
  have hnotM : pm vs[k] = false → k ∉ mem := by
    intro he hm
    obtain ⟨j, hj, hkj, hp⟩ := (hM k).mp hm
    have : j = k := by omega
    subst this; rw [he] at hp; exact absurd hp (by simp)
  refine ⟨?_, ?_, ?_⟩
  · intro he
    have hc := hidx k hk he
    simp only [Nat.zero_add] at hc
    generalize (vs.take k).countP pe = c at *
    have hcl : c < ext.length := by
      by_cases h : c < ext.length
      · exact h
      · rw [List.getElem?_eq_none (by omega)] at hc; cases hc
    have hck : ext[c] = k := by
      rw [List.getElem?_eq_getElem hcl] at hc; exact Option.some.inj hc
    refine ⟨by omega, ?_⟩
    rw [assignZip_not_mem _ _ _ _ (hnotM (hex _ he)), ← hck,
      assignZip_mem _ _ _ hEs (by simp [hpl]) hEb c hcl]
    simp [show c < places.length by omega]
  · intro he hm
    have hkin : k ∈ mem := (hM k).mpr ⟨k, hk, by simp, hm⟩
    obtain ⟨j, hj, hjk⟩ := List.getElem_of_mem hkin
    subst hjk
    rw [assignZip_mem _ _ _ hMs (by simp) hMb j hj]
    simp [hj]
  · intro he hm
    rw [assignZip_not_mem _ _ _ _ (hnotM hm), assignZip_not_mem _ _ _ _ (hnotE he)]
    simp [hk]

theorem placeRaw_lengths (sizes : List Nat) (maxShard : Option Nat) (al : Option Nat) (thr : Nat) :
    (placeRaw sizes maxShard al thr).map (·.length) = sizes := by
  unfold placeRaw
  cases maxShard with
  | none =>
    simp only [List.map_map]
    simpa [Function.comp_def] using C07_lengths al thr sizes
  | some m =>
    simp only [placeShards]
    rw [placeShards_lengths_from]
    exact (C07_shards_partition id m al thr sizes).1

theorem placeSt_lengths (sizes : List Nat) (maxShard : Option Nat) :
    (placeSt sizes maxShard).map (·.length) = sizes := by
  unfold placeSt
  simp only []
  have hflat := (C07_shards_partition_st id maxShard sizes).1
  generalize (shardSt id maxShard sizes).length = total
  have : ∀ (shards : List (List Nat)) (start : Nat),
      (((shards.zipIdx start).flatMap fun (sh, i) =>
        sh.map fun n => (⟨i, total, 0, n⟩ : Placement)).map (·.length)) = shards.flatten := by
    intro shards
    induction shards with
    | nil => intro _; rfl
    | cons sh rest ih =>
      intro start
      simp only [List.zipIdx_cons, List.flatMap_cons, List.map_append, List.flatten_cons, ih]
      simp [Function.comp_def]
  rw [this, hflat]

/-- raw backend: the tensor of `v` becomes external (independent of the model: a value with a
    non-string tensor of more than `thr` bytes) -/
def becomesExternalRaw (thr : Int) (v : Init) : Bool :=
  v.hasConst && !v.isString && decide ((v.nbytes : Int) > thr)

/-- safetensors backend: at least `thr` bytes -/
def becomesExternalSt (thr : Int) (v : Init) : Bool :=
  v.hasConst && !v.isString && decide ((v.nbytes : Int) ≥ thr)

theorem extRaw_eq (thr : Int) : extRaw thr = becomesExternalRaw thr := rfl

theorem extSt_eq (thr : Int) : extSt thr = becomesExternalSt thr := by
  funext v
  simp only [extSt, becomesExternalSt]
  congr 1
  by_cases h : (v.nbytes : Int) < thr <;> simp [h] <;> omega

/-- **C07_threshold** (raw data files).  For every initializer position `k`, every threshold,
    shard limit and alignment, after `unload_from_model`:
    * a value with a non-string tensor of more than `size_threshold_bytes` bytes holds a new
      external tensor whose record is the `c`-th placement computed for the sizes of exactly
      those tensors, where `c` is the number of such values before `k` (so each value is paired
      with its own record, in declaration order — not merely with one of the right length);
    * any other value whose (non-string) tensor was external holds an in-memory copy;
    * every other value (no tensor, string tensor, small in-memory tensor) holds the same object. -/
theorem C07_threshold (vs : List Init) (thr : Int) (maxShard : Option Nat) (al : Option Nat)
    (athr : Nat) (k : Nat) (hk : k < vs.length) :
    let res := unloadRaw vs thr maxShard al athr
    let places := placeRaw ((vs.filter (becomesExternalRaw thr)).map (·.nbytes)) maxShard al athr
    res.length = vs.length ∧
    (vs[k].hasConst = true → vs[k].isString = false → (vs[k].nbytes : Int) > thr →
      ∃ hc : (vs.take k).countP (becomesExternalRaw thr) < places.length,
        res[k]? = some (.external places[(vs.take k).countP (becomesExternalRaw thr)])) ∧
    (vs[k].hasConst = true → vs[k].isString = false → (vs[k].nbytes : Int) ≤ thr →
      vs[k].isExternal = true → res[k]? = some .memory) ∧
    (vs[k].hasConst = false ∨ vs[k].isString = true ∨
      ((vs[k].nbytes : Int) ≤ thr ∧ vs[k].isExternal = false) → res[k]? = some .same) := by
  intro res places
  have hsizes : ((splitRaw thr vs).1.map fun i => (vs.getD i default).nbytes) =
      (vs.filter (becomesExternalRaw thr)).map (·.nbytes) := by
    unfold splitRaw; rw [splitRawGo_eq]
    have := splitBy_map_filter (extRaw thr) (memRaw thr) [] vs
    simp only [List.length_nil, List.nil_append] at this
    rw [← extRaw_eq, ← this]; simp [Function.comp_def]
  have hgen := unload_generic vs (extRaw thr) (memRaw thr)
    (by intro v hv
        simp only [extRaw, Bool.and_eq_true, decide_eq_true_eq] at hv
        simp [memRaw, hv.2])
    places
    (by have := congrArg List.length (placeRaw_lengths
          ((vs.filter (becomesExternalRaw thr)).map (·.nbytes)) maxShard al athr)
        simpa [places, extRaw_eq] using this)
    k hk
  have hres : res = assignZip (assignZip (List.replicate vs.length NewConst.same)
      (splitBy (extRaw thr) (memRaw thr) 0 vs).1 (places.map NewConst.external))
      (splitBy (extRaw thr) (memRaw thr) 0 vs).2
      ((splitBy (extRaw thr) (memRaw thr) 0 vs).2.map fun _ => NewConst.memory) := by
    simp only [res, places, unloadRaw, ← hsizes]
    unfold splitRaw; rw [splitRawGo_eq]
  rw [hres]
  simp only [← extRaw_eq] at hgen ⊢
  refine ⟨by simp [assignZip_length], ?_, ?_, ?_⟩
  · intro h1 h2 h3
    exact hgen.1 (by simp [extRaw, h1, h2, h3])
  · intro h1 h2 h3 h4
    have hne : ¬ (vs[k].nbytes : Int) > thr := by omega
    exact hgen.2.1 (by simp [extRaw, hne]) (by simp [memRaw, h1, h2, h4, hne])
  · intro h
    apply hgen.2.2
    · rcases h with h | h | h
      · simp [extRaw, h]
      · simp [extRaw, h]
      · have hne : ¬ (vs[k].nbytes : Int) > thr := by omega
        simp [extRaw, hne]
    · rcases h with h | h | h
      · simp [memRaw, h]
      · simp [memRaw, h]
      · simp [memRaw, h.2]

/-- **C07_threshold_st** (safetensors): the same with "at least `size_threshold_bytes`"; the
    records carry shard and length only (offsets inside a safetensors file are the library's). -/
theorem C07_threshold_st (vs : List Init) (thr : Int) (maxShard : Option Nat)
    (k : Nat) (hk : k < vs.length) :
    let res := unloadSt vs thr maxShard
    let places := placeSt ((vs.filter (becomesExternalSt thr)).map (·.nbytes)) maxShard
    res.length = vs.length ∧
    (vs[k].hasConst = true → vs[k].isString = false → (vs[k].nbytes : Int) ≥ thr →
      ∃ hc : (vs.take k).countP (becomesExternalSt thr) < places.length,
        res[k]? = some (.external places[(vs.take k).countP (becomesExternalSt thr)])) ∧
    (vs[k].hasConst = true → vs[k].isString = false → (vs[k].nbytes : Int) < thr →
      vs[k].isExternal = true → res[k]? = some .memory) ∧
    (vs[k].hasConst = false ∨ vs[k].isString = true ∨
      ((vs[k].nbytes : Int) < thr ∧ vs[k].isExternal = false) → res[k]? = some .same) := by
  intro res places
  have hsizes : ((splitSt thr vs).1.map fun i => (vs.getD i default).nbytes) =
      (vs.filter (becomesExternalSt thr)).map (·.nbytes) := by
    unfold splitSt; rw [splitStGo_eq]
    have := splitBy_map_filter (extSt thr) (memSt thr) [] vs
    simp only [List.length_nil, List.nil_append] at this
    rw [← extSt_eq, ← this]; simp [Function.comp_def]
  have hgen := unload_generic vs (extSt thr) (memSt thr)
    (by intro v hv
        simp only [extSt, Bool.and_eq_true, Bool.not_eq_true', decide_eq_false_iff_not] at hv
        simp [memSt, hv.2])
    places
    (by have := congrArg List.length (placeSt_lengths
          ((vs.filter (becomesExternalSt thr)).map (·.nbytes)) maxShard)
        simpa [places, extSt_eq] using this)
    k hk
  have hres : res = assignZip (assignZip (List.replicate vs.length NewConst.same)
      (splitBy (extSt thr) (memSt thr) 0 vs).1 (places.map NewConst.external))
      (splitBy (extSt thr) (memSt thr) 0 vs).2
      ((splitBy (extSt thr) (memSt thr) 0 vs).2.map fun _ => NewConst.memory) := by
    simp only [res, places, unloadSt, ← hsizes]
    unfold splitSt; rw [splitStGo_eq]
  rw [hres]
  simp only [← extSt_eq] at hgen ⊢
  refine ⟨by simp [assignZip_length], ?_, ?_, ?_⟩
  · intro h1 h2 h3
    have hne : ¬ (vs[k].nbytes : Int) < thr := by omega
    exact hgen.1 (by simp [extSt, h1, h2, hne])
  · intro h1 h2 h3 h4
    exact hgen.2.1 (by simp [extSt, h3]) (by simp [memSt, h1, h2, h3, h4])
  · intro h
    apply hgen.2.2
    · rcases h with h | h | h
      · simp [extSt, h]
      · simp [extSt, h]
      · simp [extSt, h.1]
    · rcases h with h | h | h
      · simp [memSt, h]
      · simp [memSt, h]
      · simp [memSt, h.2]

/-- **C07_roundtrip_value**: initializer `k` reads back ITS OWN bytes.  Pair every initializer
    with its `tobytes()` (`nbytes` = number of bytes).  For every threshold, shard limit and
    alignment: if the value at position `k` has a non-string tensor above the threshold, then
    after the save it holds an external tensor whose record `(shard, offset, length)` names one
    of the written data files, and reading `(offset, length)` from that file returns exactly the
    bytes of tensor `k`. -/
theorem C07_roundtrip_value (vb : List (Init × List Nat))
    (hlen : ∀ x ∈ vb, x.1.nbytes = x.2.length)
    (thr : Int) (maxShard : Option Nat) (al : Option Nat) (athr : Nat)
    (k : Nat) (hk : k < vb.length)
    (h1 : vb[k].1.hasConst = true) (h2 : vb[k].1.isString = false)
    (h3 : (vb[k].1.nbytes : Int) > thr) :
    ∃ p img, (unloadRaw (vb.map (·.1)) thr maxShard al athr)[k]? = some (.external p) ∧
      (saveRawFiles vb thr maxShard al athr none)[p.shard]? = some img ∧
      readAt img p.offset p.length = vb[k].2 := by
  have hk' : k < (vb.map (·.1)).length := by simpa using hk
  have hvk : (vb.map (·.1))[k] = vb[k].1 := by simp
  have hthr := (C07_threshold (vb.map (·.1)) thr maxShard al athr k hk').2.1
    (by rw [hvk]; exact h1) (by rw [hvk]; exact h2) (by rw [hvk]; exact h3)
  obtain ⟨hc, hres⟩ := hthr
  have hthr' : ∃ p, (placeRaw (((vb.map (·.1)).filter (becomesExternalRaw thr)).map (·.nbytes))
      maxShard al athr)[((vb.map (·.1)).take k).countP (becomesExternalRaw thr)]? = some p ∧
      (unloadRaw (vb.map (·.1)) thr maxShard al athr)[k]? = some (.external p) :=
    ⟨_, List.getElem?_eq_getElem hc, hres⟩
  clear hres hc
  obtain ⟨p, hp, hres⟩ := hthr'
  -- the externalised positions and their bytes
  have hidx := splitBy_index (extRaw thr) (memRaw thr) 0 (vb.map (·.1)) k hk'
    (by rw [hvk]; simp [extRaw, h1, h2, h3])
  simp only [Nat.zero_add, extRaw_eq] at hidx
  have hfil := splitBy_map_filter (extRaw thr) (memRaw thr) [] (vb.map (·.1))
  simp only [List.length_nil, List.nil_append, extRaw_eq] at hfil
  have hmemE := splitBy_mem_fst (extRaw thr) (memRaw thr) 0 (vb.map (·.1))
  simp only [extRaw_eq] at hmemE
  generalize hcdef : ((vb.map (·.1)).take k).countP (becomesExternalRaw thr) = c at *
  have hbs : extBytes vb thr =
      (splitBy (becomesExternalRaw thr) (memRaw thr) 0 (vb.map (·.1))).1.map
        fun i => (vb.getD i default).2 := by
    unfold extBytes splitRaw; rw [splitRawGo_eq, extRaw_eq]
  have hsizes : (extBytes vb thr).map List.length =
      ((vb.map (·.1)).filter (becomesExternalRaw thr)).map (·.nbytes) := by
    rw [hbs, ← hfil]
    simp only [List.map_map]
    apply List.map_congr_left
    intro i hi
    obtain ⟨j, hj, rfl, _⟩ := (hmemE i).mp hi
    have hj' : j < vb.length := by simpa using hj
    simp only [Function.comp, Nat.zero_add, List.getD_eq_getElem?_getD,
      List.getElem?_eq_getElem hj', List.getElem?_eq_getElem hj, Option.getD_some, List.getElem_map]
    exact (hlen _ (List.getElem_mem hj')).symm
  rw [← hsizes] at hp
  generalize hbsdef : extBytes vb thr = bs at *
  have hbc : bs[c]? = some vb[k].2 := by
    rw [hbs, List.getElem?_map, hidx]
    simp [List.getD_eq_getElem?_getD, List.getElem?_eq_getElem hk]
  have hmem : (p, vb[k].2) ∈ (placeRaw (bs.map List.length) maxShard al athr).zip bs := by
    rw [List.mem_iff_getElem?]
    refine ⟨c, ?_⟩
    rw [List.getElem?_zip_eq_some]
    exact ⟨hp, hbc⟩
  obtain ⟨img, himg, hread⟩ := C07_roundtrip bs maxShard al athr _ hmem
  exact ⟨p, img, hres, by simpa [saveRawFiles, hbsdef] using himg, hread⟩

/-- **C07_serialize_sees_unloaded**: when nothing raises, the store that serialization sees is
    the unload step's result: position `k` holds its new tensor object (`fresh + k`) exactly
    when the classification of `C07_threshold` / `C07_threshold_st` re-points it, and the
    original object otherwise — for both backends. -/
theorem C07_serialize_sees_unloaded (vs : List Init) (thr : Int) (maxShard : Option Nat)
    (al : Option Nat) (athr : Nat) (fresh : Nat) (st : Store) (k : Nat) (hk : k < vs.length) :
    (saveRun st (rawPlan vs thr fresh) none).1 k =
      (if (unloadRaw vs thr maxShard al athr)[k]? = some .same then st k else some (fresh + k)) ∧
    (saveRun st (stPlan vs thr fresh) none).1 k =
      (if (unloadSt vs thr maxShard)[k]? = some .same then st k else some (fresh + k)) := by
  constructor
  · have hthr := C07_threshold vs thr maxShard al athr k hk
    simp only [saveRun]
    have hE := splitBy_mem_fst (extRaw thr) (memRaw thr) 0 vs k
    have hM := splitBy_mem_snd (extRaw thr) (memRaw thr) 0 vs k
    have hu : ∀ w t, Step.assign w t ∈ (rawPlan vs thr fresh).prog → t = some (fresh + w) :=
      fun w t h => ((mem_rawPlan vs thr fresh w t).mp h).2
    have hin : (∃ t, Step.assign k t ∈ (rawPlan vs thr fresh).prog) ↔
        (extRaw thr vs[k] = true ∨ memRaw thr vs[k] = true) := by
      constructor
      · rintro ⟨t, ht⟩
        have := ((mem_rawPlan vs thr fresh k t).mp ht).1
        unfold splitRaw at this; rw [splitRawGo_eq] at this
        rcases this with h | h
        · obtain ⟨j, hj, hkj, hp⟩ := hE.mp h
          have : j = k := by omega
          subst this; exact Or.inl hp
        · obtain ⟨j, hj, hkj, hp⟩ := hM.mp h
          have : j = k := by omega
          subst this; exact Or.inr hp
      · intro h
        refine ⟨some (fresh + k), (mem_rawPlan vs thr fresh k _).mpr ⟨?_, rfl⟩⟩
        unfold splitRaw; rw [splitRawGo_eq]
        rcases h with h | h
        · exact Or.inl (hE.mpr ⟨k, hk, by simp, h⟩)
        · exact Or.inr (hM.mpr ⟨k, hk, by simp, h⟩)
    by_cases hc : vs[k].hasConst = true ∧ vs[k].isString = false
    · by_cases hb : (vs[k].nbytes : Int) > thr
      · obtain ⟨_, hr⟩ := hthr.2.1 hc.1 hc.2 hb
        rw [execSteps_assigned fresh st _ k hu (hin.mpr (Or.inl (by simp [extRaw, hc.1, hc.2, hb])))]
        simp [hr]
      · by_cases he : vs[k].isExternal = true
        · have hr := hthr.2.2.1 hc.1 hc.2 (by omega) he
          rw [execSteps_assigned fresh st _ k hu
            (hin.mpr (Or.inr (by simp [memRaw, hc.1, hc.2, hb, he])))]
          simp [hr]
        · have hr := hthr.2.2.2 (Or.inr (Or.inr ⟨by omega, by simpa using he⟩))
          rw [execSteps_untouched]
          · simp [hr]
          · intro t ht
            rcases hin.mp ⟨t, ht⟩ with h | h
            · simp [extRaw, hb] at h
            · simp [memRaw, he] at h
    · have hr := hthr.2.2.2 (by
        by_cases h : vs[k].hasConst = true
        · right; left
          have : ¬ vs[k].isString = false := fun h2 => hc ⟨h, h2⟩
          simpa using this
        · left; simpa using h)
      rw [execSteps_untouched]
      · simp [hr]
      · intro t ht
        rcases hin.mp ⟨t, ht⟩ with h | h
        · simp only [extRaw, Bool.and_eq_true, Bool.not_eq_true'] at h
          exact hc ⟨h.1.1, h.1.2⟩
        · simp only [memRaw, Bool.and_eq_true, Bool.not_eq_true'] at h
          exact hc ⟨h.1.1.1, h.1.1.2⟩
  · have hthr := C07_threshold_st vs thr maxShard k hk
    simp only [saveRun]
    have hE := splitBy_mem_fst (extSt thr) (memSt thr) 0 vs k
    have hM := splitBy_mem_snd (extSt thr) (memSt thr) 0 vs k
    have hu : ∀ w t, Step.assign w t ∈ (stPlan vs thr fresh).prog → t = some (fresh + w) :=
      fun w t h => ((mem_stPlan vs thr fresh w t).mp h).2
    have hin : (∃ t, Step.assign k t ∈ (stPlan vs thr fresh).prog) ↔
        (extSt thr vs[k] = true ∨ memSt thr vs[k] = true) := by
      constructor
      · rintro ⟨t, ht⟩
        have := ((mem_stPlan vs thr fresh k t).mp ht).1
        unfold splitSt at this; rw [splitStGo_eq] at this
        rcases this with h | h
        · obtain ⟨j, hj, hkj, hp⟩ := hE.mp h
          have : j = k := by omega
          subst this; exact Or.inl hp
        · obtain ⟨j, hj, hkj, hp⟩ := hM.mp h
          have : j = k := by omega
          subst this; exact Or.inr hp
      · intro h
        refine ⟨some (fresh + k), (mem_stPlan vs thr fresh k _).mpr ⟨?_, rfl⟩⟩
        unfold splitSt; rw [splitStGo_eq]
        rcases h with h | h
        · exact Or.inl (hE.mpr ⟨k, hk, by simp, h⟩)
        · exact Or.inr (hM.mpr ⟨k, hk, by simp, h⟩)
    by_cases hc : vs[k].hasConst = true ∧ vs[k].isString = false
    · by_cases hb : (vs[k].nbytes : Int) < thr
      · by_cases he : vs[k].isExternal = true
        · have hr := hthr.2.2.1 hc.1 hc.2 hb he
          rw [execSteps_assigned fresh st _ k hu
            (hin.mpr (Or.inr (by simp [memSt, hc.1, hc.2, hb, he])))]
          simp [hr]
        · have hr := hthr.2.2.2 (Or.inr (Or.inr ⟨hb, by simpa using he⟩))
          rw [execSteps_untouched]
          · simp [hr]
          · intro t ht
            rcases hin.mp ⟨t, ht⟩ with h | h
            · simp [extSt, hb] at h
            · simp [memSt, he] at h
      · obtain ⟨_, hr⟩ := hthr.2.1 hc.1 hc.2 (by omega)
        rw [execSteps_assigned fresh st _ k hu (hin.mpr (Or.inl (by simp [extSt, hc.1, hc.2, hb])))]
        simp [hr]
    · have hr := hthr.2.2.2 (by
        by_cases h : vs[k].hasConst = true
        · right; left
          have : ¬ vs[k].isString = false := fun h2 => hc ⟨h, h2⟩
          simpa using this
        · left; simpa using h)
      rw [execSteps_untouched]
      · simp [hr]
      · intro t ht
        rcases hin.mp ⟨t, ht⟩ with h | h
        · simp only [extSt, Bool.and_eq_true, Bool.not_eq_true'] at h
          exact hc ⟨h.1.1, h.1.2⟩
        · simp only [memSt, Bool.and_eq_true, Bool.not_eq_true'] at h
          exact hc ⟨h.1.1.1, h.1.1.2⟩

/-- every placement names an existing shard (each tensor is in exactly one data file) -/
theorem C07_placement_shard (sizes : List Nat) (m : Nat) (al : Option Nat) (thr : Nat) :
    ∀ p ∈ placeRaw sizes (some m) al thr,
      p.shard < p.total ∧ p.total = (shardRaw id m al thr sizes).length := by
  intro p hp
  simp only [placeRaw, placeShards, List.mem_flatMap, List.mem_map] at hp
  obtain ⟨⟨sh, i⟩, hmem, inf, _, rfl⟩ := hp
  have := List.mem_zipIdx hmem
  exact ⟨by have := this.2.1; simpa using this, rfl⟩

-- non-vacuity of the hypotheses, and their necessity where they exclude something
example : (reorder [(0, [1, 2]), (2, [3]), (3, [4])] [2, 0, 1]).Perm [(0, [1, 2]), (2, [3]), (3, [4])] := by
  decide
-- without `total ≠ 1` the name does not depend on the index (a single shard keeps the base name)
example : shardFilename "m.data".toList 1 1 none = shardFilename "m.data".toList 2 1 none := by decide
-- overlapping writes are order dependent: the disjointness hypothesis of C07_readback is needed
example : readAt (applyWrites [] [(0, [1, 1]), (1, [2])]) 0 2 ≠ [1, 1] := by decide
example : posixSplit (shardFilename "a/b//m.v1.data".toList 2 3 none) =
    ("a/b".toList, "m-00002-of-00003.v1.data".toList) := by decide
example : computeInfos (some 1) 100 [3, 5000, 0, 7] = [⟨0, 3⟩, ⟨4096, 5000⟩, ⟨9096, 0⟩, ⟨9096, 7⟩] := by
  decide
example : shardRaw id 10 none 0 [3, 5, 9, 20, 1, 0] = [[3, 5], [9], [20], [1, 0]] := by decide
example : shardSt id (some 10) [0, 100, 1, 0, 9, 1] = [[0], [100], [1, 0, 9], [1]] := by decide
example : shardFilename "d/m.fp16.data".toList 3 12 none = "d/m-00003-of-00012.fp16.data".toList := by decide
example : (unloadRaw [⟨10, false, true, false⟩, ⟨300, false, true, false⟩, ⟨5, true, true, false⟩] 256 none none 0) =
    [.same, .external ⟨0, 1, 0, 300⟩, .memory] := by decide
example : (saveRun (fun v => some v) (rawPlan [⟨10, false, true, false⟩, ⟨300, false, true, false⟩] 256 100) none).1 1 = some 101 := by decide

end IrVerif.Layout

/-! # Deepening round: safetensors container, restore loop, C04 import, shared objects, call sequences -/

namespace IrVerif.Layout
open IrVerif.TensorRepr (DType)

/-- **C07_st_cover** (exact cover): in header order the `data_offsets` are contiguous — the first
    range starts at 0, every range starts where the previous one stopped, the last one stops at
    the end of the byte buffer — and entry `i` records the name and the byte count of tensor `i`
    of the writing order. -/
theorem C07_st_cover (vs : List StView) :
    (∀ p ∈ List.zip (0 :: (stEntries vs).map (·.stop)) (stEntries vs), p.2.start = p.1) ∧
    ((stEntries vs).map (·.stop)).getLast?.getD 0 = (stBuffer vs).length ∧
    (stEntries vs).map (fun e => e.stop - e.start) = vs.map (·.bytes.length) ∧
    (stEntries vs).map (·.name) = vs.map (·.name) := by
  refine ⟨entriesFrom_chain 0 vs, ?_, entriesFrom_lens 0 vs, entriesFrom_names 0 vs⟩
  simpa [stEntries] using entriesFrom_last 0 vs

/-- **C07_st_disjoint**: no two recorded ranges overlap (every range ends before every later one
    starts). -/
theorem C07_st_disjoint (vs : List StView) :
    (stEntries vs).Pairwise (fun a b => a.stop ≤ b.start) := entriesFrom_disjoint 0 vs

/-- **C07_st_within**: every recorded range lies inside the byte buffer, the file is exactly
    `8 + N + buffer` bytes long, and the `(offset, length)` `_read_safetensors` derives from an
    entry lies inside the file — for any header bytes (`N = hdr.length`). -/
theorem C07_st_within (vs : List StView) (hdr : List Nat) :
    (∀ e ∈ stEntries vs, e.start ≤ e.stop ∧ e.stop ≤ (stBuffer vs).length) ∧
    (stFileOf hdr (stBuffer vs)).length = 8 + hdr.length + (stBuffer vs).length ∧
    (∀ e ∈ stEntries vs, 8 + hdr.length ≤ (stRange hdr.length e).1 ∧
      (stRange hdr.length e).1 + (stRange hdr.length e).2 ≤ (stFileOf hdr (stBuffer vs)).length) := by
  refine ⟨fun e he => ⟨(entriesFrom_ge 0 vs e he).2, by simpa using entriesFrom_le_end 0 vs e he⟩,
    stFileOf_length _ _, ?_⟩
  intro e he
  have h1 := (entriesFrom_ge 0 vs e he).2
  have h2 := entriesFrom_le_end 0 vs e he
  rw [stFileOf_length]
  simp only [stRange]
  omega

/-- **C07_st_order**: the writing order of a shard is a permutation of its tensors (nothing lost
    or duplicated) sorted by descending format dtype and then ascending name. -/
theorem C07_st_order (ts : List StTensor) :
    (shardViewsD ts).Perm (ts.map viewOfD) ∧
    (shardViewsD ts).Pairwise (fun a b =>
      b.sd.rank ≤ a.sd.rank ∧ (a.sd.rank = b.sd.rank → bytesLe a.name b.name = true)) := by
  refine ⟨sortViews_perm _, (sortViews_sorted _).imp ?_⟩
  intro a b h
  simp only [viewLe, Bool.or_eq_true, Bool.and_eq_true, decide_eq_true_eq] at h
  rcases h with h | ⟨h1, h2⟩
  · exact ⟨by omega, fun e => by omega⟩
  · exact ⟨by omega, fun _ => h2⟩

/-- **C07_st_readback**: for any header bytes, reading the `(offset, length)` that
    `_read_safetensors` derives from entry `i` (`begin + N + 8`, `end - begin`) out of the written
    file returns exactly the bytes of tensor `i` of the writing order. -/
theorem C07_st_readback (vs : List StView) (hdr : List Nat) :
    ∀ p ∈ (stEntries vs).zip vs,
      readAt (stFileOf hdr (stBuffer vs)) (stRange hdr.length p.1).1 (stRange hdr.length p.1).2
        = p.2.bytes := by
  intro p hp
  have := entriesFrom_readback (8 + hdr.length) 0 vs (Pack.leBytes 8 hdr.length ++ hdr)
    (by simp [IrVerif.Pack.leBytes_length]) p hp
  simp only [stRange, stFileOf]
  rw [show p.1.start + hdr.length + 8 = p.1.start + (8 + hdr.length) by omega]
  exact this

/-- the names `_replace_tensors` meets over all files are the saved names, each once -/
theorem stAssignments_names (saved : List StTensor) (mx : Option Nat) :
    ((stAssignments (stShardViewsD saved mx)).map (·.1)).Perm (saved.map (·.name)) := by
  unfold stShardViewsD
  split
  · rename_i h; subst h; exact List.Perm.refl _
  · have hflat := (C07_shards_partition_st (fun t : StTensor => t.bytes.length) mx saved).1
    generalize shardSt (fun t : StTensor => t.bytes.length) mx saved = S at hflat
    have h1 : (stAssignments (S.map shardViewsD)).map (·.1) =
        S.flatMap (fun sh => (shardViewsD sh).map (·.name)) := by
      unfold stAssignments
      rw [List.map_flatMap, ← List.flatMap_map shardViewsD (fun vs => vs.map (·.name)) S,
        ← zipIdx_flatMap_fst (S.map shardViewsD) 0 (fun vs => vs.map (·.name))]
      simp only [List.flatMap_def]
      congr 1
      apply List.map_congr_left
      intro p _
      rw [List.map_map]
      have := entriesFrom_names 0 p.1
      simpa [stEntries, Function.comp_def] using this
    rw [h1, ← hflat]
    have h2 : (S.flatten).map (·.name) = S.flatMap (fun sh => sh.map (·.name)) := by
      rw [List.map_flatten, List.flatMap_def]
    rw [h2]
    apply perm_flatMap_left
    intro sh _
    have := (sortViews_perm (sh.map viewOfD)).map (·.name)
    simpa [shardViewsD, viewOfD, Function.comp_def] using this

/-- **C07_st_roundtrip**: a whole `_save_file` + `_replace_tensors`.  For every list of tensors to
    save whose (initializer) names are pairwise different — the check `save_safetensors` performs up
    front — every shard limit and every saved position `j`: after the files are written and the
    values are re-pointed BY NAME, value `j` holds a record `(shard, offset, length)` that names one
    of the written files, has the tensor's byte count, and reading `(offset, length)` from that file
    returns exactly the bytes of tensor `j`. -/
theorem C07_st_roundtrip (saved : List StTensor) (mx : Option Nat)
    (hd : (saved.map (·.name)).Nodup) (j : Nat) (hj : j < saved.length) :
    ∃ p img,
      (stReplace (saved.map (·.name)) (stAssignments (stShardViewsD saved mx)))[j]? = some (some p) ∧
      ((stShardViewsD saved mx).map stFile)[p.shard]? = some img ∧
      p.total = (stShardViewsD saved mx).length ∧
      p.length = saved[j].bytes.length ∧
      readAt img p.offset p.length = saved[j].bytes := by
  have hnames := stAssignments_names saved mx
  have hAnodup : ((stAssignments (stShardViewsD saved mx)).map (·.1)).Nodup :=
    (hnames.nodup_iff).mpr hd
  have hne : saved ≠ [] := by intro h; subst h; simp at hj
  have hsh : stShardViewsD saved mx =
      (shardSt (fun t : StTensor => t.bytes.length) mx saved).map shardViewsD := by
    unfold stShardViewsD; rw [if_neg hne]
  have hflat := (C07_shards_partition_st (fun t : StTensor => t.bytes.length) mx saved).1
  generalize hS : shardSt (fun t : StTensor => t.bytes.length) mx saved = S at hsh hflat
  -- the shard holding tensor j
  have hmem : saved[j] ∈ S.flatten := by rw [hflat]; exact List.getElem_mem hj
  obtain ⟨sh, hshS, htsh⟩ := List.mem_flatten.mp hmem
  obtain ⟨i, hi, hSi⟩ := List.getElem_of_mem hshS
  have hvs : (stShardViewsD saved mx)[i]? = some (shardViewsD sh) := by
    rw [hsh, List.getElem?_map, List.getElem?_eq_getElem hi, hSi]; rfl
  -- its view and entry
  have hv : viewOfD saved[j] ∈ shardViewsD sh :=
    (sortViews_perm _).mem_iff.mpr (List.mem_map.mpr ⟨_, htsh, rfl⟩)
  obtain ⟨q, hq, hvq⟩ := List.getElem_of_mem hv
  have hqe : q < (stEntries (shardViewsD sh)).length := by
    simpa [stEntries, entriesFrom_length] using hq
  have hzip : ((stEntries (shardViewsD sh))[q], viewOfD saved[j]) ∈
      (stEntries (shardViewsD sh)).zip (shardViewsD sh) := by
    rw [List.mem_iff_getElem]
    refine ⟨q, by simp [List.length_zip]; omega, ?_⟩
    simp [List.getElem_zip, hvq]
  generalize he : (stEntries (shardViewsD sh))[q] = e at hzip
  have hemem : e ∈ stEntries (shardViewsD sh) := he ▸ List.getElem_mem hqe
  have hz := entriesFrom_zip 0 _ _ hzip
  have hread := C07_st_readback (shardViewsD sh) (stHeader (stEntries (shardViewsD sh))) _ hzip
  simp only at hz hread
  -- the assignment of that entry
  let pl : Placement := ⟨i, (stShardViewsD saved mx).length,
    (stRange (stHeader (stEntries (shardViewsD sh))).length e).1,
    (stRange (stHeader (stEntries (shardViewsD sh))).length e).2⟩
  have haA : (e.name, pl) ∈ stAssignments (stShardViewsD saved mx) := by
    unfold stAssignments
    rw [List.mem_flatMap]
    refine ⟨(shardViewsD sh, i), List.mem_zipIdx_iff_getElem?.mpr hvs, ?_⟩
    exact List.mem_map.mpr ⟨e, hemem, rfl⟩
  have hname : e.name = (saved.map (·.name))[j]'(by simpa using hj) := by
    rw [hz.1]; simp [viewOfD]
  have hlast : lastIdxOf (saved.map (·.name)) e.name = some j := by
    rw [hname]; exact lastIdxOf_nodup _ hd j (by simpa using hj)
  have hget := foldl_replace_get (saved.map (·.name)) (stAssignments (stShardViewsD saved mx))
    (List.replicate (saved.map (·.name)).length none) j (by simpa using hj) pl
    ⟨_, haA, hlast⟩
    (by
      intro c hc hfc
      obtain ⟨_, hcn⟩ := lastIdxOf_some _ _ _ hfc
      have : c.1 = (e.name, pl).1 := by rw [← hcn, hname]
      have := nodup_map_inj (·.1) _ hAnodup c hc _ haA this
      rw [this])
  refine ⟨pl, stFile (shardViewsD sh), by rw [stReplace_eq]; exact hget, ?_, rfl, ?_, ?_⟩
  · have hpi : pl.shard = i := rfl
    rw [hpi, List.getElem?_map, hvs]; rfl
  · have hpl : pl.length = e.stop - e.start := rfl
    rw [hpl, hz.2]; simp [viewOfD]
  · have hread' : readAt (stFile (shardViewsD sh)) pl.offset pl.length = (viewOfD saved[j]).bytes := hread
    simpa [viewOfD] using hread'

/-- the finite table behind `C07_st_dtype_roundtrip`, closed by evaluation -/
theorem st_dtype_table (d : DType) (sd : StDtype) : stDtypeOf d = some sd →
    (d ∈ migrated ∨ (stToIr.lookup sd.headerName = some d ∧ sd ≠ StDtype.F4 ∧
        8 ≤ d.bitwidth.getD 8)) := by
  cases d <;> cases sd <;> decide

/-- **C07_st_dtype_roundtrip**: for every ONNX dtype that has an entry in the save table, the
    tensor a value holds after `_replace_tensors` reports the ORIGINAL dtype and shape: the header
    dtype string maps back to it and the header shape is the tensor's shape, or (FLOAT8E4M3FNUZ,
    FLOAT8E5M2FNUZ, FLOAT4E2M1, INT4, UINT4, INT2, UINT2: stored as bytes)
    `_migrate_tensor_shape_dtype` takes both from the model tensor.  The other dtypes (UNDEFINED,
    STRING, COMPLEX128) have no table entry: the save raises (`dtypesOk`). -/
theorem C07_st_dtype_roundtrip (t : StTensor) (sd : StDtype) (h : stDtypeOf t.dtype = some sd)
    (cur : Nat) :
    reloadedDtypeShape t ⟨t.name, sd, headerShape sd (storageShape t), cur, cur + t.bytes.length⟩
      = some (t.dtype, t.shape) := by
  have htab := st_dtype_table t.dtype sd h
  unfold reloadedDtypeShape
  rcases htab with hm | ⟨hl, hf4, hbw⟩
  · rw [if_pos hm]
  · by_cases hm : t.dtype ∈ migrated
    · rw [if_pos hm]
    · rw [if_neg hm]
      simp only [hl, Option.map_some]
      have : headerShape sd (storageShape t) = t.shape := by
        unfold headerShape storageShape
        rw [if_neg hf4]
        cases hb : t.dtype.bitwidth with
        | none => rfl
        | some bw =>
          rw [hb] at hbw
          simp only [Option.getD_some] at hbw
          simp only
          rw [if_neg (by omega)]
      rw [this]

-- non-vacuity / witnesses
example : (shardViewsD [⟨[0x62], .float, [1], [1, 2, 3, 4]⟩, ⟨[0x61], .uint8, [2], [9, 9]⟩,
    ⟨[0x61, 0x30], .float, [1], [5, 6, 7, 8]⟩]).map (·.name) = [[0x61, 0x30], [0x62], [0x61]] := by decide

example : stEntries (shardViewsD [⟨[0x62], .float, [1], [1, 2, 3, 4]⟩, ⟨[0x61], .uint8, [2], [9, 9]⟩]) =
    [⟨[0x62], .F32, [1], 0, 4⟩, ⟨[0x61], .U8, [2], 4, 6⟩] := by decide

-- the name hypothesis of C07_st_roundtrip is needed: with a duplicated name the first value is
-- never re-pointed (`value_map` keeps the last value of a name)
example : (stReplace [[0x61], [0x61]] (stAssignments (stShardViewsD
    [⟨[0x61], .uint8, [1], [1]⟩, ⟨[0x61], .uint8, [1], [2]⟩] none)))[0]? = some none := by decide

example : stNamesOk [[0x61], [0x61]] = false ∧ stNamesOk [asciiBytes "__metadata__"] = false ∧
    stNamesOk [[0x61], [0x62]] = true := by decide

example : stDtypeOf .complex128 = none ∧ stDtypeOf .string = none ∧ stDtypeOf .int4 = some .U8 := by decide

/-- **C07_model_restored_checked**: the `finally` block modelled as the loop it is, every
    assignment going through the `const_value` setter (which in `onnx_ir.DEBUG` mode raises for an
    object that is not a `TensorProtocol` instance).  If every original `const_value` passes the
    setter's check — always true outside DEBUG mode (`C07_setter_nodebug`) — then for every
    initializer list, threshold, store and every point at which the `try` block is left, the
    `finally` does not raise and every value holds its original tensor object, for both backends. -/
theorem C07_model_restored_checked (vs : List Init) (thr : Int) (fresh : Nat) (st : Store)
    (stop : Option Nat) (debug : Bool) (isProto : Nat → Bool)
    (hok : ∀ v, setterOk debug isProto (st v) = true) :
    (saveRunChecked debug isProto st (rawPlan vs thr fresh) stop).2 = (st, false) ∧
    (saveRunChecked debug isProto st (stPlan vs thr fresh) stop).2 = (st, false) := by
  have h := C07_model_restored vs thr fresh st stop
  constructor
  · simp only [saveRunChecked]
    rw [restoreLoop_ok _ _ _ _ (by intro p hp; simp only [List.mem_map] at hp; obtain ⟨v, _, rfl⟩ := hp; exact hok v)]
    exact Prod.ext h.1 rfl
  · simp only [saveRunChecked]
    rw [restoreLoop_ok _ _ _ _ (by intro p hp; simp only [List.mem_map] at hp; obtain ⟨v, _, rfl⟩ := hp; exact hok v)]
    exact Prod.ext h.2 rfl

theorem C07_setter_nodebug (isProto : Nat → Bool) (t : Option Nat) : setterOk false isProto t = true := rfl

/-- **C07_restore_stops**: what the `finally` does when the restore of an element raises: for
    EVERY position of the first original tensor the setter rejects (snapshot = `pre ++ v :: post`),
    the loop raises there, exactly the values of `pre` have been put back, and every other value
    cell holds what it held when the `try` block was left (so values of `v :: post` that the save
    re-pointed stay re-pointed: observation D430). -/
theorem C07_restore_stops (debug : Bool) (isProto : Nat → Bool) (st : Store) (plan : SavePlan)
    (stop : Option Nat) (pre : List Nat) (v : Nat) (post : List Nat)
    (hsnap : plan.snapshot = pre ++ v :: post)
    (hpre : ∀ w ∈ pre, setterOk debug isProto (st w) = true)
    (hbad : setterOk debug isProto (st v) = false) :
    (saveRunChecked debug isProto st plan stop).2 =
      (assignAll (saveRunChecked debug isProto st plan stop).1 (pre.map fun w => (w, st w)), true) := by
  simp only [saveRunChecked, hsnap, List.map_append, List.map_cons]
  exact restoreLoop_stops _ _ _ _ _ _
    (by intro p hp; simp only [List.mem_map] at hp; obtain ⟨w, hw, rfl⟩ := hp; exact hpre w hw) hbad

-- the hypothesis of C07_model_restored_checked is needed: DEBUG mode, object 7 is duck-typed
example : (saveRunChecked true (fun o => o != 7) (fun v => some (v + 6))
    (rawPlan [⟨300, false, true, false⟩, ⟨300, false, true, false⟩, ⟨300, false, true, false⟩] 0 100) none).2.1 2
      = some 102 := by decide

example : (saveRunChecked true (fun o => o != 7) (fun v => some (v + 6))
    (rawPlan [⟨300, false, true, false⟩, ⟨300, false, true, false⟩, ⟨300, false, true, false⟩] 0 100) none).2.2
      = true := by decide

/-- **C07_roundtrip_value_c04**: `C07_roundtrip_value` for tensors given by their element type
    width and elements: `nbytes` is `TensorBase.nbytes = ceil(size * bitwidth / 8)` and the bytes are
    the canonical packed little-endian `tobytes()` of C04.  The length hypothesis of
    `C07_roundtrip_value` is discharged by `C04_nbytes`, not assumed. -/
theorem C07_roundtrip_value_c04 (ts : List (Init × Nat × List Nat))
    (hbw : ∀ x ∈ ts, x.2.1 = 2 ∨ x.2.1 = 4 ∨ x.2.1 % 8 = 0)
    (hn : ∀ x ∈ ts, x.1.nbytes = IrVerif.Pack.nbytes x.2.2.length x.2.1)
    (thr : Int) (maxShard : Option Nat) (al : Option Nat) (athr : Nat)
    (k : Nat) (hk : k < ts.length)
    (h1 : ts[k].1.hasConst = true) (h2 : ts[k].1.isString = false)
    (h3 : (ts[k].1.nbytes : Int) > thr) :
    ∃ p img, (unloadRaw (ts.map (·.1)) thr maxShard al athr)[k]? = some (.external p) ∧
      (saveRawFiles (ts.map fun x => (x.1, IrVerif.Pack.tobytes x.2.1 x.2.2)) thr maxShard al athr none)[p.shard]?
        = some img ∧
      readAt img p.offset p.length = IrVerif.Pack.tobytes ts[k].2.1 ts[k].2.2 := by
  have hlen : ∀ x ∈ ts.map (fun x => (x.1, IrVerif.Pack.tobytes x.2.1 x.2.2)), x.1.nbytes = x.2.length := by
    intro x hx
    simp only [List.mem_map] at hx
    obtain ⟨y, hy, rfl⟩ := hx
    simp only
    rw [hn y hy, IrVerif.Pack.C04_nbytes _ _ (hbw y hy)]
  have := C07_roundtrip_value (ts.map fun x => (x.1, IrVerif.Pack.tobytes x.2.1 x.2.2)) hlen thr maxShard al athr
    k (by simpa using hk) (by simpa using h1) (by simpa using h2) (by simpa using h3)
  simpa [List.map_map, Function.comp_def] using this

/-- **C07_readback_shared**: initializers given by the tensor OBJECT they hold (`ids`; `obj` maps an
    object to its bytes).  Every position above the threshold gets its own record and reads back
    the bytes of its object — so two initializers sharing one tensor object (in one graph or in
    the main graph and a subgraph, under any names: the raw backend is positional) both read that
    object's bytes, from two different ranges. -/
theorem C07_readback_shared (flags : List Init) (ids : List Nat) (obj : Nat → List Nat)
    (hlen : flags.length = ids.length)
    (hn : ∀ x ∈ flags.zip ids, x.1.nbytes = (obj x.2).length)
    (thr : Int) (maxShard : Option Nat) (al : Option Nat) (athr : Nat)
    (k : Nat) (hk : k < flags.length)
    (h1 : flags[k].hasConst = true) (h2 : flags[k].isString = false)
    (h3 : (flags[k].nbytes : Int) > thr) :
    ∃ p img, (unloadRaw flags thr maxShard al athr)[k]? = some (.external p) ∧
      (saveRawFiles (flags.zip (bytesOfObjects obj ids)) thr maxShard al athr none)[p.shard]? = some img ∧
      readAt img p.offset p.length = obj (ids[k]'(by omega)) := by
  have hl : ∀ x ∈ flags.zip (bytesOfObjects obj ids), x.1.nbytes = x.2.length := by
    intro x hx
    simp only [bytesOfObjects, List.zip_map_right, List.mem_map] at hx
    obtain ⟨y, hy, rfl⟩ := hx
    exact hn y hy
  have hmap : (flags.zip (bytesOfObjects obj ids)).map (·.1) = flags := by
    rw [List.map_fst_zip]; simp [bytesOfObjects]; omega
  have hkz : k < (flags.zip (bytesOfObjects obj ids)).length := by
    simp [bytesOfObjects, List.length_zip]; omega
  have hget : (flags.zip (bytesOfObjects obj ids))[k] = (flags[k], obj (ids[k]'(by omega))) := by
    simp [bytesOfObjects, List.getElem_zip]
  have := C07_roundtrip_value (flags.zip (bytesOfObjects obj ids)) hl thr maxShard al athr k hkz
    (by rw [hget]; exact h1) (by rw [hget]; exact h2) (by rw [hget]; exact h3)
  rw [hmap, hget] at this
  exact this

theorem unloadRaw_length (vs : List Init) (thr : Int) (mx : Option Nat) (al : Option Nat) (athr : Nat) :
    (unloadRaw vs thr mx al athr).length = vs.length := by
  simp [unloadRaw, assignZip_length]

/-- **C07_rawBackend_ok**: the raw backend (`ir.save(external_data=)` / `unload_from_model`, any
    threshold, shard limit, alignment) delivers what `C07_sequence_preserves` asks of a backend:
    one reference per initializer, and with the written files in place every reference reads
    its initializer's bytes (from `C07_roundtrip_value` and `C07_threshold`). -/
theorem C07_rawBackend_ok (base : Nat) (thr : Int) (mx : Option Nat) (al : Option Nat) (athr : Nat) :
    (rawBackend base thr mx al athr).Ok := by
  intro refs vals fs hl
  have hvbl : (rawVB refs vals).length = vals.length := by simp [rawVB, hl]
  have hvbk : ∀ k (hk : k < vals.length), (rawVB refs vals)[k]'(by omega) =
      (({ nbytes := vals[k].length, isExternal := (refs[k]'(by omega)).isExt } : Init), vals[k]) := by
    intro k hk; simp [rawVB]
  have hlenvb : ∀ x ∈ rawVB refs vals, x.1.nbytes = x.2.length := by
    intro x hx
    obtain ⟨k, hk, rfl⟩ := List.getElem_of_mem hx
    rw [hvbk k (by omega)]
  have hcl : (unloadRaw ((rawVB refs vals).map (·.1)) thr mx al athr).length = vals.length := by
    rw [unloadRaw_length]; simpa using hvbl
  refine ⟨by simp [rawBackend, hcl], ?_⟩
  intro k hk
  have hkc : k < (unloadRaw ((rawVB refs vals).map (·.1)) thr mx al athr).length := by omega
  have hrk : (rawBackend base thr mx al athr refs vals).refs[k]? = some
      (match (unloadRaw ((rawVB refs vals).map (·.1)) thr mx al athr)[k] with
        | .external p => Ref.ext (base, p.shard,
            (saveRawFiles (rawVB refs vals) thr mx al athr none).length) p.offset p.length
        | _ => Ref.inline vals[k]) := by
    simp only [rawBackend]
    rw [List.getElem?_eq_getElem (by simp [hcl]; omega), List.getElem_zipWith]
    rfl
  have hk' : k < ((rawVB refs vals).map (·.1)).length := by simpa using (by omega : k < (rawVB refs vals).length)
  have hinit : ((rawVB refs vals).map (·.1))[k] =
      ({ nbytes := vals[k].length, isExternal := (refs[k]'(by omega)).isExt } : Init) := by
    simp [hvbk k hk]
  by_cases hbig : ((vals[k].length : Nat) : Int) > thr
  · obtain ⟨p, img, hc, hf, hread⟩ := C07_roundtrip_value (rawVB refs vals) hlenvb thr mx al athr k
      (by omega) (by rw [hvbk k hk]) (by rw [hvbk k hk]) (by rw [hvbk k hk]; exact hbig)
    rw [hvbk k hk] at hread
    have hck : (unloadRaw ((rawVB refs vals).map (·.1)) thr mx al athr)[k] = .external p := by
      rw [List.getElem?_eq_getElem hkc] at hc; exact Option.some.inj hc
    rw [hck] at hrk
    refine ⟨_, hrk, by simp, ?_⟩
    have := installFiles_zipIdx fs base (saveRawFiles (rawVB refs vals) thr mx al athr none).length
      (saveRawFiles (rawVB refs vals) thr mx al athr none) 0 p.shard (Nat.zero_le _)
    simp only [Nat.sub_zero, hf] at this
    simp only [Ref.value, rawBackend, keyedFiles]
    rw [this]
    simp [hread]
  · have hthr := C07_threshold ((rawVB refs vals).map (·.1)) thr mx al athr k hk'
    have hnot : (unloadRaw ((rawVB refs vals).map (·.1)) thr mx al athr)[k] = .memory ∨
        (unloadRaw ((rawVB refs vals).map (·.1)) thr mx al athr)[k] = .same := by
      by_cases he : (refs[k]'(by omega)).isExt = true
      · left
        have := hthr.2.2.1 (by rw [hinit]) (by rw [hinit]) (by rw [hinit]; simp only; omega)
          (by rw [hinit]; exact he)
        rw [List.getElem?_eq_getElem hkc] at this; exact Option.some.inj this
      · right
        have := hthr.2.2.2 (Or.inr (Or.inr ⟨by rw [hinit]; simp only; omega, by rw [hinit]; simpa using he⟩))
        rw [List.getElem?_eq_getElem hkc] at this; exact Option.some.inj this
    rcases hnot with h | h <;> rw [h] at hrk <;> exact ⟨_, hrk, by simp, by simp [Ref.value]⟩

-- the sequence model on a concrete history: save (threshold 1), load, save again onto the SAME
-- file with a higher threshold, load: every initializer reads its value; the first loaded model's
-- external reference is stale after the second save
example :
    let s0 : SeqState FileKey := { fs := fun _ => none, mem := [.inline [1, 2, 3], .inline [4]], disk := none }
    ((seqRun s0 [.save (rawBackend 0 1 none none 0), .load, .save (rawBackend 0 5 none none 0)]).map
        (·.mem)) = some [.stale, .inline [4]] ∧
    ((seqRun s0 [.save (rawBackend 0 1 none none 0), .load, .save (rawBackend 0 5 none none 0), .load]).map
        fun s => s.mem.map (Ref.value s.fs)) = some [some [1, 2, 3], some [4]] := by
  decide

section Seq
variable {κ : Type} [DecidableEq κ]

/-- **C07_sequence_preserves**: for ANY sequence of `ir.save` / `save_safetensors` (any backend
    parameters, any destination, also onto the files the model's own tensors live in),
    `unload_from_model`, `ir.load`, `load_to_model` and `convert_tensors_from_external` calls that
    runs to the end (no call was handed a tensor that cannot be read), started from a model whose
    initializers hold the values `V`: every reference of the caller's model and of the saved
    proto is either STALE (it points into a data file that a later save replaced: the documented
    "use load to obtain a valid model") or reads exactly the value of its initializer.  The
    backends enter through `Backend.Ok`, which `C07_rawBackend_ok` proves for the raw backend. -/
theorem C07_sequence_preserves (V : List (List Nat)) (ops : List (SeqOp κ)) (s0 s : SeqState κ)
    (hops : ∀ op ∈ ops, op.BackendOk) (h0 : SeqInv V s0) (hrun : seqRun s0 ops = some s) :
    SeqInv V s := by
  induction ops generalizing s0 with
  | nil => simp only [seqRun] at hrun; exact (Option.some.inj hrun) ▸ h0
  | cons op rest ih =>
    simp only [seqRun, Option.bind_eq_some_iff] at hrun
    obtain ⟨s1, hs1, hrest⟩ := hrun
    exact ih s1 (fun o ho => hops o (List.mem_cons_of_mem _ ho))
      (seqStep_inv V s0 s1 op (hops op (List.mem_cons_self ..)) h0 hs1) hrest

/-- the start: a model whose initializers are all in memory -/
theorem C07_sequence_init (V : List (List Nat)) (fs : FS κ) :
    SeqInv V ({ fs := fs, mem := V.map Ref.inline, disk := none } : SeqState κ) := by
  refine ⟨⟨by simp, ?_⟩, by intro refs h; cases h⟩
  intro k r hr
  rw [List.getElem?_map] at hr
  cases hk : V[k]? with
  | none => rw [hk] at hr; cases hr
  | some x =>
    rw [hk] at hr
    have : r = .inline x := (Option.some.inj hr).symm
    subst this; right; rfl

/-- **C07_sequence_save_load**: whatever happened before, a save that runs to the end followed by
    `ir.load` yields a model in which NO reference is stale and every initializer reads its
    original value. -/
theorem C07_sequence_save_load (V : List (List Nat)) (ops : List (SeqOp κ)) (b : Backend κ) (hb : b.Ok)
    (s0 s : SeqState κ) (hops : ∀ op ∈ ops, op.BackendOk) (h0 : SeqInv V s0)
    (hrun : seqRun s0 (ops ++ [.save b, .load]) = some s) :
    s.mem.length = V.length ∧ ∀ k (hk : k < V.length), ∃ r, s.mem[k]? = some r ∧ r ≠ .stale ∧
      r.value s.fs = some V[k] := by
  have hsplit : ∀ (ops : List (SeqOp κ)) (s0 : SeqState κ), seqRun s0 (ops ++ [.save b, .load]) = some s →
      ∃ s1, seqRun s0 ops = some s1 ∧ seqRun s1 [.save b, .load] = some s := by
    intro ops
    induction ops with
    | nil => intro s0 h; exact ⟨s0, rfl, h⟩
    | cons op rest ih =>
      intro s0 h
      rw [List.cons_append] at h
      simp only [seqRun, Option.bind_eq_some_iff] at h
      obtain ⟨s', hs', hr⟩ := h
      obtain ⟨s1, h1, h2⟩ := ih s' hr
      refine ⟨s1, ?_, h2⟩
      simp only [seqRun, Option.bind_eq_some_iff]
      exact ⟨s', hs', h1⟩
  obtain ⟨s1, h1, h2⟩ := hsplit ops s0 hrun
  have hinv1 := C07_sequence_preserves V ops s0 s1 hops h0 h1
  simp only [seqRun, seqStep, Option.bind_eq_some_iff, Option.map_eq_some_iff] at h2
  obtain ⟨s2, ⟨vals, hvals, rfl⟩, s3, ⟨refs, hrefs, rfl⟩, hfin⟩ := h2
  have hv := readAll_eq V s1.fs s1.mem hinv1.1 vals hvals
  subst hv
  have : s = _ := (Option.some.inj hfin).symm
  subst this
  have hrefs' : refs = (b s1.mem vals).refs := (Option.some.inj hrefs).symm
  subst hrefs'
  have hok := hb s1.mem vals s1.fs hinv1.1.1
  exact ⟨hok.1, hok.2⟩

end Seq

end IrVerif.Layout

/-! # Third deepening round: safetensors saves on initializer positions, the safetensors backend inside
    call sequences, asynchronous exceptions in the restore loop, dtypes without table entry -/

namespace IrVerif.Layout
open IrVerif.TensorRepr (DType)

/-- the header entry `_replace_tensors` finds under the name of saved tensor `j` is the entry written
    for that tensor -/
theorem stEntryFor_saved (saved : List StTensor) (mx : Option Nat)
    (hd : (saved.map (·.name)).Nodup) (j : Nat) (hj : j < saved.length) :
    ∃ cur, stEntryFor (stShardViewsD saved mx) saved[j].name =
      some ⟨saved[j].name, (viewOfD saved[j]).sd, (viewOfD saved[j]).hshape, cur,
        cur + saved[j].bytes.length⟩ := by
  have hne : saved ≠ [] := by intro h; subst h; simp at hj
  have hsh : stShardViewsD saved mx =
      (shardSt (fun t : StTensor => t.bytes.length) mx saved).map shardViewsD := by
    unfold stShardViewsD; rw [if_neg hne]
  have hflat := (C07_shards_partition_st (fun t : StTensor => t.bytes.length) mx saved).1
  generalize hS : shardSt (fun t : StTensor => t.bytes.length) mx saved = S at hsh hflat
  -- every entry of the save comes from a saved tensor
  have hfrom : ∀ e ∈ (stShardViewsD saved mx).flatMap stEntries,
      ∃ t ∈ saved, ∃ c, e = ⟨t.name, (viewOfD t).sd, (viewOfD t).hshape, c, c + t.bytes.length⟩ := by
    intro e he
    rw [hsh, List.mem_flatMap] at he
    obtain ⟨views, hviews, hev⟩ := he
    obtain ⟨sh, hshS, rfl⟩ := List.mem_map.mp hviews
    obtain ⟨v, hv, c, rfl⟩ := entriesFrom_mem_view 0 _ e hev
    have hv' : v ∈ sh.map viewOfD := (sortViews_perm _).mem_iff.mp hv
    obtain ⟨t, ht, rfl⟩ := List.mem_map.mp hv'
    have htS : t ∈ saved := by rw [← hflat]; exact List.mem_flatten.mpr ⟨sh, hshS, ht⟩
    exact ⟨t, htS, c, by simp [viewOfD]⟩
  -- an entry with the name of tensor j exists
  have hex : ∃ e ∈ (stShardViewsD saved mx).flatMap stEntries, e.name = saved[j].name := by
    have hmem : saved[j] ∈ S.flatten := by rw [hflat]; exact List.getElem_mem hj
    obtain ⟨sh, hshS, htsh⟩ := List.mem_flatten.mp hmem
    have hv : viewOfD saved[j] ∈ shardViewsD sh :=
      (sortViews_perm _).mem_iff.mpr (List.mem_map.mpr ⟨_, htsh, rfl⟩)
    have hn : saved[j].name ∈ (stEntries (shardViewsD sh)).map (·.name) := by
      rw [stEntries, entriesFrom_names]
      exact List.mem_map.mpr ⟨_, hv, by simp [viewOfD]⟩
    obtain ⟨e, he, hen⟩ := List.mem_map.mp hn
    refine ⟨e, ?_, hen⟩
    rw [hsh, List.mem_flatMap]
    exact ⟨shardViewsD sh, List.mem_map.mpr ⟨sh, hshS, rfl⟩, he⟩
  unfold stEntryFor
  cases hfind : ((stShardViewsD saved mx).flatMap stEntries).find? (fun e => e.name = saved[j].name) with
  | none =>
    obtain ⟨e, he, hen⟩ := hex
    have := List.find?_eq_none.mp hfind e he
    simp [hen] at this
  | some e =>
    have hmem := List.mem_of_find?_eq_some hfind
    have hname : e.name = saved[j].name := by simpa using List.find?_some hfind
    obtain ⟨t, ht, c, rfl⟩ := hfrom e hmem
    have htj : t = saved[j] :=
      nodup_map_inj (·.name) saved hd t ht saved[j] (List.getElem_mem hj) hname
    subst htj
    exact ⟨c, rfl⟩

/-- **C07_st_unload_values** (the safetensors counterpart of `C07_threshold` + `C07_roundtrip_value`,
    on INITIALIZER POSITIONS of the main graph and of every subgraph).  For every declaration-ordered
    initializer list whose names pass the up-front check of `save_safetensors` (pairwise different,
    not `__metadata__`, among the values that hold a non-string tensor), every threshold, shard limit
    and position `k`, after `_save_file` + `_replace_tensors` (what `ir.save` then serializes):
    * a value with a non-string tensor of at least `size_threshold_bytes` bytes holds a NEW external
      tensor whose record `(shard, shard count, offset, length)` names one of the files moved into
      place, has the tensor's byte count, and reading `(offset, length)` from that file returns
      exactly the bytes of tensor `k` (classification `splitSt`, sharding `shardSt`, the container
      `stFile`, re-pointing by name `stReplace` composed);
    * any other value whose non-string tensor was external holds an in-memory copy;
    * every other value (no tensor, string tensor, small in-memory tensor) holds the same object. -/
theorem C07_st_unload_values (vs : List StInit) (thr : Int) (mx : Option Nat)
    (hnames : stNamesOk ((vs.filter stSnapshotB).map (·.name)) = true)
    (k : Nat) (hk : k < vs.length) :
    (unloadStV vs thr mx).length = vs.length ∧
    (becomesExternalSt thr vs[k].init = true →
      ∃ p img, (unloadStV vs thr mx)[k]? = some (.external p) ∧
        (stSaveFiles vs thr mx)[p.shard]? = some img ∧
        p.total = (stSaveFiles vs thr mx).length ∧ p.length = vs[k].bytes.length ∧
        readAt img p.offset p.length = vs[k].bytes) ∧
    (becomesExternalSt thr vs[k].init = false → stSnapshotB vs[k] = true →
      vs[k].init.isExternal = true → (unloadStV vs thr mx)[k]? = some .memory) ∧
    (becomesExternalSt thr vs[k].init = false →
      (stSnapshotB vs[k] = false ∨ vs[k].init.isExternal = false) →
      (unloadStV vs thr mx)[k]? = some .same) := by
  have hnd : ((stSaved vs thr).map (·.name)).Nodup := by
    have h1 : ((vs.filter stSnapshotB).map (·.name)).Nodup := by
      simp only [stNamesOk, Bool.and_eq_true, decide_eq_true_eq] at hnames
      exact hnames.1
    exact (stSaved_names_sublist vs thr).nodup h1
  have hk' : k < (vs.map (·.init)).length := by simpa using hk
  have hIk : (vs.map (·.init))[k] = vs[k].init := by simp
  let news := (stReplace ((stSaved vs thr).map (·.name))
    (stAssignments (stShardViewsD (stSaved vs thr) mx))).map newConstOfRecord
  have hnl : news.length = ((vs.map (·.init)).filter (extSt thr)).length := by
    simp only [news, List.length_map, stReplace_length]
    exact stSaved_length vs thr
  have hgen := unload_generic_news (vs.map (·.init)) (extSt thr) (memSt thr)
    (by intro v hv
        simp only [extSt, Bool.and_eq_true, Bool.not_eq_true', decide_eq_false_iff_not] at hv
        simp [memSt, hv.2])
    news hnl k hk'
  have hres : unloadStV vs thr mx = assignZip (assignZip (List.replicate (vs.map (·.init)).length NewConst.same)
      (splitBy (extSt thr) (memSt thr) 0 (vs.map (·.init))).1 news)
      (splitBy (extSt thr) (memSt thr) 0 (vs.map (·.init))).2
      ((splitBy (extSt thr) (memSt thr) 0 (vs.map (·.init))).2.map fun _ => NewConst.memory) := by
    simp only [unloadStV, news, List.length_map]
    unfold splitSt; rw [splitStGo_eq]
  rw [hres]
  rw [hIk] at hgen
  refine ⟨by simp [assignZip_length], ?_, ?_, ?_⟩
  · intro hb
    have he : extSt thr vs[k].init = true := by rw [extSt_eq]; exact hb
    obtain ⟨hc, hr⟩ := hgen.1 he
    generalize hcdef : ((vs.map (·.init)).take k).countP (extSt thr) = c at hc hr
    have hsav := stSaved_index vs thr k hk he
    rw [hcdef] at hsav
    have hcl : c < (stSaved vs thr).length := by
      by_cases h : c < (stSaved vs thr).length
      · exact h
      · rw [List.getElem?_eq_none (by omega)] at hsav; cases hsav
    have hsc : (stSaved vs thr)[c] = vs[k].tensor := by
      rw [List.getElem?_eq_getElem hcl] at hsav; exact Option.some.inj hsav
    obtain ⟨p, img, hp, hf, htot, hlen, hread⟩ := C07_st_roundtrip (stSaved vs thr) mx hnd c hcl
    rw [hsc] at hlen hread
    refine ⟨p, img, ?_, by simpa [stSaveFiles] using hf, by simpa [stSaveFiles] using htot,
      by simpa [StInit.tensor] using hlen, by simpa [StInit.tensor] using hread⟩
    rw [hr]
    have : news[c]? = some (NewConst.external p) := by
      simp only [news, List.getElem?_map, hp, Option.map_some, newConstOfRecord]
    rw [List.getElem?_eq_getElem hc] at this
    exact this
  · intro hb hs hx
    have he : extSt thr vs[k].init = false := by rw [extSt_eq]; exact hb
    apply hgen.2.1 he
    simp only [stSnapshotB, Bool.and_eq_true, Bool.not_eq_true'] at hs
    simp only [extSt, hs.1, hs.2, Bool.not_false, Bool.and_self, Bool.true_and, Bool.not_eq_false',
      decide_eq_true_eq] at he
    simp [memSt, hs.1, hs.2, he, hx]
  · intro hb hs
    have he : extSt thr vs[k].init = false := by rw [extSt_eq]; exact hb
    apply hgen.2.2 he
    rcases hs with hs | hs
    · simp only [stSnapshotB, Bool.and_eq_false_iff, Bool.not_eq_false'] at hs
      rcases hs with hs | hs <;> simp [memSt, hs]
    · simp [memSt, hs]


/-- a position above the threshold is one of the saved tensors -/
theorem stSaved_position (vs : List StInit) (thr : Int) (k : Nat) (hk : k < vs.length)
    (hb : becomesExternalSt thr vs[k].init = true) :
    ∃ c, ∃ hc : c < (stSaved vs thr).length, (stSaved vs thr)[c] = vs[k].tensor := by
  have he : extSt thr vs[k].init = true := by rw [extSt_eq]; exact hb
  have hsav := stSaved_index vs thr k hk he
  generalize ((vs.map (·.init)).take k).countP (extSt thr) = c at hsav
  have hcl : c < (stSaved vs thr).length := by
    by_cases h : c < (stSaved vs thr).length
    · exact h
    · rw [List.getElem?_eq_none (by omega)] at hsav; cases hsav
  refine ⟨c, hcl, ?_⟩
  rw [List.getElem?_eq_getElem hcl] at hsav; exact Option.some.inj hsav

/-- **C07_st_roundtrip_values**: `save_safetensors` followed by `ir.load`, on initializer VALUES.
    For every declaration-ordered initializer list (main graph and every subgraph) whose names pass
    the up-front check and whose saved tensors all have a dtype of the save table (no `KeyError`:
    `stSaveOk`), every threshold and shard limit: every position `k` that holds a tensor is, in the
    loaded model, external EXACTLY when the tensor is not a string tensor and has at least
    `size_threshold_bytes` bytes, and holds its original dtype, shape and bytes (for an external
    position: dtype/shape as `_migrate_tensor_shape_dtype` restores them from the header, bytes as
    read through the record `(file, offset, length)` from the file moved into place).
    Composes `C07_st_unload_values` (classification, sharding, container, re-pointing by name) with
    `C07_st_dtype_roundtrip`. -/
theorem C07_st_roundtrip_values (vs : List StInit) (thr : Int) (mx : Option Nat)
    (hnames : stNamesOk ((vs.filter stSnapshotB).map (·.name)) = true)
    (hdt : stSaveOk vs thr = true)
    (k : Nat) (hk : k < vs.length) (hc : vs[k].init.hasConst = true) :
    stLoadedAt vs thr mx k =
      some ⟨becomesExternalSt thr vs[k].init, vs[k].dtype, vs[k].shape, vs[k].bytes⟩ := by
  have hU := C07_st_unload_values vs thr mx hnames k hk
  have hget : vs.getD k default = vs[k] := by
    simp [List.getD_eq_getElem?_getD, List.getElem?_eq_getElem hk]
  unfold stLoadedAt
  simp only [hget]
  by_cases hb : becomesExternalSt thr vs[k].init = true
  · obtain ⟨p, img, hp, hf, _, _, hread⟩ := hU.2.1 hb
    obtain ⟨c, hcl, hsc⟩ := stSaved_position vs thr k hk hb
    have hnd : ((stSaved vs thr).map (·.name)).Nodup := by
      have h1 : ((vs.filter stSnapshotB).map (·.name)).Nodup := by
        simp only [stNamesOk, Bool.and_eq_true, decide_eq_true_eq] at hnames
        exact hnames.1
      exact (stSaved_names_sublist vs thr).nodup h1
    obtain ⟨cur, hent⟩ := stEntryFor_saved (stSaved vs thr) mx hnd c hcl
    rw [hsc] at hent
    have hsome : (stDtypeOf vs[k].tensor.dtype).isSome = true := by
      have := List.all_eq_true.mp hdt (stSaved vs thr)[c] (List.getElem_mem hcl)
      rw [hsc] at this; exact this
    obtain ⟨sd, hsd⟩ := Option.isSome_iff_exists.mp hsome
    have hview : (viewOfD vs[k].tensor) = ⟨vs[k].tensor.name, sd,
        headerShape sd (storageShape vs[k].tensor), vs[k].tensor.bytes⟩ := by
      simp [viewOfD, hsd]
    rw [hview] at hent
    have hds := C07_st_dtype_roundtrip vs[k].tensor sd hsd cur
    have hname : vs[k].tensor.name = vs[k].name := rfl
    rw [hname] at hent
    rw [hp]
    simp only [hent, Option.bind_some]
    have hds' : reloadedDtypeShape vs[k].tensor
        ⟨vs[k].name, sd, headerShape sd (storageShape vs[k].tensor), cur, cur + vs[k].tensor.bytes.length⟩
        = some (vs[k].dtype, vs[k].shape) := hds
    rw [hds']
    simp only [Option.map_some, hb]
    have himg : (stSaveFiles vs thr mx).getD p.shard [] = img := by
      simp [List.getD_eq_getElem?_getD, hf]
    rw [himg, hread]
  · have hb' : becomesExternalSt thr vs[k].init = false := by simpa using hb
    have hstate : (unloadStV vs thr mx)[k]? = some .memory ∨ (unloadStV vs thr mx)[k]? = some .same := by
      by_cases h1 : stSnapshotB vs[k] = true ∧ vs[k].init.isExternal = true
      · exact Or.inl (hU.2.2.1 hb' h1.1 h1.2)
      · refine Or.inr (hU.2.2.2 hb' ?_)
        by_cases h2 : stSnapshotB vs[k] = true
        · right; simpa using fun h3 => h1 ⟨h2, h3⟩
        · left; simpa using h2
    rcases hstate with h | h <;> rw [h] <;> simp [hc, hb']


-- a whole position-level save: float above the threshold, a small external uint8 tensor (loaded to memory), a
-- string tensor (untouched), an INT4 tensor stored as bytes: records into the one file (header 112 bytes), and
-- what the loaded model holds
example :
    let vs : List StInit := [⟨[0x62], ⟨4, false, true, false⟩, .float, [1], [1, 2, 3, 4]⟩,
      ⟨[0x61], ⟨2, true, true, false⟩, .uint8, [2], [9, 9]⟩, ⟨[0x63], ⟨1, false, true, true⟩, .string, [1], []⟩,
      ⟨[0x64], ⟨3, false, true, false⟩, .int4, [5], [7, 8, 9]⟩]
    stNamesOk ((vs.filter stSnapshotB).map (·.name)) = true ∧ stSaveOk vs 3 = true ∧
    unloadStV vs 3 none = [.external ⟨0, 1, 120, 4⟩, .memory, .same, .external ⟨0, 1, 124, 3⟩] ∧
    (List.range 4).map (stLoadedAt vs 3 none) =
      [some ⟨true, .float, [1], [1, 2, 3, 4]⟩, some ⟨false, .uint8, [2], [9, 9]⟩, some ⟨false, .string, [1], []⟩,
       some ⟨true, .int4, [5], [7, 8, 9]⟩] := by
  decide +kernel

-- the name hypothesis is needed: with a duplicated name the first value above the threshold is not re-pointed
-- and would be written inline
example :
    let vs : List StInit := [⟨[0x61], ⟨1, false, true, false⟩, .uint8, [1], [1]⟩,
      ⟨[0x61], ⟨1, false, true, false⟩, .uint8, [1], [2]⟩]
    stNamesOk ((vs.filter stSnapshotB).map (·.name)) = false ∧
    stLoadedAt vs 0 none 0 = some ⟨false, .uint8, [1], [1]⟩ ∧ becomesExternalSt 0 vs[0].init = true := by
  decide +kernel

/-! ### the safetensors backend inside call sequences -/

/-- **C07_stBackend_ok**: the safetensors backend (`save_safetensors`, any threshold and shard limit,
    shards staged and moved into place after the last one was written) delivers what
    `C07_sequence_preserves` asks of a backend, provided the initializer names pass the up-front
    check of `save_safetensors` (pairwise different, not `__metadata__`): one reference per
    initializer, and with the written files in place every reference reads its initializer's bytes
    (from `C07_st_unload_values`).  The instance describes saves that get past the dtype table
    (`stSaveOk`; with COMPLEX128 above the threshold the real save raises `KeyError` before any file
    is moved into place, see `C07_st_keyerror_iff`). -/
theorem C07_stBackend_ok (base : Nat) (thr : Int) (mx : Option Nat) (metas : List StMeta)
    (hn : stNamesOk (metas.map (·.name)) = true) : (stBackend base thr mx metas).Ok := by
  intro refs vals fs hl
  have hvl := stVS_length metas refs vals hl
  have hnames : stNamesOk (((stVS metas refs vals).filter stSnapshotB).map (·.name)) = true :=
    stNamesOk_sublist _ _ (stVS_names_sublist metas refs vals) hn
  have hcl : (unloadStV (stVS metas refs vals) thr mx).length = vals.length := by
    have h0 : (unloadStV (stVS metas refs vals) thr mx).length = (stVS metas refs vals).length := by
      simp [unloadStV, assignZip_length]
    omega
  refine ⟨by simp [stBackend, hcl], ?_⟩
  intro k hk
  have hkv : k < (stVS metas refs vals).length := by omega
  have hkc : k < (unloadStV (stVS metas refs vals) thr mx).length := by omega
  obtain ⟨v, hv, hvb, _⟩ := stVS_get metas refs vals hl k hk
  have hvk : (stVS metas refs vals)[k] = v := by
    rw [List.getElem?_eq_getElem hkv] at hv; exact Option.some.inj hv
  have hU := C07_st_unload_values (stVS metas refs vals) thr mx hnames k hkv
  rw [hvk] at hU
  have hrk : (stBackend base thr mx metas refs vals).refs[k]? = some
      (match (unloadStV (stVS metas refs vals) thr mx)[k] with
        | .external p => Ref.ext (base, p.shard,
            (stSaveFiles (stVS metas refs vals) thr mx).length) p.offset p.length
        | _ => Ref.inline vals[k]) := by
    simp only [stBackend]
    rw [List.getElem?_eq_getElem (by simp [hcl]; omega), List.getElem_zipWith]
    rfl
  by_cases hb : becomesExternalSt thr v.init = true
  · obtain ⟨p, img, hc, hf, _, _, hread⟩ := hU.2.1 hb
    have hck : (unloadStV (stVS metas refs vals) thr mx)[k] = .external p := by
      rw [List.getElem?_eq_getElem hkc] at hc; exact Option.some.inj hc
    rw [hck] at hrk
    refine ⟨_, hrk, by simp, ?_⟩
    have := installFiles_zipIdx fs base (stSaveFiles (stVS metas refs vals) thr mx).length
      (stSaveFiles (stVS metas refs vals) thr mx) 0 p.shard (Nat.zero_le _)
    simp only [Nat.sub_zero, hf] at this
    simp only [Ref.value, stBackend, keyedFiles]
    rw [this]
    simp [hread, hvb]
  · have hb' : becomesExternalSt thr v.init = false := by simpa using hb
    have hnot : (unloadStV (stVS metas refs vals) thr mx)[k] = .memory ∨
        (unloadStV (stVS metas refs vals) thr mx)[k] = .same := by
      by_cases h1 : stSnapshotB v = true ∧ v.init.isExternal = true
      · left
        have := hU.2.2.1 hb' h1.1 h1.2
        rw [List.getElem?_eq_getElem hkc] at this; exact Option.some.inj this
      · right
        have := hU.2.2.2 hb' (by
          by_cases h2 : stSnapshotB v = true
          · right; simpa using fun h3 => h1 ⟨h2, h3⟩
          · left; simpa using h2)
        rw [List.getElem?_eq_getElem hkc] at this; exact Option.some.inj this
    rcases hnot with h | h <;> rw [h] at hrk <;> exact ⟨_, hrk, by simp, by simp [Ref.value]⟩


theorem OpSpec.toOp_ok (metas : List StMeta) (hn : stNamesOk (metas.map (·.name)) = true) (o : OpSpec) :
    (o.toOp metas).BackendOk := by
  cases o <;> simp only [OpSpec.toOp, SeqOp.BackendOk]
  · exact C07_rawBackend_ok _ _ _ _ _
  · exact C07_rawBackend_ok _ _ _ _ _
  · exact C07_stBackend_ok _ _ _ _ hn

/-- **C07_sequence_mixed**: `C07_sequence_preserves` with BOTH backend instances discharged.  For
    any sequence of `ir.save(external_data=)`, `unload_from_model`, `ir.save_safetensors` (any
    parameters, any destinations, in any mixture), `ir.load`, `load_to_model` and
    `convert_tensors_from_external` calls that runs to the end on a model whose initializer names pass
    the safetensors name check: every reference of the caller's model and of the saved proto is stale
    or reads exactly the value of its initializer. -/
theorem C07_sequence_mixed (metas : List StMeta) (hn : stNamesOk (metas.map (·.name)) = true)
    (V : List (List Nat)) (specs : List OpSpec) (s0 s : SeqState FileKey) (h0 : SeqInv V s0)
    (hrun : seqRun s0 (specs.map (OpSpec.toOp metas)) = some s) : SeqInv V s := by
  refine C07_sequence_preserves V _ s0 s ?_ h0 hrun
  intro op hop
  obtain ⟨o, _, rfl⟩ := List.mem_map.mp hop
  exact OpSpec.toOp_ok metas hn o

/-- **C07_sequence_mixed_save_load**: whatever mixture of calls happened before, a save with EITHER
    backend that runs to the end, followed by `ir.load`, yields a model in which no reference is stale
    and every initializer reads its original value. -/
theorem C07_sequence_mixed_save_load (metas : List StMeta) (hn : stNamesOk (metas.map (·.name)) = true)
    (V : List (List Nat)) (specs : List OpSpec) (last : OpSpec) (hlast : last.isSave = true)
    (s0 s : SeqState FileKey) (h0 : SeqInv V s0)
    (hrun : seqRun s0 ((specs ++ [last, .load]).map (OpSpec.toOp metas)) = some s) :
    s.mem.length = V.length ∧ ∀ k (hk : k < V.length), ∃ r, s.mem[k]? = some r ∧ r ≠ .stale ∧
      r.value s.fs = some V[k] := by
  have hops : ∀ op ∈ specs.map (OpSpec.toOp metas), op.BackendOk := by
    intro op hop
    obtain ⟨o, _, rfl⟩ := List.mem_map.mp hop
    exact OpSpec.toOp_ok metas hn o
  rw [List.map_append] at hrun
  cases last with
  | rawSave base thr mx al athr =>
    exact C07_sequence_save_load V _ _ (C07_rawBackend_ok base thr mx al athr) s0 s hops h0 hrun
  | stSave base thr mx =>
    exact C07_sequence_save_load V _ _ (C07_stBackend_ok base thr mx metas hn) s0 s hops h0 hrun
  | rawUnload => simp [OpSpec.isSave] at hlast
  | load => simp [OpSpec.isSave] at hlast
  | loadToModel => simp [OpSpec.isSave] at hlast
  | convert k => simp [OpSpec.isSave] at hlast

-- a mixed history on a concrete model: raw save, load, safetensors save with threshold 0 onto new files,
-- load, raw save onto the FIRST data file again, load: every initializer reads its value at the end and the
-- model loaded from the safetensors files is not stale (its files were not replaced)
example :
    let metas : List StMeta := [⟨[0x61], .uint8, [3]⟩, ⟨[0x62], .uint8, [1]⟩]
    let s0 : SeqState FileKey := { fs := fun _ => none, mem := [.inline [1, 2, 3], .inline [4]], disk := none }
    ((seqRun s0 ([OpSpec.rawSave 0 1 none none 0, .load, .stSave 1 0 none, .load,
        .rawSave 0 0 none none 0].map (OpSpec.toOp metas))).map fun s => s.mem.map (Ref.value s.fs))
      = some [some [1, 2, 3], some [4]] ∧
    ((seqRun s0 ([OpSpec.rawSave 0 1 none none 0, .load, .stSave 1 0 none, .load].map (OpSpec.toOp metas))).map
      fun s => s.mem.map Ref.isExt) = some [true, true] := by
  decide +kernel

/-! ### asynchronous exceptions inside the restore loop; dtypes without table entry -/

/-- **C07_restore_async**: what the `finally` block does when an ASYNCHRONOUS exception is delivered
    inside the restore loop after `n` assignments completed (every original tensor passing the setter's
    check, i.e. always outside DEBUG mode).  For every plan (both backends), every point `stop` at which
    the `try` block was left and every `n`: the `finally` is left by the exception iff
    `n < snapshot.length`; exactly the first `n` remembered values hold their original tensor again;
    every other value cell holds what it held when the `try` block was left (so a value the save had
    re-pointed STAYS re-pointed: the clause "same tensor objects afterwards" cannot be kept by a Python
    `finally` loop under asynchronous exceptions; outside the C07 statement, stated here exactly). -/
theorem C07_restore_async (debug : Bool) (isProto : Nat → Bool) (st : Store) (plan : SavePlan)
    (stop : Option Nat) (n : Nat)
    (hok : ∀ v ∈ plan.snapshot, setterOk debug isProto (st v) = true) :
    let r := saveRunAsync debug isProto st plan stop (some n)
    r.2.2 = decide (n < plan.snapshot.length) ∧
    (∀ v ∈ plan.snapshot.take n, r.2.1 v = st v) ∧
    (∀ v, v ∉ plan.snapshot.take n → r.2.1 v = r.1 v) ∧
    (plan.snapshot.length ≤ n → r = saveRunChecked debug isProto st plan stop) := by
  intro r
  have hloop : ∀ (mid : Store), restoreLoop debug isProto mid ((plan.snapshot.map fun v => (v, st v)).take n) =
      (assignAll mid ((plan.snapshot.take n).map fun v => (v, st v)), false) := by
    intro mid
    rw [← List.map_take]
    apply restoreLoop_ok
    intro p hp
    obtain ⟨v, hv, rfl⟩ := List.mem_map.mp hp
    exact hok v (List.mem_of_mem_take hv)
  refine ⟨?_, ?_, ?_, ?_⟩
  · simp only [r, saveRunAsync, restoreLoopCut, hloop, Bool.false_or, List.length_map]
  · intro v hv
    simp only [r, saveRunAsync, restoreLoopCut, hloop]
    exact assignAll_saved st _ _ v hv
  · intro v hv
    simp only [r, saveRunAsync, restoreLoopCut, hloop]
    apply assignAll_not_mem
    intro p hp
    obtain ⟨w, hw, rfl⟩ := List.mem_map.mp hp
    intro h; exact hv (h ▸ hw)
  · intro hn
    have htake : (plan.snapshot.map fun v => (v, st v)).take n = plan.snapshot.map fun v => (v, st v) :=
      List.take_of_length_le (by simpa using hn)
    have hdec : decide (n < (plan.snapshot.map fun v => (v, st v)).length) = false := by
      simp; omega
    simp only [r, saveRunAsync, saveRunChecked, restoreLoopCut, htake, hdec, Bool.or_false]
    cases stop <;> rfl

-- the asynchronous exception after 1 of 3 restores: value 0 is restored, values 1 and 2 stay re-pointed
example :
    let r := saveRunAsync false (fun _ => true) (fun v => some (v + 6))
      (rawPlan [⟨300, false, true, false⟩, ⟨300, false, true, false⟩, ⟨300, false, true, false⟩] 0 100) none (some 1)
    r.2.1 0 = some 6 ∧ r.2.1 1 = some 101 ∧ r.2.1 2 = some 102 ∧ r.2.2 = true := by decide

/-- **C07_st_keyerror_iff**: `save_safetensors` gets past the dtype table exactly when no initializer
    that is saved (non-string tensor of at least `size_threshold_bytes` bytes) has a dtype without table
    entry — in practice COMPLEX128 (UNDEFINED is no tensor dtype, STRING tensors are skipped before).
    Below the threshold a COMPLEX128 initializer stays in the proto and the save succeeds; at or above it
    the save raises `KeyError` and the model says that NO file is written (`stFiles = none`: the shards
    written so far are in the temporary directory that the `finally` removes). -/
theorem C07_st_keyerror_iff (vs : List StInit) (thr : Int) (mx : Option Nat) :
    (stSaveOk vs thr = true ↔
      ∀ v ∈ vs, becomesExternalSt thr v.init = true →
        v.dtype ≠ .undefined ∧ v.dtype ≠ .string ∧ v.dtype ≠ .complex128) ∧
    (stSaveOk vs thr = false → stFiles (stSaved vs thr) mx = none) ∧
    (stSaveOk vs thr = true → stFiles (stSaved vs thr) mx = some (stSaveFiles vs thr mx)) := by
  refine ⟨?_, ?_, ?_⟩
  · unfold stSaveOk dtypesOk
    rw [stSaved_eq_filter, List.all_eq_true]
    constructor
    · intro h v hv hb
      have := h v.tensor (List.mem_map.mpr ⟨v, List.mem_filter.mpr ⟨hv, by rw [extSt_eq]; exact hb⟩, rfl⟩)
      have hne : stDtypeOf v.dtype ≠ none := by
        intro e; simp [StInit.tensor, e] at this
      rw [Ne, stDtypeOf_none_iff] at hne
      exact ⟨fun e => hne (Or.inl e), fun e => hne (Or.inr (Or.inl e)), fun e => hne (Or.inr (Or.inr e))⟩
    · intro h t ht
      obtain ⟨v, hv, rfl⟩ := List.mem_map.mp ht
      obtain ⟨hv1, hv2⟩ := List.mem_filter.mp hv
      have := h v hv1 (by rw [← extSt_eq]; exact hv2)
      have hne : stDtypeOf v.dtype ≠ none := by
        rw [Ne, stDtypeOf_none_iff]
        rintro (e | e | e)
        · exact this.1 e
        · exact this.2.1 e
        · exact this.2.2 e
      cases hd : stDtypeOf v.dtype with
      | none => exact absurd hd hne
      | some _ => simp [StInit.tensor, hd]
  · intro h
    simp only [stSaveOk] at h
    simp [stFiles, stShardViews, h]
  · intro h
    simp only [stSaveOk] at h
    simp [stFiles, stShardViews, h, stSaveFiles]

example : stSaveOk [⟨[0x61], ⟨16, false, true, false⟩, .complex128, [1], List.replicate 16 0⟩] 17 = true ∧
    stSaveOk [⟨[0x61], ⟨16, false, true, false⟩, .complex128, [1], List.replicate 16 0⟩] 16 = false := by decide

end IrVerif.Layout

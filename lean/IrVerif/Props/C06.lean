/-
C06 — a rejected edit leaves every IR object exactly as it was.
Model: `IrVerif/Model/Kernel.lean`.  Every public call is `validate ; mutate`, and `C06_atomic` says that
the model's `step` returns the very world it was given whenever its outcome is `raised` — every field of
every object, reference counters, initializer keys and order, name-authority counters and name sets.
Round 4: `C06_rauw_many_atomic` (the multi-pair `convenience.replace_all_uses_with` as /repo has it since fix D82),
`C06_view_atomic` (`GraphView`), and the model of the partial fix proposed for D83 (`Model/KernelFix.lean`).
Wave 6: the rejection reasons the statement lists, one corollary each (`C06_rejects_*`: for ANY world - well formed
or not - and any arguments meeting the decidable condition, the call raises and returns the world it was given), each
with a reachable witness; `C06_retry`: a history with a rejected call in it is the history without it.
-/
import IrVerif.Lemmas.KernelFaithful
import IrVerif.Model.KernelView
import IrVerif.Model.KernelFix
import IrVerif.Lemmas.KernelOps
import IrVerif.Lemmas.KernelReject
namespace IrVerif.Kernel

theorem ioMut_atomic (w : World) (g : Nat) (kd : IOKind) (m : IOMut) (k : String)
    (h : (ioMut w g kd m).2 = .raised k) : (ioMut w g kd m).1 = w := by
  have hl := ioMut_late w g kd m
  cases m <;> simp only [ioMut] at h hl ⊢
  case setSlice start stop step vs =>
    split
    · rfl
    · rename_i ix hix; simp only [hix] at h hl; exact guardOp_atomic_of_late _ _ _ _ _ hl h
  case delSlice start stop step =>
    split
    · rfl
    · rename_i ix hix; simp only [hix] at h hl; exact guardOp_atomic_of_late _ _ _ _ _ hl h
  all_goals first
    | exact guardOp_atomic_of_late _ _ _ _ _ hl h
    | rfl

theorem initMut_atomic (w : World) (hw : WF w) (g : Nat) (m : InitMut) (k : String)
    (h : (initMut w g m).2 = .raised k) : (initMut w g m).1 = w := by
  have hl := initMut_late w hw g m
  cases m <;> simp only [initMut] at h hl ⊢
  all_goals exact guardOp_atomic_of_late _ _ _ _ _ hl h

/-- **C06_atomic**: on a well-formed world, a call that raises leaves the whole world equal to the
world before the call (every field of every object, reference counters, initializer keys and order,
name-authority counters and name sets).  Not by definition: a call also raises when a check fails
after the first write (`guardOp`), and then returns the partially written world; the theorem says this
never happens. -/
theorem C06_atomic (w : World) (op : Op) (k : String) (hw : WF w)
    (h : (step w op).2 = .raised k) : (step w op).1 = w := by
  have hl := step_late w hw op
  cases op <;> simp only [step] at h hl ⊢
  case io g kd m => exact ioMut_atomic _ _ _ _ _ h
  case init g m => exact initMut_atomic _ hw _ _ _ h
  case newNode => exact guardOp_atomic_of_late _ _ _ _ _ hl h
  case newNodeAttrs =>
    rw [withAttrs_late] at hl
    exact withAttrs_atomic _ _ _ _ _ _ _ hl h
  case sort g =>
    unfold graphSort at h hl ⊢
    split
    · rfl
    · rename_i r hr; simp only [hr] at h hl; exact guardOp_atomic_of_late _ _ _ _ _ hl h
  case newGraph => exact guardOp_atomic_of_late _ _ _ _ _ hl h
  case rauw => exact guardOp_atomic_of_late _ _ _ _ _ hl h
  case setName => exact guardOp_atomic_of_late _ _ _ _ _ hl h
  all_goals exact guardOp_atomic_of_late _ _ _ _ _ hl h

/-- **C06_rename_values_atomic**: `rename_values` is all or nothing for any assignment (swaps, cycles,
repeated values, mixed initializers / plain values, tensors that refuse their new name).  The model
runs the three phases of the code — take the renamed initializers out of their mappings, rename, put
them back — with their own checks; the theorem says that after the up-front validation none of these
checks fails. -/
theorem C06_rename_values_atomic (w : World) (hw : WF w) (vs : List Nat) (names : List String) (k : String)
    (h : (renameValues w vs names).2 = .raised k) : (renameValues w vs names).1 = w := by
  have hl := renameValues_late w hw vs names
  unfold renameValues at h hl ⊢
  split
  · rfl
  · rename_i hlen
    simp only [hlen, if_false] at h hl
    split
    · rfl
    · rename_i pairs hp
      simp only [hp] at h hl
      exact guardOp_atomic_of_late _ _ _ _ _ hl h

/-- **C06_rauw_many_atomic** (round 4): `convenience.replace_all_uses_with` with several pairs, as /repo has it since
fix D82 (commit c936126: every pair is checked against the ownership the pairs before it will have produced, then the
loop runs — `rauwManyExact`, the function the harness compares with the code once its probe finds the real function
all-or-nothing), is all or nothing: a length mismatch or a rejected pair at ANY position k — also one that only the
interaction of the pairs makes unacceptable — leaves the whole world as it was.  (Was `rauwManyExact_atomic` in
`Lemmas/KernelFaithful.lean`, not listed while the fix was only proposed.) -/
theorem C06_rauw_many_atomic (w : World) (hw : WF w) (vs rs : List Nat) (rgo : Bool) (k : String)
    (h : (stepConv w (.rauwManyExact vs rs rgo)).2 = .raised k) :
    (stepConv w (.rauwManyExact vs rs rgo)).1 = w :=
  rauwManyExact_atomic w hw vs rs rgo k h

/-- **C06_view_atomic** (round 4): a rejected `GraphView(...)` (an initializer without a name) and a rejected edit of
a view's plain initializer dict (`del view.initializers[absent]`) leave the kernel world AND every existing view
exactly as they were. -/
theorem C06_view_atomic (vw : VWorld) (op : ViewOp) (k : String) (h : (viewStep vw op).2 = .raised k) :
    (viewStep vw op).1 = vw := by
  cases op <;> simp only [viewStep, onView] at h ⊢ <;> (repeat' split) <;> first | rfl | simp_all

/-- the hypothesis is needed: on an ill-formed world a check does fail after a write -/
example : ∃ w op k, (step w op).2 = .raised k ∧ (step w op).1 ≠ w :=
  ⟨{ vals := [{ uses := [(0, 0)] }] }, .rauw 0 0 false, "late-check", by decide⟩

/-! ### non-vacuity: every operation that can raise does raise on a reachable world -/

/-- two graphs; `v0` is input of `g0` and consumed by `n0`; `v1 = n0.out` is output of `g0` and consumed
by `n1`; `v3` is an initializer of `g0`; `n0 ∈ g0`, `n1 ∈ g1` -/
def exW : World := run
  [ .newValue (some "x"),                                        -- v0
    .newNode "A" (some "n0") [some 0] (some 1) none none,        -- n0, v1
    .newNode "B" (some "n1") [some 1] none none none,            -- n1, v2
    .newValue (some "w"),                                        -- v3
    .newGraph [0] [1] [0] [3],                                   -- g0
    .newGraph [] [] [1] [],                                      -- g1
    .newValue none ]                                             -- v4

example : ((exW.gr 0).inputs, (exW.gr 0).outputs, (exW.gr 0).inits, (exW.gr 0).nodes, (exW.gr 1).nodes) =
    ([0], [1], [("w", 3)], [0], [1]) := by decide

example : (step exW (.newNode "C" none [] none (some [1]) none)).2 = .raised "ValueError" := by decide
example : (step exW (.newNode "C" none [] (some 2) (some [4]) none)).2 = .raised "ValueError" := by decide
example : (step exW (.newNode "C" none [] none (some [4, 4]) none)).2 = .raised "ValueError" := by decide
example : (step exW (.newNode "C" none [] none (some [0]) none)).2 = .raised "ValueError" := by decide
example : (step exW (.newGraph [4] [0] [] [])).2 = .raised "ValueError" := by decide
example : (step exW (.newGraph [4] [] [0] [])).2 = .raised "ValueError" := by decide
example : (step exW (.newGraph [4] [] [] [4])).2 = .raised "ValueError" := by decide
example : (step exW (.replaceInput 1 5 none)).2 = .raised "ValueError" := by decide
example : (step exW (.replaceInput 1 (-1) none)).2 = .raised "ValueError" := by decide
example : (step exW (.resizeInputs 1 (-1))).2 = .raised "ValueError" := by decide
example : (step exW (.resizeOutputs 0 0)).2 = .raised "ValueError" := by decide
example : (step exW (.rauw 1 4 false)).2 = .raised "ValueError" := by decide
example : (step exW (.io 1 .inp (.append 0))).2 = .raised "ValueError" := by decide
example : (step exW (.io 0 .inp (.append 1))).2 = .raised "ValueError" := by decide
example : (step exW (.io 1 .out (.extend [4, 0]))).2 = .raised "ValueError" := by decide
example : (step exW (.io 1 .out (.insert 0 3))).2 = .raised "ValueError" := by decide
example : (step exW (.io 1 .out (.pop (-1)))).2 = .raised "IndexError" := by decide
example : (step exW (.io 0 .inp (.remove 4))).2 = .raised "ValueError" := by decide
example : (step exW (.io 0 .inp (.setItem 0 1))).2 = .raised "IndexError|ValueError" := by decide
example : (step exW (.io 0 .inp (.setItem 3 4))).2 = .raised "IndexError|ValueError" := by decide
example : (step exW (.io 0 .inp (.setSlice none none none [4, 1]))).2 = .raised "ValueError" := by decide
example : (step exW (.io 0 .inp (.setSlice none none (some 2) [4, 4]))).2 = .raised "ValueError" := by decide
example : (step exW (.io 0 .inp (.setSlice none none (some 0) []))).2 = .raised "ValueError" := by decide
example : (step exW (.io 0 .inp (.delItem 1))).2 = .raised "IndexError" := by decide
example : (step exW (.io 0 .inp (.delSlice none none (some 0)))).2 = .raised "ValueError" := by decide
example : (step exW (.io 0 .inp (.iadd [4]))).2 = .raised "RuntimeError" := by decide
example : (step exW (.io 0 .inp (.imul 2))).2 = .raised "RuntimeError" := by decide
example : (step exW (.init 1 (.setItem "w" 3))).2 = .raised "ValueError" := by decide
example : (step exW (.init 0 (.setItem "k" 0))).2 = .raised "ValueError" := by decide
example : (step exW (.init 0 (.setItem "" 4))).2 = .raised "ValueError" := by decide
example : (step exW (.init 0 (.delItem "k"))).2 = .raised "KeyError" := by decide
example : (step exW (.init 0 (.add 4))).2 = .raised "TypeError|ValueError" := by decide
example : (step exW (.init 0 (.pop "k"))).2 = .raised "KeyError" := by decide
example : (step exW (.init 1 .popitem)).2 = .raised "KeyError" := by decide
example : (step exW (.init 0 (.update [("a", 4), ("b", 4)]))).2 = .raised "ValueError" := by decide
example : (step exW (.init 0 (.setdefault "k" 1))).2 = .raised "ValueError" := by decide
example : (step exW (.init 0 (.register 0))).2 = .raised "ValueError" := by decide
example : (step exW (.setName 3 none)).2 = .raised "ValueError|AttributeError" := by decide
example : (step exW (.setName 3 (some ""))).2 = .raised "ValueError|AttributeError" := by decide
/-- a const tensor that refuses the rename: raised, nothing changed (also for a plain value) -/
example : (step (step exW (.setConst 4 true)).1 (.setName 4 (some "q"))).2 = .raised "ValueError|AttributeError" := by
  decide
example : (step exW (.append 0 1)).2 = .raised "ValueError" := by decide
example : (step exW (.extend 0 [0, 1])).2 = .raised "ValueError" := by decide
example : (step exW (.insertAfter 0 1 [0])).2 = .raised "ValueError" := by decide
example : (step exW (.insertBefore 0 0 [1])).2 = .raised "ValueError" := by decide
example : (step exW (.remove 0 [1] false)).2 = .raised "ValueError" := by decide
example : (step exW (.remove 0 [0] true)).2 = .raised "ValueError" := by decide
example : (step exW .sortCycle).2 = .raised "ValueError" := by decide
/-- a dependency cycle `n0 <-> n1` in one graph: the real sort (C12's model on the tree read off the world) raises -/
def exCyc : World := run
  [ .newValue none,
    .newNode "A" (some "n0") [none] none none none,
    .newNode "B" (some "n1") [some 1] none none none,
    .replaceInput 0 0 (some 2),
    .newGraph [] [] [0, 1] [] ]
example : (step exCyc (.sort 0)).2 = .raised "ValueError" := by decide
example : (step exW (.attrDel 0 "k" true)).2 = .raised "KeyError" := by decide
example : (step exW (.io 0 .inp (.sort [] false))).2 = .ok := by decide
/-- `Tape.initializer` is a composite and NOT claimed atomic: the new value exists although the graph refused it -/
example : (tapeInitializer exW (some 0) (some "w") none false).2 = .raised "ValueError" ∧
    (tapeInitializer exW (some 0) (some "w") none false).1 ≠ exW := by decide
example : (renameValues exW [3, 4] ["a", "a", "b"]).2 = .raised "ValueError" := by decide
example : (renameValues exW [3, 3] ["a", "b"]).2 = .raised "ValueError" := by decide
example : (renameValues exW [4, 3] ["q", ""]).2 = .raised "ValueError|AttributeError" := by decide
/-- the composite calls are NOT claimed atomic: a later pair is rejected after the first was applied -/
example : (rauwMany exW [0, 1] [4, 4] false).2 = .raised "ValueError" ∧ (rauwMany exW [0, 1] [4, 4] false).1 ≠ exW := by
  decide
/-- since fix D82 the multi-pair call is all or nothing: the same arguments, nothing applied (`C06_rauw_many_atomic`) -/
example : (rauwManyExact exW [0, 1] [4, 4] false).2 = .raised "ValueError" ∧ (rauwManyExact exW [0, 1] [4, 4] false).1 = exW := by
  decide
/-- a rejected view creation / a `KeyError` on a view's plain dict (`C06_view_atomic`) -/
example : (viewStep { w := exW } (.newView [0] [1] [0] [4])).2 = .raised "ValueError" := by decide
example : (viewStep (viewStep { w := exW } (.newView [0] [1] [0] [3])).1 (.initDel 0 "k")).2 = .raised "KeyError" := by decide
/-- the rejected bulk update really was going to change something before its second entry -/
example : (initUpdateSeq exW 0 [("a", 4), ("b", 4)]).1 ≠ exW := by decide

/-! ### wave 6: the rejection reasons of the statement, one corollary each

Every theorem: for ANY world (no well-formedness needed: these rejections are all decided by the up-front validation)
and any arguments meeting the decidable condition, the call raises and returns the very world it was given.  The
conditions (`offered`, `foreignTo`, `produced`, `offeredNodes`, `requiredMembers`, `foreignNode`, `notMember`) are in
`Lemmas/KernelReject.lean`.  Each is followed by a reachable world (`exW` / `exW2` / `exCyc`, histories from
`World.empty`) and arguments meeting the condition, checked by `decide`. -/

/-- **C06_rejects_foreign_value**: a call that offers — as graph input, graph output or initializer, at any position
of a multi-element argument — a value owned by ANOTHER graph raises and changes nothing.  Families (`offered`):
`append / extend / insert / [i]= / [a:b:c]=` of the tracked input and output lists, `[key]= / add / setdefault /
register_initializer` of the initializer mapping, `Graph(inputs, outputs, initializers=…)`, and
`Value.replace_all_uses_with` on a graph output (the replacement would become an output of that graph). -/
theorem C06_rejects_foreign_value (w : World) (op : Op)
    (h : (offered w op).any (fun p => foreignTo w p.1 p.2.2) = true) : ∃ k, step w op = (w, .raised k) := by
  rw [List.any_eq_true] at h
  obtain ⟨p, hp, hf⟩ := h
  exact step_rejects_offered w op ⟨p, hp, slotOK_foreign w _ _ _ hf⟩

/-- **C06_rejects_produced_value**: a call that offers the output of a node as graph INPUT or as INITIALIZER (same
families, any position) raises and changes nothing. -/
theorem C06_rejects_produced_value (w : World) (op : Op)
    (h : (offered w op).any (fun p => decide (p.2.1 ≠ Slot.out) && produced w p.2.2) = true) :
    ∃ k, step w op = (w, .raised k) := by
  rw [List.any_eq_true] at h
  obtain ⟨p, hp, hf⟩ := h
  simp only [Bool.and_eq_true, decide_eq_true_eq] at hf
  exact step_rejects_offered w op ⟨p, hp, slotOK_produced w _ _ _ hf.1 hf.2⟩

/-- **C06_rejects_foreign_node**: `append / extend / insert_after / insert_before / Graph(nodes=…)` with a node that
belongs to ANOTHER graph (any position), an insertion whose anchor is not in this graph, and `remove` of a node that is
not in this graph: `ValueError`, nothing changed. -/
theorem C06_rejects_foreign_node (w : World) (op : Op)
    (h : ((offeredNodes w op).any (fun p => foreignNode w p.1 p.2) ||
          (requiredMembers op).any (fun p => notMember w p.1 p.2)) = true) :
    step w op = (w, .raised "ValueError") := by
  rw [Bool.or_eq_true, List.any_eq_true, List.any_eq_true] at h
  exact step_rejects_node w op h

/-- **C06_rejects_unsafe_removal**: `graph.remove(nodes, safe=True)` where an output of one of the nodes is a graph
output or is still consumed by a node outside the removed set: `ValueError`, nothing changed (no input of any of the
nodes was detached). -/
theorem C06_rejects_unsafe_removal (w : World) (g : Nat) (ns : List Nat)
    (h : ns.any (fun n => unsafeToRemove w g ns n) = true) :
    step w (.remove g ns true) = (w, .raised "ValueError") := by
  rw [List.any_eq_true] at h
  obtain ⟨n, hn, hu⟩ := h
  have := any_true_of_mem ns (fun n => decide ((w.node n).graph ≠ some g) || (true && unsafeToRemove w g ns n)) n hn
    (by simp [hu])
  simp only [step, graphRemove, guardOp]
  rw [if_pos]
  simpa using this

/-- **C06_rejects_initializer_name_collision**: when `s` is the key of an initializer `other` of graph `g`,
(1) renaming a different-named initializer of `g` to `s`, (2) `register_initializer` of another value named `s`,
(3) `rename_values` sending two distinct initializers of one graph to one name — each raises, nothing changed. -/
theorem C06_rejects_initializer_name_collision (w : World) (g v : Nat) (s : String) :
    (∀ other, lookupInit (w.gr g).inits s = some other →
      ((w.val v).isInit = true → (w.val v).graph = some g → (w.val v).name ≠ some s →
        step w (.setName v (some s)) = (w, .raised "ValueError|AttributeError")) ∧
      ((w.val v).name = some s → other ≠ v → step w (.init g (.register v)) = (w, .raised "ValueError"))) ∧
    (∀ v2, v ≠ v2 → (w.val v).isInit = true → (w.val v2).isInit = true → (w.val v).graph = (w.val v2).graph →
      stepConv w (.renameValues [v, v2] [s, s]) = (w, .raised "ValueError|AttributeError")) := by
  refine ⟨fun other hk => ⟨fun hi hg hn => ?_, fun hn ho => ?_⟩, fun v2 hne hi hi2 hg => ?_⟩
  · simp only [step, setName, guardOp]
    rw [if_pos]
    cases hname : (w.val v).name <;> simp_all
  · simp only [step, initMut, guardOp]
    rw [if_pos]
    simp [hn, hk, ho]
  · have hd : dedupPairs [] ([v, v2].zip [s, s]) = some [(v, s), (v2, s)] := by
      simp [dedupPairs, hne]
    simp only [stepConv, renameValues, List.length_cons, List.length_nil, ne_eq, not_true_eq_false, if_false, hd,
      guardOp]
    rw [if_pos]
    simp [renameBad, hi, hi2, hg, hne, Ne.symm hne]

/-- **C06_rejects_missing_name**: an initializer needs a non-empty name.  For a value without one (`None` or `""`):
`initializers.add`, `register_initializer`, `Graph(initializers=[…, v, …])` and `GraphView(initializers=[…, v, …])`
raise; so do `initializers[""] = v'` for any `v'`, and un-naming an initializer (`value.name = None` / `""`).
Nothing changes. -/
theorem C06_rejects_missing_name (w : World) (g v : Nat) (h : falsy (w.val v).name = true) :
    step w (.init g (.add v)) = (w, .raised "TypeError|ValueError") ∧
    step w (.init g (.register v)) = (w, .raised "ValueError") ∧
    (∀ ins outs ns inits, v ∈ inits → step w (.newGraph ins outs ns inits) = (w, .raised "ValueError")) ∧
    (∀ (vw : VWorld) ins outs ns inits, vw.w = w → v ∈ inits →
      viewStep vw (.newView ins outs ns inits) = (vw, .raised "ValueError")) ∧
    (∀ v', step w (.init g (.setItem "" v')) = (w, .raised "ValueError")) ∧
    (∀ u s, (w.val u).isInit = true → (w.val u).name ≠ s → falsy s = true →
      step w (.setName u s) = (w, .raised "ValueError|AttributeError")) := by
  refine ⟨?_, ?_, fun ins outs ns inits hv => newGraph_rejects_unnamed w ins outs ns inits v hv h,
    fun vw ins outs ns inits hw hv => ?_, fun v' => ?_, fun u s hi hn hs => ?_⟩
  · simp only [step, initMut, guardOp]
    rw [if_pos]
    unfold falsy at h
    cases hn : (w.val v).name <;> simp_all [initOK]
  · simp only [step, initMut, guardOp]
    rw [if_pos]
    unfold falsy at h
    cases hn : (w.val v).name <;> simp_all
  · subst hw
    have := any_true_of_mem inits (fun v => falsy (vw.w.val v).name) v hv h
    simp only [viewStep, this, if_true]
  · simp [step, initMut, initSetItem, guardOp, initOK]
  · simp only [step, setName, guardOp]
    rw [if_pos]
    unfold falsy at hs
    cases s with
    | none => simp_all
    | some s' =>
      simp at hs
      subst hs
      cases hname : (w.val u).name <;> cases hgr : (w.val u).graph <;> simp_all

/-- **C06_rejects_index_out_of_range**: `replace_input_with(idx, …)` outside `0 ≤ idx < len(inputs)`, a negative
`resize_inputs`, and `pop(i)` / `del lst[i]` / `lst[i] = v` on a tracked list outside `-len ≤ i < len` raise; nothing
changed. -/
theorem C06_rejects_index_out_of_range (w : World) :
    (∀ n (idx : Int) nv, (idx < 0 ∨ idx ≥ (w.node n).inputs.length) →
      step w (.replaceInput n idx nv) = (w, .raised "ValueError")) ∧
    (∀ n (k : Int), k < 0 → step w (.resizeInputs n k) = (w, .raised "ValueError")) ∧
    (∀ g kd (i : Int), (i < -((ioList kd (w.gr g)).length : Int) ∨ i ≥ (ioList kd (w.gr g)).length) →
      step w (.io g kd (.pop i)) = (w, .raised "IndexError") ∧
      step w (.io g kd (.delItem i)) = (w, .raised "IndexError") ∧
      ∀ v, step w (.io g kd (.setItem i v)) = (w, .raised "IndexError|ValueError")) := by
  refine ⟨fun n idx nv h => ?_, fun n k h => ?_, fun g kd i h => ?_⟩
  · simp only [step, replaceInput, guardOp]
    rw [if_pos]
    simpa using h
  · simp only [step, resizeInputs, guardOp]
    rw [if_pos]
    simpa using h
  · have hn : normIndex (ioList kd (w.gr g)).length i = none := by
      unfold normIndex
      simp only
      split <;> rename_i hneg <;> rw [if_pos] <;> omega
    refine ⟨?_, ?_, fun v => ?_⟩ <;> simp [step, ioMut, guardOp, hn]

/-- **C06_rejects_sort_cycle**: when C12's sort model finds no order for the tree read off the world (a dependency
cycle anywhere in the nest — `C12_cycle_iff_lifted` — or a graph object shared between two attributes),
`graph.sort()` raises `ValueError` and no graph of the nest is re-linked. -/
theorem C06_rejects_sort_cycle (w : World) (g : Nat) (h : Sort.sortModel (treeOf w g) = none) :
    step w (.sort g) = (w, .raised "ValueError") := by
  simp only [step, graphSort, h]

/-- **C06_rejects_shrink_with_uses**: `resize_outputs(k)` that would drop an output which still has a consumer raises
`ValueError`; no output was detached (also not the unused ones after it). -/
theorem C06_rejects_shrink_with_uses (w : World) (n : Nat) (k : Int)
    (h : ((w.node n).outputs.drop
        (if k < 0 then (((w.node n).outputs.length : Int) + k).toNat else k.toNat)).any
          (fun v => decide ((w.val v).uses ≠ [])) = true) :
    step w (.resizeOutputs n k) = (w, .raised "ValueError") := by
  simp only [step, resizeOutputs, guardOp]
  rw [if_pos]
  exact h

/-- **C06_retry**: a history in which an all-or-nothing call (`atomicCall`: any single call, `rename_values`, the
multi-pair `replace_all_uses_with`) was rejected is the history without that call: the same final world, and the same
outcome for every other call — the outcome list is that of the shorter history with the rejection inserted at its
place.  So a caller that catches the exception can go on (retry, or do something else) exactly as if the rejected call
had never been made. -/
theorem C06_retry (ops1 ops2 : List AnyOp) (bad : AnyOp) (k : String) (hat : atomicCall bad = true)
    (h : (stepAny (runAny ops1) bad).2 = .raised k) :
    runAny (ops1 ++ [bad] ++ ops2) = runAny (ops1 ++ ops2) ∧
    outcomesAny (ops1 ++ [bad] ++ ops2) =
      (outcomesAny (ops1 ++ ops2)).take ops1.length ++ [.raised k] ++ (outcomesAny (ops1 ++ ops2)).drop ops1.length := by
  have hwf : WF (runAny ops1) := runAny_WF ops1
  have hsame : (stepAny (runAny ops1) bad).1 = runAny ops1 := by
    match bad, hat with
    | .one op, _ => exact C06_atomic _ op k hwf h
    | .conv (.renameValues vs names), _ => exact C06_rename_values_atomic _ hwf vs names k h
    | .conv (.rauwManyExact vs rs rgo), _ => exact C06_rauw_many_atomic _ hwf vs rs rgo k h
  have hrun : runFrom World.empty (ops1 ++ [bad]) = runFrom World.empty ops1 := by
    rw [runFrom_append]
    exact hsame
  have hlen : (outcomesFrom World.empty ops1).length = ops1.length := outcomesFrom_length _ _
  constructor
  · simp only [runAny_eq]
    rw [runFrom_append, hrun, ← runFrom_append]
  · simp only [outcomesAny]
    rw [outcomesFrom_append (ops1 ++ [bad]) ops2, hrun, outcomesFrom_append ops1 [bad], outcomesFrom_append ops1 ops2,
      List.take_left' hlen, List.drop_left' hlen]
    simp only [outcomesFrom]
    rw [← runAny_eq, h]

/-! #### non-vacuity of the wave-6 corollaries: reachable worlds and arguments meeting each condition -/

/-- `exW` plus a second initializer `k = v4` of `g0` and a free value `v5` named like the first one -/
def exW2 : World := run
  [ .newValue (some "x"),                                        -- v0
    .newNode "A" (some "n0") [some 0] (some 1) none none,        -- n0, v1
    .newNode "B" (some "n1") [some 1] none none none,            -- n1, v2
    .newValue (some "w"),                                        -- v3
    .newGraph [0] [1] [0] [3],                                   -- g0
    .newGraph [] [] [1] [],                                      -- g1
    .newValue none,                                              -- v4
    .init 0 (.setItem "k" 4),                                    -- g0.initializers = {w: v3, k: v4}
    .newValue (some "w"),                                        -- v5
    .newValue none ]                                             -- v6

example : (exW2.gr 0).inits = [("w", 3), ("k", 4)] := by decide

-- foreign value: `v0` belongs to `g0`; offered to `g1` alone, inside an `extend`, as initializer, to a new graph
example : (offered exW (.io 1 .inp (.append 0))).any (fun p => foreignTo exW p.1 p.2.2) = true := by decide
example : step exW (.io 1 .inp (.append 0)) = (exW, .raised "ValueError") := by decide
example : (offered exW (.io 1 .out (.extend [4, 0]))).any (fun p => foreignTo exW p.1 p.2.2) = true := by decide
example : (offered exW (.init 1 (.setItem "x" 0))).any (fun p => foreignTo exW p.1 p.2.2) = true := by decide
example : (offered exW (.newGraph [4] [0] [] [])).any (fun p => foreignTo exW p.1 p.2.2) = true := by decide
-- produced value: `v1 = n0.out` offered as input of `g0`, as initializer, as input of a new graph
example : (offered exW (.io 0 .inp (.append 1))).any (fun p => decide (p.2.1 ≠ Slot.out) && produced exW p.2.2) = true := by
  decide
example : step exW (.io 0 .inp (.append 1)) = (exW, .raised "ValueError") := by decide
example : (offered exW (.init 0 (.setItem "y" 2))).any (fun p => decide (p.2.1 ≠ Slot.out) && produced exW p.2.2) = true := by
  decide
example : (offered exW (.newGraph [4, 2] [] [] [])).any (fun p => decide (p.2.1 ≠ Slot.out) && produced exW p.2.2) = true := by
  decide
-- foreign node: `n1 ∈ g1` appended to `g0`; anchor `n1` not in `g0`; removal of `n1` from `g0`
example : ((offeredNodes exW (.append 0 1)).any (fun p => foreignNode exW p.1 p.2) ||
    (requiredMembers (.append 0 1)).any (fun p => notMember exW p.1 p.2)) = true := by decide
example : step exW (.append 0 1) = (exW, .raised "ValueError") := by decide
example : ((offeredNodes exW (.insertAfter 0 1 [])).any (fun p => foreignNode exW p.1 p.2) ||
    (requiredMembers (.insertAfter 0 1 [])).any (fun p => notMember exW p.1 p.2)) = true := by decide
example : ((offeredNodes exW (.remove 0 [0, 1] false)).any (fun p => foreignNode exW p.1 p.2) ||
    (requiredMembers (.remove 0 [0, 1] false)).any (fun p => notMember exW p.1 p.2)) = true := by decide
-- unsafe removal: `n0.out = v1` is an output of `g0` and consumed by `n1`
example : [0].any (fun n => unsafeToRemove exW 0 [0] n) = true := by decide
example : step exW (.remove 0 [0] true) = (exW, .raised "ValueError") := by decide
-- initializer name collision: `w` is the key of `v3` in `g0`; `v4` is the initializer `k`; `v5` is named `w`
example : lookupInit (exW2.gr 0).inits "w" = some 3 ∧ (exW2.val 4).isInit = true ∧ (exW2.val 4).graph = some 0 ∧
    (exW2.val 4).name ≠ some "w" ∧ (exW2.val 5).name = some "w" ∧ 3 ≠ 5 ∧ (3 : Nat) ≠ 4 ∧ (exW2.val 3).isInit = true ∧
    (exW2.val 3).graph = (exW2.val 4).graph := by decide
example : step exW2 (.setName 4 (some "w")) = (exW2, .raised "ValueError|AttributeError") := by decide
example : step exW2 (.init 0 (.register 5)) = (exW2, .raised "ValueError") := by decide
example : stepConv exW2 (.renameValues [3, 4] ["z", "z"]) = (exW2, .raised "ValueError|AttributeError") := by decide
-- missing name: `v6` has none
example : falsy (exW2.val 6).name = true ∧ (exW2.val 4).isInit = true ∧ (exW2.val 4).name ≠ none := by decide
example : step exW2 (.init 0 (.add 6)) = (exW2, .raised "TypeError|ValueError") := by decide
example : step exW2 (.newGraph [] [] [] [6]) = (exW2, .raised "ValueError") := by decide
example : step exW2 (.setName 4 none) = (exW2, .raised "ValueError|AttributeError") := by decide
-- index out of range: `n1` has one input; `g0` has one input
example : ((5 : Int) < 0 ∨ (5 : Int) ≥ (exW.node 1).inputs.length) ∧
    ((-2 : Int) < -((ioList .inp (exW.gr 0)).length : Int) ∨ (-2 : Int) ≥ (ioList .inp (exW.gr 0)).length) := by decide
example : step exW (.replaceInput 1 5 none) = (exW, .raised "ValueError") := by decide
example : step exW (.io 0 .inp (.pop (-2))) = (exW, .raised "IndexError") := by decide
-- sort cycle: `n0 <-> n1` in one graph
example : Sort.sortModel (treeOf exCyc 0) = none := by decide
example : step exCyc (.sort 0) = (exCyc, .raised "ValueError") := by decide
-- shrink with uses: `n0.out = v1` is consumed by `n1`
example : ((exW.node 0).outputs.drop (if (0 : Int) < 0 then (((exW.node 0).outputs.length : Int) + 0).toNat
    else (0 : Int).toNat)).any (fun v => decide ((exW.val v).uses ≠ [])) = true := by decide
example : step exW (.resizeOutputs 0 0) = (exW, .raised "ValueError") := by decide
-- retry: the rejected `append` in the middle of a history; the same world, the outcome list with one more entry
example : atomicCall (.one (.io 1 .inp (.append 0))) = true ∧
    (stepAny (runAny [.one (.newValue (some "x")), .one (.newGraph [0] [] [] []), .one (.newGraph [] [] [] [])])
      (.one (.io 1 .inp (.append 0)))).2 = .raised "ValueError" := by decide
example : outcomesAny [.one (.newValue (some "x")), .one (.newGraph [0] [] [] []), .one (.newGraph [] [] [] []),
      .one (.io 1 .inp (.append 0)), .one (.io 1 .out (.append 0))] =
    [.ok, .ok, .ok, .raised "ValueError", .raised "ValueError"] := by decide

/-! ### the partial fix proposed for D83 (`proposed_fixes/D83-partial.diff`, model `Model/KernelFix.lean`)

Not property theorems (the function is compared with the code only once the patch is applied): the patched function
keeps the invariant, and each of the hoisted rejections leaves the world untouched.  What is NOT hoisted (a name that
cannot be copied, an unnamable output of a new node, an old node still in use) still raises after earlier writes:
D83 stays a known finding. -/

theorem replaceNodesAndValuesHoisted_WF (w : World) (g ip : Nat) (oldNodes newNodes oldVals newVals : List Nat)
    (h : WF w) : WF (replaceNodesAndValuesHoisted w g ip oldNodes newNodes oldVals newVals).1 := by
  unfold replaceNodesAndValuesHoisted
  split
  · exact h
  · exact replaceNodesAndValuesExact_WF _ _ _ _ _ _ _ h

theorem replaceNodesAndValuesHoisted_pre_atomic (w : World) (g ip : Nat) (oldNodes newNodes oldVals newVals : List Nat)
    (h : rnvPreBad w g ip oldNodes newNodes oldVals newVals = true) :
    replaceNodesAndValuesHoisted w g ip oldNodes newNodes oldVals newVals = (w, .raised "ValueError") := by
  unfold replaceNodesAndValuesHoisted; simp [h]

/-- the unpatched sequence raises at the insertion (`n1` is not in `g0`) AFTER the name was copied onto `v4`; the
patched one refuses the same call before anything is written -/
example : (replaceNodesAndValuesExact exW 0 1 [0] [] [1] [4]).2 = .raised "ValueError" ∧
    (replaceNodesAndValuesExact exW 0 1 [0] [] [1] [4]).1 ≠ exW ∧
    replaceNodesAndValuesHoisted exW 0 1 [0] [] [1] [4] = (exW, .raised "ValueError") := by decide

end IrVerif.Kernel

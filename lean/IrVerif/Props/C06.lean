/-
C06 — a rejected edit leaves every IR object exactly as it was.
-/
import IrVerif.Lemmas.KernelOps
namespace IrVerif.Kernel

theorem guardOp_atomic (bad : Bool) (kind : String) (w w' : World) (k : String)
    (h : (guardOp bad kind w w').2 = .raised k) : (guardOp bad kind w w').1 = w := by
  unfold guardOp at *; split <;> simp_all

/-- **C06_atomic**: when an operation raises, the whole world (every field of every object,
counters and name sets included) is equal to the world before the call. -/
theorem C06_atomic (w : World) (op : Op) (k : String) (_hw : WF w)
    (h : (step w op).2 = .raised k) : (step w op).1 = w := by
  cases op <;> simp only [step] at h ⊢
  case newValue name => simp [newValue] at h
  case newNode => exact guardOp_atomic _ _ _ _ _ h
  case replaceInput n idx v => exact guardOp_atomic _ _ _ _ _ h
  case resizeInputs n k' => exact guardOp_atomic _ _ _ _ _ h
  case resizeOutputs n k' => exact guardOp_atomic _ _ _ _ _ h
  case rauw => simp at h

/-! ### non-vacuity: each raising operation does raise on a reachable world -/
def exW : World := run [ .newValue none, .newNode "A" none [some 0] (some 1) none, .newNode "B" none [some 1] none none ]

example : (step exW (.replaceInput 1 5 none)).2 = .raised "ValueError" := by decide
example : (step exW (.replaceInput 1 (-1) none)).2 = .raised "ValueError" := by decide
example : (step exW (.resizeInputs 1 (-1))).2 = .raised "ValueError" := by decide
example : (step exW (.resizeOutputs 0 0)).2 = .raised "ValueError" := by decide
example : (step exW (.newNode "C" none [] none (some [1]))).2 = .raised "ValueError" := by decide
example : (step exW (.newNode "C" none [] (some 2) (some [0]))).2 = .raised "ValueError" := by decide
example : (step exW (.newNode "C" none [] none (some [0, 0]))).2 = .raised "ValueError" := by decide

end IrVerif.Kernel

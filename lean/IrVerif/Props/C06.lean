/-
C06 — a rejected edit leaves every IR object exactly as it was.
Model: `IrVerif/Model/Kernel.lean`.  Every public call is `validate ; mutate`, and `C06_atomic` says that
the model's `step` returns the very world it was given whenever its outcome is `raised` — every field of
every object, reference counters, initializer keys and order, name-authority counters and name sets.
Round 4: `C06_rauw_many_atomic` (the multi-pair `convenience.replace_all_uses_with` as /repo has it since fix D82),
`C06_view_atomic` (`GraphView`), and the model of the partial fix proposed for D83 (`Model/KernelFix.lean`).
-/
import IrVerif.Lemmas.KernelFaithful
import IrVerif.Model.KernelView
import IrVerif.Model.KernelFix
import IrVerif.Lemmas.KernelOps
namespace IrVerif.Kernel

theorem ioMut_atomic (w : World) (g : Nat) (kd : IOKind) (m : IOMut) (k : String)
    (h : (ioMut w g kd m).2 = .raised k) : (ioMut w g kd m).1 = w := by
  have hl := ioMut_late w g kd m
  cases m <;> simp only [ioMut] at h hl ⊢
  case setSlice start stop step vs =>
    split
    · rfl
    · rename_i ix hix; simp only [hix] at h hl; exact guardOp_atomic_of_late _ _ _ _ _ hl h
  case delSlice start stop step =>
    split
    · rfl
    · rename_i ix hix; simp only [hix] at h hl; exact guardOp_atomic_of_late _ _ _ _ _ hl h
  all_goals first
    | exact guardOp_atomic_of_late _ _ _ _ _ hl h
    | rfl

theorem initMut_atomic (w : World) (hw : WF w) (g : Nat) (m : InitMut) (k : String)
    (h : (initMut w g m).2 = .raised k) : (initMut w g m).1 = w := by
  have hl := initMut_late w hw g m
  cases m <;> simp only [initMut] at h hl ⊢
  all_goals exact guardOp_atomic_of_late _ _ _ _ _ hl h

/-- **C06_atomic**: on a well-formed world, a call that raises leaves the whole world equal to the
world before the call (every field of every object, reference counters, initializer keys and order,
name-authority counters and name sets).  Not by definition: a call also raises when a check fails
after the first write (`guardOp`), and then returns the partially written world; the theorem says this
never happens. -/
theorem C06_atomic (w : World) (op : Op) (k : String) (hw : WF w)
    (h : (step w op).2 = .raised k) : (step w op).1 = w := by
  have hl := step_late w hw op
  cases op <;> simp only [step] at h hl ⊢
  case io g kd m => exact ioMut_atomic _ _ _ _ _ h
  case init g m => exact initMut_atomic _ hw _ _ _ h
  case newNode => exact guardOp_atomic_of_late _ _ _ _ _ hl h
  case newNodeAttrs =>
    rw [withAttrs_late] at hl
    exact withAttrs_atomic _ _ _ _ _ _ _ hl h
  case sort g =>
    unfold graphSort at h hl ⊢
    split
    · rfl
    · rename_i r hr; simp only [hr] at h hl; exact guardOp_atomic_of_late _ _ _ _ _ hl h
  case newGraph => exact guardOp_atomic_of_late _ _ _ _ _ hl h
  case rauw => exact guardOp_atomic_of_late _ _ _ _ _ hl h
  case setName => exact guardOp_atomic_of_late _ _ _ _ _ hl h
  all_goals exact guardOp_atomic_of_late _ _ _ _ _ hl h

/-- **C06_rename_values_atomic**: `rename_values` is all or nothing for any assignment (swaps, cycles,
repeated values, mixed initializers / plain values, tensors that refuse their new name).  The model
runs the three phases of the code — take the renamed initializers out of their mappings, rename, put
them back — with their own checks; the theorem says that after the up-front validation none of these
checks fails. -/
theorem C06_rename_values_atomic (w : World) (hw : WF w) (vs : List Nat) (names : List String) (k : String)
    (h : (renameValues w vs names).2 = .raised k) : (renameValues w vs names).1 = w := by
  have hl := renameValues_late w hw vs names
  unfold renameValues at h hl ⊢
  split
  · rfl
  · rename_i hlen
    simp only [hlen, if_false] at h hl
    split
    · rfl
    · rename_i pairs hp
      simp only [hp] at h hl
      exact guardOp_atomic_of_late _ _ _ _ _ hl h

/-- **C06_rauw_many_atomic** (round 4): `convenience.replace_all_uses_with` with several pairs, as /repo has it since
fix D82 (commit c936126: every pair is checked against the ownership the pairs before it will have produced, then the
loop runs — `rauwManyExact`, the function the harness compares with the code once its probe finds the real function
all-or-nothing), is all or nothing: a length mismatch or a rejected pair at ANY position k — also one that only the
interaction of the pairs makes unacceptable — leaves the whole world as it was.  (Was `rauwManyExact_atomic` in
`Lemmas/KernelFaithful.lean`, not listed while the fix was only proposed.) -/
theorem C06_rauw_many_atomic (w : World) (hw : WF w) (vs rs : List Nat) (rgo : Bool) (k : String)
    (h : (stepConv w (.rauwManyExact vs rs rgo)).2 = .raised k) :
    (stepConv w (.rauwManyExact vs rs rgo)).1 = w :=
  rauwManyExact_atomic w hw vs rs rgo k h

/-- **C06_view_atomic** (round 4): a rejected `GraphView(...)` (an initializer without a name) and a rejected edit of
a view's plain initializer dict (`del view.initializers[absent]`) leave the kernel world AND every existing view
exactly as they were. -/
theorem C06_view_atomic (vw : VWorld) (op : ViewOp) (k : String) (h : (viewStep vw op).2 = .raised k) :
    (viewStep vw op).1 = vw := by
  cases op <;> simp only [viewStep, onView] at h ⊢ <;> (repeat' split) <;> first | rfl | simp_all

/-- the hypothesis is needed: on an ill-formed world a check does fail after a write -/
example : ∃ w op k, (step w op).2 = .raised k ∧ (step w op).1 ≠ w :=
  ⟨{ vals := [{ uses := [(0, 0)] }] }, .rauw 0 0 false, "late-check", by decide⟩

/-! ### non-vacuity: every operation that can raise does raise on a reachable world -/

/-- two graphs; `v0` is input of `g0` and consumed by `n0`; `v1 = n0.out` is output of `g0` and consumed
by `n1`; `v3` is an initializer of `g0`; `n0 ∈ g0`, `n1 ∈ g1` -/
def exW : World := run
  [ .newValue (some "x"),                                        -- v0
    .newNode "A" (some "n0") [some 0] (some 1) none none,        -- n0, v1
    .newNode "B" (some "n1") [some 1] none none none,            -- n1, v2
    .newValue (some "w"),                                        -- v3
    .newGraph [0] [1] [0] [3],                                   -- g0
    .newGraph [] [] [1] [],                                      -- g1
    .newValue none ]                                             -- v4

example : ((exW.gr 0).inputs, (exW.gr 0).outputs, (exW.gr 0).inits, (exW.gr 0).nodes, (exW.gr 1).nodes) =
    ([0], [1], [("w", 3)], [0], [1]) := by decide

example : (step exW (.newNode "C" none [] none (some [1]) none)).2 = .raised "ValueError" := by decide
example : (step exW (.newNode "C" none [] (some 2) (some [4]) none)).2 = .raised "ValueError" := by decide
example : (step exW (.newNode "C" none [] none (some [4, 4]) none)).2 = .raised "ValueError" := by decide
example : (step exW (.newNode "C" none [] none (some [0]) none)).2 = .raised "ValueError" := by decide
example : (step exW (.newGraph [4] [0] [] [])).2 = .raised "ValueError" := by decide
example : (step exW (.newGraph [4] [] [0] [])).2 = .raised "ValueError" := by decide
example : (step exW (.newGraph [4] [] [] [4])).2 = .raised "ValueError" := by decide
example : (step exW (.replaceInput 1 5 none)).2 = .raised "ValueError" := by decide
example : (step exW (.replaceInput 1 (-1) none)).2 = .raised "ValueError" := by decide
example : (step exW (.resizeInputs 1 (-1))).2 = .raised "ValueError" := by decide
example : (step exW (.resizeOutputs 0 0)).2 = .raised "ValueError" := by decide
example : (step exW (.rauw 1 4 false)).2 = .raised "ValueError" := by decide
example : (step exW (.io 1 .inp (.append 0))).2 = .raised "ValueError" := by decide
example : (step exW (.io 0 .inp (.append 1))).2 = .raised "ValueError" := by decide
example : (step exW (.io 1 .out (.extend [4, 0]))).2 = .raised "ValueError" := by decide
example : (step exW (.io 1 .out (.insert 0 3))).2 = .raised "ValueError" := by decide
example : (step exW (.io 1 .out (.pop (-1)))).2 = .raised "IndexError" := by decide
example : (step exW (.io 0 .inp (.remove 4))).2 = .raised "ValueError" := by decide
example : (step exW (.io 0 .inp (.setItem 0 1))).2 = .raised "IndexError|ValueError" := by decide
example : (step exW (.io 0 .inp (.setItem 3 4))).2 = .raised "IndexError|ValueError" := by decide
example : (step exW (.io 0 .inp (.setSlice none none none [4, 1]))).2 = .raised "ValueError" := by decide
example : (step exW (.io 0 .inp (.setSlice none none (some 2) [4, 4]))).2 = .raised "ValueError" := by decide
example : (step exW (.io 0 .inp (.setSlice none none (some 0) []))).2 = .raised "ValueError" := by decide
example : (step exW (.io 0 .inp (.delItem 1))).2 = .raised "IndexError" := by decide
example : (step exW (.io 0 .inp (.delSlice none none (some 0)))).2 = .raised "ValueError" := by decide
example : (step exW (.io 0 .inp (.iadd [4]))).2 = .raised "RuntimeError" := by decide
example : (step exW (.io 0 .inp (.imul 2))).2 = .raised "RuntimeError" := by decide
example : (step exW (.init 1 (.setItem "w" 3))).2 = .raised "ValueError" := by decide
example : (step exW (.init 0 (.setItem "k" 0))).2 = .raised "ValueError" := by decide
example : (step exW (.init 0 (.setItem "" 4))).2 = .raised "ValueError" := by decide
example : (step exW (.init 0 (.delItem "k"))).2 = .raised "KeyError" := by decide
example : (step exW (.init 0 (.add 4))).2 = .raised "TypeError|ValueError" := by decide
example : (step exW (.init 0 (.pop "k"))).2 = .raised "KeyError" := by decide
example : (step exW (.init 1 .popitem)).2 = .raised "KeyError" := by decide
example : (step exW (.init 0 (.update [("a", 4), ("b", 4)]))).2 = .raised "ValueError" := by decide
example : (step exW (.init 0 (.setdefault "k" 1))).2 = .raised "ValueError" := by decide
example : (step exW (.init 0 (.register 0))).2 = .raised "ValueError" := by decide
example : (step exW (.setName 3 none)).2 = .raised "ValueError|AttributeError" := by decide
example : (step exW (.setName 3 (some ""))).2 = .raised "ValueError|AttributeError" := by decide
/-- a const tensor that refuses the rename: raised, nothing changed (also for a plain value) -/
example : (step (step exW (.setConst 4 true)).1 (.setName 4 (some "q"))).2 = .raised "ValueError|AttributeError" := by
  decide
example : (step exW (.append 0 1)).2 = .raised "ValueError" := by decide
example : (step exW (.extend 0 [0, 1])).2 = .raised "ValueError" := by decide
example : (step exW (.insertAfter 0 1 [0])).2 = .raised "ValueError" := by decide
example : (step exW (.insertBefore 0 0 [1])).2 = .raised "ValueError" := by decide
example : (step exW (.remove 0 [1] false)).2 = .raised "ValueError" := by decide
example : (step exW (.remove 0 [0] true)).2 = .raised "ValueError" := by decide
example : (step exW .sortCycle).2 = .raised "ValueError" := by decide
/-- a dependency cycle `n0 <-> n1` in one graph: the real sort (C12's model on the tree read off the world) raises -/
def exCyc : World := run
  [ .newValue none,
    .newNode "A" (some "n0") [none] none none none,
    .newNode "B" (some "n1") [some 1] none none none,
    .replaceInput 0 0 (some 2),
    .newGraph [] [] [0, 1] [] ]
example : (step exCyc (.sort 0)).2 = .raised "ValueError" := by decide
example : (step exW (.attrDel 0 "k" true)).2 = .raised "KeyError" := by decide
example : (step exW (.io 0 .inp (.sort [] false))).2 = .ok := by decide
/-- `Tape.initializer` is a composite and NOT claimed atomic: the new value exists although the graph refused it -/
example : (tapeInitializer exW (some 0) (some "w") none false).2 = .raised "ValueError" ∧
    (tapeInitializer exW (some 0) (some "w") none false).1 ≠ exW := by decide
example : (renameValues exW [3, 4] ["a", "a", "b"]).2 = .raised "ValueError" := by decide
example : (renameValues exW [3, 3] ["a", "b"]).2 = .raised "ValueError" := by decide
example : (renameValues exW [4, 3] ["q", ""]).2 = .raised "ValueError|AttributeError" := by decide
/-- the composite calls are NOT claimed atomic: a later pair is rejected after the first was applied -/
example : (rauwMany exW [0, 1] [4, 4] false).2 = .raised "ValueError" ∧ (rauwMany exW [0, 1] [4, 4] false).1 ≠ exW := by
  decide
/-- since fix D82 the multi-pair call is all or nothing: the same arguments, nothing applied (`C06_rauw_many_atomic`) -/
example : (rauwManyExact exW [0, 1] [4, 4] false).2 = .raised "ValueError" ∧ (rauwManyExact exW [0, 1] [4, 4] false).1 = exW := by
  decide
/-- a rejected view creation / a `KeyError` on a view's plain dict (`C06_view_atomic`) -/
example : (viewStep { w := exW } (.newView [0] [1] [0] [4])).2 = .raised "ValueError" := by decide
example : (viewStep (viewStep { w := exW } (.newView [0] [1] [0] [3])).1 (.initDel 0 "k")).2 = .raised "KeyError" := by decide
/-- the rejected bulk update really was going to change something before its second entry -/
example : (initUpdateSeq exW 0 [("a", 4), ("b", 4)]).1 ≠ exW := by decide

/-! ### the partial fix proposed for D83 (`proposed_fixes/D83-partial.diff`, model `Model/KernelFix.lean`)

Not property theorems (the function is compared with the code only once the patch is applied): the patched function
keeps the invariant, and each of the hoisted rejections leaves the world untouched.  What is NOT hoisted (a name that
cannot be copied, an unnamable output of a new node, an old node still in use) still raises after earlier writes:
D83 stays a known finding. -/

theorem replaceNodesAndValuesHoisted_WF (w : World) (g ip : Nat) (oldNodes newNodes oldVals newVals : List Nat)
    (h : WF w) : WF (replaceNodesAndValuesHoisted w g ip oldNodes newNodes oldVals newVals).1 := by
  unfold replaceNodesAndValuesHoisted
  split
  · exact h
  · exact replaceNodesAndValuesExact_WF _ _ _ _ _ _ _ h

theorem replaceNodesAndValuesHoisted_pre_atomic (w : World) (g ip : Nat) (oldNodes newNodes oldVals newVals : List Nat)
    (h : rnvPreBad w g ip oldNodes newNodes oldVals newVals = true) :
    replaceNodesAndValuesHoisted w g ip oldNodes newNodes oldVals newVals = (w, .raised "ValueError") := by
  unfold replaceNodesAndValuesHoisted; simp [h]

/-- the unpatched sequence raises at the insertion (`n1` is not in `g0`) AFTER the name was copied onto `v4`; the
patched one refuses the same call before anything is written -/
example : (replaceNodesAndValuesExact exW 0 1 [0] [] [1] [4]).2 = .raised "ValueError" ∧
    (replaceNodesAndValuesExact exW 0 1 [0] [] [1] [4]).1 ≠ exW ∧
    replaceNodesAndValuesHoisted exW 0 1 [0] [] [1] [4] = (exW, .raised "ValueError") := by decide

end IrVerif.Kernel

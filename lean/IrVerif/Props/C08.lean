/-
C08 — an interrupted single-file external-data save never damages an existing data file.
Property theorems about `Model/AtomicSave.lean`; helper lemmas in `Lemmas/AtomicSave.lean`.
Deepening round (second half of the file): symbolic links as file-system objects, every schedule of the
parallel writer incl. failures inside the writer block, the crash theorem across a whole sharded save
(`Model/AtomicSaveLinks.lean`, `Lemmas/AtomicSaveLinks.lean`).
Core Lean only.
-/
import IrVerif.Lemmas.AtomicSave
import IrVerif.Lemmas.AtomicSaveLinks
import IrVerif.Lemmas.AtomicSaveConc
import IrVerif.Lemmas.AtomicSaveNest
namespace IrVerif.AtomicSave

/-- **C08_crash** (every crash point, incl. mid-write and crashes while the exception handlers
run).  For every destination, every `body` of effects that are not `os.replace`/`invalidate`
/`loadSmall` (in particular the serial writer's effect list for *any* tensors, `C08_crash_serial`,
and any interleaving of the parallel writer's `truncate`/`openW`/`seekW`/`writeW`/`closeW` effects,
`C08_crash_writer` — after one worker fails the model leaves the block while the real workers run
on, touching only the temporary file), every fault assignment `f` (which effects fail, and
after how many bytes a failing write stops) and every state `st` the run visits — the file-system
states a crash can leave behind are exactly these — the destination path holds either exactly the
bytes it held before the save or exactly the bytes a fault-free save produces. -/
theorem C08_crash (env : Env) (body post : List Eff) (hb : ∀ e ∈ body, e.tmpOnly = true)
    (hp : ∀ e ∈ post, e.noData = true) (s0 : St) (h0 : WF s0) (n0 : Nat) (f : Nat → Option Nat) :
    ∀ st ∈ (saveWith env body post f n0 s0).steps,
      content st.st (.user env.dest) = content s0 (.user env.dest) ∨
      content st.st (.user env.dest) =
        content (saveWith env body post (fun _ => none) n0 s0).final (.user env.dest) := by
  intro st hst
  have hnew := saveWith_none_frozen env body post hp s0 n0
  rcases saveWith_states env body post hb hp s0 h0 n0 f with ⟨hall, _⟩
  rcases hall st hst with h | h
  · left; exact old_content h0 h _
  · right; rw [frozen_content h, frozen_content hnew]

/-- **C08_exception**.  If exactly one effect fails with an exception and it is `mkdtemp`, any
effect of the writer (incl. a tensor or call-back raising, a short write), the release loop,
`copymode` or `os.replace` itself (index `k ≤ n0 + 1 + body.length`), then when the exception
leaves the function: the destination names the same inode with the same bytes and mode as before
(so do all other caller paths), neither the temporary file nor the temporary directory exists,
no tensor was invalidated, and every external tensor still reads the bytes it read before. -/
theorem C08_exception (env : Env) (body post : List Eff) (hb : ∀ e ∈ body, e.tmpOnly = true)
    (s0 : St) (h0 : WF s0) (hdir : s0.fs.isDir .tmpDir = false) (n0 : Nat) (f : Nat → Option Nat)
    (k p : Nat) (hk : f k = some p) (hone : ∀ n, n ≠ k → f n = none)
    (hlo : n0 ≤ k) (hhi : k ≤ n0 + 1 + body.length) :
    let r := saveWith env body post f n0 s0
    r.faulted = true ∧
    (∀ n, r.final.fs.file (.user n) = s0.fs.file (.user n) ∧
          content r.final (.user n) = content s0 (.user n) ∧
          (r.final.fs.file (.user n)).map r.final.fs.mode = (s0.fs.file (.user n)).map s0.fs.mode) ∧
    r.final.fs.file .tmpFile = none ∧ r.final.fs.isDir .tmpDir = false ∧
    r.final.valid = s0.valid ∧
    (∀ i e, (∀ m, s0.mapped i = some m → s0.fs.file (.user e.path) = some m) →
      readT r.final i e = readT s0 i e) := by
  intro r
  have h := saveWith_single_fault env body post hb s0 h0 hdir n0 f k p hk hone hlo hhi
  refine ⟨h.1, fun n => ⟨h.2.1.user n, old_content h0 h.2.1 n, old_mode h0 h.2.1 n⟩, h.2.2.1, h.2.2.2,
    h.2.1.valid, fun i e hm => old_read h0 h.2.1 i e hm⟩



/-- **C08_exception_multi** (fault sequences): if *some* effect at or before `os.replace` fails —
whatever else fails, earlier or later, including while the exception handlers run — then the
exception leaves the function and in every visited state (any crash point) and at the end every
caller path names the same inode with the same bytes and mode as before, no tensor was
invalidated and every external tensor still reads what it read before. (Only the removal of the
temporary paths can then be prevented, by a second failure in the handlers: `C08_exception`.) -/
theorem C08_exception_multi (env : Env) (body post : List Eff) (hb : ∀ e ∈ body, e.tmpOnly = true)
    (s0 : St) (h0 : WF s0) (n0 : Nat) (f : Nat → Option Nat) (k p : Nat) (hk : f k = some p)
    (hlo : n0 ≤ k) (hhi : k ≤ n0 + 1 + body.length) :
    let r := saveWith env body post f n0 s0
    r.faulted = true ∧
    ∀ s, (s = r.final ∨ ∃ st ∈ r.steps, s = st.st) →
      (∀ n, s.fs.file (.user n) = s0.fs.file (.user n) ∧ content s (.user n) = content s0 (.user n) ∧
            (s.fs.file (.user n)).map s.fs.mode = (s0.fs.file (.user n)).map s0.fs.mode) ∧
      s.valid = s0.valid ∧
      (∀ i e, (∀ m, s0.mapped i = some m → s0.fs.file (.user e.path) = some m) →
        readT s i e = readT s0 i e) := by
  intro r
  have h := saveWith_early_fault env body post hb s0 h0 n0 f k p hk hlo hhi
  refine ⟨h.1, ?_⟩
  intro s hs
  have ho : Old s0 s := by
    rcases hs with rfl | ⟨st, hst, rfl⟩
    · exact h.2.1
    · exact h.2.2 st hst
  exact ⟨fun n => ⟨ho.user n, old_content h0 ho n, old_mode h0 ho n⟩, ho.valid,
    fun i e hm => old_read h0 ho i e hm⟩

/-- **C08_crash_writer**: `C08_crash` for a save whose writer is *any* list of temporary-file
effects — in particular every interleaving of the parallel writer's `truncate`, `openW`, `seekW`,
`writeW`, `closeW`, call-backs — followed by the release loop, `copymode`, `os.replace`. -/
theorem C08_crash_writer (cfg : Cfg) (writer : List Eff) (hw : ∀ e ∈ writer, e.tmpOnly = true)
    (s0 : St) (h0 : WF s0) (n0 : Nat) (f : Nat → Option Nat) :
    ∀ st ∈ (saveWriter cfg writer f n0 s0).steps,
      content st.st (.user cfg.env.dest) = content s0 (.user cfg.env.dest) ∨
      content st.st (.user cfg.env.dest) =
        content (saveWriter cfg writer (fun _ => none) n0 s0).final (.user cfg.env.dest) :=
  C08_crash cfg.env (tryBodyWith cfg s0 writer) (postEffs cfg s0) (tryBodyWith_tmpOnly cfg s0 writer hw)
    (postEffs_noData cfg s0) s0 h0 n0 f

/-- **C08_new_is_image**: "the complete new bytes" are what the tensors say — after a fault-free
serial save the destination holds every tensor's bytes at its offset (gaps zero-filled), for
every tensor list, chunking and prior content. -/
theorem C08_new_is_image (cfg : Cfg) (s0 : St) (h0 : WF s0) (n0 : Nat) :
    content (save cfg (fun _ => none) n0 s0).final (.user cfg.env.dest) = some (image cfg.tensors) := by
  have hr := save_afterReplace cfg s0 h0 n0
  unfold save
  rw [frozen_content (saveWith_none_frozen cfg.env (tryBody cfg s0) (postEffs cfg s0)
    (postEffs_noData cfg s0) s0 n0)]
  simp [content, hr.dest, hr.bytes]

/-- **C08_crash_serial**: `C08_crash` for the serial writer, with the new bytes spelled out. -/
theorem C08_crash_serial (cfg : Cfg) (s0 : St) (h0 : WF s0) (n0 : Nat) (f : Nat → Option Nat) :
    ∀ st ∈ (save cfg f n0 s0).steps,
      content st.st (.user cfg.env.dest) = content s0 (.user cfg.env.dest) ∨
      content st.st (.user cfg.env.dest) = some (image cfg.tensors) := by
  intro st hst
  rw [← C08_new_is_image cfg s0 h0 n0]
  exact C08_crash cfg.env (tryBody cfg s0) (postEffs cfg s0) (tryBody_tmpOnly cfg s0)
    (postEffs_noData cfg s0) s0 h0 n0 f st hst

/-- **C08_exception_serial**: `C08_exception` for the serial writer. -/
theorem C08_exception_serial (cfg : Cfg) (s0 : St) (h0 : WF s0) (hdir : s0.fs.isDir .tmpDir = false)
    (n0 : Nat) (f : Nat → Option Nat) (k p : Nat) (hk : f k = some p) (hone : ∀ n, n ≠ k → f n = none)
    (hlo : n0 ≤ k) (hhi : k ≤ n0 + 1 + (tryBody cfg s0).length) :
    let r := save cfg f n0 s0
    r.faulted = true ∧
    (∀ n, r.final.fs.file (.user n) = s0.fs.file (.user n) ∧
          content r.final (.user n) = content s0 (.user n) ∧
          (r.final.fs.file (.user n)).map r.final.fs.mode = (s0.fs.file (.user n)).map s0.fs.mode) ∧
    r.final.fs.file .tmpFile = none ∧ r.final.fs.isDir .tmpDir = false ∧
    r.final.valid = s0.valid ∧
    (∀ i e, (∀ m, s0.mapped i = some m → s0.fs.file (.user e.path) = some m) →
      readT r.final i e = readT s0 i e) :=
  C08_exception cfg.env (tryBody cfg s0) (postEffs cfg s0) (tryBody_tmpOnly cfg s0) s0 h0 hdir n0 f k p
    hk hone hlo hhi

/-- **C08_post_samefile** (the dynamic test of the fixed loop, 504): in the state right after the
successful `os.replace`, for every external tensor (in particular the collected ones),
`samefile(tensor.path, destination_path)` holds iff the tensor's path is the destination name —
another hard link of the old inode still names the old inode, so the test fails for it. This is
what `invalidated` filters on. -/
theorem C08_post_samefile (cfg : Cfg) (s0 : St) (h0 : WF s0) (n0 : Nat) (e : Ext) :
    sameFile (afterReplace cfg.env (tryBody cfg s0) n0 s0).fs (.user e.path) (.user cfg.env.dest)
      = (e.path == cfg.env.dest) := by
  have hr := save_afterReplace cfg s0 h0 n0
  by_cases hp : e.path = cfg.env.dest
  · simp [sameFile, hp, hr.dest]
  · have hb : (e.path == cfg.env.dest) = false := by simpa using hp
    rw [hb]
    simp only [sameFile, hr.others e.path hp, hr.dest]
    cases hf : s0.fs.file (.user e.path) with
    | none => rfl
    | some a =>
      have := h0.named _ _ hf
      have hne : a ≠ s0.fs.next := by omega
      simp [hne]

/-- **C08_invalidate_only_if** (every fault assignment, every visited state): a tensor that was
valid before the save is invalid only if it is in `invalidated` — external, the same file as the
destination before the save, reached through the destination name — *and* `os.replace` has been
executed: the destination, hence the tensor's own path, now names the fresh inode, not the one it
named before (its backing file was actually replaced). -/
theorem C08_invalidate_only_if (cfg : Cfg) (s0 : St) (h0 : WF s0) (n0 : Nat) (f : Nat → Option Nat) :
    ∀ st ∈ (save cfg f n0 s0).steps, ∀ i, st.st.valid i = false →
      s0.valid i = false ∨
      (i ∈ invalidated cfg s0 ∧ st.st.replaced = true ∧
        st.st.fs.file (.user cfg.env.dest) = some s0.fs.next ∧
        st.st.fs.file (.user cfg.env.dest) ≠ s0.fs.file (.user cfg.env.dest) ∧
        ∃ t e, cfg.tensors[i]? = some t ∧ t.ext = some e ∧
          st.st.fs.file (.user e.path) = some s0.fs.next ∧
          st.st.fs.file (.user e.path) ≠ s0.fs.file (.user e.path)) := by
  intro st hst i hi
  have hr := save_afterReplace cfg s0 h0 n0
  rcases (saveWith_two_phase (twoPhase_save cfg s0 h0 n0) (tryBody_tmpOnly cfg s0) f).1 st hst with h | h
  · left; rw [← h.valid]; exact hi
  · rcases h.only i hi with h1 | h1
    · exact Or.inl h1
    · right
      have hd : st.st.fs.file (.user cfg.env.dest) = some s0.fs.next := by
        rw [h.frozen.user, hr.dest]
      have hne : st.st.fs.file (.user cfg.env.dest) ≠ s0.fs.file (.user cfg.env.dest) := by
        rw [hd]
        intro heq
        have := h0.named _ _ heq.symm
        omega
      refine ⟨h1, by rw [h.frozen.replaced, hr.replaced], hd, hne, ?_⟩
      rcases (invalidated_spec s0.fs cfg.env.dest cfg.tensors 0 i).mp h1 with ⟨t, e, ht, _, he, _, hp⟩
      exact ⟨t, e, by simpa using ht, he, by rw [hp]; exact hd, by rw [hp]; exact hne⟩

/-- **C08_invalidate_iff**: if no effect after `os.replace` fails (clean-up and the invalidation
loop run), then when the save ends — normally or with an exception — a tensor is invalid iff it
was already invalid, or it is in `invalidated` (backed by the destination through the destination
name) and the destination was replaced. In particular a tensor reading the old inode through
another hard link stays valid. (Failure of `os.rmdir` after a successful replace is excluded: see
`C08_cleanup_gap`.) -/
theorem C08_invalidate_iff (cfg : Cfg) (s0 : St) (h0 : WF s0) (hrep : s0.replaced = false) (n0 : Nat)
    (f : Nat → Option Nat) (hlate : ∀ m, n0 + 1 + (tryBody cfg s0).length < m → f m = none) (i : Nat) :
    (save cfg f n0 s0).final.valid i = false ↔
      (s0.valid i = false ∨ (i ∈ invalidated cfg s0 ∧ (save cfg f n0 s0).final.replaced = true)) := by
  have hr := save_afterReplace cfg s0 h0 n0
  rcases save_final_cases cfg s0 h0 n0 f hlate with ⟨_, ho⟩ | ⟨_, hp, hall⟩
  · rw [ho.valid, ho.replaced, hrep]; simp
  · constructor
    · intro hi
      rcases hp.only i hi with h1 | h1
      · exact Or.inl h1
      · exact Or.inr ⟨h1, by rw [hp.frozen.replaced, hr.replaced]⟩
    · rintro (h1 | ⟨h1, _⟩)
      · exact hp.keep i h1
      · exact hall i h1

/-- **C08_destination_resolved** (453-456): the path the save works on is not itself a symlink
of the table — `os.replace` therefore never replaces a link, it replaces what the chain ends in —
unless the chain is longer than the fuel (a cycle); and a request that is not a symlink is used as
it is. -/
theorem C08_destination_resolved (links : List (String × String)) :
    ∀ (fuel : Nat) (p : String),
      (links.lookup (resolveLink links fuel p) = none ∨
        ∀ k, k ≤ fuel → links.lookup (resolveLink links k p) ≠ none) ∧
      (links.lookup p = none → resolveLink links fuel p = p)
  | 0, p => by
    refine ⟨?_, fun _ => rfl⟩
    cases h : links.lookup p with
    | none => left; simpa [resolveLink] using h
    | some t =>
      right
      intro k hk
      have : k = 0 := by omega
      subst this
      simp [resolveLink, h]
  | fuel + 1, p => by
    cases h : links.lookup p with
    | none => simp [resolveLink, h]
    | some t =>
      refine ⟨?_, fun h' => by simp [h] at h'⟩
      simp only [resolveLink, h]
      rcases (C08_destination_resolved links fuel t).1 with h1 | h1
      · exact Or.inl h1
      · right
        intro k hk
        cases k with
        | zero => simp [resolveLink, h]
        | succ k => simp only [resolveLink, h]; exact h1 k (by omega)

example : destinationOf [("model.data", "current.data"), ("current.data", "sub/w.bin")] "model.data" = "sub/w.bin" := by
  decide
example : destinationOf [("model.data", "current.data")] "plain.data" = "plain.data" := by decide

/-- **C08_sharded_no_touch**: a (sequential) sharded save never changes a file that existed
before — in every visited state (any crash point) and at the end, for every fault assignment,
every pre-existing caller path names the same inode with the same bytes and mode; and if any shard
destination exists, the pre-flight check raises before a single effect is performed. -/
theorem C08_sharded_no_touch (newMode : Nat) (cb : Bool) (jobs : List (String × List Tensor))
    (f : Nat → Option Nat) (s0 : St) (h0 : WF s0) :
    (jobs.any (fun j => existsP s0.fs (.user j.1)) = true →
      (saveSharded newMode cb jobs f s0).steps = [] ∧ (saveSharded newMode cb jobs f s0).faulted = true) ∧
    (∀ st ∈ (saveSharded newMode cb jobs f s0).steps, ∀ n i, s0.fs.file (.user n) = some i →
      st.st.fs.file (.user n) = some i ∧ st.st.fs.data i = s0.fs.data i ∧ st.st.fs.mode i = s0.fs.mode i) ∧
    (∀ n i, s0.fs.file (.user n) = some i →
      (saveSharded newMode cb jobs f s0).final.fs.file (.user n) = some i ∧
      (saveSharded newMode cb jobs f s0).final.fs.data i = s0.fs.data i ∧
      (saveSharded newMode cb jobs f s0).final.fs.mode i = s0.fs.mode i) := by
  unfold saveSharded
  cases hany : jobs.any (fun j => existsP s0.fs (.user j.1)) with
  | true => simp
  | false =>
    have hj : ∀ j ∈ jobs, s0.fs.file (.user j.1) = none := by
      intro j hjm
      have := List.any_eq_false.mp hany j hjm
      simp only [existsP, Bool.or_eq_true, not_or] at this
      cases hf : s0.fs.file (.user j.1) with
      | none => rfl
      | some i => simp [hf] at this
    have h := shardLoop_kept newMode cb f s0 jobs 0 s0 h0 (Kept.refl s0) hj
    simp only [Bool.false_eq_true, if_false, false_implies, true_and]
    constructor
    · intro st hst n i hn
      have hk := h.1 st hst
      exact ⟨hk.file n i hn, hk.data i (h0.named _ _ hn), hk.mode i (h0.named _ _ hn)⟩
    · intro n i hn
      exact ⟨h.2.file n i hn, h.2.data i (h0.named _ _ hn), h.2.mode i (h0.named _ _ hn)⟩


/-- `unload` when the load phase faulted / did not fault. -/
theorem unload_load_faulted (cfg : Cfg) (small : List (Nat × Ext)) (f : Nat → Option Nat) (s0 : St)
    (h : (runList cfg.env f (loadEffs small) 0 s0).faulted = true) :
    unload cfg small f s0 = runList cfg.env f (loadEffs small) 0 s0 := by
  simp [unload, h]

theorem unload_load_ok (cfg : Cfg) (small : List (Nat × Ext)) (f : Nat → Option Nat) (s0 : St)
    (h : (runList cfg.env f (loadEffs small) 0 s0).faulted = false) :
    (unload cfg small f s0).final =
      (save cfg f (runList cfg.env f (loadEffs small) 0 s0).steps.length
        (runList cfg.env f (loadEffs small) 0 s0).final).final ∧
    (unload cfg small f s0).faulted =
      (save cfg f (runList cfg.env f (loadEffs small) 0 s0).steps.length
        (runList cfg.env f (loadEffs small) 0 s0).final).faulted := by
  simp [unload, h]

/-- **C08_unload_exception**: `C08_exception` for `unload_from_model` (the entry point `ir.save`
uses): exactly one effect fails, while the small external tensors are loaded or in the save up to
and including `os.replace`; then the exception leaves, every caller path has the same inode, bytes
and mode as before, the temporary file and directory are gone and no tensor was invalidated. -/
theorem C08_unload_exception (cfg : Cfg) (small : List (Nat × Ext)) (s0 : St) (h0 : WF s0)
    (hdir : s0.fs.isDir .tmpDir = false) (f : Nat → Option Nat) (k p : Nat) (hk : f k = some p)
    (hone : ∀ n, n ≠ k → f n = none)
    (hhi : k ≤ (loadEffs small).length + 1 + (tryBody cfg s0).length) :
    (unload cfg small f s0).faulted = true ∧
    (∀ n, (unload cfg small f s0).final.fs.file (.user n) = s0.fs.file (.user n) ∧
          content (unload cfg small f s0).final (.user n) = content s0 (.user n) ∧
          ((unload cfg small f s0).final.fs.file (.user n)).map (unload cfg small f s0).final.fs.mode
            = (s0.fs.file (.user n)).map s0.fs.mode) ∧
    (unload cfg small f s0).final.fs.file .tmpFile = none ∧
    (unload cfg small f s0).final.fs.isDir .tmpDir = false ∧
    (unload cfg small f s0).final.valid = s0.valid := by
  have hl := load_phase cfg.env f small 0 s0
  have hs := hl.1
  cases hlf : (runList cfg.env f (loadEffs small) 0 s0).faulted with
  | true =>
    rw [unload_load_faulted cfg small f s0 hlf]
    refine ⟨hlf, fun n => ?_, by rw [hs.fs]; exact h0.fresh, by rw [hs.fs]; exact hdir, hs.valid⟩
    simp [content, hs.fs]
  | false =>
    have hu := unload_load_ok cfg small f s0 hlf
    rw [hu.1, hu.2]
    have hlen := runList_length_nofault cfg.env f _ _ _ hlf
    have hnone := runList_nofault_none cfg.env f _ _ _ hlf
    have hkL : (loadEffs small).length ≤ k := by
      apply Nat.le_of_not_lt
      intro hlt
      have := hnone k (Nat.zero_le _) (by omega)
      rw [this] at hk; simp at hk
    have hwf := sameFS_wf h0 hs
    have hx := C08_exception_serial cfg _ hwf (by rw [hs.fs]; exact hdir)
      (runList cfg.env f (loadEffs small) 0 s0).steps.length f k p hk hone (by omega)
      (by rw [tryBody_congr cfg hs.fs, hlen]; exact hhi)
    simp only [] at hx
    refine ⟨hx.1, fun n => ?_, hx.2.2.1, hx.2.2.2.1, by rw [hx.2.2.2.2.1, hs.valid]⟩
    have hn := hx.2.1 n
    refine ⟨by rw [hn.1, hs.fs], by rw [hn.2.1]; exact sameFS_content hs _, by rw [hn.2.2, hs.fs]⟩

/-- **C08_unload_exception_multi**: fault sequences for `unload_from_model`: if some effect at or
before `os.replace` fails (whatever else fails), the exception leaves, every caller path has the
same inode, bytes and mode as before and no tensor was invalidated. -/
theorem C08_unload_exception_multi (cfg : Cfg) (small : List (Nat × Ext)) (s0 : St) (h0 : WF s0)
    (f : Nat → Option Nat) (k p : Nat) (hk : f k = some p)
    (hhi : k ≤ (loadEffs small).length + 1 + (tryBody cfg s0).length) :
    (unload cfg small f s0).faulted = true ∧
    (∀ n, (unload cfg small f s0).final.fs.file (.user n) = s0.fs.file (.user n) ∧
          content (unload cfg small f s0).final (.user n) = content s0 (.user n) ∧
          ((unload cfg small f s0).final.fs.file (.user n)).map (unload cfg small f s0).final.fs.mode
            = (s0.fs.file (.user n)).map s0.fs.mode) ∧
    (unload cfg small f s0).final.valid = s0.valid := by
  have hl := load_phase cfg.env f small 0 s0
  have hs := hl.1
  cases hlf : (runList cfg.env f (loadEffs small) 0 s0).faulted with
  | true =>
    rw [unload_load_faulted cfg small f s0 hlf]
    refine ⟨hlf, fun n => ?_, hs.valid⟩
    simp [content, hs.fs]
  | false =>
    have hu := unload_load_ok cfg small f s0 hlf
    rw [hu.1, hu.2]
    have hlen := runList_length_nofault cfg.env f _ _ _ hlf
    have hnone := runList_nofault_none cfg.env f _ _ _ hlf
    have hkL : (loadEffs small).length ≤ k := by
      apply Nat.le_of_not_lt
      intro hlt
      have := hnone k (Nat.zero_le _) (by omega)
      rw [this] at hk; simp at hk
    have hwf := sameFS_wf h0 hs
    have hx := C08_exception_multi cfg.env
      (tryBody cfg (runList cfg.env f (loadEffs small) 0 s0).final)
      (postEffs cfg (runList cfg.env f (loadEffs small) 0 s0).final)
      (tryBody_tmpOnly cfg _) (runList cfg.env f (loadEffs small) 0 s0).final hwf
      (runList cfg.env f (loadEffs small) 0 s0).steps.length f k p hk (by omega)
      (by rw [tryBody_congr cfg hs.fs, hlen]; exact hhi)
    simp only [] at hx
    have hfin := hx.2 _ (Or.inl rfl)
    unfold save
    refine ⟨hx.1, fun n => ?_, by rw [hfin.2.1, hs.valid]⟩
    have hn := hfin.1 n
    refine ⟨by rw [hn.1, hs.fs], by rw [hn.2.1]; exact sameFS_content hs _, by rw [hn.2.2, hs.fs]⟩

/-- **C08_unload_crash**: the same crash guarantee for `unload_from_model` (what `ir.save` calls):
small external tensors are first copied to memory, then the single-file save runs; in every
visited state, under every fault assignment, the destination holds its previous bytes or the
complete new bytes. -/
theorem C08_unload_crash (cfg : Cfg) (small : List (Nat × Ext)) (s0 : St) (h0 : WF s0)
    (f : Nat → Option Nat) :
    ∀ st ∈ (unload cfg small f s0).steps,
      content st.st (.user cfg.env.dest) = content s0 (.user cfg.env.dest) ∨
      content st.st (.user cfg.env.dest) = some (image cfg.tensors) := by
  have hl := load_phase cfg.env f small 0 s0
  intro st hst
  unfold unload at hst
  simp only [] at hst
  split at hst
  · exact Or.inl (sameFS_content (hl.2 st hst) _)
  · simp only [List.mem_append] at hst
    rcases hst with hst | hst
    · exact Or.inl (sameFS_content (hl.2 st hst) _)
    · rw [← sameFS_content hl.1]
      exact C08_crash_serial cfg _ (sameFS_wf h0 hl.1) _ f st hst

/-- **C08_unload_fs_frame**: whatever fails, `unload_from_model` never changes a caller path other
than the destination, nor the bytes or mode of any file that existed. -/
theorem C08_unload_fs_frame (cfg : Cfg) (small : List (Nat × Ext)) (s0 : St) (h0 : WF s0)
    (f : Nat → Option Nat) :
    ∀ st ∈ (unload cfg small f s0).steps,
      (∀ n, n ≠ cfg.env.dest → st.st.fs.file (.user n) = s0.fs.file (.user n)) ∧
      (∀ j, j < s0.fs.next → st.st.fs.data j = s0.fs.data j ∧ st.st.fs.mode j = s0.fs.mode j) := by
  have hl := load_phase cfg.env f small 0 s0
  intro st hst
  have hsame : ∀ s, SameFS s0 s →
      (∀ n, n ≠ cfg.env.dest → s.fs.file (.user n) = s0.fs.file (.user n)) ∧
      (∀ j, j < s0.fs.next → s.fs.data j = s0.fs.data j ∧ s.fs.mode j = s0.fs.mode j) := by
    intro s hs; rw [hs.fs]; exact ⟨fun _ _ => rfl, fun _ _ => ⟨rfl, rfl⟩⟩
  unfold unload at hst
  simp only [] at hst
  split at hst
  · exact hsame _ (hl.2 st hst)
  · simp only [List.mem_append] at hst
    rcases hst with hst | hst
    · exact hsame _ (hl.2 st hst)
    · have hk := (save_kept cfg _ (sameFS_wf h0 hl.1) (runList cfg.env f (loadEffs small) 0 s0).steps.length f).1 st hst
      have hfs := hl.1.fs
      refine ⟨fun n hn => ?_, fun j hj => ?_⟩
      · rw [hk.file n hn, hfs]
      · have hj' : j < (runList cfg.env f (loadEffs small) 0 s0).final.fs.next := by rw [hfs]; exact hj
        rw [hk.data j hj', hk.mode j hj', hfs]
        exact ⟨rfl, rfl⟩


/-! ### Non-vacuity: a concrete well-formed state and concrete runs -/

/-- a directory with `m.data` = inode 0 holding `[1,2,3,4]` (mode 0o600) -/
def exFS : FS :=
  ⟨fun p => if p = .user "m.data" then some 0 else none, fun _ => false,
   fun i => if i = 0 then [1, 2, 3, 4] else [], fun _ => 384, 1⟩

def exSt : St := ⟨exFS, none, 0, fun _ => true, fun _ => none, fun _ => none, false, fun _ => none⟩

/-- tensor 0 is in memory (two chunks), tensor 1 is external, backed by the destination -/
def exCfg : Cfg :=
  ⟨⟨"m.data", 420⟩, [⟨0, [[9, 9], [8]], none⟩, ⟨3, [[1, 2]], some ⟨"m.data", 0, 2⟩⟩], true⟩

theorem exSt_wf : WF exSt :=
  ⟨fun p i h => by
      simp only [exSt, exFS] at h ⊢
      split at h
      · simp at h; omega
      · simp at h,
   rfl, rfl, fun _ => rfl⟩

/-- the hypotheses of the theorems are satisfiable, and the run really replaces the file -/
example : WF exSt ∧ exSt.fs.isDir .tmpDir = false ∧ exSt.replaced = false := ⟨exSt_wf, rfl, rfl⟩
example : overwritten exCfg exSt = [1] ∧ invalidated exCfg exSt = [1] := by decide
example : (save exCfg (fun _ => none) 0 exSt).faulted = false := by decide
example : content (save exCfg (fun _ => none) 0 exSt).final (.user "m.data") = some [9, 9, 8, 1, 2] := by
  decide
example : image exCfg.tensors = [9, 9, 8, 1, 2] := by decide
example : (save exCfg (fun _ => none) 0 exSt).final.valid 1 = false ∧
    (save exCfg (fun _ => none) 0 exSt).final.valid 0 = true := by decide
/-- a single fault in the middle of a write (effect 5 = second chunk, one byte gets through):
raised, destination as before, temporary paths gone, tensor still valid and readable -/
example :
    let r := save exCfg (fun n => if n = 5 then some 1 else none) 0 exSt
    r.faulted = true ∧ content r.final (.user "m.data") = some [1, 2, 3, 4] ∧
    r.final.fs.file .tmpFile = none ∧ r.final.fs.isDir .tmpDir = false ∧ r.final.valid 1 = true ∧
    readT r.final 1 ⟨"m.data", 0, 2⟩ = some [1, 2] := by decide
/-- the crash state of that run (the state right after the failed step) has a half-written
temporary file, and the destination untouched -/
example :
    let r := save exCfg (fun n => if n = 5 then some 0 else none) 0 exSt
    (r.steps.find? (·.failed)).map (fun st => (content st.st .tmpFile, content st.st (.user "m.data")))
      = some (some [9, 9], some [1, 2, 3, 4]) := by decide

/-- The clean-up gap (D131; why `C08_invalidate_iff` excludes faults after the replace): if
`os.rmdir` fails *after* a successful `os.replace`, the exception skips the invalidation loop —
the destination already holds the new bytes, the tensor backed by it is still marked valid and
now reads bytes of the new file. (Observed on the real code too; the English property only asks
for the "only when" direction, `C08_invalidate_only_if`.) -/
example :
    let r := save exCfg (fun n => if n = 14 then some 0 else none) 0 exSt
    r.faulted = true ∧ r.final.replaced = true ∧
    content r.final (.user "m.data") = some [9, 9, 8, 1, 2] ∧ r.final.valid 1 = true ∧
    readT r.final 1 ⟨"m.data", 0, 2⟩ = some [9, 9] := by decide

/-- hard link (D133, fixed): tensor 1 reads the old inode through `hard.data`; it is collected (released)
but not invalidated, and still reads the old bytes after the destination was replaced -/
example :
    let fs : FS := { exFS with file := fun p => if p = .user "m.data" ∨ p = .user "hard.data" then some 0 else none }
    let s : St := { exSt with fs := fs }
    let cfg : Cfg := ⟨⟨"m.data", 420⟩, [⟨0, [[9, 9, 8]], none⟩, ⟨3, [[1, 2]], some ⟨"hard.data", 0, 2⟩⟩], false⟩
    overwritten cfg s = [1] ∧ invalidated cfg s = [] ∧
    (save cfg (fun _ => none) 0 s).final.valid 1 = true ∧
    readT (save cfg (fun _ => none) 0 s).final 1 ⟨"hard.data", 0, 2⟩ = some [1, 2] ∧
    content (save cfg (fun _ => none) 0 s).final (.user "m.data") = some [9, 9, 8, 1, 2] := by decide

/-- unload: tensor 7 is small and external (backed by the destination); its copy holds the old bytes
although the destination has been replaced -/
example :
    let r := unload exCfg [(7, ⟨"m.data", 1, 2⟩)] (fun _ => none) exSt
    r.faulted = false ∧ r.final.mem 7 = some [2, 3] ∧
    content r.final (.user "m.data") = some [9, 9, 8, 1, 2] := by decide

/-- the parallel writer's effects: two workers with their own handles write out of order into the
preallocated temporary file; the result is the same image, and a fault on worker 1's write leaves
the destination as it was -/
def exWriter : List Eff :=
  [.openTmp, .truncate 5, .closeTmp, .openW 0, .openW 1, .seekW 1 3, .writeW 1 [1, 2], .seekW 0 0,
   .writeW 0 [9, 9, 8], .closeW 0, .closeW 1]
example : (∀ e ∈ exWriter, e.tmpOnly = true) ∧
    content (saveWriter exCfg exWriter (fun _ => none) 0 exSt).final (.user "m.data") = some [9, 9, 8, 1, 2] ∧
    (saveWriter exCfg exWriter (fun n => if n = 7 then some 1 else none) 0 exSt).faulted = true ∧
    content (saveWriter exCfg exWriter (fun n => if n = 7 then some 1 else none) 0 exSt).final (.user "m.data")
      = some [1, 2, 3, 4] := by decide

/-- sharded: the pre-flight refuses when a shard name exists, and otherwise runs -/
example : (saveSharded 420 false [("m.data", [])] (fun _ => none) exSt).steps.length = 0 := by decide
example : (saveSharded 420 false [("a-1", [⟨0, [[7]], none⟩]), ("a-2", [⟨0, [[8]], none⟩])]
    (fun _ => none) exSt).faulted = false ∧
    content (saveSharded 420 false [("a-1", [⟨0, [[7]], none⟩]), ("a-2", [⟨0, [[8]], none⟩])]
      (fun _ => none) exSt).final (.user "a-2") = some [8] := by decide

/-! ## Deepening round: symbolic links, every schedule of the parallel writer, the whole sharded save

Model: `Model/AtomicSaveLinks.lean`; helper lemmas: `Lemmas/AtomicSaveLinks.lean`. -/

/-- **C08_destination_entry** (453-457, 467-471, 496): for every link table (chains of any length,
relative or absolute texts, `..`, links in the middle of a path = symlinked directories, dangling
links), every request whose last component is a proper file name and every amount of gas: if the
destination can be resolved at all, the directory entry `os.replace` overwrites is *not* the location
of a symbolic link; it is exactly what the requested path reaches when every link is followed (or
the kernel cannot follow the request at all, then nothing is reachable through it); and the
temporary directory is created in that entry's own (real) directory, so the rename never crosses
directories of different file systems. This supersedes `C08_destination_resolved`, which knew links
only as a name-to-name table. -/
theorem C08_destination_entry (L : Links) (gas : Nat) (requested entry : Comps)
    (hb : properBase requested = true) (h : destEntryL L gas requested = some entry) :
    L.lookup entry = none ∧
    (realpathL L gas requested = none ∨ realpathL L gas requested = some entry) ∧
    ∃ d, destinationPathL L gas requested = some d ∧ tmpParentL L gas d = some entry.dropLast :=
  destEntry_spec L gas requested entry hb h

/-- `saveL` unfolded. -/
theorem saveL_eq {L0 : Links} {c : LCfg} {f : Nat → Option Nat} {n0 : Nat} {s0 : St} {r : LRes}
    (h : saveL L0 c f n0 s0 = some r) :
    ∃ entry, destEntryL L0 c.gas c.requested = some entry ∧
      r = saveWithL (lower L0 c entry).env entry (tryBody (lower L0 c entry) s0)
        (postEffs (lower L0 c entry) s0) f n0 ⟨s0, L0⟩ := by
  unfold saveL at h
  split at h
  · simp at h
  · rename_i entry he
    simp only [Option.some.injEq] at h
    exact ⟨entry, he, h.symm⟩

/-- **C08_symlink_kept**: whatever fails and wherever the process dies, the save never changes a
symbolic link: in every visited state and at the end the link table is the initial one — in
particular the requested path, if it was a symbolic link, still is the same link with the same text,
and so is every link of the chain and every symlinked directory on the way. (`os.replace` overwrites
the resolved entry, never a link: `C08_destination_entry`.) -/
theorem C08_symlink_kept (L0 : Links) (c : LCfg) (hb : properBase c.requested = true)
    (f : Nat → Option Nat) (n0 : Nat) (s0 : St) (r : LRes) (h : saveL L0 c f n0 s0 = some r) :
    (∀ st ∈ r.steps, st.st.links = L0) ∧ r.final.links = L0 := by
  rcases saveL_eq h with ⟨entry, he, rfl⟩
  have hk := eraseKey_of_lookup_none entry L0 (destEntry_spec L0 c.gas c.requested entry hb he).1
  have hs := saveWithL_spec (lower L0 c entry).env entry (tryBody (lower L0 c entry) s0)
    (postEffs (lower L0 c entry) s0) f n0 s0 L0 hk
  exact ⟨hs.2.2.2.2, hs.2.2.2.1⟩

/-- The tensors' bytes do not depend on how their paths are spelled. -/
theorem image_lower (L : Links) (gas : Nat) (ts : List LTensor) :
    image (ts.map (toTensor L gas)) = image (ts.map fun t => ⟨t.off, t.chunks, none⟩) := by
  simp only [image, List.foldl_map, toTensor]

/-- **C08_crash_links** (`C08_crash` through the requested path): for every link table, request,
tensor list, fault assignment and every visited state (= every crash point, incl. mid-write and while
the handlers run), the bytes reachable *through the requested path* — following the whole chain of
links as it is in that state — are exactly the bytes reachable before the save, or exactly the
complete new bytes. -/
theorem C08_crash_links (L0 : Links) (c : LCfg) (hb : properBase c.requested = true)
    (f : Nat → Option Nat) (n0 : Nat) (s0 : St) (h0 : WF s0) (r : LRes)
    (h : saveL L0 c f n0 s0 = some r) :
    ∀ st ∈ r.steps,
      reachL st.st.links c.gas st.st.st c.requested = reachL L0 c.gas s0 c.requested ∨
      reachL st.st.links c.gas st.st.st c.requested = some (image (c.tensors.map (toTensor L0 c.gas))) := by
  rcases saveL_eq h with ⟨entry, he, rfl⟩
  have hd := destEntry_spec L0 c.gas c.requested entry hb he
  have hk := eraseKey_of_lookup_none entry L0 hd.1
  have hs := saveWithL_spec (lower L0 c entry).env entry (tryBody (lower L0 c entry) s0)
    (postEffs (lower L0 c entry) s0) f n0 s0 L0 hk
  intro st hst
  rw [hs.2.2.2.2 st hst]
  rcases hd.2.1 with hnone | hsome
  · left; simp [reachL, hnone]
  · have hm := mem_steps_of_map hs.1 hst
    have hc := C08_crash_serial (lower L0 c entry) s0 h0 n0 f st.toStep hm
    simp only [reachL, hsome, Option.bind_some]
    simpa [content, lower, LStep.toStep, save] using hc

/-- **C08_exception_links** (`C08_exception` with links): exactly one effect fails, at or before
`os.replace`; then the exception leaves, no symbolic link changed, *every* path (spelled any way)
reaches the bytes it reached before, the temporary file and directory are gone and no tensor was
invalidated. -/
theorem C08_exception_links (L0 : Links) (c : LCfg) (hb : properBase c.requested = true)
    (s0 : St) (h0 : WF s0) (hdir : s0.fs.isDir .tmpDir = false) (n0 : Nat) (f : Nat → Option Nat)
    (entry : Comps) (he : destEntryL L0 c.gas c.requested = some entry) (r : LRes)
    (h : saveL L0 c f n0 s0 = some r) (k p : Nat) (hk : f k = some p)
    (hone : ∀ n, n ≠ k → f n = none) (hlo : n0 ≤ k)
    (hhi : k ≤ n0 + 1 + (tryBody (lower L0 c entry) s0).length) :
    r.faulted = true ∧ r.final.links = L0 ∧
    (∀ q, reachL r.final.links c.gas r.final.st q = reachL L0 c.gas s0 q) ∧
    r.final.st.fs.file .tmpFile = none ∧ r.final.st.fs.isDir .tmpDir = false ∧
    r.final.st.valid = s0.valid := by
  rcases saveL_eq h with ⟨entry', he', rfl⟩
  have : entry' = entry := by rw [he] at he'; exact (Option.some.inj he').symm
  subst this
  have hd := destEntry_spec L0 c.gas c.requested entry' hb he
  have hkk := eraseKey_of_lookup_none entry' L0 hd.1
  have hs := saveWithL_spec (lower L0 c entry').env entry' (tryBody (lower L0 c entry') s0)
    (postEffs (lower L0 c entry') s0) f n0 s0 L0 hkk
  have hx := C08_exception_serial (lower L0 c entry') s0 h0 hdir n0 f k p hk hone hlo hhi
  simp only [save] at hx
  refine ⟨by rw [hs.2.2.1]; exact hx.1, hs.2.2.2.1, fun q => ?_, by rw [hs.2.1]; exact hx.2.2.1,
    by rw [hs.2.1]; exact hx.2.2.2.1, by rw [hs.2.1]; exact hx.2.2.2.2.1⟩
  rw [hs.2.2.2.1, hs.2.1]
  simp only [reachL]
  cases realpathL L0 c.gas q with
  | none => rfl
  | some rq =>
    have := (hx.2.1 (nameOf rq)).2.1
    simpa [content] using this

/-- **C08_invalidate_iff_links** (`C08_invalidate_iff` with symbolic-link aliases and hard links, as
after `fix:` 43b6cd9): if no effect after `os.replace` fails, then at the end a tensor is invalid iff
it was invalid before, or the destination was replaced, the destination entry named a file, and the
tensor is an external tensor whose path — spelled any way: the requested name, any link of the
chain, a path through a symlinked directory, the real name — resolves to that very entry. A tensor
that reads the old inode through another *hard link* (a different entry) stays valid, and so does
every tensor when the save fails. -/
theorem C08_invalidate_iff_links (L0 : Links) (c : LCfg) (s0 : St) (h0 : WF s0) (hb : properBase c.requested = true)
    (hrep : s0.replaced = false) (n0 : Nat) (f : Nat → Option Nat)
    (entry : Comps) (he : destEntryL L0 c.gas c.requested = some entry) (r : LRes)
    (h : saveL L0 c f n0 s0 = some r)
    (hlate : ∀ m, n0 + 1 + (tryBody (lower L0 c entry) s0).length < m → f m = none) (i : Nat) :
    r.final.st.valid i = false ↔
      (s0.valid i = false ∨
        (r.final.st.replaced = true ∧ (s0.fs.file (.user (nameOf entry))).isSome = true ∧
          ∃ t e, c.tensors[i]? = some t ∧ t.ext = some e ∧
            followName L0 c.gas e.path = nameOf entry)) := by
  rcases saveL_eq h with ⟨entry', he', rfl⟩
  have : entry' = entry := by rw [he] at he'; exact (Option.some.inj he').symm
  subst this
  have hd := destEntry_spec L0 c.gas c.requested entry' hb he
  have hkk := eraseKey_of_lookup_none entry' L0 hd.1
  have hs := saveWithL_spec (lower L0 c entry').env entry' (tryBody (lower L0 c entry') s0)
    (postEffs (lower L0 c entry') s0) f n0 s0 L0 hkk
  have hx := C08_invalidate_iff (lower L0 c entry') s0 h0 hrep n0 f hlate i
  simp only [save] at hx
  rw [hs.2.1, hx]
  have hin : i ∈ invalidated (lower L0 c entry') s0 ↔
      ((s0.fs.file (.user (nameOf entry'))).isSome = true ∧
        ∃ t e, c.tensors[i]? = some t ∧ t.ext = some e ∧ followName L0 c.gas e.path = nameOf entry') := by
    unfold invalidated
    rw [invalidated_spec]
    simp only [lower, Nat.sub_zero, Nat.zero_le, true_and, List.getElem?_map, Option.map_eq_some_iff]
    constructor
    · rintro ⟨t, e, ⟨lt, hlt, rfl⟩, hext, hsf, hp⟩
      simp only [toTensor, Option.map_eq_some_iff] at hext
      rcases hext with ⟨le, hle, rfl⟩
      simp only at hp hsf
      refine ⟨?_, lt, le, hlt, hle, hp⟩
      rw [hp] at hsf
      simp only [sameFile] at hsf
      cases hf : s0.fs.file (.user (nameOf entry')) with
      | none => simp [hf] at hsf
      | some a => rfl
    · rintro ⟨hsome, lt, le, hlt, hle, hp⟩
      refine ⟨toTensor L0 c.gas lt, ⟨followName L0 c.gas le.path, le.off, le.len⟩, ⟨lt, hlt, rfl⟩, ?_, ?_, hp⟩
      · simp [toTensor, hle]
      · simp only [hp, sameFile]
        cases hf : s0.fs.file (.user (nameOf entry')) with
        | none => simp [hf] at hsome
        | some a => simp
  rw [hin]
  constructor
  · rintro (h1 | ⟨⟨h2, h3⟩, h4⟩)
    · exact Or.inl h1
    · exact Or.inr ⟨h4, h2, h3⟩
  · rintro (h1 | ⟨h4, h2, h3⟩)
    · exact Or.inl h1
    · exact Or.inr ⟨⟨h2, h3⟩, h4⟩

/-- **C08_parallel_language**: every trace of the language of `_write_parallel` (`parValid`: the
prelude, any interleaving of the workers' `openW/seekW/writeW` and the call-backs, the closing of
the handles) consists of effects on the temporary file only. The harness checks on every run that
the traces of the real parallel writer belong to this language. -/
theorem C08_parallel_language (cfg : Cfg) (maxWorkers : Nat) (trace : List Eff)
    (h : parValid cfg maxWorkers trace = true) : ∀ e ∈ trace, e.tmpOnly = true := by
  unfold parValid at h
  split at h
  · rename_i n rest
    simp only [Bool.and_eq_true] at h
    have hmid := h.1.1.1.1.1.1.2
    have hcl := h.1.1.1.1.1.2
    intro e he
    simp only [List.mem_cons] at he
    rcases he with rfl | rfl | rfl | he
    · rfl
    · rfl
    · rfl
    · rw [← List.takeWhile_append_dropWhile (p := fun e => !isCloseW e) (l := rest)] at he
      simp only [List.mem_append] at he
      rcases he with he | he
      · have := List.all_eq_true.mp hmid e he
        cases e <;> first | rfl | simp [isMid] at this
      · have := List.all_eq_true.mp hcl e he
        cases e <;> first | rfl | simp [isCloseW] at this
  · simp at h

/-- States in which `os.replace` has not been executed show the caller exactly what it saw before
the save (helper for the schedule theorems). -/
theorem saveWith_unreplaced_old (env : Env) (body post : List Eff) (hb : ∀ e ∈ body, e.tmpOnly = true)
    (hp : ∀ e ∈ post, e.noData = true) (s0 : St) (h0 : WF s0) (n0 : Nat) (f : Nat → Option Nat) :
    ∀ st ∈ (saveWith env body post f n0 s0).steps, st.st.replaced = false →
      ∀ n, content st.st (.user n) = content s0 (.user n) := by
  intro st hst hrep n
  rcases (saveWith_states env body post hb hp s0 h0 n0 f).1 st hst with ho | hfz
  · exact old_content h0 ho n
  · rw [frozen_content hfz]
    have ho2 : Old s0 (runList env (fun _ => none) body (n0 + 1) (apply env s0 .mkdtemp)).final :=
      (runList_old env (fun _ => none) body hb (n0 + 1) _ (old_apply env .mkdtemp rfl (Old.refl s0 h0))).1
    have hr := hfz.replaced
    rw [hrep] at hr
    unfold afterReplace at hr ⊢
    generalize (runList env (fun _ => none) body (n0 + 1) (apply env s0 .mkdtemp)).final = s2 at ho2 hr ⊢
    cases ht : s2.fs.file .tmpFile with
    | some t => simp [apply, ht] at hr
    | none =>
      have : apply env s2 .replace = s2 := by simp [apply, ht]
      rw [this]
      exact old_content h0 ho2 n

/-- **C08_crash_schedule** (every schedule of the parallel writer, with failures inside the block):
let the writer block be *any* sequence of effects on the temporary file in which *any* subset of
effects failed while the block went on — every interleaving of the workers of `_write_parallel`
(`C08_parallel_language`), the other workers running on after a failure, the handles being closed in
the `finally` — and let any effects outside the block fail as well. Then in every visited state
(every crash point) the destination holds exactly its previous bytes or exactly the bytes of the
fault-free save; and as long as `os.replace` has not been executed every caller path shows exactly
the bytes it showed before the save. -/
theorem C08_crash_schedule (cfg : Cfg) (m : List Marked) (hm : ∀ x ∈ m, x.1.tmpOnly = true)
    (s0 : St) (h0 : WF s0) (n0 : Nat) (f : Nat → Option Nat) :
    ∀ st ∈ (saveMarked cfg m f n0 s0).steps,
      (content st.st (.user cfg.env.dest) = content s0 (.user cfg.env.dest) ∨
        content st.st (.user cfg.env.dest) =
          content (saveWriter cfg (m.map (·.1)) (fun _ => none) n0 s0).final (.user cfg.env.dest)) ∧
      (st.st.replaced = false → ∀ n, content st.st (.user n) = content s0 (.user n)) := by
  have hw : ∀ e ∈ m.map (·.1), e.tmpOnly = true := by
    intro e he
    simp only [List.mem_map] at he
    rcases he with ⟨x, hx, rfl⟩
    exact hm x hx
  intro st hst
  unfold saveMarked at hst
  split at hst
  · generalize (fun k => if n0 < k ∧ k ≤ n0 + m.length then none else f k) = f' at hst
    have h1 := C08_crash_writer cfg (m.map (·.1)) hw s0 h0 n0 f' st hst
    have hst' : st ∈ (saveWith cfg.env (tryBodyWith cfg s0 (m.map (·.1))) (postEffs cfg s0) f' n0 s0).steps := hst
    have h2 := saveWith_unreplaced_old cfg.env (tryBodyWith cfg s0 (m.map (·.1))) (postEffs cfg s0)
      (tryBodyWith_tmpOnly cfg s0 _ hw) (postEffs_noData cfg s0) s0 h0 n0 f' st hst'
    exact ⟨h1, h2⟩
  · have hold : Old s0 st.st := by
      simp only [] at hst
      have ha := runList_old cfg.env f [.mkdtemp] (by intro e he; simp at he; subst he; rfl) n0 s0 (Old.refl s0 h0)
      split at hst
      · exact ha.2 st hst
      · have hb := runMarked_old cfg.env m hm _ ha.1
        have hc := runList_old cfg.env f [.removeTmp, .rmdirTmp] cleanup_tmpOnly (n0 + 1 + m.length) _ hb.1
        simp only [List.mem_append] at hst
        rcases hst with (hst | hst) | hst
        · exact ha.2 st hst
        · exact hb.2 st hst
        · exact hc.2 st hst
    exact ⟨Or.inl (old_content h0 hold _), fun _ n => old_content h0 hold n⟩

/-- **C08_exception_schedule**: if some effect of the writer block failed — under any schedule,
whatever the other workers still did, whatever else fails — the exception leaves the function and in
every visited state and at the end every caller path names the same inode with the same bytes and
mode as before, no tensor was invalidated and every external tensor reads what it read before. -/
theorem C08_exception_schedule (cfg : Cfg) (m : List Marked) (hm : ∀ x ∈ m, x.1.tmpOnly = true)
    (hfail : allOk m = false) (s0 : St) (h0 : WF s0) (n0 : Nat) (f : Nat → Option Nat) :
    let r := saveMarked cfg m f n0 s0
    r.faulted = true ∧
    ∀ s, (s = r.final ∨ ∃ st ∈ r.steps, s = st.st) →
      (∀ n, s.fs.file (.user n) = s0.fs.file (.user n) ∧ content s (.user n) = content s0 (.user n) ∧
            (s.fs.file (.user n)).map s.fs.mode = (s0.fs.file (.user n)).map s0.fs.mode) ∧
      s.valid = s0.valid ∧
      (∀ i e, (∀ mm, s0.mapped i = some mm → s0.fs.file (.user e.path) = some mm) →
        readT s i e = readT s0 i e) := by
  intro r
  have ha := runList_old cfg.env f [.mkdtemp] (by intro e he; simp at he; subst he; rfl) n0 s0 (Old.refl s0 h0)
  have key : r.faulted = true ∧ Old s0 r.final ∧ ∀ st ∈ r.steps, Old s0 st.st := by
    show (saveMarked cfg m f n0 s0).faulted = true ∧ Old s0 (saveMarked cfg m f n0 s0).final ∧
      ∀ st ∈ (saveMarked cfg m f n0 s0).steps, Old s0 st.st
    unfold saveMarked
    simp only [hfail, Bool.false_eq_true, if_false]
    split
    · rename_i hf
      exact ⟨hf, ha.1, ha.2⟩
    · have hb := runMarked_old cfg.env m hm _ ha.1
      have hc := runList_old cfg.env f [.removeTmp, .rmdirTmp] cleanup_tmpOnly (n0 + 1 + m.length) _ hb.1
      refine ⟨rfl, hc.1, ?_⟩
      intro st hst
      simp only [List.mem_append] at hst
      rcases hst with (hst | hst) | hst
      · exact ha.2 st hst
      · exact hb.2 st hst
      · exact hc.2 st hst
  refine ⟨key.1, ?_⟩
  intro s hs
  have ho : Old s0 s := by
    rcases hs with rfl | ⟨st, hst, rfl⟩
    · exact key.2.1
    · exact key.2.2 st hst
  exact ⟨fun n => ⟨ho.user n, old_content h0 ho n, old_mode h0 ho n⟩, ho.valid,
    fun i e hmm => old_read h0 ho i e hmm⟩

/-- The final state of a serial save: old or new (helper: `C08_crash_serial` for the state the
function returns or raises in). -/
theorem save_final_content (cfg : Cfg) (s0 : St) (h0 : WF s0) (n0 : Nat) (f : Nat → Option Nat) :
    content (save cfg f n0 s0).final (.user cfg.env.dest) = content s0 (.user cfg.env.dest) ∨
    content (save cfg f n0 s0).final (.user cfg.env.dest) = some (image cfg.tensors) := by
  rw [← C08_new_is_image cfg s0 h0 n0]
  unfold save
  have hnew := saveWith_none_frozen cfg.env (tryBody cfg s0) (postEffs cfg s0) (postEffs_noData cfg s0) s0 n0
  rcases (saveWith_states cfg.env (tryBody cfg s0) (postEffs cfg s0) (tryBody_tmpOnly cfg s0)
    (postEffs_noData cfg s0) s0 h0 n0 f).2 with h | h
  · left; exact old_content h0 h _
  · right; rw [frozen_content h, frozen_content hnew]

/-- "Old, or the complete image of a shard that is written there." -/
def ShardInv (jobs : List (String × List Tensor)) (s0 s : St) : Prop :=
  ∀ n, content s (.user n) = content s0 (.user n) ∨
    ∃ ts, (n, ts) ∈ jobs ∧ content s (.user n) = some (image ts)

theorem shardLoop_crash (newMode : Nat) (cb : Bool) (f : Nat → Option Nat)
    (all : List (String × List Tensor)) (s0 : St) :
    ∀ (jobs : List (String × List Tensor)) (n : Nat) (s : St), (∀ j ∈ jobs, j ∈ all) → WF s →
      ShardInv all s0 s →
      (∀ st ∈ (shardLoop newMode cb f jobs n s).steps, ShardInv all s0 st.st) ∧
      ShardInv all s0 (shardLoop newMode cb f jobs n s).final
  | [], _, s, _, _, hi => by simp [shardLoop, hi]
  | (d, ts) :: rest, n, s, hsub, hs, hi => by
    have hmem : (d, ts) ∈ all := hsub (d, ts) (by simp)
    have hk := save_kept ⟨⟨d, newMode⟩, ts, cb⟩ s hs n f
    have step : ∀ st : St, KeptBut d s st →
        (content st (.user d) = content s (.user d) ∨ content st (.user d) = some (image ts)) →
        ShardInv all s0 st := by
      intro st hkb hd x
      by_cases hx : x = d
      · subst hx
        rcases hd with hd | hd
        · rw [hd]; exact hi x
        · exact Or.inr ⟨ts, hmem, hd⟩
      · rw [keptBut_content hs.named hkb x hx]; exact hi x
    have hvis : ∀ st ∈ (save ⟨⟨d, newMode⟩, ts, cb⟩ f n s).steps, ShardInv all s0 st.st :=
      fun st hst => step st.st (hk.1 st hst) (C08_crash_serial ⟨⟨d, newMode⟩, ts, cb⟩ s hs n f st hst)
    have hfin : ShardInv all s0 (save ⟨⟨d, newMode⟩, ts, cb⟩ f n s).final :=
      step _ hk.2 (save_final_content ⟨⟨d, newMode⟩, ts, cb⟩ s hs n f)
    simp only [shardLoop]
    split
    · exact ⟨hvis, hfin⟩
    · rename_i hok
      have hok' : (save ⟨⟨d, newMode⟩, ts, cb⟩ f n s).faulted = false := by simpa using hok
      have hwf := save_ok_wf ⟨⟨d, newMode⟩, ts, cb⟩ s hs n f hok'
      have ih := shardLoop_crash newMode cb f all s0 rest
        (n + (save ⟨⟨d, newMode⟩, ts, cb⟩ f n s).steps.length) _
        (fun j hj => hsub j (by simp [hj])) hwf hfin
      refine ⟨?_, ih.2⟩
      intro st hst
      simp only [List.mem_append] at hst
      rcases hst with hst | hst
      · exact hvis st hst
      · exact ih.1 st hst

/-- **C08_sharded_crash** (`C08_crash` across the whole multi-file save): in every visited state of a
sequential sharded save — every crash point inside any shard's save and between shard i and shard
i+1 — and at the end, under every fault assignment, *every* caller path holds exactly the bytes it
held before the save, or it is the destination of a shard and holds exactly that shard's complete
bytes; never a mixture, never a truncation, of any file. (With `C08_sharded_no_touch`: a path that
existed before always is in the first case.) -/
theorem C08_sharded_crash (newMode : Nat) (cb : Bool) (jobs : List (String × List Tensor))
    (f : Nat → Option Nat) (s0 : St) (h0 : WF s0) :
    (∀ st ∈ (saveSharded newMode cb jobs f s0).steps, ∀ n,
      content st.st (.user n) = content s0 (.user n) ∨
      ∃ ts, (n, ts) ∈ jobs ∧ content st.st (.user n) = some (image ts)) ∧
    (∀ n, content (saveSharded newMode cb jobs f s0).final (.user n) = content s0 (.user n) ∨
      ∃ ts, (n, ts) ∈ jobs ∧
        content (saveSharded newMode cb jobs f s0).final (.user n) = some (image ts)) := by
  unfold saveSharded
  split
  · simp
  · exact shardLoop_crash newMode cb f jobs s0 jobs 0 s0 (fun _ h => h) h0 (fun _ => Or.inl rfl)

/-! ### Non-vacuity of the deepening-round theorems -/

/-- `model.data -> current.data -> (absolute) store/w.bin`, a symlinked directory `ld -> sub`, a link with
`..` in its text, a dangling link and a cycle -/
def exLinks : Links :=
  [(["model.data"], ⟨false, ["current.data"]⟩), (["current.data"], ⟨true, ["store", "w.bin"]⟩),
   (["ld"], ⟨false, ["sub"]⟩), (["sub", "up"], ⟨false, ["..", "store", "w.bin"]⟩),
   (["dangling"], ⟨false, ["store", "new.bin"]⟩), (["a"], ⟨false, ["b"]⟩), (["b"], ⟨false, ["a"]⟩)]

/-- `store/w.bin` = inode 0 `[1,2,3,4]`, `hard.data` another name of inode 0 -/
def exFSL : FS :=
  ⟨fun p => if p = .user "store/w.bin" ∨ p = .user "hard.data" then some 0 else none, fun _ => false,
   fun i => if i = 0 then [1, 2, 3, 4] else [], fun _ => 384, 1⟩

def exStL : St := ⟨exFSL, none, 0, fun _ => true, fun _ => none, fun _ => none, false, fun _ => none⟩

theorem exStL_wf : WF exStL :=
  ⟨fun p i h => by
      simp only [exStL, exFSL] at h ⊢
      split at h
      · simp at h; omega
      · simp at h,
   rfl, rfl, fun _ => rfl⟩

/-- tensor 0 in memory; 1 reads the file through the symlinked directory and a `..` link; 2 through
the hard link; 3 through the requested name -/
def exCfgL : LCfg :=
  ⟨40, ["model.data"], 420,
   [⟨0, [[9, 9, 8]], none⟩, ⟨3, [[1, 2]], some ⟨["ld", "up"], 0, 2⟩⟩, ⟨5, [[3]], some ⟨["hard.data"], 2, 1⟩⟩,
    ⟨6, [[4]], some ⟨["model.data"], 3, 1⟩⟩], false⟩

example : properBase exCfgL.requested = true := by decide
example : destEntryL exLinks 40 ["model.data"] = some ["store", "w.bin"] := by decide
example : destEntryL exLinks 40 ["ld", "m.data"] = some ["sub", "m.data"] := by decide
example : destEntryL exLinks 40 ["dangling"] = some ["store", "new.bin"] := by decide
example : destEntryL exLinks 40 ["a"] = none := by decide
example : isLinkL exLinks 40 ["ld", "up"] = true ∧ realpathL exLinks 40 ["ld", "up"] = some ["store", "w.bin"] := by
  decide
/-- the two-hop chain is kept, the bytes behind the requested name are replaced, the aliases (1, 3) are
invalidated, the hard-link reader (2) is not and still reads the old byte -/
def exResL : Option LRes := saveL exLinks exCfgL (fun _ => none) 0 exStL
example : exResL.map (·.faulted) = some false := by decide
example : exResL.map (·.final.links) = some exLinks := by decide
example : exResL.map (fun r => reachL r.final.links 40 r.final.st ["model.data"]) = some (some [9, 9, 8, 1, 2, 3, 4]) := by
  decide
example : exResL.map (fun r => [0, 1, 2, 3].map r.final.st.valid) = some [true, false, true, false] := by decide
example : exResL.map (fun r => readT r.final.st 2 ⟨"hard.data", 2, 1⟩) = some (some [3]) := by decide
/-- a replace that targeted the *requested* entry would destroy the link (what `applyL` can express
and `C08_symlink_kept` excludes) -/
example : eraseKey ["model.data"] exLinks ≠ exLinks := by decide
/-- a fault in the middle (one byte of the first write gets through): old bytes through every alias -/
def exResLF : Option LRes := saveL exLinks exCfgL (fun n => if n = 3 then some 1 else none) 0 exStL
example : exResLF.map (·.faulted) = some true := by decide
example : exResLF.map (fun r => reachL r.final.links 40 r.final.st ["model.data"]) = some (some [1, 2, 3, 4]) := by decide
example : exResLF.map (fun r => reachL r.final.links 40 r.final.st ["ld", "up"]) = some (some [1, 2, 3, 4]) := by decide
example : exResLF.map (fun r => r.final.st.valid 1) = some true := by decide

/-- the parallel writer's example trace is in the language; a trace that skips a tensor is not -/
example : parValid exCfg 2 [.openTmp, .truncate 5, .closeTmp, .openW 0, .callback 1, .openW 1, .callback 0, .seekW 1 0,
    .seekW 0 3, .writeW 1 [9, 9], .writeW 0 [1, 2], .writeW 1 [8], .closeW 0, .closeW 1] = true := by decide
example : parValid { exCfg with cb := false } 2 [.openTmp, .truncate 5, .closeTmp, .openW 0, .seekW 0 0, .writeW 0 [9, 9], .writeW 0 [8], .closeW 0] = false := by
  decide
/-- worker 1's write fails after one byte, worker 0 runs on, the handles are closed: the exception
leaves, the destination is as before -/
def exMarked : List Marked :=
  [(.openTmp, none), (.truncate 5, none), (.closeTmp, none), (.openW 0, none), (.openW 1, none), (.seekW 1 3, none),
   (.writeW 1 [1, 2], some 1), (.seekW 0 0, none), (.writeW 0 [9, 9, 8], none), (.closeW 0, none), (.closeW 1, none)]
example : allOk exMarked = false ∧ (∀ x ∈ exMarked, x.1.tmpOnly = true) ∧
    (saveMarked exCfg exMarked (fun _ => none) 0 exSt).faulted = true ∧
    (saveMarked exCfg exMarked (fun _ => none) 0 exSt).steps.length = 14 ∧
    content (saveMarked exCfg exMarked (fun _ => none) 0 exSt).final (.user "m.data") = some [1, 2, 3, 4] ∧
    (saveMarked exCfg exMarked (fun _ => none) 0 exSt).final.fs.isDir .tmpDir = false := by decide
/-- sharded: a crash between shard 1 and shard 2 (the second `mkdtemp` fails): shard 1 complete, shard 2 absent -/
example :
    let r := saveSharded 420 false [("a-1", [⟨0, [[7]], none⟩]), ("a-2", [⟨0, [[8]], none⟩])]
      (fun n => if n = 9 then some 0 else none) exSt
    r.faulted = true ∧ content r.final (.user "a-1") = some [7] ∧ content r.final (.user "a-2") = none ∧
    content r.final (.user "m.data") = some [1, 2, 3, 4] := by decide


/-! ## Second deepening round: concurrent shard drivers, interleaved effect by effect

Model: `Model/AtomicSaveConc.lean`; helper lemmas: `Lemmas/AtomicSaveConc.lean`. -/

/-- What a crash can leave behind / what the caller sees: the pre-flight refused and nothing happened, or
the state is one the interleaved run visits (or ends in). -/
def CVisited (r : CRes) (c : CSt) : Prop := c = r.final ∨ ∃ st ∈ r.steps, c = st.st

theorem conc_visited_inv (newMode : Nat) (jobs : List Job) (sched : List Pick) (s0 : St) (h0 : WF s0) :
    ∀ c, CVisited (saveShardedConc newMode jobs sched s0) c → CInv newMode jobs s0 c := by
  intro c hc
  unfold saveShardedConc at hc
  split at hc
  · rcases hc with rfl | ⟨st, hst, _⟩
    · exact cinv_init newMode jobs s0 h0
    · simp at hst
  · have h := crun_inv newMode (P := CInv newMode jobs s0) (fun _ _ => true)
      (fun c k o e hc he _ => cinv_step newMode jobs s0 c k o e hc he) sched _ (cinv_init newMode jobs s0 h0)
      (fun _ _ => rfl)
    rcases hc with rfl | ⟨st, hst, rfl⟩
    · exact h.1
    · exact h.2 st hst

/-- **C08_sharded_concurrent_crash** (the concurrent shard drivers of `_write_external_tensors`, 874-911,
interleaved at the granularity of single file-system effects).  For every list of shards (destination +
any writer effects: a serial writer, or any interleaving of an inner parallel writer), every schedule —
which driver performs its next effect, in any order, each effect succeeding or failing (a write after any
number of bytes), the exception handlers of a failed driver being interleaved with the other drivers like
everything else — and every state `c` the run visits (= every crash point) or ends in:

* the pre-flight refuses iff a shard destination exists, and then not a single effect is performed;
* every file that existed before still has its name, its inode, its bytes and its mode;
* every caller path holds exactly what it held before, or it is the destination of a shard, did not exist
  before, and holds exactly the complete bytes of that shard (`newBytes`: what the shard's writer produces
  when it runs to its end undisturbed) — so every shard destination is absent or complete, whatever the
  other drivers were doing at that moment;
* no tensor has been invalidated or released. -/
theorem C08_sharded_concurrent_crash (newMode : Nat) (jobs : List Job) (sched : List Pick) (s0 : St)
    (h0 : WF s0) :
    ((saveShardedConc newMode jobs sched s0).refused = jobs.any (fun j => existsP s0.fs (.user j.dest))) ∧
    ((saveShardedConc newMode jobs sched s0).refused = true →
      (saveShardedConc newMode jobs sched s0).steps = [] ∧ (saveShardedConc newMode jobs sched s0).final.sh = s0) ∧
    ∀ c, CVisited (saveShardedConc newMode jobs sched s0) c →
      (∀ n i, s0.fs.file (.user n) = some i →
        c.sh.fs.file (.user n) = some i ∧ c.sh.fs.data i = s0.fs.data i ∧ c.sh.fs.mode i = s0.fs.mode i) ∧
      (∀ n, content c.sh (.user n) = content s0 (.user n) ∨
        ∃ j ∈ jobs, j.dest = n ∧ content s0 (.user n) = none ∧ (newBytes newMode j).isSome = true ∧
          content c.sh (.user n) = newBytes newMode j) ∧
      c.sh.valid = s0.valid ∧ c.sh.mapped = s0.mapped := by
  refine ⟨?_, ?_, ?_⟩
  · unfold saveShardedConc; split <;> simp_all
  · unfold saveShardedConc; split <;> simp
  · intro c hc
    have hi := conc_visited_inv newMode jobs sched s0 h0 c hc
    cases hany : jobs.any (fun j => existsP s0.fs (.user j.dest)) with
    | true =>
      have hc' : c.sh = s0 := by
        unfold saveShardedConc at hc
        simp only [hany, if_true] at hc
        rcases hc with rfl | ⟨st, hst, _⟩
        · rfl
        · simp at hst
      rw [hc']
      exact ⟨fun n i hn => ⟨hn, rfl, rfl⟩, fun n => Or.inl rfl, rfl, rfl⟩
    | false =>
      have hj : ∀ j ∈ jobs, s0.fs.file (.user j.dest) = none := by
        intro j hjm
        have := List.any_eq_false.mp hany j hjm
        simp only [existsP, Bool.or_eq_true, not_or] at this
        cases hf : s0.fs.file (.user j.dest) with
        | none => rfl
        | some i => simp [hf] at this
      refine ⟨?_, ?_, hi.valid, hi.mapped⟩
      · intro n i hn
        rcases hi.each n with ho | ⟨j, hjm, hjd, _⟩
        · exact ⟨by rw [ho, hn], hi.data i (h0.named _ _ hn), hi.mode i (h0.named _ _ hn)⟩
        · rw [← hjd, hj j hjm] at hn; simp at hn
      · intro n
        rcases hi.each n with ho | ⟨j, hjm, hjd, i, hfi, _, hb⟩
        · left
          simp only [content, ho]
          cases hf : s0.fs.file (.user n) with
          | none => rfl
          | some i => simp [hi.data i (h0.named _ _ hf)]
        · right
          refine ⟨j, hjm, hjd, ?_, ?_, ?_⟩
          · simp [content, ← hjd, hj j hjm]
          · rw [← hb]; rfl
          · simp [content, hfi, hb]

/-- **C08_sharded_concurrent_crash_serial**: `C08_sharded_concurrent_crash` for shards that are written
serially (the form of `C08_sharded_crash`, now for every interleaving of the shard drivers): in every
visited state and at the end every caller path holds exactly its previous bytes, or it is a shard
destination that did not exist and holds exactly the image of that shard's tensors. -/
theorem C08_sharded_concurrent_crash_serial (newMode : Nat) (cb : Bool) (js : List (String × List Tensor))
    (sched : List Pick) (s0 : St) (h0 : WF s0) :
    ∀ c, CVisited (saveShardedConc newMode (js.map (serialJob cb)) sched s0) c → ∀ n,
      content c.sh (.user n) = content s0 (.user n) ∨
      ∃ ts, (n, ts) ∈ js ∧ content s0 (.user n) = none ∧ content c.sh (.user n) = some (image ts) := by
  intro c hc n
  rcases ((C08_sharded_concurrent_crash newMode (js.map (serialJob cb)) sched s0 h0).2.2 c hc).2.1 n with
    h | ⟨j, hjm, hjd, hnone, _, hb⟩
  · exact Or.inl h
  · right
    simp only [List.mem_map] at hjm
    rcases hjm with ⟨⟨d, ts⟩, hmem, rfl⟩
    simp only [serialJob] at hjd
    subst hjd
    exact ⟨ts, hmem, hnone, by rw [hb]; exact newBytes_serial newMode cb d ts⟩

theorem allDone_spec {n : Nat} {c : CSt} (h : allDone n c = true) :
    ∀ k, k < n → ∃ b, (c.procs k).pc = .done b := by
  intro k hk
  simp only [allDone, List.all_eq_true, List.mem_range] at h
  have := h k hk
  cases hpc : (c.procs k).pc <;> simp_all

/-- An exception that is in flight in a driver stays with it to the end of the run. -/
theorem crun_exc_persist (nm : Nat) : ∀ (sched : List Pick) (c : CSt) (k : Nat),
    Exc (c.procs k).pc → Exc ((crun nm sched c).2.procs k).pc
  | [], _, _, h => by simpa [crun] using h
  | pk :: r, c, k, h => by
    simp only [crun]
    split
    · exact crun_exc_persist nm r c k h
    · apply crun_exc_persist nm r _ k
      by_cases hk : k = pk.k
      · subst hk; simp only [upd_same]; exact exc_step_keep nm c.sh _ pk.fault h
      · simpa [upd_ne _ _ hk] using h

theorem crun_failed_exc (nm : Nat) : ∀ (sched : List Pick) (c : CSt),
    ∀ st ∈ (crun nm sched c).1, st.failed = true → Exc ((crun nm sched c).2.procs st.k).pc
  | [], _, st, hst, _ => by simp [crun] at hst
  | pk :: r, c, st, hst, hf => by
    cases hn : nextEff (c.procs pk.k).pc with
    | none =>
      simp only [crun, hn] at hst ⊢
      exact crun_failed_exc nm r c st hst hf
    | some e =>
      simp only [crun, hn] at hst ⊢
      simp only [List.mem_cons] at hst
      rcases hst with rfl | hst
      · simp only at hf ⊢
        apply crun_exc_persist nm r _ pk.k
        simp only [upd_same]
        cases hq : pk.fault with
        | none => simp [hq] at hf
        | some q => exact exc_step_fault nm c.sh _ q e hn
      · exact crun_failed_exc nm r _ st hst hf

/-- **C08_sharded_concurrent_exception**: the pre-flight passed, the drivers ran under any schedule with any
failures — in one shard or in several, at `mkdtemp`, anywhere in a writer, at `os.replace` — except that no
clean-up call (`os.remove`, `os.rmdir`) failed, and every driver has finished, i.e. the
`with ThreadPoolExecutor(...)` block is left and `_write_external_tensors` returns or re-raises. Then:

* it raises iff some effect failed;
* no temporary directory and no temporary file of any shard remains — also of the shards that were still
  queued or in the middle of their writer when another shard failed;
* every file that existed before has its name, inode, bytes and mode; no tensor was invalidated
  (and `C08_sharded_concurrent_crash` says what the shard destinations hold). -/
theorem C08_sharded_concurrent_exception (newMode : Nat) (jobs : List Job) (sched : List Pick) (s0 : St)
    (h0 : WF s0) (hpre : jobs.any (fun j => existsP s0.fs (.user j.dest)) = false)
    (hdone : allDone jobs.length (saveShardedConc newMode jobs sched s0).final = true)
    (hclean : ∀ st ∈ (saveShardedConc newMode jobs sched s0).steps, st.failed = true →
      st.eff ≠ .removeTmp ∧ st.eff ≠ .rmdirTmp) :
    (anyRaised jobs.length (saveShardedConc newMode jobs sched s0).final = true ↔
      ∃ st ∈ (saveShardedConc newMode jobs sched s0).steps, st.failed = true) ∧
    (∀ k, ((saveShardedConc newMode jobs sched s0).final.procs k).loc.fs.isDir .tmpDir = false ∧
          ((saveShardedConc newMode jobs sched s0).final.procs k).loc.fs.file .tmpFile = none) ∧
    (∀ n i, s0.fs.file (.user n) = some i →
      (saveShardedConc newMode jobs sched s0).final.sh.fs.file (.user n) = some i ∧
      (saveShardedConc newMode jobs sched s0).final.sh.fs.data i = s0.fs.data i ∧
      (saveShardedConc newMode jobs sched s0).final.sh.fs.mode i = s0.fs.mode i) ∧
    (saveShardedConc newMode jobs sched s0).final.sh.valid = s0.valid := by
  have hcr := (C08_sharded_concurrent_crash newMode jobs sched s0 h0).2.2 _ (Or.inl rfl)
  have hinv := conc_visited_inv newMode jobs sched s0 h0 _ (Or.inl rfl)
  have hfin : (saveShardedConc newMode jobs sched s0).final = (crun newMode sched ⟨s0, initProcs jobs⟩).2 := by
    simp [saveShardedConc, hpre]
  have hsteps : (saveShardedConc newMode jobs sched s0).steps = (crun newMode sched ⟨s0, initProcs jobs⟩).1 := by
    simp [saveShardedConc, hpre]
  have hinit : ∀ k, Clean (initProcs jobs k) ∧ ¬ Exc (initProcs jobs k).pc := by
    intro k
    simp only [initProcs]
    cases jobs[k]? <;> simp [Clean, Exc, noTmp_empty]
  refine ⟨⟨?_, ?_⟩, ?_, hcr.1, hcr.2.2.1⟩
  · -- raised -> some effect failed
    intro hr
    apply Classical.byContradiction
    intro hno
    have hall : ∀ st ∈ (crun newMode sched ⟨s0, initProcs jobs⟩).1, (fun (_ : Eff) (b : Bool) => !b) st.eff st.failed = true := by
      intro st hst
      rw [← hsteps] at hst
      cases hf : st.failed with
      | false => rfl
      | true => exact absurd ⟨st, hst, hf⟩ hno
    have h := crun_inv newMode (P := fun c => ∀ k, ¬ Exc (c.procs k).pc) (fun _ b => !b)
      (fun c k o e hc _ hok k' => by
        have ho : o = none := by cases o <;> simp_all
        subst ho
        by_cases hk : k' = k
        · subst hk; simp only [upd_same]; exact nexc_step_ok newMode c.sh _ (hc k')
        · simpa [upd_ne _ _ hk] using hc k')
      sched ⟨s0, initProcs jobs⟩ (fun k => (hinit k).2) hall
    simp only [anyRaised, List.any_eq_true, List.mem_range] at hr
    rcases hr with ⟨k, _, hk⟩
    have := h.1 k
    rw [← hfin] at this
    have hpc : ((saveShardedConc newMode jobs sched s0).final.procs k).pc = .done true := by simpa using hk
    rw [hpc] at this
    exact this rfl
  · -- some effect failed -> raised
    rintro ⟨st, hst, hf⟩
    rw [hsteps] at hst
    have he := crun_failed_exc newMode sched _ st hst hf
    rw [← hfin] at he
    have hk : st.k < jobs.length := by
      apply Nat.lt_of_not_le
      intro hle
      rw [hinv.out st.k hle] at he
      simp [Exc] at he
    rcases allDone_spec hdone st.k hk with ⟨b, hb⟩
    rw [hb] at he
    simp only [Exc] at he
    subst he
    simp only [anyRaised, List.any_eq_true, List.mem_range]
    exact ⟨st.k, hk, by simp [hb]⟩
  · -- no temporary path remains
    have hall : ∀ st ∈ (crun newMode sched ⟨s0, initProcs jobs⟩).1,
        (fun (e : Eff) (b : Bool) => !b || (e != .removeTmp && e != .rmdirTmp)) st.eff st.failed = true := by
      intro st hst
      rw [← hsteps] at hst
      cases hf : st.failed with
      | false => rfl
      | true =>
        have := hclean st hst hf
        simp [this.1, this.2]
    have h := crun_inv newMode (P := fun c => ∀ k, Clean (c.procs k))
      (fun e b => !b || (e != .removeTmp && e != .rmdirTmp))
      (fun c k o e hc he hok k' => by
        by_cases hk : k' = k
        · subst hk
          simp only [upd_same]
          apply clean_step newMode c.sh _ o (hc k')
          intro hs
          rw [he]
          simp only [hs, Bool.not_true, Bool.false_or, Bool.and_eq_true, bne_iff_ne, ne_eq] at hok
          exact ⟨fun h => hok.1 (Option.some.inj h), fun h => hok.2 (Option.some.inj h)⟩
        · simpa [upd_ne _ _ hk] using hc k')
      sched ⟨s0, initProcs jobs⟩ (fun k => (hinit k).1) hall
    intro k
    have hc := h.1 k
    rw [← hfin] at hc
    by_cases hk : k < jobs.length
    · rcases allDone_spec hdone k hk with ⟨b, hb⟩
      simpa [Clean, hb, noTmp] using hc
    · have := hinv.out k (Nat.le_of_not_lt hk)
      simpa [Clean, this, noTmp] using hc

/-! ### Non-vacuity of the concurrent theorems -/

/-- two shards written serially -/
def exJobs : List Job :=
  [serialJob false ("a-1", [⟨0, [[7, 7]], none⟩]), serialJob false ("a-2", [⟨0, [[8]], none⟩, ⟨1, [[9]], none⟩])]

/-- round robin between the two drivers; shard 1's second write (its 6th effect) fails -/
def exSched (fail : Bool) : List Pick :=
  (List.range 24).map fun i => ⟨i % 2, if fail && i == 11 then some 0 else none⟩

example : WF exSt ∧ exJobs.any (fun j => existsP exSt.fs (.user j.dest)) = false := ⟨exSt_wf, by decide⟩
example : ∀ j ∈ exJobs, ∀ e ∈ j.body, e.isWriter = true := by decide
example : exJobs.map (newBytes 420) = [some [7, 7], some [8, 9]] := by decide
/-- fault free: both shards complete, everything finished, nothing raised, nothing left -/
example :
    let r := saveShardedConc 420 exJobs (exSched false) exSt
    r.refused = false ∧ allDone 2 r.final = true ∧ anyRaised 2 r.final = false ∧ r.steps.length = 18 ∧
    content r.final.sh (.user "a-1") = some [7, 7] ∧ content r.final.sh (.user "a-2") = some [8, 9] ∧
    content r.final.sh (.user "m.data") = some [1, 2, 3, 4] := by decide
/-- the interleaving is effect by effect: the first six steps alternate between the drivers -/
example : ((saveShardedConc 420 exJobs (exSched false) exSt).steps.take 6).map (·.k) = [0, 1, 0, 1, 0, 1] := by decide
/-- shard 1 fails in the middle of its writer right after shard 0's `os.replace` (shard 0's clean-up is
still to come): shard 0 is complete at the end, shard 1 absent, the function raises, no temporary path
remains; at the crash point right after the failure shard 0's file is complete, shard 1's destination
does not exist and its temporary file is half written -/
example :
    let r := saveShardedConc 420 exJobs (exSched true) exSt
    allDone 2 r.final = true ∧ anyRaised 2 r.final = true ∧
    (∀ st ∈ r.steps, st.failed = true → st.eff ≠ .removeTmp ∧ st.eff ≠ .rmdirTmp) ∧
    content r.final.sh (.user "a-1") = some [7, 7] ∧ content r.final.sh (.user "a-2") = none ∧
    content r.final.sh (.user "m.data") = some [1, 2, 3, 4] ∧
    (r.final.procs 1).loc.fs.isDir .tmpDir = false ∧ (r.final.procs 0).loc.fs.isDir .tmpDir = false := by decide
def exCrashStep : Option CStep := (saveShardedConc 420 exJobs (exSched true) exSt).steps.find? (·.failed)
example : exCrashStep.map (·.k) = some 1 := by decide
example : exCrashStep.map (fun st => (content st.st.sh (.user "a-1"), content st.st.sh (.user "a-2")))
    = some (some [7, 7], none) := by decide
example : exCrashStep.map (fun st => (content (st.st.procs 0).loc .tmpFile, content (st.st.procs 1).loc .tmpFile))
    = some (none, some [8]) := by decide
/-- a failing clean-up call leaves the temporary directory behind (why the hypothesis is there) -/
example :
    let r := saveShardedConc 420 exJobs ((List.range 24).map fun i => ⟨i % 2, if i == 14 then some 0 else none⟩) exSt
    allDone 2 r.final = true ∧ (r.final.procs 0).loc.fs.isDir .tmpDir = true := by decide
/-- the pre-flight refuses when a shard name is taken -/
example : (saveShardedConc 420 [serialJob false ("m.data", [])] (exSched false) exSt).refused = true := by decide


/-! ## Fourth deepening round: inner parallel writers inside concurrent shards (two levels)

Model: `Model/AtomicSaveNest.lean`; helper lemmas: `Lemmas/AtomicSaveNest.lean`. -/

def NVisited (r : NRes) (c : NCSt) : Prop := c = r.final ∨ ∃ st ∈ r.steps, c = st.st

theorem nest_visited_inv (newMode : Nat) (jobs : List NJob) (sched : List NPick) (s0 : St) (h0 : WF s0)
    (hok : ∀ j ∈ jobs, jobOk newMode j = true) :
    ∀ c, NVisited (saveShardedNest newMode jobs sched s0) c → NCInv newMode jobs s0 c := by
  intro c hc
  unfold saveShardedNest at hc
  split at hc
  · rcases hc with rfl | ⟨st, hst, _⟩
    · exact ncinv_init newMode jobs s0 h0
    · simp at hst
  · have h := nrun_inv newMode jobs s0 hok sched _ (ncinv_init newMode jobs s0 h0)
    rcases hc with rfl | ⟨st, hst, rfl⟩
    · exact h.1
    · exact h.2 st hst

/-- **C08_sharded_concurrent_nested_crash** (shard drivers x inner workers, 874-911 around 606-666).  The
shard saves run concurrently AND a shard's writer may be the parallel writer: every shard has a driver thread
(`mkdtemp`, prelude, waiting for its pool, closing the handles, `os.replace`, clean-up) and any number of inner
workers (take the task at the front of the queue, open a handle, call-back, seek, write chunk by chunk — all on
that shard's own temporary file).  For every list of shards whose jobs are well formed (`jobOk`, decidable,
evaluated on every compared run: the driver's own effects create the file, every task's range lies inside the
preallocated file, overlapping ranges agree), every two-level schedule — which thread of which shard performs
its next effect, in any order, each effect succeeding or failing (a write after any number of bytes), a
failed task's siblings running on, queued tasks being started or dropped, the handlers interleaved like
everything else — and every state `c` the run visits (= every crash point) or ends in:

* the pre-flight refuses iff a shard destination exists, and then not a single effect is performed;
* every file that existed before still has its name, its inode, its bytes and its mode;
* every caller path holds exactly what it held before, or it is the destination of a shard, did not exist
  before, and holds exactly the complete bytes of that shard (`nBytes`: every tensor's bytes at its offset in a
  file of the preallocated size — a function of the job alone, whatever the interleaving of the inner
  workers was; `= image` of the tensors for a serially written shard, `C08_nested_bytes_serial`);
* no tensor has been invalidated or released. -/
theorem C08_sharded_concurrent_nested_crash (newMode : Nat) (jobs : List NJob) (sched : List NPick) (s0 : St)
    (h0 : WF s0) (hok : ∀ j ∈ jobs, jobOk newMode j = true) :
    ((saveShardedNest newMode jobs sched s0).refused = jobs.any (fun j => existsP s0.fs (.user j.dest))) ∧
    ((saveShardedNest newMode jobs sched s0).refused = true →
      (saveShardedNest newMode jobs sched s0).steps = [] ∧ (saveShardedNest newMode jobs sched s0).final.sh = s0) ∧
    ∀ c, NVisited (saveShardedNest newMode jobs sched s0) c →
      (∀ n i, s0.fs.file (.user n) = some i →
        c.sh.fs.file (.user n) = some i ∧ c.sh.fs.data i = s0.fs.data i ∧ c.sh.fs.mode i = s0.fs.mode i) ∧
      (∀ n, content c.sh (.user n) = content s0 (.user n) ∨
        ∃ j ∈ jobs, j.dest = n ∧ content s0 (.user n) = none ∧
          content c.sh (.user n) = some (nBytes newMode j)) ∧
      c.sh.valid = s0.valid ∧ c.sh.mapped = s0.mapped := by
  refine ⟨?_, ?_, ?_⟩
  · unfold saveShardedNest; split <;> simp_all
  · unfold saveShardedNest; split <;> simp
  · intro c hc
    have hi := nest_visited_inv newMode jobs sched s0 h0 hok c hc
    cases hany : jobs.any (fun j => existsP s0.fs (.user j.dest)) with
    | true =>
      have hc' : c.sh = s0 := by
        unfold saveShardedNest at hc
        simp only [hany, if_true] at hc
        rcases hc with rfl | ⟨st, hst, _⟩
        · rfl
        · simp at hst
      rw [hc']
      exact ⟨fun n i hn => ⟨hn, rfl, rfl⟩, fun n => Or.inl rfl, rfl, rfl⟩
    | false =>
      have hj : ∀ j ∈ jobs, s0.fs.file (.user j.dest) = none := by
        intro j hjm
        have := List.any_eq_false.mp hany j hjm
        simp only [existsP, Bool.or_eq_true, not_or] at this
        cases hf : s0.fs.file (.user j.dest) with
        | none => rfl
        | some i => simp [hf] at this
      refine ⟨?_, ?_, hi.valid, hi.mapped⟩
      · intro n i hn
        rcases hi.each n with ho | ⟨j, hjm, hjd, _⟩
        · exact ⟨by rw [ho, hn], hi.data i (h0.named _ _ hn), hi.mode i (h0.named _ _ hn)⟩
        · rw [← hjd, hj j hjm] at hn; simp at hn
      · intro n
        rcases hi.each n with ho | ⟨j, hjm, hjd, i, hfi, _, hb⟩
        · left
          simp only [content, ho]
          cases hf : s0.fs.file (.user n) with
          | none => rfl
          | some i => simp [hi.data i (h0.named _ _ hf)]
        · right
          refine ⟨j, hjm, hjd, ?_, ?_⟩
          · simp [content, ← hjd, hj j hjm]
          · simp [content, hfi, hb]

/-- **C08_nested_bytes_serial**: a serially written shard is a well-formed job of the two-level model and its
complete bytes are the image of its tensors (the "complete new bytes" of `C08_new_is_image`). -/
theorem C08_nested_bytes_serial (newMode : Nat) (cb : Bool) (d : String) (ts : List Tensor) :
    jobOk newMode (serNJob cb (d, ts)) = true ∧ nBytes newMode (serNJob cb (d, ts)) = image ts := by
  have h := newBytes_serial newMode cb d ts
  have hpe : preEnd newMode (serNJob cb (d, ts)) = bodyEnd newMode (serialJob cb (d, ts)) := rfl
  simp only [newBytes] at h
  cases hf : (bodyEnd newMode (serialJob cb (d, ts))).fs.file .tmpFile with
  | none => simp [hf] at h
  | some t =>
    simp only [hf, Option.map_some, Option.some.injEq] at h
    have hpb : preBytes newMode (serNJob cb (d, ts)) = image ts := by
      simp only [preBytes, hpe, hf]
      exact h
    constructor
    · have : ((preEnd newMode (serNJob cb (d, ts))).fs.file .tmpFile).isSome = true := by rw [hpe, hf]; rfl
      simp only [jobOk, this, Bool.true_and]
      simp [serNJob]
    · apply bytes_ext
      · rw [nBytes_length, hpb]
      · intro x hx
        rw [nBytes_length] at hx
        rw [nBytes_getD _ _ x hx, tgt_uncovered _ _ x (by intro tk htk; simp [serNJob] at htk), hpb]

/-- **C08_nested_bytes_parallel**: the complete bytes of a shard with an inner parallel writer: a file of the
preallocated size (`total_size` 617-620) that holds, at every position, the byte of the tensor whose range
contains the position, and zero in the holes. -/
theorem C08_nested_bytes_parallel (newMode : Nat) (cb : Bool) (d : String) (ts : List Tensor) :
    (nBytes newMode (parNJob cb (d, ts))).length = totalSize ts ∧
    ∀ x, x < totalSize ts → (nBytes newMode (parNJob cb (d, ts))).getD x 0 =
      match (tasksFrom 0 ts).find? (fun t => t.covers x) with
      | some t => t.bytes.getD (x - t.off) 0
      | none => 0 := by
  have hpb : preBytes newMode (parNJob cb (d, ts)) = List.replicate (totalSize ts) 0 := by
    simp [preBytes, preEnd, parNJob, apply, emptySt, emptyFS, upd, resize]
  constructor
  · rw [nBytes_length, hpb]; simp
  · intro x hx
    rw [nBytes_getD _ _ x (by rw [hpb]; simpa using hx)]
    simp only [tgtByte, hpb]
    show (match (tasksFrom 0 ts).find? (fun t => t.covers x) with
      | some t => t.bytes.getD (x - t.off) 0
      | none => (List.replicate (totalSize ts) 0).getD x 0) = _
    split <;> simp [List.getD_eq_getElem?_getD, hx]

/-! ### Non-vacuity of the two-level theorem -/

/-- shard 0 has an inner parallel writer (two tensors, the second in two chunks), shard 1 is written serially -/
def exNJobs : List NJob :=
  [parNJob false ("a-1", [⟨0, [[7, 7]], none⟩, ⟨2, [[8], [9]], none⟩]), serNJob false ("a-2", [⟨0, [[5]], none⟩])]

example : ∀ j ∈ exNJobs, jobOk 420 j = true := by decide
example : exNJobs.map (nBytes 420) = [[7, 7, 8, 9], [5]] := by decide

/-- both levels interleaved: the two drivers alternate; inside shard 0 the workers with handles 0 and 1 alternate
(handle 1 writes the second tensor's first chunk before handle 0 has written anything); `fail`: that first chunk
fails after 0 bytes -/
def exNSched (fail : Bool) : List NPick :=
  [⟨0, none, 0, none⟩, ⟨1, none, 0, none⟩, ⟨0, none, 0, none⟩, ⟨1, none, 0, none⟩, ⟨0, none, 0, none⟩, ⟨0, none, 0, none⟩,
   ⟨0, some 0, 0, none⟩, ⟨0, some 1, 1, none⟩, ⟨1, none, 0, none⟩, ⟨0, some 1, 0, none⟩, ⟨0, some 0, 0, none⟩,
   ⟨0, some 1, 0, if fail then some 0 else none⟩, ⟨0, none, 0, none⟩, ⟨0, some 0, 0, none⟩, ⟨1, none, 0, none⟩,
   ⟨0, some 1, 0, none⟩] ++
  (List.range 12).map (fun i => ⟨i % 2, none, 0, none⟩)

example :
    let r := saveShardedNest 420 exNJobs (exNSched false) exSt
    r.refused = false ∧ nAllDone 2 r.final = true ∧ nAnyRaised 2 r.final = false ∧
    content r.final.sh (.user "a-1") = some [7, 7, 8, 9] ∧ content r.final.sh (.user "a-2") = some [5] ∧
    content r.final.sh (.user "m.data") = some [1, 2, 3, 4] := by decide
/-- the driver of shard 0 cannot close the handles while an inner worker is in the middle of its task: its pick
(the 13th) is skipped, so the trace has one step less than the schedule has picks that could move -/
example : ((saveShardedNest 420 exNJobs (exNSched false) exSt).steps.map (fun s => (s.k, s.w))).take 14 =
    [(0, none), (1, none), (0, none), (1, none), (0, none), (0, none), (0, some 0), (0, some 1), (1, none),
     (0, some 1), (0, some 0), (0, some 1), (0, some 0), (1, none)] := by decide
/-- handle 1's write fails: its sibling (handle 0) runs on to the end of its task, then the handles are closed, the
exception leaves, shard 0's destination stays absent, no temporary path remains; shard 1 is complete -/
example :
    let r := saveShardedNest 420 exNJobs (exNSched true) exSt
    nAllDone 2 r.final = true ∧ nAnyRaised 2 r.final = true ∧
    content r.final.sh (.user "a-1") = none ∧ content r.final.sh (.user "a-2") = some [5] ∧
    (r.final.procs 0).loc.fs.isDir .tmpDir = false ∧ (r.final.procs 0).loc.fs.file .tmpFile = none ∧
    (r.steps.filter (fun s => s.k == 0 && s.w == some 0)).length = 3 := by decide
example : (saveShardedNest 420 [serNJob false ("m.data", [])] (exNSched false) exSt).refused = true := by decide


/-! ## Wave 7: the exception path of the two-level run, proved

Helper lemmas: the last section of `Lemmas/AtomicSaveNest.lean` (`NExc`, `NNoExc`, `NClean`, `nrun_gen`). -/

theorem nAllDone_spec {n : Nat} {c : NCSt} (h : nAllDone n c = true) :
    ∀ k, k < n → ∃ b, (c.procs k).pc = .done b := by
  intro k hk
  simp only [nAllDone, List.all_eq_true, List.mem_range] at h
  have := h k hk
  cases hpc : (c.procs k).pc <;> simp_all

/-- **C08_sharded_concurrent_nested_exception** (the two-level counterpart of `C08_sharded_concurrent_exception`):
shard drivers x inner workers, ANY jobs (`jobOk` of `C08_sharded_concurrent_nested_crash` is not needed here).  The
pre-flight passed, the threads ran under any two-level schedule with any failures — in one shard or in several,
at `mkdtemp`, in the prelude, in a task of an inner worker (its siblings running on, the queue being dropped), at
the `close` of a handle, at `os.replace` — except that no clean-up call (`os.remove`, `os.rmdir`) failed, and
every driver thread has finished, i.e. the `with ThreadPoolExecutor(...)` block is left and
`_write_external_tensors` returns or re-raises.  Then:

* it raises iff some effect (of a driver thread or of an inner worker) failed;
* no temporary directory and no temporary file of any shard remains;
* every file that existed before has its name, inode, bytes and mode; no tensor was invalidated
  (and `C08_sharded_concurrent_nested_crash` says what the shard destinations hold). -/
theorem C08_sharded_concurrent_nested_exception (newMode : Nat) (jobs : List NJob) (sched : List NPick) (s0 : St)
    (h0 : WF s0) (hpre : jobs.any (fun j => existsP s0.fs (.user j.dest)) = false)
    (hdone : nAllDone jobs.length (saveShardedNest newMode jobs sched s0).final = true)
    (hclean : ∀ st ∈ (saveShardedNest newMode jobs sched s0).steps, st.failed = true →
      st.eff ≠ .removeTmp ∧ st.eff ≠ .rmdirTmp) :
    (nAnyRaised jobs.length (saveShardedNest newMode jobs sched s0).final = true ↔
      ∃ st ∈ (saveShardedNest newMode jobs sched s0).steps, st.failed = true) ∧
    (∀ k, ((saveShardedNest newMode jobs sched s0).final.procs k).loc.fs.isDir .tmpDir = false ∧
          ((saveShardedNest newMode jobs sched s0).final.procs k).loc.fs.file .tmpFile = none) ∧
    (∀ n i, s0.fs.file (.user n) = some i →
      (saveShardedNest newMode jobs sched s0).final.sh.fs.file (.user n) = some i ∧
      (saveShardedNest newMode jobs sched s0).final.sh.fs.data i = s0.fs.data i ∧
      (saveShardedNest newMode jobs sched s0).final.sh.fs.mode i = s0.fs.mode i) ∧
    (saveShardedNest newMode jobs sched s0).final.sh.valid = s0.valid := by
  have hinv := nrun_shinv newMode jobs s0 h0 sched
  have hfin : (saveShardedNest newMode jobs sched s0).final = (nrun newMode sched ⟨s0, initNProcs jobs⟩).2 := by
    simp [saveShardedNest, hpre]
  have hsteps : (saveShardedNest newMode jobs sched s0).steps = (nrun newMode sched ⟨s0, initNProcs jobs⟩).1 := by
    simp [saveShardedNest, hpre]
  have hinit : ∀ k, NClean (initNProcs jobs k) ∧ NNoExc (initNProcs jobs k) := by
    intro k
    simp only [initNProcs]
    cases jobs[k]? <;> simp [NClean, NNoExc, noTmp_empty]
  rw [← hfin] at hinv
  have hj : ∀ j ∈ jobs, s0.fs.file (.user j.dest) = none := by
    intro j hjm
    have := List.any_eq_false.mp hpre j hjm
    simp only [existsP, Bool.or_eq_true, not_or] at this
    cases hf : s0.fs.file (.user j.dest) with
    | none => rfl
    | some i => simp [hf] at this
  refine ⟨⟨?_, ?_⟩, ?_, ?_, hinv.valid⟩
  rotate_left 3
  · -- no pre-existing file changed
    intro n i hn
    rcases hinv.each n with ho | ⟨j, hjm, hjd, _⟩
    · exact ⟨by rw [ho, hn], hinv.data i (h0.named _ _ hn), hinv.mode i (h0.named _ _ hn)⟩
    · rw [← hjd, hj j hjm] at hn; simp at hn
  · -- raised -> some effect failed
    intro hr
    apply Classical.byContradiction
    intro hno
    have hall : ∀ st ∈ (nrun newMode sched ⟨s0, initNProcs jobs⟩).1, st.failed = false := by
      intro st hst
      rw [← hsteps] at hst
      cases hf : st.failed with
      | false => rfl
      | true => exact absurd ⟨st, hst, hf⟩ hno
    have h := nrun_nnoexc newMode sched ⟨s0, initNProcs jobs⟩ (fun k => (hinit k).2) hall
    simp only [nAnyRaised, List.any_eq_true, List.mem_range] at hr
    rcases hr with ⟨k, _, hk⟩
    have := (h k).2
    rw [← hfin] at this
    have hpc : ((saveShardedNest newMode jobs sched s0).final.procs k).pc = .done true := by simpa using hk
    rw [hpc] at this
    simp at this
  · -- some effect failed -> raised
    rintro ⟨st, hst, hf⟩
    rw [hsteps] at hst
    have he := nrun_failed_exc newMode sched _ st hst hf
    rw [← hfin] at he
    have hk : st.k < jobs.length := by
      apply Nat.lt_of_not_le
      intro hle
      simp [NExc, hinv.out st.k hle] at he
    rcases nAllDone_spec hdone st.k hk with ⟨b, hb⟩
    simp only [NExc, hb] at he
    subst he
    simp only [nAnyRaised, List.any_eq_true, List.mem_range]
    exact ⟨st.k, hk, by simp [hb]⟩
  · -- no temporary path remains
    have h := nrun_nclean newMode sched ⟨s0, initNProcs jobs⟩ (fun k => (hinit k).1)
      (fun st hst => hclean st (by rw [hsteps]; exact hst))
    intro k
    have hc := h k
    rw [← hfin] at hc
    by_cases hk : k < jobs.length
    · rcases nAllDone_spec hdone k hk with ⟨b, hb⟩
      simpa [NClean, hb, noTmp] using hc
    · have := hinv.out k (Nat.le_of_not_lt hk)
      simpa [NClean, this, noTmp] using hc

/-! ### Non-vacuity of the hypotheses of `C08_sharded_concurrent_nested_exception` -/

example : WF exSt ∧ (∀ j ∈ exNJobs, jobOk 420 j = true) ∧
    exNJobs.any (fun j => existsP exSt.fs (.user j.dest)) = false := ⟨exSt_wf, by decide, by decide⟩
/-- an inner worker's write fails: every hypothesis holds, the save raises, nothing is left -/
example :
    let r := saveShardedNest 420 exNJobs (exNSched true) exSt
    nAllDone exNJobs.length r.final = true ∧
    (∀ st ∈ r.steps, st.failed = true → st.eff ≠ .removeTmp ∧ st.eff ≠ .rmdirTmp) ∧
    (r.steps.filter (fun s => s.failed)).map (fun s => (s.k, s.w)) = [(0, some 1)] ∧
    nAnyRaised exNJobs.length r.final = true ∧
    (∀ k ∈ [0, 1], (r.final.procs k).loc.fs.isDir .tmpDir = false ∧ (r.final.procs k).loc.fs.file .tmpFile = none) ∧
    content r.final.sh (.user "m.data") = some [1, 2, 3, 4] := by decide
/-- fault free: every hypothesis holds, nothing raises -/
example :
    let r := saveShardedNest 420 exNJobs (exNSched false) exSt
    nAllDone exNJobs.length r.final = true ∧ (∀ st ∈ r.steps, st.failed = false) ∧
    nAnyRaised exNJobs.length r.final = false := by decide
/-- a failing `os.rmdir` leaves the temporary directory of shard 1 behind (why the hypothesis is there) -/
example :
    let r := saveShardedNest 420 exNJobs
      ((List.range 10).map (fun i => (⟨1, none, 0, if i == 7 then some 0 else none⟩ : NPick))) exSt
    (r.final.procs 1).pc = .done true ∧ (r.final.procs 1).loc.fs.isDir .tmpDir = true ∧
    (r.steps.filter (fun s => s.failed)).map (fun s => s.eff) = [.rmdirTmp] := by decide

end IrVerif.AtomicSave

/-
C08 — an interrupted single-file external-data save never damages an existing data file.
Property theorems about `Model/AtomicSave.lean`; helper lemmas in `Lemmas/AtomicSave.lean`.
Core Lean only.
-/
import IrVerif.Lemmas.AtomicSave
namespace IrVerif.AtomicSave

/-- **C08_crash** (every crash point, incl. mid-write and crashes while the exception handlers
run).  For every destination, every `body` of effects that are not `os.replace`/`invalidate`
/`loadSmall` (in particular the serial writer's effect list for *any* tensors, `C08_crash_serial`,
and any interleaving of the parallel writer's `truncate`/`openW`/`seekW`/`writeW`/`closeW` effects,
`C08_crash_writer` — after one worker fails the model leaves the block while the real workers run
on, touching only the temporary file), every fault assignment `f` (which effects fail, and
after how many bytes a failing write stops) and every state `st` the run visits — the file-system
states a crash can leave behind are exactly these — the destination path holds either exactly the
bytes it held before the save or exactly the bytes a fault-free save produces. -/
theorem C08_crash (env : Env) (body post : List Eff) (hb : ∀ e ∈ body, e.tmpOnly = true)
    (hp : ∀ e ∈ post, e.noData = true) (s0 : St) (h0 : WF s0) (n0 : Nat) (f : Nat → Option Nat) :
    ∀ st ∈ (saveWith env body post f n0 s0).steps,
      content st.st (.user env.dest) = content s0 (.user env.dest) ∨
      content st.st (.user env.dest) =
        content (saveWith env body post (fun _ => none) n0 s0).final (.user env.dest) := by
  intro st hst
  have hnew := saveWith_none_frozen env body post hp s0 n0
  rcases saveWith_states env body post hb hp s0 h0 n0 f with ⟨hall, _⟩
  rcases hall st hst with h | h
  · left; exact old_content h0 h _
  · right; rw [frozen_content h, frozen_content hnew]

/-- **C08_exception**.  If exactly one effect fails with an exception and it is `mkdtemp`, any
effect of the writer (incl. a tensor or call-back raising, a short write), the release loop,
`copymode` or `os.replace` itself (index `k ≤ n0 + 1 + body.length`), then when the exception
leaves the function: the destination names the same inode with the same bytes and mode as before
(so do all other caller paths), neither the temporary file nor the temporary directory exists,
no tensor was invalidated, and every external tensor still reads the bytes it read before. -/
theorem C08_exception (env : Env) (body post : List Eff) (hb : ∀ e ∈ body, e.tmpOnly = true)
    (s0 : St) (h0 : WF s0) (hdir : s0.fs.isDir .tmpDir = false) (n0 : Nat) (f : Nat → Option Nat)
    (k p : Nat) (hk : f k = some p) (hone : ∀ n, n ≠ k → f n = none)
    (hlo : n0 ≤ k) (hhi : k ≤ n0 + 1 + body.length) :
    let r := saveWith env body post f n0 s0
    r.faulted = true ∧
    (∀ n, r.final.fs.file (.user n) = s0.fs.file (.user n) ∧
          content r.final (.user n) = content s0 (.user n) ∧
          (r.final.fs.file (.user n)).map r.final.fs.mode = (s0.fs.file (.user n)).map s0.fs.mode) ∧
    r.final.fs.file .tmpFile = none ∧ r.final.fs.isDir .tmpDir = false ∧
    r.final.valid = s0.valid ∧
    (∀ i e, (∀ m, s0.mapped i = some m → s0.fs.file (.user e.path) = some m) →
      readT r.final i e = readT s0 i e) := by
  intro r
  have h := saveWith_single_fault env body post hb s0 h0 hdir n0 f k p hk hone hlo hhi
  refine ⟨h.1, fun n => ⟨h.2.1.user n, old_content h0 h.2.1 n, old_mode h0 h.2.1 n⟩, h.2.2.1, h.2.2.2,
    h.2.1.valid, fun i e hm => old_read h0 h.2.1 i e hm⟩



/-- **C08_exception_multi** (fault sequences): if *some* effect at or before `os.replace` fails —
whatever else fails, earlier or later, including while the exception handlers run — then the
exception leaves the function and in every visited state (any crash point) and at the end every
caller path names the same inode with the same bytes and mode as before, no tensor was
invalidated and every external tensor still reads what it read before. (Only the removal of the
temporary paths can then be prevented, by a second failure in the handlers: `C08_exception`.) -/
theorem C08_exception_multi (env : Env) (body post : List Eff) (hb : ∀ e ∈ body, e.tmpOnly = true)
    (s0 : St) (h0 : WF s0) (n0 : Nat) (f : Nat → Option Nat) (k p : Nat) (hk : f k = some p)
    (hlo : n0 ≤ k) (hhi : k ≤ n0 + 1 + body.length) :
    let r := saveWith env body post f n0 s0
    r.faulted = true ∧
    ∀ s, (s = r.final ∨ ∃ st ∈ r.steps, s = st.st) →
      (∀ n, s.fs.file (.user n) = s0.fs.file (.user n) ∧ content s (.user n) = content s0 (.user n) ∧
            (s.fs.file (.user n)).map s.fs.mode = (s0.fs.file (.user n)).map s0.fs.mode) ∧
      s.valid = s0.valid ∧
      (∀ i e, (∀ m, s0.mapped i = some m → s0.fs.file (.user e.path) = some m) →
        readT s i e = readT s0 i e) := by
  intro r
  have h := saveWith_early_fault env body post hb s0 h0 n0 f k p hk hlo hhi
  refine ⟨h.1, ?_⟩
  intro s hs
  have ho : Old s0 s := by
    rcases hs with rfl | ⟨st, hst, rfl⟩
    · exact h.2.1
    · exact h.2.2 st hst
  exact ⟨fun n => ⟨ho.user n, old_content h0 ho n, old_mode h0 ho n⟩, ho.valid,
    fun i e hm => old_read h0 ho i e hm⟩

/-- **C08_crash_writer**: `C08_crash` for a save whose writer is *any* list of temporary-file
effects — in particular every interleaving of the parallel writer's `truncate`, `openW`, `seekW`,
`writeW`, `closeW`, call-backs — followed by the release loop, `copymode`, `os.replace`. -/
theorem C08_crash_writer (cfg : Cfg) (writer : List Eff) (hw : ∀ e ∈ writer, e.tmpOnly = true)
    (s0 : St) (h0 : WF s0) (n0 : Nat) (f : Nat → Option Nat) :
    ∀ st ∈ (saveWriter cfg writer f n0 s0).steps,
      content st.st (.user cfg.env.dest) = content s0 (.user cfg.env.dest) ∨
      content st.st (.user cfg.env.dest) =
        content (saveWriter cfg writer (fun _ => none) n0 s0).final (.user cfg.env.dest) :=
  C08_crash cfg.env (tryBodyWith cfg s0 writer) (postEffs cfg s0) (tryBodyWith_tmpOnly cfg s0 writer hw)
    (postEffs_noData cfg s0) s0 h0 n0 f

/-- **C08_new_is_image**: "the complete new bytes" are what the tensors say — after a fault-free
serial save the destination holds every tensor's bytes at its offset (gaps zero-filled), for
every tensor list, chunking and prior content. -/
theorem C08_new_is_image (cfg : Cfg) (s0 : St) (h0 : WF s0) (n0 : Nat) :
    content (save cfg (fun _ => none) n0 s0).final (.user cfg.env.dest) = some (image cfg.tensors) := by
  have hr := save_afterReplace cfg s0 h0 n0
  unfold save
  rw [frozen_content (saveWith_none_frozen cfg.env (tryBody cfg s0) (postEffs cfg s0)
    (postEffs_noData cfg s0) s0 n0)]
  simp [content, hr.dest, hr.bytes]

/-- **C08_crash_serial**: `C08_crash` for the serial writer, with the new bytes spelled out. -/
theorem C08_crash_serial (cfg : Cfg) (s0 : St) (h0 : WF s0) (n0 : Nat) (f : Nat → Option Nat) :
    ∀ st ∈ (save cfg f n0 s0).steps,
      content st.st (.user cfg.env.dest) = content s0 (.user cfg.env.dest) ∨
      content st.st (.user cfg.env.dest) = some (image cfg.tensors) := by
  intro st hst
  rw [← C08_new_is_image cfg s0 h0 n0]
  exact C08_crash cfg.env (tryBody cfg s0) (postEffs cfg s0) (tryBody_tmpOnly cfg s0)
    (postEffs_noData cfg s0) s0 h0 n0 f st hst

/-- **C08_exception_serial**: `C08_exception` for the serial writer. -/
theorem C08_exception_serial (cfg : Cfg) (s0 : St) (h0 : WF s0) (hdir : s0.fs.isDir .tmpDir = false)
    (n0 : Nat) (f : Nat → Option Nat) (k p : Nat) (hk : f k = some p) (hone : ∀ n, n ≠ k → f n = none)
    (hlo : n0 ≤ k) (hhi : k ≤ n0 + 1 + (tryBody cfg s0).length) :
    let r := save cfg f n0 s0
    r.faulted = true ∧
    (∀ n, r.final.fs.file (.user n) = s0.fs.file (.user n) ∧
          content r.final (.user n) = content s0 (.user n) ∧
          (r.final.fs.file (.user n)).map r.final.fs.mode = (s0.fs.file (.user n)).map s0.fs.mode) ∧
    r.final.fs.file .tmpFile = none ∧ r.final.fs.isDir .tmpDir = false ∧
    r.final.valid = s0.valid ∧
    (∀ i e, (∀ m, s0.mapped i = some m → s0.fs.file (.user e.path) = some m) →
      readT r.final i e = readT s0 i e) :=
  C08_exception cfg.env (tryBody cfg s0) (postEffs cfg s0) (tryBody_tmpOnly cfg s0) s0 h0 hdir n0 f k p
    hk hone hlo hhi

/-- **C08_post_samefile** (the dynamic test of the fixed loop, 504): in the state right after the
successful `os.replace`, for every external tensor (in particular the collected ones),
`samefile(tensor.path, destination_path)` holds iff the tensor's path is the destination name —
another hard link of the old inode still names the old inode, so the test fails for it. This is
what `invalidated` filters on. -/
theorem C08_post_samefile (cfg : Cfg) (s0 : St) (h0 : WF s0) (n0 : Nat) (e : Ext) :
    sameFile (afterReplace cfg.env (tryBody cfg s0) n0 s0).fs (.user e.path) (.user cfg.env.dest)
      = (e.path == cfg.env.dest) := by
  have hr := save_afterReplace cfg s0 h0 n0
  by_cases hp : e.path = cfg.env.dest
  · simp [sameFile, hp, hr.dest]
  · have hb : (e.path == cfg.env.dest) = false := by simpa using hp
    rw [hb]
    simp only [sameFile, hr.others e.path hp, hr.dest]
    cases hf : s0.fs.file (.user e.path) with
    | none => rfl
    | some a =>
      have := h0.named _ _ hf
      have hne : a ≠ s0.fs.next := by omega
      simp [hne]

/-- **C08_invalidate_only_if** (every fault assignment, every visited state): a tensor that was
valid before the save is invalid only if it is in `invalidated` — external, the same file as the
destination before the save, reached through the destination name — *and* `os.replace` has been
executed: the destination, hence the tensor's own path, now names the fresh inode, not the one it
named before (its backing file was actually replaced). -/
theorem C08_invalidate_only_if (cfg : Cfg) (s0 : St) (h0 : WF s0) (n0 : Nat) (f : Nat → Option Nat) :
    ∀ st ∈ (save cfg f n0 s0).steps, ∀ i, st.st.valid i = false →
      s0.valid i = false ∨
      (i ∈ invalidated cfg s0 ∧ st.st.replaced = true ∧
        st.st.fs.file (.user cfg.env.dest) = some s0.fs.next ∧
        st.st.fs.file (.user cfg.env.dest) ≠ s0.fs.file (.user cfg.env.dest) ∧
        ∃ t e, cfg.tensors[i]? = some t ∧ t.ext = some e ∧
          st.st.fs.file (.user e.path) = some s0.fs.next ∧
          st.st.fs.file (.user e.path) ≠ s0.fs.file (.user e.path)) := by
  intro st hst i hi
  have hr := save_afterReplace cfg s0 h0 n0
  rcases (saveWith_two_phase (twoPhase_save cfg s0 h0 n0) (tryBody_tmpOnly cfg s0) f).1 st hst with h | h
  · left; rw [← h.valid]; exact hi
  · rcases h.only i hi with h1 | h1
    · exact Or.inl h1
    · right
      have hd : st.st.fs.file (.user cfg.env.dest) = some s0.fs.next := by
        rw [h.frozen.user, hr.dest]
      have hne : st.st.fs.file (.user cfg.env.dest) ≠ s0.fs.file (.user cfg.env.dest) := by
        rw [hd]
        intro heq
        have := h0.named _ _ heq.symm
        omega
      refine ⟨h1, by rw [h.frozen.replaced, hr.replaced], hd, hne, ?_⟩
      rcases (invalidated_spec s0.fs cfg.env.dest cfg.tensors 0 i).mp h1 with ⟨t, e, ht, _, he, _, hp⟩
      exact ⟨t, e, by simpa using ht, he, by rw [hp]; exact hd, by rw [hp]; exact hne⟩

/-- **C08_invalidate_iff**: if no effect after `os.replace` fails (clean-up and the invalidation
loop run), then when the save ends — normally or with an exception — a tensor is invalid iff it
was already invalid, or it is in `invalidated` (backed by the destination through the destination
name) and the destination was replaced. In particular a tensor reading the old inode through
another hard link stays valid. (Failure of `os.rmdir` after a successful replace is excluded: see
`C08_cleanup_gap`.) -/
theorem C08_invalidate_iff (cfg : Cfg) (s0 : St) (h0 : WF s0) (hrep : s0.replaced = false) (n0 : Nat)
    (f : Nat → Option Nat) (hlate : ∀ m, n0 + 1 + (tryBody cfg s0).length < m → f m = none) (i : Nat) :
    (save cfg f n0 s0).final.valid i = false ↔
      (s0.valid i = false ∨ (i ∈ invalidated cfg s0 ∧ (save cfg f n0 s0).final.replaced = true)) := by
  have hr := save_afterReplace cfg s0 h0 n0
  rcases save_final_cases cfg s0 h0 n0 f hlate with ⟨_, ho⟩ | ⟨_, hp, hall⟩
  · rw [ho.valid, ho.replaced, hrep]; simp
  · constructor
    · intro hi
      rcases hp.only i hi with h1 | h1
      · exact Or.inl h1
      · exact Or.inr ⟨h1, by rw [hp.frozen.replaced, hr.replaced]⟩
    · rintro (h1 | ⟨h1, _⟩)
      · exact hp.keep i h1
      · exact hall i h1

/-- **C08_destination_resolved** (453-456): the path the save works on is not itself a symlink
of the table — `os.replace` therefore never replaces a link, it replaces what the chain ends in —
unless the chain is longer than the fuel (a cycle); and a request that is not a symlink is used as
it is. -/
theorem C08_destination_resolved (links : List (String × String)) :
    ∀ (fuel : Nat) (p : String),
      (links.lookup (resolveLink links fuel p) = none ∨
        ∀ k, k ≤ fuel → links.lookup (resolveLink links k p) ≠ none) ∧
      (links.lookup p = none → resolveLink links fuel p = p)
  | 0, p => by
    refine ⟨?_, fun _ => rfl⟩
    cases h : links.lookup p with
    | none => left; simpa [resolveLink] using h
    | some t =>
      right
      intro k hk
      have : k = 0 := by omega
      subst this
      simp [resolveLink, h]
  | fuel + 1, p => by
    cases h : links.lookup p with
    | none => simp [resolveLink, h]
    | some t =>
      refine ⟨?_, fun h' => by simp [h] at h'⟩
      simp only [resolveLink, h]
      rcases (C08_destination_resolved links fuel t).1 with h1 | h1
      · exact Or.inl h1
      · right
        intro k hk
        cases k with
        | zero => simp [resolveLink, h]
        | succ k => simp only [resolveLink, h]; exact h1 k (by omega)

example : destinationOf [("model.data", "current.data"), ("current.data", "sub/w.bin")] "model.data" = "sub/w.bin" := by
  decide
example : destinationOf [("model.data", "current.data")] "plain.data" = "plain.data" := by decide

/-- **C08_sharded_no_touch**: a (sequential) sharded save never changes a file that existed
before — in every visited state (any crash point) and at the end, for every fault assignment,
every pre-existing caller path names the same inode with the same bytes and mode; and if any shard
destination exists, the pre-flight check raises before a single effect is performed. -/
theorem C08_sharded_no_touch (newMode : Nat) (cb : Bool) (jobs : List (String × List Tensor))
    (f : Nat → Option Nat) (s0 : St) (h0 : WF s0) :
    (jobs.any (fun j => existsP s0.fs (.user j.1)) = true →
      (saveSharded newMode cb jobs f s0).steps = [] ∧ (saveSharded newMode cb jobs f s0).faulted = true) ∧
    (∀ st ∈ (saveSharded newMode cb jobs f s0).steps, ∀ n i, s0.fs.file (.user n) = some i →
      st.st.fs.file (.user n) = some i ∧ st.st.fs.data i = s0.fs.data i ∧ st.st.fs.mode i = s0.fs.mode i) ∧
    (∀ n i, s0.fs.file (.user n) = some i →
      (saveSharded newMode cb jobs f s0).final.fs.file (.user n) = some i ∧
      (saveSharded newMode cb jobs f s0).final.fs.data i = s0.fs.data i ∧
      (saveSharded newMode cb jobs f s0).final.fs.mode i = s0.fs.mode i) := by
  unfold saveSharded
  cases hany : jobs.any (fun j => existsP s0.fs (.user j.1)) with
  | true => simp
  | false =>
    have hj : ∀ j ∈ jobs, s0.fs.file (.user j.1) = none := by
      intro j hjm
      have := List.any_eq_false.mp hany j hjm
      simp only [existsP, Bool.or_eq_true, not_or] at this
      cases hf : s0.fs.file (.user j.1) with
      | none => rfl
      | some i => simp [hf] at this
    have h := shardLoop_kept newMode cb f s0 jobs 0 s0 h0 (Kept.refl s0) hj
    simp only [Bool.false_eq_true, if_false, false_implies, true_and]
    constructor
    · intro st hst n i hn
      have hk := h.1 st hst
      exact ⟨hk.file n i hn, hk.data i (h0.named _ _ hn), hk.mode i (h0.named _ _ hn)⟩
    · intro n i hn
      exact ⟨h.2.file n i hn, h.2.data i (h0.named _ _ hn), h.2.mode i (h0.named _ _ hn)⟩


/-- `unload` when the load phase faulted / did not fault. -/
theorem unload_load_faulted (cfg : Cfg) (small : List (Nat × Ext)) (f : Nat → Option Nat) (s0 : St)
    (h : (runList cfg.env f (loadEffs small) 0 s0).faulted = true) :
    unload cfg small f s0 = runList cfg.env f (loadEffs small) 0 s0 := by
  simp [unload, h]

theorem unload_load_ok (cfg : Cfg) (small : List (Nat × Ext)) (f : Nat → Option Nat) (s0 : St)
    (h : (runList cfg.env f (loadEffs small) 0 s0).faulted = false) :
    (unload cfg small f s0).final =
      (save cfg f (runList cfg.env f (loadEffs small) 0 s0).steps.length
        (runList cfg.env f (loadEffs small) 0 s0).final).final ∧
    (unload cfg small f s0).faulted =
      (save cfg f (runList cfg.env f (loadEffs small) 0 s0).steps.length
        (runList cfg.env f (loadEffs small) 0 s0).final).faulted := by
  simp [unload, h]

/-- **C08_unload_exception**: `C08_exception` for `unload_from_model` (the entry point `ir.save`
uses): exactly one effect fails, while the small external tensors are loaded or in the save up to
and including `os.replace`; then the exception leaves, every caller path has the same inode, bytes
and mode as before, the temporary file and directory are gone and no tensor was invalidated. -/
theorem C08_unload_exception (cfg : Cfg) (small : List (Nat × Ext)) (s0 : St) (h0 : WF s0)
    (hdir : s0.fs.isDir .tmpDir = false) (f : Nat → Option Nat) (k p : Nat) (hk : f k = some p)
    (hone : ∀ n, n ≠ k → f n = none)
    (hhi : k ≤ (loadEffs small).length + 1 + (tryBody cfg s0).length) :
    (unload cfg small f s0).faulted = true ∧
    (∀ n, (unload cfg small f s0).final.fs.file (.user n) = s0.fs.file (.user n) ∧
          content (unload cfg small f s0).final (.user n) = content s0 (.user n) ∧
          ((unload cfg small f s0).final.fs.file (.user n)).map (unload cfg small f s0).final.fs.mode
            = (s0.fs.file (.user n)).map s0.fs.mode) ∧
    (unload cfg small f s0).final.fs.file .tmpFile = none ∧
    (unload cfg small f s0).final.fs.isDir .tmpDir = false ∧
    (unload cfg small f s0).final.valid = s0.valid := by
  have hl := load_phase cfg.env f small 0 s0
  have hs := hl.1
  cases hlf : (runList cfg.env f (loadEffs small) 0 s0).faulted with
  | true =>
    rw [unload_load_faulted cfg small f s0 hlf]
    refine ⟨hlf, fun n => ?_, by rw [hs.fs]; exact h0.fresh, by rw [hs.fs]; exact hdir, hs.valid⟩
    simp [content, hs.fs]
  | false =>
    have hu := unload_load_ok cfg small f s0 hlf
    rw [hu.1, hu.2]
    have hlen := runList_length_nofault cfg.env f _ _ _ hlf
    have hnone := runList_nofault_none cfg.env f _ _ _ hlf
    have hkL : (loadEffs small).length ≤ k := by
      apply Nat.le_of_not_lt
      intro hlt
      have := hnone k (Nat.zero_le _) (by omega)
      rw [this] at hk; simp at hk
    have hwf := sameFS_wf h0 hs
    have hx := C08_exception_serial cfg _ hwf (by rw [hs.fs]; exact hdir)
      (runList cfg.env f (loadEffs small) 0 s0).steps.length f k p hk hone (by omega)
      (by rw [tryBody_congr cfg hs.fs, hlen]; exact hhi)
    simp only [] at hx
    refine ⟨hx.1, fun n => ?_, hx.2.2.1, hx.2.2.2.1, by rw [hx.2.2.2.2.1, hs.valid]⟩
    have hn := hx.2.1 n
    refine ⟨by rw [hn.1, hs.fs], by rw [hn.2.1]; exact sameFS_content hs _, by rw [hn.2.2, hs.fs]⟩

/-- **C08_unload_exception_multi**: fault sequences for `unload_from_model`: if some effect at or
before `os.replace` fails (whatever else fails), the exception leaves, every caller path has the
same inode, bytes and mode as before and no tensor was invalidated. -/
theorem C08_unload_exception_multi (cfg : Cfg) (small : List (Nat × Ext)) (s0 : St) (h0 : WF s0)
    (f : Nat → Option Nat) (k p : Nat) (hk : f k = some p)
    (hhi : k ≤ (loadEffs small).length + 1 + (tryBody cfg s0).length) :
    (unload cfg small f s0).faulted = true ∧
    (∀ n, (unload cfg small f s0).final.fs.file (.user n) = s0.fs.file (.user n) ∧
          content (unload cfg small f s0).final (.user n) = content s0 (.user n) ∧
          ((unload cfg small f s0).final.fs.file (.user n)).map (unload cfg small f s0).final.fs.mode
            = (s0.fs.file (.user n)).map s0.fs.mode) ∧
    (unload cfg small f s0).final.valid = s0.valid := by
  have hl := load_phase cfg.env f small 0 s0
  have hs := hl.1
  cases hlf : (runList cfg.env f (loadEffs small) 0 s0).faulted with
  | true =>
    rw [unload_load_faulted cfg small f s0 hlf]
    refine ⟨hlf, fun n => ?_, hs.valid⟩
    simp [content, hs.fs]
  | false =>
    have hu := unload_load_ok cfg small f s0 hlf
    rw [hu.1, hu.2]
    have hlen := runList_length_nofault cfg.env f _ _ _ hlf
    have hnone := runList_nofault_none cfg.env f _ _ _ hlf
    have hkL : (loadEffs small).length ≤ k := by
      apply Nat.le_of_not_lt
      intro hlt
      have := hnone k (Nat.zero_le _) (by omega)
      rw [this] at hk; simp at hk
    have hwf := sameFS_wf h0 hs
    have hx := C08_exception_multi cfg.env
      (tryBody cfg (runList cfg.env f (loadEffs small) 0 s0).final)
      (postEffs cfg (runList cfg.env f (loadEffs small) 0 s0).final)
      (tryBody_tmpOnly cfg _) (runList cfg.env f (loadEffs small) 0 s0).final hwf
      (runList cfg.env f (loadEffs small) 0 s0).steps.length f k p hk (by omega)
      (by rw [tryBody_congr cfg hs.fs, hlen]; exact hhi)
    simp only [] at hx
    have hfin := hx.2 _ (Or.inl rfl)
    unfold save
    refine ⟨hx.1, fun n => ?_, by rw [hfin.2.1, hs.valid]⟩
    have hn := hfin.1 n
    refine ⟨by rw [hn.1, hs.fs], by rw [hn.2.1]; exact sameFS_content hs _, by rw [hn.2.2, hs.fs]⟩

/-- **C08_unload_crash**: the same crash guarantee for `unload_from_model` (what `ir.save` calls):
small external tensors are first copied to memory, then the single-file save runs; in every
visited state, under every fault assignment, the destination holds its previous bytes or the
complete new bytes. -/
theorem C08_unload_crash (cfg : Cfg) (small : List (Nat × Ext)) (s0 : St) (h0 : WF s0)
    (f : Nat → Option Nat) :
    ∀ st ∈ (unload cfg small f s0).steps,
      content st.st (.user cfg.env.dest) = content s0 (.user cfg.env.dest) ∨
      content st.st (.user cfg.env.dest) = some (image cfg.tensors) := by
  have hl := load_phase cfg.env f small 0 s0
  intro st hst
  unfold unload at hst
  simp only [] at hst
  split at hst
  · exact Or.inl (sameFS_content (hl.2 st hst) _)
  · simp only [List.mem_append] at hst
    rcases hst with hst | hst
    · exact Or.inl (sameFS_content (hl.2 st hst) _)
    · rw [← sameFS_content hl.1]
      exact C08_crash_serial cfg _ (sameFS_wf h0 hl.1) _ f st hst

/-- **C08_unload_fs_frame**: whatever fails, `unload_from_model` never changes a caller path other
than the destination, nor the bytes or mode of any file that existed. -/
theorem C08_unload_fs_frame (cfg : Cfg) (small : List (Nat × Ext)) (s0 : St) (h0 : WF s0)
    (f : Nat → Option Nat) :
    ∀ st ∈ (unload cfg small f s0).steps,
      (∀ n, n ≠ cfg.env.dest → st.st.fs.file (.user n) = s0.fs.file (.user n)) ∧
      (∀ j, j < s0.fs.next → st.st.fs.data j = s0.fs.data j ∧ st.st.fs.mode j = s0.fs.mode j) := by
  have hl := load_phase cfg.env f small 0 s0
  intro st hst
  have hsame : ∀ s, SameFS s0 s →
      (∀ n, n ≠ cfg.env.dest → s.fs.file (.user n) = s0.fs.file (.user n)) ∧
      (∀ j, j < s0.fs.next → s.fs.data j = s0.fs.data j ∧ s.fs.mode j = s0.fs.mode j) := by
    intro s hs; rw [hs.fs]; exact ⟨fun _ _ => rfl, fun _ _ => ⟨rfl, rfl⟩⟩
  unfold unload at hst
  simp only [] at hst
  split at hst
  · exact hsame _ (hl.2 st hst)
  · simp only [List.mem_append] at hst
    rcases hst with hst | hst
    · exact hsame _ (hl.2 st hst)
    · have hk := (save_kept cfg _ (sameFS_wf h0 hl.1) (runList cfg.env f (loadEffs small) 0 s0).steps.length f).1 st hst
      have hfs := hl.1.fs
      refine ⟨fun n hn => ?_, fun j hj => ?_⟩
      · rw [hk.file n hn, hfs]
      · have hj' : j < (runList cfg.env f (loadEffs small) 0 s0).final.fs.next := by rw [hfs]; exact hj
        rw [hk.data j hj', hk.mode j hj', hfs]
        exact ⟨rfl, rfl⟩


/-! ### Non-vacuity: a concrete well-formed state and concrete runs -/

/-- a directory with `m.data` = inode 0 holding `[1,2,3,4]` (mode 0o600) -/
def exFS : FS :=
  ⟨fun p => if p = .user "m.data" then some 0 else none, fun _ => false,
   fun i => if i = 0 then [1, 2, 3, 4] else [], fun _ => 384, 1⟩

def exSt : St := ⟨exFS, none, 0, fun _ => true, fun _ => none, fun _ => none, false, fun _ => none⟩

/-- tensor 0 is in memory (two chunks), tensor 1 is external, backed by the destination -/
def exCfg : Cfg :=
  ⟨⟨"m.data", 420⟩, [⟨0, [[9, 9], [8]], none⟩, ⟨3, [[1, 2]], some ⟨"m.data", 0, 2⟩⟩], true⟩

theorem exSt_wf : WF exSt :=
  ⟨fun p i h => by
      simp only [exSt, exFS] at h ⊢
      split at h
      · simp at h; omega
      · simp at h,
   rfl, rfl, fun _ => rfl⟩

/-- the hypotheses of the theorems are satisfiable, and the run really replaces the file -/
example : WF exSt ∧ exSt.fs.isDir .tmpDir = false ∧ exSt.replaced = false := ⟨exSt_wf, rfl, rfl⟩
example : overwritten exCfg exSt = [1] ∧ invalidated exCfg exSt = [1] := by decide
example : (save exCfg (fun _ => none) 0 exSt).faulted = false := by decide
example : content (save exCfg (fun _ => none) 0 exSt).final (.user "m.data") = some [9, 9, 8, 1, 2] := by
  decide
example : image exCfg.tensors = [9, 9, 8, 1, 2] := by decide
example : (save exCfg (fun _ => none) 0 exSt).final.valid 1 = false ∧
    (save exCfg (fun _ => none) 0 exSt).final.valid 0 = true := by decide
/-- a single fault in the middle of a write (effect 5 = second chunk, one byte gets through):
raised, destination as before, temporary paths gone, tensor still valid and readable -/
example :
    let r := save exCfg (fun n => if n = 5 then some 1 else none) 0 exSt
    r.faulted = true ∧ content r.final (.user "m.data") = some [1, 2, 3, 4] ∧
    r.final.fs.file .tmpFile = none ∧ r.final.fs.isDir .tmpDir = false ∧ r.final.valid 1 = true ∧
    readT r.final 1 ⟨"m.data", 0, 2⟩ = some [1, 2] := by decide
/-- the crash state of that run (the state right after the failed step) has a half-written
temporary file, and the destination untouched -/
example :
    let r := save exCfg (fun n => if n = 5 then some 0 else none) 0 exSt
    (r.steps.find? (·.failed)).map (fun st => (content st.st .tmpFile, content st.st (.user "m.data")))
      = some (some [9, 9], some [1, 2, 3, 4]) := by decide

/-- The clean-up gap (D131; why `C08_invalidate_iff` excludes faults after the replace): if
`os.rmdir` fails *after* a successful `os.replace`, the exception skips the invalidation loop —
the destination already holds the new bytes, the tensor backed by it is still marked valid and
now reads bytes of the new file. (Observed on the real code too; the English property only asks
for the "only when" direction, `C08_invalidate_only_if`.) -/
example :
    let r := save exCfg (fun n => if n = 14 then some 0 else none) 0 exSt
    r.faulted = true ∧ r.final.replaced = true ∧
    content r.final (.user "m.data") = some [9, 9, 8, 1, 2] ∧ r.final.valid 1 = true ∧
    readT r.final 1 ⟨"m.data", 0, 2⟩ = some [9, 9] := by decide

/-- hard link (D133, fixed): tensor 1 reads the old inode through `hard.data`; it is collected (released)
but not invalidated, and still reads the old bytes after the destination was replaced -/
example :
    let fs : FS := { exFS with file := fun p => if p = .user "m.data" ∨ p = .user "hard.data" then some 0 else none }
    let s : St := { exSt with fs := fs }
    let cfg : Cfg := ⟨⟨"m.data", 420⟩, [⟨0, [[9, 9, 8]], none⟩, ⟨3, [[1, 2]], some ⟨"hard.data", 0, 2⟩⟩], false⟩
    overwritten cfg s = [1] ∧ invalidated cfg s = [] ∧
    (save cfg (fun _ => none) 0 s).final.valid 1 = true ∧
    readT (save cfg (fun _ => none) 0 s).final 1 ⟨"hard.data", 0, 2⟩ = some [1, 2] ∧
    content (save cfg (fun _ => none) 0 s).final (.user "m.data") = some [9, 9, 8, 1, 2] := by decide

/-- unload: tensor 7 is small and external (backed by the destination); its copy holds the old bytes
although the destination has been replaced -/
example :
    let r := unload exCfg [(7, ⟨"m.data", 1, 2⟩)] (fun _ => none) exSt
    r.faulted = false ∧ r.final.mem 7 = some [2, 3] ∧
    content r.final (.user "m.data") = some [9, 9, 8, 1, 2] := by decide

/-- the parallel writer's effects: two workers with their own handles write out of order into the
preallocated temporary file; the result is the same image, and a fault on worker 1's write leaves
the destination as it was -/
def exWriter : List Eff :=
  [.openTmp, .truncate 5, .closeTmp, .openW 0, .openW 1, .seekW 1 3, .writeW 1 [1, 2], .seekW 0 0,
   .writeW 0 [9, 9, 8], .closeW 0, .closeW 1]
example : (∀ e ∈ exWriter, e.tmpOnly = true) ∧
    content (saveWriter exCfg exWriter (fun _ => none) 0 exSt).final (.user "m.data") = some [9, 9, 8, 1, 2] ∧
    (saveWriter exCfg exWriter (fun n => if n = 7 then some 1 else none) 0 exSt).faulted = true ∧
    content (saveWriter exCfg exWriter (fun n => if n = 7 then some 1 else none) 0 exSt).final (.user "m.data")
      = some [1, 2, 3, 4] := by decide

/-- sharded: the pre-flight refuses when a shard name exists, and otherwise runs -/
example : (saveSharded 420 false [("m.data", [])] (fun _ => none) exSt).steps.length = 0 := by decide
example : (saveSharded 420 false [("a-1", [⟨0, [[7]], none⟩]), ("a-2", [⟨0, [[8]], none⟩])]
    (fun _ => none) exSt).faulted = false ∧
    content (saveSharded 420 false [("a-1", [⟨0, [[7]], none⟩]), ("a-2", [⟨0, [[8]], none⟩])]
      (fun _ => none) exSt).final (.user "a-2") = some [8] := by decide

end IrVerif.AtomicSave

/-
C19 — device annotations follow object identity and never dangle: property theorems about the
model `IrVerif.Device` (`Model/Device.lean`); helper development in `Lemmas/Device.lean`.

`DevOK w` (defined next to the model, it is also evaluated by the driver): every spec on a node
targets a current input or output of that node, every node configuration of a node in a model's
graph refers (by identity) to a configuration registered on that model, axes are in range for a
known rank and not repeated after normalisation, `num_shards >= 1`, stages `>= 0`, device indices
inside the configuration, one record per configuration and one spec per (configuration, value).
-/
import IrVerif.Lemmas.DeviceRT
namespace IrVerif.Device

/-! ### C19_step -/

/-- **C19_step**: every operation of the alphabet — annotate (`shard`, `set_pipeline_stage`, valid or
    rejected), register / remove a configuration with cascade, rename, replace an input, resize
    inputs / outputs, append / remove a node, clone, serialize -> deserialize — preserves `DevOK`,
    provided the in-alphabet condition `Pre` holds for it (ids exist; the configuration of an
    annotation request is registered on the node's model with device indices inside it;
    `cascade=True`; a round trip is taken of a model whose named values have unique names). -/
theorem C19_step (w : World) (op : Op) (h : DevOK w) (hpre : Pre w op) : DevOK (step w op).1 := by
  cases op with
  | newModel ir => exact DevOK_newModel h ir
  | newInput m name shape => exact DevOK_newInput h m name shape
  | newNode m ins outs => exact DevOK_newNode h m ins outs hpre
  | removeNode m n safe => exact DevOK_removeNode h m n safe
  | rename v s => exact DevOK_rename h v s
  | addCfg m name num names => exact DevOK_addCfg h m name num names
  | removeCfg m r cascade =>
    have : cascade = true := hpre
    subst this
    exact DevOK_removeCfg h m r
  | shard n v c axis k devs stage => exact DevOK_shard h n v c axis k devs stage hpre
  | setStage n c stage => exact DevOK_setStage h n c stage hpre
  | replaceInput n i val => exact DevOK_replaceInput h n i val hpre
  | resizeInputs n k => exact DevOK_resizeInputs h n k
  | resizeOutputs n k => exact DevOK_resizeOutputs h n k
  | clone m => exact DevOK_clone h m
  | roundTrip m => exact DevOK_roundTrip h m hpre

/-- `Pre` holds for every operation of the history at the world it is applied to -/
def PreAll : World → List Op → Prop
  | _, [] => True
  | w, op :: rest => Pre w op ∧ PreAll (step w op).1 rest

def PreAll.dec : (ops : List Op) → (w : World) → Decidable (PreAll w ops)
  | [], _ => isTrue trivial
  | op :: rest, w =>
    have := PreAll.dec rest (step w op).1
    by unfold PreAll; infer_instance

instance (w : World) (ops : List Op) : Decidable (PreAll w ops) := PreAll.dec ops w

/-- **C19_history**: after every finite in-alphabet history from a world satisfying `DevOK`
    (in particular from the empty world) `DevOK` holds — by induction on the history. -/
theorem C19_history (ops : List Op) : ∀ (w : World), DevOK w → PreAll w ops → DevOK (run w ops).1 := by
  induction ops with
  | nil => intro w h _; exact h
  | cons op rest ih =>
    intro w h hp
    exact ih (step w op).1 (C19_step w op h hp.1) hp.2

/-- non-vacuity of `Pre`/`DevOK`: a history with annotations, a rename, a detach, a cascade
    removal, a clone and a round trip satisfies `PreAll`, and the final world has annotations. -/
example :
    let ops : List Op := [.newModel 11, .newInput 0 "x" (some [.int 2, .int 3]), .newInput 0 "y" none,
      .newNode 0 [some 0, some 1] [("o", some [.int 2])], .addCfg 0 "c" (some 2) [], .addCfg 0 "d" (some 1) [],
      .shard 0 0 0 (-1) 2 [0, 1] (some 1), .shard 0 2 0 0 2 [1] none, .setStage 0 1 0,
      .rename 0 "x2", .clone 0, .roundTrip 0, .removeCfg 0 (.byName "d") true,
      .replaceInput 0 0 (some 1), .resizeOutputs 0 0]
    PreAll {} ops ∧ (run {} ops).2.all (· = .ok) ∧
    ((run {} ops).1.node 1).dev ≠ [] ∧ ((run {} ops).1.node 2).dev ≠ [] := by
  decide

/-- `Pre` is not vacuous the other way either: without it the invariant can be lost (documented
    behaviour of `remove_device_configuration(cascade=False)`: dangling references remain). -/
example :
    let ops : List Op := [.newModel 11, .newInput 0 "x" none, .newNode 0 [some 0] [("o", none)],
      .addCfg 0 "c" (some 2) [], .shard 0 0 0 0 2 [] none, .removeCfg 0 (.byObj 0) false]
    ¬ DevOK (run {} ops).1 ∧ check (run {} ops).1 0 = [Err.cfgNotDeclared] := by
  decide

theorem DevOK_empty : DevOK {} := by
  constructor <;> intro x hx <;> cases hx

/-! ### C19_checker_silent -/

/-- **C19_checker_only_names**: on a world satisfying `DevOK` the model of
    `_check_device_configurations` can only report "shards a value with an empty name", and only
    when some sharded value really has an empty name. -/
theorem C19_checker_only_names (w : World) (h : DevOK w) (m : MId) :
    ∀ e ∈ check w m, e = Err.valEmptyName ∧
      ∃ nd ∈ w.nodes, ∃ nc ∈ nd.dev, ∃ s ∈ nc.specs, (w.value s.value).name = "" :=
  check_only_names h m

/-- **C19_checker_silent**: `DevOK` and named sharded values: the internal check returns `[]`. -/
theorem C19_checker_silent (w : World) (h : DevOK w) (hn : Named w) (m : MId) : check w m = [] := by
  apply List.eq_nil_iff_forall_not_mem.mpr
  intro e he
  obtain ⟨_, nd, hnd, nc, hnc, s, hs, hempty⟩ := check_only_names h m e he
  exact hn nd hnd nc hnc s hs hempty

/-! ### C19_drop -/

/-- **C19_drop**: after an operation that can detach a value from node `n`
    (`replace_input_with`, `resize_inputs`, `resize_outputs`, `Graph.remove`) the annotations of `n`
    are the old ones restricted to *exactly* the specs whose target is still an input or output of
    `n` (`keepIO`: same records, same order, same stages; a spec is gone iff its value left the
    node), and no other node is touched. -/
theorem C19_drop (w : World) (h : DevOK w) (op : Op) (n : NId) (hop : op.detaches = some n) :
    ((step w op).1.node n).dev = keepIO ((step w op).1.node n) (w.node n).dev ∧
    ∀ k, k ≠ n → (step w op).1.node k = w.node k :=
  drop_exact (fun n => h.specs_io n) op n hop

/-- `keepIO` spelled out -/
example (nd' : NodeS) (dev : List NodeCfg) : keepIO nd' dev =
    dev.map (fun nc => { nc with specs := nc.specs.filter (fun s => decide (InIO nd' s.value)) }) := rfl

/-- non-vacuity: a detach really drops a spec -/
example :
    let w := (run {} [.newModel 11, .newInput 0 "x" none, .newInput 0 "y" none,
      .newNode 0 [some 0] [("o", none)], .addCfg 0 "c" (some 2) [],
      .shard 0 0 0 0 2 [0] none, .shard 0 2 0 0 2 [1] none]).1
    DevOK w ∧ (w.node 0).dev = [⟨0, [⟨0, [0], [⟨0, .unk, 2⟩]⟩, ⟨2, [1], [⟨0, .unk, 2⟩]⟩], none⟩] ∧
    ((step w (.replaceInput 0 0 (some 1))).1.node 0).dev = [⟨0, [⟨2, [1], [⟨0, .unk, 2⟩]⟩], none⟩] := by
  decide

/-! ### C19_reject_atomic -/

/-- **C19_reject_atomic**: (1) whenever an operation of the alphabet raises, the world is
    unchanged; (2) `shard` raises exactly for the invalid requests (value not on the node, fewer than
    one shard, negative stage, axis out of range for a known rank, axis repeated after
    normalisation for the same (configuration, value), conflicting stage); (3) `set_pipeline_stage`
    raises exactly for a negative stage. -/
theorem C19_reject_atomic (w : World) (h : DevOK w) :
    (∀ op, (step w op).2 = .raised → (step w op).1 = w) ∧
    (∀ n v c axis k devs stage,
      (step w (.shard n v c axis k devs stage)).2 = .raised ↔ ShardInvalid w n v c axis k stage) ∧
    (∀ n c stage, (step w (.setStage n c stage)).2 = .raised ↔ stage < 0) := by
  refine ⟨fun op => step_raised_same w op, ?_, ?_⟩
  · intro n v c axis k devs stage
    exact shard_raised_iff n v c axis k devs stage (h.node n)
  · intro n c stage
    simp only [step, setStage]
    split <;> simp_all

/-- non-vacuity: each kind of invalid request occurs and is rejected -/
example :
    let w := (run {} [.newModel 11, .newInput 0 "x" (some [.int 2, .int 3]),
      .newNode 0 [some 0] [("o", none)], .addCfg 0 "c" (some 2) [],
      .shard 0 0 0 (-1) 2 [0] (some 1)]).1
    DevOK w ∧
    (step w (.shard 0 0 0 1 2 [] none)).2 = .raised ∧      -- axis 1 = axis -1 of a rank-2 value
    (step w (.shard 0 0 0 2 2 [] none)).2 = .raised ∧      -- out of range
    (step w (.shard 0 0 0 0 0 [] none)).2 = .raised ∧      -- no shard
    (step w (.shard 0 0 0 0 2 [] (some 2))).2 = .raised ∧  -- conflicting stage
    (step w (.shard 1 0 0 0 2 [] none)).2 = .raised ∧      -- not a value of the node
    (step w (.shard 0 0 0 0 2 [1] none)).2 = .ok := by
  decide

/-! ### C19_names_current -/

/-- **C19_names_current**: whenever the device fields of a model serialize (IR version >= 11),
    every `configuration_id` is the *current* name of the referenced configuration object and every
    `tensor_name` is the *current* name of the referenced value (`cfgProto` / `specProto` read the
    names from the world at serialization time); in particular a rename is followed. -/
theorem C19_names_current (w : World) (m : MId) (protos : List (List PCfg))
    (h : serModelDev w m = some protos) (hir : 11 ≤ (w.model m).irVersion) :
    protos = (w.model m).nodes.map (fun n => (w.node n).dev.map (cfgProto w)) :=
  serModelDev_eq h hir

/-- **C19_serializable**: with `DevOK` and named sharded values, serialization of the device fields
    does not raise (so `C19_names_current` applies). -/
theorem C19_serializable (w : World) (h : DevOK w) (hn : Named w) (m : MId) :
    ∃ protos, serModelDev w m = some protos :=
  serModelDev_some h hn m

/-- after `value.name = s` the name read by serialization is `s` -/
theorem C19_rename_followed (w : World) (v : VId) (s : String) (hv : v < w.values.length) (sp : Spec)
    (hsp : sp.value = v) : (specProto (rename w v s).1 sp).tensor = s := by
  simp [specProto, rename, hsp, World.value, List.getD_eq_getElem?_getD, hv]

end IrVerif.Device

/-
C19 — device annotations follow object identity and never dangle: property theorems about the
model `IrVerif.Device` (`Model/Device.lean`); helper development in `Lemmas/Device.lean`.

`DevOK w` (defined next to the model, it is also evaluated by the driver): every spec on a node
targets a current input or output of that node, every node configuration of a node in a model's
graph refers (by identity) to a configuration registered on that model, axes are in range for a
known rank and not repeated after normalisation, `num_shards >= 1`, stages `>= 0`, device indices
inside the configuration, one record per configuration and one spec per (configuration, value).
-/
import IrVerif.Lemmas.DeviceRT
namespace IrVerif.Device

/-! ### C19_step -/

/-- **C19_step** (worlds with nested graphs): every operation of the alphabet — annotate (`shard`,
    `set_pipeline_stage`, valid or rejected), register / remove a configuration with cascade, rename,
    replace an input, resize inputs / outputs, append a node to a root graph or a subgraph, attach a
    subgraph to a node, register an initializer, remove a node (with everything nested under it),
    re-attach a removed node (also to another model), edit a shape, assign the annotation tuple of a
    node or the configuration tuple of a model directly, clone (recursively, value map shared across
    scopes, initializers included), serialize -> deserialize (names resolved through all enclosing
    scopes) — preserves `DevOK`, provided the in-alphabet condition `Pre` holds for it: ids exist; the
    configuration of an annotation request is registered on the node's model (`shard` cannot check
    that: a node does not reach its model; known finding D192); `cascade=True`; a node is re-attached
    only where the configurations it references are registered; a shape is edited only on a value that
    is not sharded; a directly assigned tuple is itself well formed; clone / round trip of a model
    whose node and graph lists are closed under nesting; a clone that clones no value twice; a round
    trip at IR version >= 11 of a model whose named values have unique names. -/
theorem C19_step (w : World) (op : Op) (h : DevOK w) (hpre : Pre w op) : DevOK (step w op).1 := by
  rw [step_eq_stepD]
  cases op with
  | newModel ir => exact DevOK_newModel h ir
  | newInput m name shape => exact DevOK_newInput h m name shape
  | newSubgraph n => exact DevOK_newSubgraph h n
  | newNode m ins outs => exact DevOK_newNode h m ins outs hpre
  | removeNode m n safe => exact DevOK_removeNode h m n safe
  | attachNode g n => exact DevOK_attachNode h g n hpre
  | newInit g name shape => exact DevOK_newInit h g name shape
  | setShape v shape => exact DevOK_setShape h v shape hpre
  | setDev n dev => exact DevOK_setDev h n dev hpre
  | setModelCfgs m cfgs => exact DevOK_setModelCfgs h m cfgs hpre
  | rename v s => exact DevOK_rename h v s
  | addCfg m name num names => exact DevOK_addCfg h m name num names
  | removeCfg m r cascade =>
    have : cascade = true := hpre
    subst this
    exact DevOK_removeCfg h m r
  | shard n v c axis k devs stage => exact DevOK_shard h n v c axis k devs stage hpre
  | setStage n c stage => exact DevOK_setStage h n c stage hpre
  | replaceInput n i val => exact DevOK_replaceInput h n i val hpre
  | resizeInputs n k => exact DevOK_resizeInputs h n k
  | resizeOutputs n k => exact DevOK_resizeOutputs h n k
  | clone m => exact DevOK_clone h m hpre
  | roundTrip m => exact DevOK_roundTrip h m hpre

/-- `Pre` holds for every operation of the history at the world it is applied to -/
def PreAll : World → List Op → Prop
  | _, [] => True
  | w, op :: rest => Pre w op ∧ PreAll (step w op).1 rest

def PreAll.dec : (ops : List Op) → (w : World) → Decidable (PreAll w ops)
  | [], _ => isTrue trivial
  | op :: rest, w =>
    have := PreAll.dec rest (step w op).1
    by unfold PreAll; infer_instance

instance (w : World) (ops : List Op) : Decidable (PreAll w ops) := PreAll.dec ops w

/-- **C19_history**: after every finite in-alphabet history from a world satisfying `DevOK`
    (in particular from the empty world) `DevOK` holds — by induction on the history. -/
theorem C19_history (ops : List Op) : ∀ (w : World), DevOK w → PreAll w ops → DevOK (run w ops).1 := by
  induction ops with
  | nil => intro w h _; exact h
  | cons op rest ih =>
    intro w h hp
    exact ih (step w op).1 (C19_step w op h hp.1) hp.2

/-- non-vacuity of `Pre`/`DevOK`: a history with a subgraph whose node uses and shards an
    outer-scope value, annotations, a rename, a detach, a cascade removal, a clone and a round trip
    satisfies `PreAll`; the cloned and the deserialized nested nodes (4 and 7) carry
    annotations. -/
example :
    let ops : List Op := [.newModel 11, .newInput 0 "x" (some [.int 2, .int 3]), .newInput 0 "y" none,
      .newNode 0 [some 0, some 1] [("o", some [.int 2])], .newNode 0 [some 2] [("p", none)],
      .newSubgraph 1, .newInput 1 "si" none, .newNode 1 [some 0, some 4, some 2] [("t", some [.int 4])],
      .addCfg 0 "c" (some 2) [], .addCfg 0 "d" (some 1) [],
      .shard 0 0 0 (-1) 2 [0, 1] (some 1), .shard 0 2 0 0 2 [1] none, .setStage 0 1 0,
      .shard 2 0 0 1 2 [0] none, .shard 2 5 1 0 4 [] (some 2),   -- a nested node shards an outer-scope value
      .rename 0 "x2", .clone 0, .roundTrip 0, .removeCfg 0 (.byName "d") true,
      .replaceInput 0 0 (some 1), .resizeOutputs 1 0]
    PreAll {} ops ∧ (run {} ops).2.all (· = .ok) ∧
    ((run {} ops).1.node 4).dev ≠ [] ∧ ((run {} ops).1.node 7).dev ≠ [] ∧
    DevOK (run {} ops).1 := by
  decide

/-- `Pre` is not vacuous the other way either: without it the invariant can be lost (documented
    behaviour of `remove_device_configuration(cascade=False)`: dangling references remain). -/
example :
    let ops : List Op := [.newModel 11, .newInput 0 "x" none, .newNode 0 [some 0] [("o", none)],
      .addCfg 0 "c" (some 2) [], .shard 0 0 0 0 2 [] none, .removeCfg 0 (.byObj 0) false]
    ¬ DevOK (run {} ops).1 ∧ check (run {} ops).1 0 = [Err.cfgNotDeclared] := by
  decide

theorem DevOK_empty : DevOK {} := by
  constructor <;> intro x hx <;> cases hx

/-! ### C19_checker_silent -/

/-- **C19_checker_only_names**: on a world satisfying `DevOK` the model of
    `_check_device_configurations` can only report "shards a value with an empty name", and only
    when some sharded value really has an empty name. -/
theorem C19_checker_only_names (w : World) (h : DevOK w) (m : MId) :
    ∀ e ∈ check w m, e = Err.valEmptyName ∧
      ∃ nd ∈ w.nodes, ∃ nc ∈ nd.dev, ∃ s ∈ nc.specs, (w.value s.value).name = "" :=
  check_only_names h m

/-- **C19_checker_silent**: `DevOK` and named sharded values: the internal check returns `[]`. -/
theorem C19_checker_silent (w : World) (h : DevOK w) (hn : Named w) (m : MId) : check w m = [] := by
  apply List.eq_nil_iff_forall_not_mem.mpr
  intro e he
  obtain ⟨_, nd, hnd, nc, hnc, s, hs, hempty⟩ := check_only_names h m e he
  exact hn nd hnd nc hnc s hs hempty

/-! ### C19_drop -/

/-- **C19_drop**: after an operation that can detach a value from node `n`
    (`replace_input_with`, `resize_inputs`, `resize_outputs`, `Graph.remove`) the annotations of `n`
    are the old ones restricted to *exactly* the specs whose target is still an input or output of
    `n` (`keepIO`: same records, same order, same stages; a spec is gone iff its value left the
    node), and no other node is touched. -/
theorem C19_drop (w : World) (h : DevOK w) (op : Op) (n : NId) (hop : op.detaches = some n) :
    ((step w op).1.node n).dev = keepIO ((step w op).1.node n) (w.node n).dev ∧
    ∀ k, k ≠ n → (step w op).1.node k = w.node k := by
  rw [step_eq_stepD]
  exact drop_exact (fun n => h.specs_io n) op n hop

/-- `keepIO` spelled out -/
example (nd' : NodeS) (dev : List NodeCfg) : keepIO nd' dev =
    dev.map (fun nc => { nc with specs := nc.specs.filter (fun s => decide (InIO nd' s.value)) }) := rfl

/-- non-vacuity: a detach really drops a spec -/
example :
    let w := (run {} [.newModel 11, .newInput 0 "x" none, .newInput 0 "y" none,
      .newNode 0 [some 0] [("o", none)], .addCfg 0 "c" (some 2) [],
      .shard 0 0 0 0 2 [0] none, .shard 0 2 0 0 2 [1] none]).1
    DevOK w ∧ (w.node 0).dev = [⟨0, [⟨0, [0], [⟨0, .unk, 2⟩]⟩, ⟨2, [1], [⟨0, .unk, 2⟩]⟩], none⟩] ∧
    ((step w (.replaceInput 0 0 (some 1))).1.node 0).dev = [⟨0, [⟨2, [1], [⟨0, .unk, 2⟩]⟩], none⟩] := by
  decide

/-! ### C19_reject_atomic -/

/-- **C19_checks_precede_writes**: every operation that can raise after touching an existing
    object (`shard`, `set_pipeline_stage`, `add_/remove_device_configuration`, `replace_input_with`,
    `resize_outputs`, `Graph.remove`, `Graph.append` of an existing node, `register_initializer`,
    `Value.name=`) is modelled as the Python-ordered sequence of its checks and writes (`progOf`), run
    by `runMicro` *without roll-back*: a failing check returns the state reached so far.  In every such
    program no check comes after a write. -/
theorem C19_checks_precede_writes (op : Op) (p : List Micro) (h : progOf op = some p) : ChecksFirst p :=
  progOf_checksFirst op p h

/-- **C19_reject_atomic**: (1) whenever an operation of the alphabet raises, the world is
    unchanged — for the micro-step programs because of `C19_checks_precede_writes` (the interpreter
    itself does not restore anything); the remaining operations that can raise, clone and round
    trip, only ever create new objects and return the untouched world on a raise; (2) `shard` raises
    exactly for the invalid requests (value not on the node, fewer than one shard, negative stage,
    a device index outside the configuration,
    axis out of range for a known rank, axis repeated after normalisation for the same
    (configuration, value), conflicting stage); (3) `set_pipeline_stage` raises exactly for a
    negative stage. -/
theorem C19_reject_atomic (w : World) (h : DevOK w) :
    (∀ op, (step w op).2 = .raised → (step w op).1 = w) ∧
    (∀ n v c axis k devs stage,
      (step w (.shard n v c axis k devs stage)).2 = .raised ↔ ShardInvalid w n v c axis k devs stage) ∧
    (∀ n c stage, (step w (.setStage n c stage)).2 = .raised ↔ stage < 0) := by
  refine ⟨?_, ?_, ?_⟩
  · intro op hr
    cases hp : progOf op with
    | some p =>
      simp only [step, hp] at hr ⊢
      exact runMicro_atomic p w (progOf_checksFirst op p hp) hr
    | none =>
      simp only [step, hp] at hr ⊢
      exact stepD_raised_same w op hr
  · intro n v c axis k devs stage
    rw [step_eq_stepD]
    exact shard_raised_iff n v c axis k devs stage (h.node n)
  · intro n c stage
    rw [step_eq_stepD]
    simp only [stepD, setStage]
    split <;> simp_all

/-- non-vacuity: each kind of invalid request occurs and is rejected -/
example :
    let w := (run {} [.newModel 11, .newInput 0 "x" (some [.int 2, .int 3]),
      .newNode 0 [some 0] [("o", none)], .addCfg 0 "c" (some 2) [],
      .shard 0 0 0 (-1) 2 [0] (some 1)]).1
    DevOK w ∧
    (step w (.shard 0 0 0 1 2 [] none)).2 = .raised ∧      -- axis 1 = axis -1 of a rank-2 value
    (step w (.shard 0 0 0 2 2 [] none)).2 = .raised ∧      -- out of range
    (step w (.shard 0 0 0 0 0 [] none)).2 = .raised ∧      -- no shard
    (step w (.shard 0 0 0 0 2 [] (some 2))).2 = .raised ∧  -- conflicting stage
    (step w (.shard 1 0 0 0 2 [] none)).2 = .raised ∧      -- not a value of the node
    (step w (.shard 0 0 0 0 2 [1] none)).2 = .ok := by
  decide

/-! ### serialization

That serialized `tensor_name` / `configuration_id` are the *current* names holds by construction of the
model (references are identity-bound, `serSpec` / `serCfg` read the names from the world at
serialization time): `serModelDev_eq` in `Lemmas/Device.lean`.  It is not counted as a property
theorem; what ties it to the code is the correspondence, which compares the serialized fields of
every model after every operation (renames included), and the oracle `oracle_names_current`. -/

/-- **C19_roundtrip_faithful**: a successful in-alphabet round trip (`DevOK`, IR version >= 11, closed
    lists, unique names of named values; serialization succeeding means every sharded value is named)
    reproduces every annotation field by field on fresh objects.  The correspondence between old and
    new ids: the new model is the last model; its configuration objects are record-for-record copies
    (name, num_devices, device names) of the source model's, in order; its nodes are the second
    components of a list of pairs (source node, new node) — nested nodes included, every source node
    of the model occurs as a first component (nothing is lost) — and for every pair the annotation records correspond position by position (`NodeRel`): the copy refers to the
    copy of the same configuration, has the same stage, and its specs, in the same order, target
    existing values of the *same name* with the same device list and the same sharded axes (axis,
    dimension, number of shards).  (`C19_step` adds that those values are inputs/outputs of the new
    node and that the configurations are registered on the new model.) -/
theorem C19_roundtrip_faithful (w : World) (h : DevOK w) (m : MId) (hpre : Pre w (.roundTrip m))
    (hok : (roundTrip w m).2 = .ok) :
    (roundTrip w m).1.models.length = w.models.length + 1 ∧
    (((roundTrip w m).1.model w.models.length).cfgs.map (roundTrip w m).1.cfg = (w.model m).cfgs.map w.cfg) ∧
    ((roundTrip w m).1.model w.models.length).irVersion = (w.model m).irVersion ∧
    ∃ ps : List (NId × NId), ((roundTrip w m).1.model w.models.length).nodes = ps.map (·.2) ∧
      (∀ n ∈ (w.model m).nodes, n ∈ ps.map (·.1)) ∧
      ∀ p ∈ ps, p.1 ∈ (w.model m).nodes ∧
        NodeRel w (roundTrip w m).1 (w.node p.1) ((roundTrip w m).1.node p.2) :=
  roundTrip_faithful h m hpre hok

/-- `NodeRel` spelled out -/
example (w w' : World) (nd nd' : NodeS) : NodeRel w w' nd nd' =
    All2 (fun nc nc' => w'.cfg nc'.cfg = w.cfg nc.cfg ∧ nc'.stage = nc.stage ∧
      All2 (fun s s' => s'.value < w'.values.length ∧ (w'.value s'.value).name = (w.value s.value).name ∧
        s'.device = s.device ∧ s'.dims = s.dims) nc.specs nc'.specs) nd.dev nd'.dev := rfl

/-- **C19_serializable**: with `DevOK` and named sharded values, serialization of the device fields
    does not raise. -/
theorem C19_serializable (w : World) (h : DevOK w) (hn : Named w) (m : MId) :
    ∃ protos, serModelDev w m = some protos :=
  serModelDev_some h hn m

end IrVerif.Device

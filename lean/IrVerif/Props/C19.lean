/-
C19 — device annotations follow object identity and never dangle: property theorems about the
model `IrVerif.Device` (`Model/Device.lean`); helper development in `Lemmas/Device.lean`.

`DevOK w` (defined next to the model, it is also evaluated by the driver): every spec on a node
targets a current input or output of that node, every node configuration of a node in a model's
graph refers (by identity) to a configuration registered on that model, axes are in range for a
known rank and not repeated after normalisation, `num_shards >= 1`, stages `>= 0`, device indices
inside the configuration, one record per configuration and one spec per (configuration, value).

Round trips are taken of models whose names are unique along every scope chain (`NamesChain`); `C19_step_any` /
`C19_history_any` cover every IR version; `C19_inline_pass` / `C19_inline_pass_axes` are about the complete
`InlinePass` (`Model/DeviceInl.lean`), after which only the weaker invariant `WeakOK` holds; `C19_step_weak` /
`C19_history_weak` / `C19_weak_checker` are the step and history theorems that start from the weak invariant
(`WeakDev`, helper development in `Lemmas/DeviceWk*.lean`): `InlinePass` followed by any in-alphabet history.
-/
import IrVerif.Lemmas.DeviceNames
import IrVerif.Lemmas.DeviceRTLegacy
import IrVerif.Lemmas.DeviceInline
import IrVerif.Lemmas.DeviceInlPass
import IrVerif.Lemmas.DeviceInlAxes
import IrVerif.Lemmas.DeviceWkStep
namespace IrVerif.Device

/-! ### C19_step -/

/-- **C19_step** (worlds with nested graphs): every operation of the alphabet — annotate (`shard`,
    `set_pipeline_stage`, valid or rejected), register / remove a configuration with cascade, rename,
    replace an input, resize inputs / outputs, append a node to a root graph or a subgraph, attach a
    subgraph to a node, register an initializer, remove a node (with everything nested under it),
    re-attach a removed node (also to another model), edit a shape, assign the annotation tuple of a
    node or the configuration tuple of a model directly, clone (recursively, value map shared across
    scopes, initializers included, the functions of the model each with a cloner of its own), serialize
    -> deserialize (names resolved through all enclosing scopes; functions with a scope of their own), add
    a function to a model (its body is edited and annotated like any other graph), `Function.clone`
    (registered on the model under a new name), `Graph.clone(allow_outer_scope_values=True)` of a subgraph
    (attached to a node as a further GRAPH attribute; specs on outer-scope values stay on those values)
    — preserves `DevOK`, provided the in-alphabet condition `Pre` holds for it: ids exist; the
    configuration of an annotation request is registered on the node's model (`shard` cannot check
    that: a node does not reach its model; known finding D192); `cascade=True`; a node is re-attached
    only where the configurations it references are registered; a shape is edited only on a value that
    is not sharded; a directly assigned tuple is itself well formed; clone / round trip of a model
    whose node and graph lists are closed under nesting; a round
    trip at IR version >= 11 of a model whose named values have unique names along every scope chain
    (`NamesChain`: for every graph, the values of the graph and of its enclosing graphs - what the deserializer
    resolves by, innermost scope first; sibling subgraphs, function bodies and the main graph may reuse names,
    a subgraph may not shadow a name of an enclosing graph, which is also what ONNX asks for).  (The former clause "a clone
    clones no value twice" is no longer needed: fix D350, `clone_node` remaps through the node-local io map.) -/
theorem C19_step (w : World) (op : Op) (h : DevOK w) (hpre : Pre w op) : DevOK (step w op).1 := by
  rw [step_eq_stepD]
  cases op with
  | newModel ir => exact DevOK_newModel h ir
  | newInput m name shape => exact DevOK_newInput h m name shape
  | newSubgraph n => exact DevOK_newSubgraph h n
  | newNode m ins outs => exact DevOK_newNode h m ins outs hpre
  | removeNode m n safe => exact DevOK_removeNode h m n safe
  | attachNode g n => exact DevOK_attachNode h g n hpre
  | newInit g name shape => exact DevOK_newInit h g name shape
  | setShape v shape => exact DevOK_setShape h v shape hpre
  | setDev n dev => exact DevOK_setDev h n dev hpre
  | setModelCfgs m cfgs => exact DevOK_setModelCfgs h m cfgs hpre
  | rename v s => exact DevOK_rename h v s
  | addCfg m name num names => exact DevOK_addCfg h m name num names
  | removeCfg m r cascade =>
    have : cascade = true := hpre
    subst this
    exact DevOK_removeCfg h m r
  | shard n v c axis k devs stage => exact DevOK_shard h n v c axis k devs stage hpre
  | setStage n c stage => exact DevOK_setStage h n c stage hpre
  | replaceInput n i val => exact DevOK_replaceInput h n i val hpre
  | resizeInputs n k => exact DevOK_resizeInputs h n k
  | resizeOutputs n k => exact DevOK_resizeOutputs h n k
  | clone m => exact DevOK_clone h m hpre
  | roundTrip m => exact DevOK_roundTrip h m hpre
  | newFunction m => exact DevOK_newFunction h m
  | cloneFunc m i => exact DevOK_cloneFunc h m i hpre
  | cloneSub n g => exact DevOK_cloneSub h n g hpre

/-- `Pre` holds for every operation of the history at the world it is applied to -/
def PreAll : World → List Op → Prop
  | _, [] => True
  | w, op :: rest => Pre w op ∧ PreAll (step w op).1 rest

def PreAll.dec : (ops : List Op) → (w : World) → Decidable (PreAll w ops)
  | [], _ => isTrue trivial
  | op :: rest, w =>
    have := PreAll.dec rest (step w op).1
    by unfold PreAll; infer_instance

instance (w : World) (ops : List Op) : Decidable (PreAll w ops) := PreAll.dec ops w

/-- **C19_history**: after every finite in-alphabet history from a world satisfying `DevOK`
    (in particular from the empty world) `DevOK` holds — by induction on the history. -/
theorem C19_history (ops : List Op) : ∀ (w : World), DevOK w → PreAll w ops → DevOK (run w ops).1 := by
  induction ops with
  | nil => intro w h _; exact h
  | cons op rest ih =>
    intro w h hp
    exact ih (step w op).1 (C19_step w op h hp.1) hp.2

/-- non-vacuity of `Pre`/`DevOK`: a history with a subgraph whose node uses and shards an
    outer-scope value, annotations, a rename, a detach, a cascade removal, a clone and a round trip
    satisfies `PreAll`; the cloned and the deserialized nested nodes (4 and 7) carry
    annotations. -/
example :
    let ops : List Op := [.newModel 11, .newInput 0 "x" (some [.int 2, .int 3]), .newInput 0 "y" none,
      .newNode 0 [some 0, some 1] [("o", some [.int 2])], .newNode 0 [some 2] [("p", none)],
      .newSubgraph 1, .newInput 1 "si" none, .newNode 1 [some 0, some 4, some 2] [("t", some [.int 4])],
      .addCfg 0 "c" (some 2) [], .addCfg 0 "d" (some 1) [],
      .shard 0 0 0 (-1) 2 [0, 1] (some 1), .shard 0 2 0 0 2 [1] none, .setStage 0 1 0,
      .shard 2 0 0 1 2 [0] none, .shard 2 5 1 0 4 [] (some 2),   -- a nested node shards an outer-scope value
      .rename 0 "x2", .clone 0, .roundTrip 0, .removeCfg 0 (.byName "d") true,
      .replaceInput 0 0 (some 1), .resizeOutputs 1 0]
    PreAll {} ops ∧ (run {} ops).2.all (· = .ok) ∧
    ((run {} ops).1.node 4).dev ≠ [] ∧ ((run {} ops).1.node 7).dev ≠ [] ∧
    DevOK (run {} ops).1 := by
  decide

/-- `Pre` is not vacuous the other way either: without it the invariant can be lost (documented
    behaviour of `remove_device_configuration(cascade=False)`: dangling references remain). -/
example :
    let ops : List Op := [.newModel 11, .newInput 0 "x" none, .newNode 0 [some 0] [("o", none)],
      .addCfg 0 "c" (some 2) [], .shard 0 0 0 0 2 [] none, .removeCfg 0 (.byObj 0) false]
    ¬ DevOK (run {} ops).1 ∧ check (run {} ops).1 0 = [Err.cfgNotDeclared] := by
  decide

/-! #### the remaining clauses of `Pre` are necessary

Each clause of `Pre` that restricts a call of the public API is shown necessary by a counterexample:
the history satisfies `PreAll` up to its last operation, the last operation violates exactly that
clause, and `DevOK` is lost (the model of the internal checker reports it).  The same histories are in
`corpus/C19/pre-necessary.jsonl`: every run replays them on the real objects and compares the checker
output with the model's.  None of them is in the alphabet of the property's statement (shape edits,
moving a node to another model, hand-built tuples, duplicate value names are not "annotating, renaming,
replacing inputs, resizing outputs, cloning, cascade removal, round trip").

The former clause "a clone clones no value twice" is gone: since the fix of D350 `clone_node` remaps a
node's specs through that node's own input / output correspondence (`ioMap`), and `DevOK_clone` needs
nothing but `Closed`. -/

/-- a shape is edited only on unsharded values: shrinking the rank of a sharded value leaves an axis out
    of range -/
example :
    let w := (run {} [.newModel 11, .newInput 0 "x" (some [.int 2, .int 3]), .newNode 0 [some 0] [("o", none)],
      .addCfg 0 "c" (some 2) [], .shard 0 0 0 1 2 [] none]).1
    DevOK w ∧ ¬ Pre w (.setShape 0 (some [.int 2])) ∧ ¬ DevOK (step w (.setShape 0 (some [.int 2]))).1 ∧
    check (step w (.setShape 0 (some [.int 2]))).1 0 = [Err.axisRange] := by
  decide

/-- a node is re-attached only where its configurations are registered: an annotated node moved to
    another model references a configuration that model does not declare -/
example :
    let w := (run {} [.newModel 11, .newModel 11, .newInput 0 "x" none, .newNode 0 [some 0] [("o", none)],
      .addCfg 0 "c" (some 2) [], .shard 0 0 0 0 2 [] none, .removeNode 0 0 false]).1
    DevOK w ∧ ¬ Pre w (.attachNode 1 0) ∧ ¬ DevOK (step w (.attachNode 1 0)).1 ∧
    check (step w (.attachNode 1 0)).1 1 = [Err.cfgNotDeclared] := by
  decide

/-- a directly assigned tuple is well formed: a hand-built spec on a value that is not on the node -/
example :
    let w := (run {} [.newModel 11, .newInput 0 "x" none, .newInput 0 "y" none, .newNode 0 [some 0] [("o", none)],
      .addCfg 0 "c" (some 2) [], .shard 0 0 0 0 2 [] none]).1
    DevOK w ∧ ¬ Pre w (.setDev 0 [⟨0, [⟨1, [], []⟩], none⟩]) ∧
    ¬ DevOK (step w (.setDev 0 [⟨0, [⟨1, [], []⟩], none⟩])).1 ∧
    check (step w (.setDev 0 [⟨0, [⟨1, [], []⟩], none⟩])).1 0 = [Err.valNotIO] := by
  decide

/-- a round trip is taken of a model whose named values have unique names: two graph inputs of the same
    name are one value after the reload, so the two specs of the node target the same value, one of them
    with an axis that is out of range for it -/
example :
    let w := (run {} [.newModel 11, .newInput 0 "a" (some [.int 2, .int 3]), .newInput 0 "a" (some [.int 4]),
      .newNode 0 [some 0, some 1] [("o", none)], .addCfg 0 "c" (some 2) [],
      .shard 0 0 0 1 2 [] none, .shard 0 1 0 0 2 [] none]).1
    DevOK w ∧ ¬ Pre w (.roundTrip 0) ∧ (step w (.roundTrip 0)).2 = .ok ∧ ¬ DevOK (step w (.roundTrip 0)).1 ∧
    check (step w (.roundTrip 0)).1 1 = [Err.axisRange] := by
  decide

theorem DevOK_empty : DevOK {} := by
  constructor <;> intro x hx <;> cases hx

/-! ### C19_checker_silent -/

/-- **C19_checker_only_names**: on a world satisfying `DevOK` the model of
    `_check_device_configurations` can only report "shards a value with an empty name", and only
    when some sharded value really has an empty name. -/
theorem C19_checker_only_names (w : World) (h : DevOK w) (m : MId) :
    ∀ e ∈ check w m, e = Err.valEmptyName ∧
      ∃ nd ∈ w.nodes, ∃ nc ∈ nd.dev, ∃ s ∈ nc.specs, (w.value s.value).name = "" :=
  check_only_names h m

/-- **C19_checker_silent**: `DevOK` and named sharded values: the internal check returns `[]`. -/
theorem C19_checker_silent (w : World) (h : DevOK w) (hn : Named w) (m : MId) : check w m = [] := by
  apply List.eq_nil_iff_forall_not_mem.mpr
  intro e he
  obtain ⟨_, nd, hnd, nc, hnc, s, hs, hempty⟩ := check_only_names h m e he
  exact hn nd hnd nc hnc s hs hempty

/-! ### C19_drop -/

/-- **C19_drop**: after an operation that can detach a value from node `n`
    (`replace_input_with`, `resize_inputs`, `resize_outputs`, `Graph.remove`) the annotations of `n`
    are the old ones restricted to *exactly* the specs whose target is still an input or output of
    `n` (`keepIO`: same records, same order, same stages; a spec is gone iff its value left the
    node), and no other node is touched. -/
theorem C19_drop (w : World) (h : DevOK w) (op : Op) (n : NId) (hop : op.detaches = some n) :
    ((step w op).1.node n).dev = keepIO ((step w op).1.node n) (w.node n).dev ∧
    ∀ k, k ≠ n → (step w op).1.node k = w.node k := by
  rw [step_eq_stepD]
  exact drop_exact (fun n => h.specs_io n) op n hop

/-- `keepIO` spelled out -/
example (nd' : NodeS) (dev : List NodeCfg) : keepIO nd' dev =
    dev.map (fun nc => { nc with specs := nc.specs.filter (fun s => decide (InIO nd' s.value)) }) := rfl

/-- non-vacuity: a detach really drops a spec -/
example :
    let w := (run {} [.newModel 11, .newInput 0 "x" none, .newInput 0 "y" none,
      .newNode 0 [some 0] [("o", none)], .addCfg 0 "c" (some 2) [],
      .shard 0 0 0 0 2 [0] none, .shard 0 2 0 0 2 [1] none]).1
    DevOK w ∧ (w.node 0).dev = [⟨0, [⟨0, [0], [⟨0, .unk, 2⟩]⟩, ⟨2, [1], [⟨0, .unk, 2⟩]⟩], none⟩] ∧
    ((step w (.replaceInput 0 0 (some 1))).1.node 0).dev = [⟨0, [⟨2, [1], [⟨0, .unk, 2⟩]⟩], none⟩] := by
  decide

/-! ### C19_reject_atomic -/

/-- **C19_checks_precede_writes**: every operation that can raise after touching an existing
    object (`shard`, `set_pipeline_stage`, `add_/remove_device_configuration`, `replace_input_with`,
    `resize_outputs`, `Graph.remove`, `Graph.append` of an existing node, `register_initializer`,
    `Value.name=`) is modelled as the Python-ordered sequence of its checks and writes (`progOf`), run
    by `runMicro` *without roll-back*: a failing check returns the state reached so far.  In every such
    program no check comes after a write. -/
theorem C19_checks_precede_writes (op : Op) (p : List Micro) (h : progOf op = some p) : ChecksFirst p :=
  progOf_checksFirst op p h

/-- **C19_reject_atomic**: (1) whenever an operation of the alphabet raises, the world is
    unchanged — for the micro-step programs because of `C19_checks_precede_writes` (the interpreter
    itself does not restore anything); the remaining operations that can raise, clone and round
    trip, only ever create new objects and return the untouched world on a raise; (2) `shard` raises
    exactly for the invalid requests (value not on the node, fewer than one shard, negative stage,
    a device index outside the configuration,
    axis out of range for a known rank, axis repeated after normalisation for the same
    (configuration, value), conflicting stage); (3) `set_pipeline_stage` raises exactly for a
    negative stage. -/
theorem C19_reject_atomic (w : World) (h : DevOK w) :
    (∀ op, (step w op).2 = .raised → (step w op).1 = w) ∧
    (∀ n v c axis k devs stage,
      (step w (.shard n v c axis k devs stage)).2 = .raised ↔ ShardInvalid w n v c axis k devs stage) ∧
    (∀ n c stage, (step w (.setStage n c stage)).2 = .raised ↔ stage < 0) := by
  refine ⟨?_, ?_, ?_⟩
  · intro op hr
    cases hp : progOf op with
    | some p =>
      simp only [step, hp] at hr ⊢
      exact runMicro_atomic p w (progOf_checksFirst op p hp) hr
    | none =>
      simp only [step, hp] at hr ⊢
      exact stepD_raised_same w op hr
  · intro n v c axis k devs stage
    rw [step_eq_stepD]
    exact shard_raised_iff n v c axis k devs stage (h.node n)
  · intro n c stage
    rw [step_eq_stepD]
    simp only [stepD, setStage]
    split <;> simp_all

/-- non-vacuity: each kind of invalid request occurs and is rejected -/
example :
    let w := (run {} [.newModel 11, .newInput 0 "x" (some [.int 2, .int 3]),
      .newNode 0 [some 0] [("o", none)], .addCfg 0 "c" (some 2) [],
      .shard 0 0 0 (-1) 2 [0] (some 1)]).1
    DevOK w ∧
    (step w (.shard 0 0 0 1 2 [] none)).2 = .raised ∧      -- axis 1 = axis -1 of a rank-2 value
    (step w (.shard 0 0 0 2 2 [] none)).2 = .raised ∧      -- out of range
    (step w (.shard 0 0 0 0 0 [] none)).2 = .raised ∧      -- no shard
    (step w (.shard 0 0 0 0 2 [] (some 2))).2 = .raised ∧  -- conflicting stage
    (step w (.shard 1 0 0 0 2 [] none)).2 = .raised ∧      -- not a value of the node
    (step w (.shard 0 0 0 0 2 [1] none)).2 = .ok := by
  decide

/-! ### serialization

The serializer of the model reads `tensor_name` / `configuration_id` from the value / configuration
objects at serialization time (`serSpec`, `serCfg`, as `serde.py` 1620-1664 does); the annotation holds
the object.  What makes "serialized references carry the current names" a statement about *histories*
is that between the annotation and the serialization anything of the alphabet may happen, renames
included: `C19_name_frame` (only `Value.name = s` changes the name of an existing value, every other
operation - clone, round trip, Function.clone, Graph.clone included - only appends objects) and
`C19_names_current`. -/

/-- **C19_name_frame**: an in-alphabet operation that is not an assignment to the name of `v` keeps
    the value `v` and its name. -/
theorem C19_name_frame (w : World) (op : Op) (h : DevOK w) (hpre : Pre w op) (v : VId)
    (hv : v < w.values.length) (hnr : ¬ op.renames v) :
    v < (step w op).1.values.length ∧ ((step w op).1.value v).name = (w.value v).name := by
  rw [step_eq_stepD]
  exact stepD_name w op h hpre v hv hnr

/-- the name of `v` survives every in-alphabet history without an assignment to it -/
theorem run_name_kept (v : VId) (ops : List Op) : ∀ (w : World), DevOK w → PreAll w ops →
    (∀ op ∈ ops, ¬ op.renames v) → v < w.values.length →
    v < (run w ops).1.values.length ∧ ((run w ops).1.value v).name = (w.value v).name := by
  induction ops with
  | nil => intro w _ _ _ hv; exact ⟨hv, rfl⟩
  | cons op rest ih =>
    intro w h hp hnr hv
    obtain ⟨h1, h2⟩ := C19_name_frame w op h hp.1 v hv (hnr op (by simp))
    obtain ⟨h3, h4⟩ := ih (step w op).1 (C19_step w op h hp.1) hp.2 (fun o ho => hnr o (by simp [ho])) h1
    exact ⟨h3, by rw [← h2]; exact h4⟩

/-- **C19_names_current**: take any world satisfying the invariant (annotations on `v` included), a
    successful `v.name = s`, and then ANY in-alphabet history `post` that does not assign to the name of
    `v` again (edits, further annotations, renames of other values, clones, round trips ...).  In the
    world reached, `s` is the name of `v`, and whenever the device fields of a model serialize (IR
    version >= 11) they are, node by node and record by record, the protos built from the *current*
    names (`cfgProto`: `configuration_id` = name of the configuration object, `tensor_name` = name of
    the value object) - in particular every serialized spec that targets `v` carries `s`, whatever
    name `v` had when the annotation was made. -/
theorem C19_names_current (w : World) (h : DevOK w) (v : VId) (s : String) (post : List Op)
    (hv : v < w.values.length) (hok : (step w (.rename v s)).2 = .ok)
    (hpre : PreAll (step w (.rename v s)).1 post) (hnr : ∀ op ∈ post, ¬ op.renames v) :
    ((run (step w (.rename v s)).1 post).1.value v).name = s ∧
    ∀ m protos, serModelDev (run (step w (.rename v s)).1 post).1 m = some protos →
      11 ≤ ((run (step w (.rename v s)).1 post).1.model m).irVersion →
      protos = ((run (step w (.rename v s)).1 post).1.model m).nodes.map (fun n =>
        ((run (step w (.rename v s)).1 post).1.node n).dev.map (cfgProto (run (step w (.rename v s)).1 post).1)) ∧
      ∀ n ∈ ((run (step w (.rename v s)).1 post).1.model m).nodes,
        ∀ nc ∈ ((run (step w (.rename v s)).1 post).1.node n).dev, ∀ sp ∈ nc.specs, sp.value = v →
          (specProto (run (step w (.rename v s)).1 post).1 sp).tensor = s := by
  have h1 : DevOK (step w (.rename v s)).1 := C19_step w _ h trivial
  have hr : v < (step w (.rename v s)).1.values.length ∧ ((step w (.rename v s)).1.value v).name = s := by
    rw [step_eq_stepD] at hok ⊢
    exact rename_name w v s hv hok
  obtain ⟨_, hk⟩ := run_name_kept v post _ h1 hpre hnr hr.1
  have hname : ((run (step w (.rename v s)).1 post).1.value v).name = s := by rw [hk]; exact hr.2
  refine ⟨hname, ?_⟩
  intro m protos hser hir
  refine ⟨serModelDev_eq hser hir, ?_⟩
  intro n _ nc _ sp _ hsv
  simp only [specProto, hsv]
  exact hname

/-- non-vacuity: annotate under the name "x", rename to "x2", edit / clone / round trip, rename another
    value: the serialized spec of node 0 carries "x2" -/
example :
    let w := (run {} [.newModel 11, .newInput 0 "x" (some [.int 2, .int 3]), .newInput 0 "y" none,
      .newNode 0 [some 0, some 1] [("o", none)], .addCfg 0 "c" (some 2) [],
      .shard 0 0 0 1 2 [0] none]).1
    let post : List Op := [.shard 0 1 0 0 2 [] none, .clone 0, .rename 1 "y2", .roundTrip 0, .newNode 0 [some 0] [("p", none)]]
    DevOK w ∧ (step w (.rename 0 "x2")).2 = .ok ∧ PreAll (step w (.rename 0 "x2")).1 post ∧
    (∀ op ∈ post, ¬ op.renames 0) ∧
    ((serModelDev (run (step w (.rename 0 "x2")).1 post).1 0).map (fun l => (l.getD 0 []).map (fun p => p.specs.map (·.tensor))))
      = some [["x2", "y2"]] := by
  decide

/-- **C19_roundtrip_faithful**: a successful in-alphabet round trip (`DevOK`, IR version >= 11, closed
    lists, unique names of named values; serialization succeeding means every sharded value is named)
    reproduces every annotation field by field on fresh objects.  The correspondence between old and
    new ids: the new model is the last model; its configuration objects are record-for-record copies
    (name, num_devices, device names) of the source model's, in order; its nodes are the second
    components of a list of pairs (source node, new node) — nested nodes included, every source node
    of the model occurs as a first component (nothing is lost) — and for every pair the annotation records correspond position by position (`NodeRel`): the copy refers to the
    copy of the same configuration, has the same stage, and its specs, in the same order, target
    existing values of the *same name* with the same device list and the same sharded axes (axis,
    dimension, number of shards).  (`C19_step` adds that those values are inputs/outputs of the new
    node and that the configurations are registered on the new model.) -/
theorem C19_roundtrip_faithful (w : World) (h : DevOK w) (m : MId) (hpre : Pre w (.roundTrip m))
    (hok : (roundTrip w m).2 = .ok) :
    (roundTrip w m).1.models.length = w.models.length + 1 ∧
    (((roundTrip w m).1.model w.models.length).cfgs.map (roundTrip w m).1.cfg = (w.model m).cfgs.map w.cfg) ∧
    ((roundTrip w m).1.model w.models.length).irVersion = (w.model m).irVersion ∧
    ∃ ps : List (NId × NId), ((roundTrip w m).1.model w.models.length).nodes = ps.map (·.2) ∧
      (∀ n ∈ (w.model m).nodes, n ∈ ps.map (·.1)) ∧
      ∀ p ∈ ps, p.1 ∈ (w.model m).nodes ∧
        NodeRel w (roundTrip w m).1 (w.node p.1) ((roundTrip w m).1.node p.2) :=
  roundTrip_faithful h m hpre hok

/-- **C19_roundtrip_legacy**: a round trip *below* IR version 11 (closed lists, unique names of named
    values; the IR-version gate of the serializer writes no device field and no model configuration):
    the world reached satisfies `DevOK`, and when the round trip succeeds the new model - the last one -
    has no configurations and none of its nodes (nested ones and function bodies included) has an
    annotation: nothing dangles after the reload.  (`Pre` of `C19_step` keeps round trips at IR
    version >= 11, where `C19_roundtrip_faithful` says the annotations are reproduced; this theorem is the
    other half.) -/
theorem C19_roundtrip_legacy (w : World) (h : DevOK w) (m : MId) (hir : (w.model m).irVersion < 11)
    (hcl : Closed w (w.model m)) (hU : NamesUnique w (w.model m)) :
    DevOK (roundTrip w m).1 ∧
    ((roundTrip w m).2 = .ok →
      (roundTrip w m).1.models.length = w.models.length + 1 ∧
      ((roundTrip w m).1.model w.models.length).cfgs = [] ∧
      ∀ n ∈ ((roundTrip w m).1.model w.models.length).nodes, ((roundTrip w m).1.node n).dev = []) :=
  roundTrip_legacy h m hir hcl hU

/-- the round-trip hypothesis is per scope chain: main graph and function body both call their values "x" / "o" and
    shard them; global uniqueness fails, `Pre` holds, the reload is faithful: the function-body node of the new
    model (node 3) shards the new function input (value 6), not the main graph's "x" -/
example :
    let w := (run {} [.newModel 11, .newInput 0 "x" (some [.int 2, .int 3]), .newNode 0 [some 0] [("o", none)],
      .addCfg 0 "c" (some 2) [], .shard 0 0 0 1 2 [0] none, .newFunction 0, .newInput 1 "x" (some [.int 4]),
      .newNode 1 [some 2] [("o", none)], .shard 1 2 0 0 2 [] none, .shard 1 3 0 0 2 [] none]).1
    DevOK w ∧ ¬ NamesUnique w (w.model 0) ∧ NamesChain w (w.model 0) ∧ Pre w (.roundTrip 0) ∧
    (roundTrip w 0).2 = .ok ∧ ((roundTrip w 0).1.model 1).nodes = [2, 3] ∧
    (((roundTrip w 0).1.node 3).dev.map (fun nc => nc.specs.map (·.value))) = [[6, 7]] ∧
    ((roundTrip w 0).1.node 3).inputs = [some 6] ∧ ((roundTrip w 0).1.node 3).outputs = [7] := by
  decide

/-- sibling subgraphs (the branches of an `If`) may use the same names: both branches call their node output "h"
    and shard it; `Pre` holds, the reload is faithful (the nodes 4 and 5 of the new model shard their own outputs 8
    and 9).  A subgraph that SHADOWS a name of its enclosing graph is outside `Pre` (last line: the first branch
    renamed to the outer "x"). -/
example :
    let w := (run {} [.newModel 11, .newInput 0 "x" none, .newNode 0 [some 0] [("o", none)],
      .addCfg 0 "c" (some 2) [], .newSubgraph 0, .newSubgraph 0,
      .newNode 1 [some 0] [("h", none)], .newNode 2 [some 0] [("h", none)],
      .shard 1 2 0 0 2 [] none, .shard 2 3 0 1 2 [] none]).1
    DevOK w ∧ ¬ NamesUnique w (w.model 0) ∧ NamesChain w (w.model 0) ∧ Pre w (.roundTrip 0) ∧
    (roundTrip w 0).2 = .ok ∧
    (((roundTrip w 0).1.model 1).nodes.map (fun n => ((roundTrip w 0).1.node n).dev.map (fun nc => nc.specs.map (·.value)))) =
      [[[6]], [[7]], []] ∧
    ((roundTrip w 0).1.model 1).nodes.map (fun n => ((roundTrip w 0).1.node n).outputs) = [[6], [7], [5]] ∧
    ¬ Pre (step w (.rename 2 "x")).1 (.roundTrip 0) := by
  decide

/-- non-vacuity: an annotated IR-10 model (a main-graph node, a nested node and a function-body node carry
    annotations) is reloaded without them -/
example :
    let w := (run {} [.newModel 10, .newInput 0 "x" (some [.int 2, .int 3]), .newNode 0 [some 0] [("o", none)],
      .addCfg 0 "c" (some 2) [], .shard 0 0 0 1 2 [0] (some 1), .newSubgraph 0, .newNode 1 [some 0] [("t", none)],
      .shard 1 0 0 0 2 [] none, .newFunction 0, .newInput 2 "fx" none, .newNode 2 [some 3] [("fo", none)],
      .setStage 2 0 2]).1
    DevOK w ∧ (w.model 0).irVersion < 11 ∧ Closed w (w.model 0) ∧ NamesUnique w (w.model 0) ∧
    (w.node 0).dev ≠ [] ∧ (w.node 1).dev ≠ [] ∧ (w.node 2).dev ≠ [] ∧
    (roundTrip w 0).2 = .ok ∧ ((roundTrip w 0).1.model 1).nodes.length = 3 := by
  decide

/-- `NodeRel` spelled out -/
example (w w' : World) (nd nd' : NodeS) : NodeRel w w' nd nd' =
    All2 (fun nc nc' => w'.cfg nc'.cfg = w.cfg nc.cfg ∧ nc'.stage = nc.stage ∧
      All2 (fun s s' => s'.value < w'.values.length ∧ (w'.value s'.value).name = (w.value s.value).name ∧
        s'.device = s.device ∧ s'.dims = s.dims) nc.specs nc'.specs) nd.dev nd'.dev := rfl

/-- **C19_serializable**: with `DevOK` and named sharded values, serialization of the device fields
    does not raise. -/
theorem C19_serializable (w : World) (h : DevOK w) (hn : Named w) (m : MId) :
    ∃ protos, serModelDev w m = some protos :=
  serModelDev_some h hn m

/-! ### InlinePass: annotations of an instantiated body node -/

/-- **C19_inline_remap**: the step of `InlinePass` that handles annotations - `Cloner.clone_node` of a
    function-body node with the inliner's value map (formal parameter -> actual argument of the call
    node, or `None` for a missing / `None` argument; body value -> its clone).  For a body node of a world
    satisfying `DevOK` (only "every spec targets an input or output of the node" is used) whose
    instantiation succeeds: the new inputs are the images of the old ones, the outputs are fresh, the
    records keep their configuration objects and stages in order, **every spec of the new node targets an
    input or output of the new node** (nothing dangles into the function body or elsewhere), and every
    new spec comes from a spec of the same configuration with the same devices and sharded axes whose
    value was an output (now the corresponding new output) or an input whose image is the new target;
    in particular a spec on a formal parameter mapped to `None` is dropped, never kept with a dangling
    target.  (The remaining steps of the pass are operations of the alphabet: re-wiring the uses of the
    call node's outputs is `replace_input_with`, the removal of the call node `Graph.remove(safe=True)`;
    the composition, the renaming of inlined values and the copy of the call outputs' shapes onto the
    function outputs' images are oracle-only - after inlining axes may be out of range for the actual
    arguments and two specs may coincide, so the full `DevOK` is not claimed.) -/
theorem C19_inline_remap (w : World) (h : DevOK w) (k : NId) (vm : OMap) (base : Nat) (nd' : NodeS)
    (hi : instNode vm (w.node k) base = some nd') :
    nd'.inputs = (w.node k).inputs.map (fun o => o.bind (oimg vm)) ∧
    nd'.outputs = List.range' base (w.node k).outputs.length ∧
    nd'.dev.map (·.cfg) = (w.node k).dev.map (·.cfg) ∧ nd'.dev.map (·.stage) = (w.node k).dev.map (·.stage) ∧
    (∀ nc' ∈ nd'.dev, ∀ s' ∈ nc'.specs, InIO nd' s'.value) ∧
    (∀ nc' ∈ nd'.dev, ∀ s' ∈ nc'.specs, ∃ nc ∈ (w.node k).dev, nc.cfg = nc'.cfg ∧ ∃ s ∈ nc.specs,
      s'.device = s.device ∧ s'.dims = s.dims ∧
      ((s.value ∈ (w.node k).outputs ∧ s'.value ∈ nd'.outputs) ∨
       (s.value ∉ (w.node k).outputs ∧ oimg vm s.value = some s'.value))) :=
  instNode_spec (h.specs_io k) hi

/-- non-vacuity: a body node `Add(fx, fy) -> fo` sharded on `fx`, `fy` and `fo`, instantiated for a call
    that passes only the first argument: the spec on `fx` follows the actual argument (value 7), the spec
    on `fy` is dropped, the spec on `fo` follows the new output (value 9) -/
example :
    let w := (run {} [.newModel 11, .newFunction 0, .newInput 1 "fx" none, .newInput 1 "fy" none,
      .newNode 1 [some 0, some 1] [("fo", none)], .addCfg 0 "c" (some 2) [],
      .shard 0 0 0 0 2 [] none, .shard 0 1 0 0 2 [] none, .shard 0 2 0 1 2 [] none]).1
    DevOK w ∧ (instNode [(0, some 7), (1, none)] (w.node 0) 9).map (fun nd => (nd.inputs, nd.outputs, nd.dev)) =
      some ([some 7, none], [9], [⟨0, [⟨7, [], [⟨0, .unk, 2⟩]⟩, ⟨9, [], [⟨1, .unk, 2⟩]⟩], none⟩]) := by
  decide

/-! ### one history theorem for every IR version -/

/-- the in-alphabet condition without the IR-version bound on round trips: a round trip is taken of a model
    whose node / graph lists are closed under nesting and whose named values have unique names along every scope
    chain, at ANY IR version; every other operation as in `Pre` -/
def PreAny (w : World) (op : Op) : Prop :=
  match op with
  | .roundTrip m => Closed w (w.model m) ∧ NamesChain w (w.model m)
  | _ => Pre w op

instance (w : World) (op : Op) : Decidable (PreAny w op) := by
  unfold PreAny; split <;> infer_instance

/-- `Pre` implies `PreAny` (so the theorems below supersede `C19_step` / `C19_history`) -/
theorem PreAny_of_Pre (w : World) (op : Op) (h : Pre w op) : PreAny w op := by
  cases op with
  | roundTrip m => exact ⟨h.2.1, h.2.2⟩
  | _ => exact h

/-- what a successful round trip below IR version 11 leaves: one more model, without configurations, and none
    of its nodes (nested ones and function bodies included) annotated -/
def LegacyClean (w : World) (op : Op) : Prop :=
  ∀ m, op = .roundTrip m → (w.model m).irVersion < 11 → (step w op).2 = .ok →
    (step w op).1.models.length = w.models.length + 1 ∧
    ((step w op).1.model w.models.length).cfgs = [] ∧
    ∀ n ∈ ((step w op).1.model w.models.length).nodes, ((step w op).1.node n).dev = []

/-- **C19_step_any**: `C19_step` with round trips at every IR version: an operation satisfying `PreAny` keeps
    `DevOK`, and a round trip below IR version 11 (where the serializer's gate writes no device field) yields a
    model without configurations and without annotations - nothing dangles after the reload. -/
theorem C19_step_any (w : World) (op : Op) (h : DevOK w) (hpre : PreAny w op) :
    DevOK (step w op).1 ∧ LegacyClean w op := by
  cases op with
  | roundTrip m =>
    obtain ⟨hcl, hS⟩ := hpre
    by_cases hir : 11 ≤ (w.model m).irVersion
    · refine ⟨C19_step w _ h ⟨hir, hcl, hS⟩, ?_⟩
      intro m' hm' hlt
      cases hm'
      omega
    · have hlt : (w.model m).irVersion < 11 := by omega
      have := roundTrip_legacy_core h m hlt hS
      rw [step_eq_stepD]
      refine ⟨this.1, ?_⟩
      intro m' hm' _ hok
      cases hm'
      rw [step_eq_stepD] at hok ⊢
      exact this.2 hok
  | _ => exact ⟨C19_step w _ h hpre, fun m hm => by cases hm⟩

def PreAnyAll : World → List Op → Prop
  | _, [] => True
  | w, op :: rest => PreAny w op ∧ PreAnyAll (step w op).1 rest

def PreAnyAll.dec : (ops : List Op) → (w : World) → Decidable (PreAnyAll w ops)
  | [], _ => isTrue trivial
  | op :: rest, w =>
    have := PreAnyAll.dec rest (step w op).1
    by unfold PreAnyAll; infer_instance

instance (w : World) (ops : List Op) : Decidable (PreAnyAll w ops) := PreAnyAll.dec ops w

/-- `LegacyClean` for every operation of a history, at the world it is applied to -/
def LegacyCleanAll : World → List Op → Prop
  | _, [] => True
  | w, op :: rest => LegacyClean w op ∧ LegacyCleanAll (step w op).1 rest

/-- **C19_history_any**: the history theorem with round trips at every IR version threaded through: after every
    finite history whose operations satisfy `PreAny`, `DevOK` holds, and every successful round trip below IR
    version 11 inside the history produced a model without configurations and annotations.  Supersedes
    `C19_history` (`PreAny_of_Pre`) and absorbs `C19_roundtrip_legacy`. -/
theorem C19_history_any (ops : List Op) : ∀ (w : World), DevOK w → PreAnyAll w ops →
    DevOK (run w ops).1 ∧ LegacyCleanAll w ops := by
  induction ops with
  | nil => intro w h _; exact ⟨h, trivial⟩
  | cons op rest ih =>
    intro w h hp
    obtain ⟨h1, h2⟩ := C19_step_any w op h hp.1
    obtain ⟨h3, h4⟩ := ih (step w op).1 h1 hp.2
    exact ⟨h3, h2, h4⟩

/-- non-vacuity: an annotated IR-10 model with a function is reloaded (annotations gone), the reload is annotated
    again and edited; the two roots reuse the name "x" (uniqueness per scope chain holds, global uniqueness does not);
    the history is not in the alphabet of `C19_history` (`Pre` wants IR version >= 11) but satisfies `PreAnyAll` -/
example :
    let ops : List Op := [.newModel 10, .newInput 0 "x" (some [.int 2, .int 3]), .newNode 0 [some 0] [("o", none)],
      .addCfg 0 "c" (some 2) [], .shard 0 0 0 1 2 [0] (some 1), .newFunction 0, .newInput 1 "x" none,
      .newNode 1 [some 2] [("fo", none)], .shard 1 2 0 0 2 [] none,
      .roundTrip 0, .addCfg 1 "d" (some 2) [], .shard 2 4 1 0 2 [] none, .replaceInput 2 0 none]
    PreAnyAll {} ops ∧ ¬ PreAll {} ops ∧ (run {} ops).2.all (· = .ok) ∧
    ¬ NamesUnique (run {} (ops.take 9)).1 ((run {} (ops.take 9)).1.model 0) ∧
    ((run {} (ops.take 10)).1.model 1).nodes.length = 2 ∧ DevOK (run {} ops).1 := by
  decide

/-! ### InlinePass: the whole pass -/

/-- **C19_inline_pass**: the complete `InlinePass` (`inlinePass`, `Model/DeviceInl.lean`: the loop over the nodes
    of the main graph and of every subgraph, visiting the nodes inserted for a call; the instantiation of a call -
    formal parameters bound to the actual arguments or to `None`, every body node cloned by `clone_node`, the
    subgraphs of body nodes by `clone_graph`, every new output renamed by `_make_unique_name`, a returned
    function input forwarded through an `Identity` node -; `replace_nodes_and_values` - shape and name of the
    call outputs copied onto the replacement values, every use re-wired through `replace_input_with`, graph /
    function outputs replaced, the new nodes inserted, the call node removed with `safe=True` -; the loop over
    the functions that were not inlined; the deletion of the inlined functions).  From a world satisfying
    `DevOK` in which every node of the heap is annotated with configurations of model `m` only (`HeapReg`),
    whenever the pass does not raise: the configuration objects and the registrations of `m` are untouched, and
    EVERY node of the heap - in particular every node of `m` after the pass: the re-wired users, the inlined
    nodes at every nesting depth, the nodes of the functions that are left - satisfies `NodeWeak`: one record per
    configuration, every record refers to a configuration registered on `m` (by identity), stages are
    non-negative, **every spec targets an input or output of its node**, has at least one shard per axis and
    device indices inside its configuration.  What is NOT claimed after inlining (and does fail, see the
    example): the axis clauses of `SpecWF` for a spec whose target was substituted (an actual argument has
    another rank than the formal parameter; the replacement of a call output takes the call output's shape) and
    "one spec per value" (two formal parameters bound to the same argument).  Consequently the model of the
    library's checker reports after the pass at most: a sharded value with an empty name (the replacement value
    takes the call output's name, which may be empty), an axis out of range, an axis repeated - never a spec
    outside its node, an undeclared / foreign configuration, `num_shards < 1` or a device index out of range. -/
theorem C19_inline_pass (w : World) (h : DevOK w) (m : MId) (hreg : HeapReg w m) (t : ITab) (fuel : Nat)
    (r : IOut) (hr : inlinePass fuel w m t = some r) :
    (r.w.model m).cfgs = (w.model m).cfgs ∧ r.w.cfgs = w.cfgs ∧
    (∀ n, NodeWeak (r.w.model m).cfgs r.w.cfgs (r.w.node n)) ∧
    (∀ n ∈ (r.w.model m).nodes, ∀ nc ∈ (r.w.node n).dev,
      nc.cfg ∈ (r.w.model m).cfgs ∧ ∀ s ∈ nc.specs, InIO (r.w.node n) s.value) ∧
    (∀ e ∈ check r.w m, e = Err.valEmptyName ∨ e = Err.axisRange ∨ e = Err.axisRepeat) := by
  have hj := inlinePass_WJ hr (WJ_of_DevOK h m hreg)
  have hn : ∀ n, NodeWeak (r.w.model m).cfgs r.w.cfgs (r.w.node n) := by
    intro n
    rw [hj.hreg, hj.hcfgs]
    exact hj.node n
  refine ⟨hj.hreg, hj.hcfgs, hn, ?_, ?_⟩
  · intro n _ nc hnc
    obtain ⟨a, _, c⟩ := (hn n).2 nc hnc
    exact ⟨a, fun s hs => (c s hs).1⟩
  · intro e he
    unfold check at he
    simp only [List.mem_flatten, List.mem_map] at he
    obtain ⟨l, ⟨n, _, rfl⟩, hel⟩ := he
    obtain ⟨_, b, c⟩ := h.model m
    refine checkNode_weak (hn n) ?_ ?_ e hel
    · rw [hj.hreg]
      intro x hx
      simp only [World.cfg, hj.hcfgs]
      exact b x hx
    · rw [hj.hreg]
      simp only [World.cfg, hj.hcfgs]
      exact c

/-- **C19_inline_pass_axes**: the rank-dependent half.  The model of the pass records in `subst` (ghost state)
    the values whose rank-dependent checks are given up: the actual arguments of every inlined call, the values
    that replace call outputs (they take the call output's shape) and the clones of such values.  If, in
    addition to the hypotheses of `C19_inline_pass`, the inputs and initializers of every graph of the heap exist
    (`GraphIds`), then after the pass `WeakOK` holds in full: every node satisfies `NodeWeak`, and every spec whose
    target is NOT in `subst` still has all its axes in range for a known rank and none repeated after
    normalisation - so for such a spec the checker's axis loop reports nothing: `axisRange` / `axisRepeat` can
    only be reported for substituted targets. -/
theorem C19_inline_pass_axes (w : World) (h : DevOK w) (m : MId) (hreg : HeapReg w m) (hg : GraphIds w) (t : ITab)
    (fuel : Nat) (r : IOut) (hr : inlinePass fuel w m t = some r) :
    WeakOK r.w m r.subst ∧
    ∀ n, ∀ nc ∈ (r.w.node n).dev, ∀ s ∈ nc.specs, s.value ∉ r.subst →
      checkDims (rankOf (r.w.value s.value)) [] s.dims = [] := by
  have ha := inlinePass_AInv hr (AInv_of_DevOK h m hreg hg)
  have hw : WeakOK r.w m r.subst := by
    refine ⟨?_, ha.ax⟩
    rw [ha.wj.hreg, ha.wj.hcfgs]
    exact ha.wj.hnodes
  refine ⟨hw, ?_⟩
  intro n nc hnc s hs hns
  rcases node_mem_or_default r.w n with h1 | h1
  · obtain ⟨a1, a2⟩ := ha.ax _ h1 nc hnc s hs hns
    have hsh := (((ha.wj.hnodes _ h1).2 nc hnc).2.2 s hs).2.1
    exact checkDims_nil _ _ [] a1 a2 hsh (by simp)
  · rw [h1] at hnc; simp at hnc

/-- non-vacuity, and the weaker invariant is the right one: a function `F(fx) = Body(fx) -> fo` whose body node
    shards `fx` (unknown rank) along axis 1 and `fo` along axis 0; a call `F(x)` with `x` of rank 1; a user of the
    call output that shards it.  After the pass: the inlined node (node 3) targets `x` and its own output, the
    user lost its spec on the call output, the function is gone, the hypotheses held - and the checker reports
    `axisRange` for the substituted argument: `DevOK` itself is lost. -/
example :
    let w := (run {} [.newModel 11, .addCfg 0 "c" (some 2) [], .newFunction 0, .newInput 1 "fx" none,
      .newNode 1 [some 0] [("fo", some [.int 2])], .shard 0 0 0 1 2 [] none, .shard 0 1 0 0 2 [] none,
      .newInput 0 "x" (some [.int 4]), .newNode 0 [some 2] [("c", none)], .newNode 0 [some 3] [("u", none)],
      .shard 2 3 0 0 2 [] none]).1
    let t : ITab := { callee := [(1, 1)], outs := [(1, [1]), (0, [4])] }
    DevOK w ∧ HeapReg w 0 ∧ GraphIds w ∧ (w.node 2).dev ≠ [] ∧
    (inlinePass 10 w 0 t).map (·.subst) = some [2, 5] ∧
    (inlinePass 10 w 0 t).map (fun r => ((r.w.model 0).nodes, (r.w.model 0).funcs, (r.w.node 3).inputs)) =
      some ([2, 3], [], [some 2]) ∧
    (inlinePass 10 w 0 t).map (fun r => ((r.w.node 3).dev, (r.w.node 2).inputs, (r.w.node 2).dev)) =
      some ([⟨0, [⟨2, [], [⟨1, .unk, 2⟩]⟩, ⟨5, [], [⟨0, .int 2, 2⟩]⟩], none⟩], [some 5], [⟨0, [], none⟩]) ∧
    (inlinePass 10 w 0 t).map (fun r => (check r.w 0, decide (DevOK r.w))) = some ([Err.axisRange], false) := by
  decide

/-! ### after InlinePass: the weak invariant is inductive

`C19_inline_pass` / `C19_inline_pass_axes` leave a world in which only `WeakOK` holds, and `C19_step` starts from
`DevOK`.  `WeakDev G` is the inductive form of `WeakOK`: `DevOK` without "one spec per value" and with the axis
clauses only for the specs whose target is outside the ghost predicate `G`; configurations are, as in `DevOK`,
registered per model (`ModelOK`), not on one distinguished model (`WeakOK w m S` says "every node of the heap refers
to configurations of model `m`", which `newModel` + `addCfg` + `shard`, or a clone of `m` - the copy gets configuration
objects of its own - do not preserve).  The ghost predicate never changes: `Ghost S N` = the substituted targets `S`
of the pass and every value id from `N` (the size of the value heap right after the pass) on; so nothing is ever
added to the set of old values whose specs may have bad axes, and the values created later (their copies by clone /
round trip in particular, whose axes are as good or bad as those of the originals) are not claimed. -/

/-- the ghost predicate: the substituted targets `S` and every value id from `N` on -/
def Ghost (S : List VId) (N : Nat) (v : VId) : Prop := v ∈ S ∨ N ≤ v

instance (S : List VId) (N : Nat) (v : VId) : Decidable (Ghost S N v) := by unfold Ghost; infer_instance

/-- one node under the weak invariant: `NodeOK` without "one spec per value", the axis clauses (`AxesOK`) only for
    the specs whose target is outside `G` -/
def NodeWeakOK (G : VId → Prop) (w : World) (nd : NodeS) : Prop :=
  NodeIds w nd ∧
  (nd.dev.map (·.cfg)).Nodup ∧
  ∀ nc ∈ nd.dev,
    nc.cfg < w.cfgs.length ∧
    (∀ st, nc.stage = some st → 0 ≤ st) ∧
    ∀ s ∈ nc.specs, InIO nd s.value ∧ (∀ d ∈ s.dims, 1 ≤ d.numShards) ∧
      (∀ d ∈ s.device, 0 ≤ d ∧ d < (w.cfg nc.cfg).numDevices) ∧ (¬ G s.value → AxesOK w s)

/-- **WeakDev**: every node of the heap `NodeWeakOK`, every model `ModelOK` (its nodes exist and refer only to
    configurations registered on it, by identity) -/
def WeakDev (G : VId → Prop) (w : World) : Prop :=
  (∀ nd ∈ w.nodes, NodeWeakOK G w nd) ∧ (∀ ms ∈ w.models, ModelOK w ms)

instance (G : VId → Prop) [DecidablePred G] (w : World) (nd : NodeS) : Decidable (NodeWeakOK G w nd) := by
  unfold NodeWeakOK
  have : ∀ o : Option Int, Decidable (∀ st, o = some st → 0 ≤ st) := by
    intro o
    cases o with
    | none => exact isTrue (by simp)
    | some x => exact decidable_of_iff (0 ≤ x) (by simp)
  infer_instance

instance (G : VId → Prop) [DecidablePred G] (w : World) : Decidable (WeakDev G w) := by unfold WeakDev; infer_instance

instance (S : List VId) (N : Nat) : DecidablePred (Ghost S N) := fun v => by unfold Ghost; infer_instance

/-- `WeakDev` is the predicate of the helper development (`Lemmas/DeviceWk.lean`) -/
theorem WeakDev_iff (G : VId → Prop) (w : World) : WeakDev G w ↔ Wk.DevOK G w := by
  constructor
  · intro h
    refine ⟨?_, h.2⟩
    intro nd hnd
    obtain ⟨a, b, c⟩ := h.1 nd hnd
    refine ⟨a, b, ?_⟩
    intro nc hnc
    obtain ⟨c1, c2, c3⟩ := c nc hnc
    refine ⟨c1, c2, trivial, ?_⟩
    intro s hs
    obtain ⟨d1, d2, d3, d4⟩ := c3 s hs
    exact ⟨d1, fun g => (d4 g).1, fun g => (d4 g).2, d2, d3⟩
  · intro h
    refine ⟨?_, h.2⟩
    intro nd hnd
    obtain ⟨a, b, c⟩ := h.1 nd hnd
    refine ⟨a, b, ?_⟩
    intro nc hnc
    obtain ⟨c1, c2, _, c3⟩ := c nc hnc
    refine ⟨c1, c2, ?_⟩
    intro s hs
    obtain ⟨d1, e1, e2, d2, d3⟩ := c3 s hs
    exact ⟨d1, d2, d3, fun g => ⟨e1 g, e2 g⟩⟩

/-- `DevOK` implies `WeakDev`, whatever the ghost predicate -/
theorem WeakDev_of_DevOK (G : VId → Prop) (w : World) (h : DevOK w) : WeakDev G w := by
  rw [WeakDev_iff]
  exact ⟨fun nd hnd => Wk.NodeOK_of_strong (h.1 nd hnd), h.2⟩

/-- **C19_step_weak**: the step theorem that starts from the weak invariant.  Every operation of the alphabet of
    `C19_step`, under the same in-alphabet condition `Pre`, preserves `WeakDev (Ghost S N)` - for a fixed ghost
    predicate: nothing is added to `S`, and `N` is any bound not above the current size of the value heap (the
    operations that create copies - clone, round trip, `Function.clone`, `Graph.clone` - copy specs onto values that
    do not exist yet, hence onto ghost values) - and does not shrink the value heap, so the bound stays below it.
    In particular after the operation every spec still targets a current input or output of its node (a spec whose
    target leaves a node is dropped, `C19_drop`), every record refers to a configuration registered on each model
    that lists the node, and a spec on a non-ghost value still has its axes in range and not repeated. -/
theorem C19_step_weak (S : List VId) (N : Nat) (w : World) (op : Op) (hN : N ≤ w.values.length)
    (h : WeakDev (Ghost S N) w) (hpre : Pre w op) :
    WeakDev (Ghost S N) (step w op).1 ∧ N ≤ (step w op).1.values.length := by
  haveI : Wk.Fresh (Ghost S N) w.values.length := ⟨fun v hv => Or.inr (Nat.le_trans hN hv)⟩
  rw [step_eq_stepD]
  have h' := (WeakDev_iff _ _).1 h
  exact ⟨(WeakDev_iff _ _).2 (Wk.stepD_ok w op h' hpre), Nat.le_trans hN (Wk.stepD_vlen w op h' hpre)⟩

/-- histories from a world satisfying the weak invariant -/
theorem run_weak (S : List VId) (N : Nat) (ops : List Op) : ∀ (w : World), N ≤ w.values.length →
    WeakDev (Ghost S N) w → PreAll w ops →
    WeakDev (Ghost S N) (run w ops).1 ∧ N ≤ (run w ops).1.values.length := by
  induction ops with
  | nil => intro w hN h _; exact ⟨h, hN⟩
  | cons op rest ih =>
    intro w hN h hp
    obtain ⟨h1, h2⟩ := C19_step_weak S N w op hN h hp.1
    exact ih (step w op).1 h2 h1 hp.2

/-- **C19_weak_checker**: what the weak invariant says about every model `m` of the world (whatever the ghost
    predicate): every node listed on `m` satisfies `NodeWeak` relative to the registrations of `m` - one record per
    configuration, every record refers to a configuration registered on `m` (by identity), stages non-negative,
    **every spec targets a current input or output of its node**, at least one shard per axis, device indices inside
    the configuration -; a spec on a non-ghost value passes the checker's axis loop; and the model of the library's
    checker reports at most: a sharded value with an empty name, an axis out of range, an axis repeated - never a
    spec outside its node, an undeclared / foreign configuration, `num_shards < 1` or a device index out of range. -/
theorem C19_weak_checker (G : VId → Prop) (w : World) (h : WeakDev G w) (m : MId) :
    (∀ n ∈ (w.model m).nodes, NodeWeak (w.model m).cfgs w.cfgs (w.node n)) ∧
    (∀ n, ∀ nc ∈ (w.node n).dev, ∀ s ∈ nc.specs, ¬ G s.value →
      AxesOK w s ∧ checkDims (rankOf (w.value s.value)) [] s.dims = []) ∧
    (∀ e ∈ check w m, e = Err.valEmptyName ∨ e = Err.axisRange ∨ e = Err.axisRepeat) := by
  have hmo : ModelOK w (w.model m) := by
    rcases model_mem_or_default w m with hm | hd
    · exact h.2 _ hm
    · rw [hd]; exact ModelOK_default w
  have hnode : ∀ n, NodeWeakOK G w (w.node n) := by
    intro n
    rcases node_mem_or_default w n with h1 | h1
    · exact h.1 _ h1
    · rw [h1]; exact ⟨⟨by simp, by simp⟩, by simp, by simp⟩
  have hweak : ∀ n ∈ (w.model m).nodes, NodeWeak (w.model m).cfgs w.cfgs (w.node n) := by
    intro n hn
    obtain ⟨_, b, c⟩ := hnode n
    refine ⟨b, ?_⟩
    intro nc hnc
    obtain ⟨_, c2, c3⟩ := c nc hnc
    refine ⟨((hmo.1 n hn).2 nc hnc), c2, ?_⟩
    intro s hs
    obtain ⟨d1, d2, d3, _⟩ := c3 s hs
    exact ⟨d1, d2, d3⟩
  refine ⟨hweak, ?_, ?_⟩
  · intro n nc hnc s hs hg
    obtain ⟨_, _, c⟩ := hnode n
    obtain ⟨_, d2, _, d4⟩ := (c nc hnc).2.2 s hs
    exact ⟨d4 hg, checkDims_nil _ _ [] (d4 hg).1 (d4 hg).2 d2 (by simp)⟩
  · intro e he
    unfold check at he
    simp only [List.mem_flatten, List.mem_map] at he
    obtain ⟨l, ⟨n, hn, rfl⟩, hel⟩ := he
    exact checkNode_weak (hweak n hn) hmo.2.1 hmo.2.2 e hel

/-- **C19_history_weak**: `InlinePass` and then ANY in-alphabet history.  From a world satisfying `DevOK` in which
    every node of the heap is annotated with configurations of model `m` only (`HeapReg`), these configurations are
    registered on every model of the world (`RegShared`; trivially so in a world with one model; without it the pass
    itself breaks "registered on its model": the nodes created for a call are listed on every model that owns the
    graph) and the graph inputs / initializers exist (`GraphIds`): whenever the pass does not raise, the world it
    leaves satisfies the weak invariant with the ghost predicate "substituted by the pass (`r.subst`), or created
    after the pass", and so does the world reached by every history `ops` of operations of the alphabet of
    `C19_step` (annotate - valid or rejected -, edit, rename, detach, cascade removal, clone, round trip, ...) under
    the same in-alphabet condition (`PreAll`).  With `C19_weak_checker`: after inline + arbitrary further edits every
    annotation of every model still targets a current input or output of its node and a configuration registered on
    that model, and every spec whose target existed after the pass and was not substituted by it still has its axes
    in range and not repeated. -/
theorem C19_history_weak (w : World) (h : DevOK w) (m : MId) (hreg : HeapReg w m) (hsh : RegShared w m)
    (hg : GraphIds w) (t : ITab) (fuel : Nat) (r : IOut) (hr : inlinePass fuel w m t = some r)
    (ops : List Op) (hpre : PreAll r.w ops) :
    WeakDev (Ghost r.subst r.w.values.length) r.w ∧
    WeakDev (Ghost r.subst r.w.values.length) (run r.w ops).1 ∧
    r.w.values.length ≤ (run r.w ops).1.values.length := by
  have ha := inlinePass_AInv hr (AInv_of_DevOK h m hreg hg)
  have hm := inlinePass_models h m hreg hsh t fuel r hr
  have h0 : WeakDev (Ghost r.subst r.w.values.length) r.w := by
    refine ⟨?_, hm⟩
    intro nd hnd
    obtain ⟨b, c⟩ := ha.wj.hnodes nd hnd
    refine ⟨ha.nids nd hnd, b, ?_⟩
    intro nc hnc
    obtain ⟨c1, c2, c3⟩ := c nc hnc
    have hlt : nc.cfg < w.cfgs.length := ((h.model m).2.1 nc.cfg c1).1
    refine ⟨by rw [ha.wj.hcfgs]; exact hlt, c2, ?_⟩
    intro s hs
    obtain ⟨d1, d2, d3⟩ := c3 s hs
    refine ⟨d1, d2, ?_, ?_⟩
    · simp only [World.cfg, ha.wj.hcfgs]; exact d3
    · intro hgh
      exact ha.ax nd hnd nc hnc s hs (fun hin => hgh (Or.inl hin))
  obtain ⟨h1, h2⟩ := run_weak r.subst r.w.values.length ops r.w (Nat.le_refl _) h0 hpre
  exact ⟨h0, h1, h2⟩

/-- non-vacuity: the world of the `InlinePass` example above (after the pass `DevOK` is lost: the substituted
    argument `x` is sharded along an axis it does not have); then annotate the inlined node again (on the substituted
    value), rename, clone the model, round-trip it, detach an input, set a stage.  The hypotheses hold, every operation
    succeeds, the weak invariant holds after the history, `DevOK` does not, and the checker of every model (the
    original, the clone, the reload) reports nothing but `axisRange`. -/
example :
    let w := (run {} [.newModel 11, .addCfg 0 "c" (some 2) [], .newFunction 0, .newInput 1 "fx" none,
      .newNode 1 [some 0] [("fo", some [.int 2])], .shard 0 0 0 1 2 [] none, .shard 0 1 0 0 2 [] none,
      .newInput 0 "x" (some [.int 4]), .newNode 0 [some 2] [("c", none)], .newNode 0 [some 3] [("u", none)],
      .shard 2 3 0 0 2 [] none]).1
    let t : ITab := { callee := [(1, 1)], outs := [(1, [1]), (0, [4])] }
    let ops : List Op := [.shard 3 2 0 0 2 [1] (some 1), .rename 2 "x2", .clone 0, .roundTrip 0,
      .replaceInput 2 0 none, .setStage 3 0 1]
    DevOK w ∧ HeapReg w 0 ∧ RegShared w 0 ∧ GraphIds w ∧
    (inlinePass 10 w 0 t).map (fun r => decide (PreAll r.w ops ∧ (run r.w ops).2.all (· = .ok) ∧
      ¬ DevOK r.w ∧ ¬ DevOK (run r.w ops).1 ∧ (run r.w ops).1.models.length = 3 ∧
      WeakDev (Ghost r.subst r.w.values.length) (run r.w ops).1 ∧
      [0, 1, 2].map (check (run r.w ops).1) = [[Err.axisRange], [Err.axisRange], [Err.axisRange]])) = some true := by
  decide

/-- the hypothesis `RegShared` is needed: a second model that shares the main graph (and lists the call node) but
    does not register the configuration: after the pass it lists the inlined node, which refers to a configuration
    it does not declare -/
example :
    let w : World := {
      values := [{ name := "a" }, { name := "b" }, { name := "x" }, { name := "y" }],
      cfgs := [{ name := "c", numDevices := 1 }],
      nodes := [{ inputs := [some 0], outputs := [1] },
                { inputs := [some 2], outputs := [3], dev := [{ cfg := 0, specs := [], stage := none }] }],
      graphs := [{ inputs := [0], nodes := [0] }, { inputs := [2], nodes := [1] }],
      models := [{ graph := 0, graphs := [0, 1], nodes := [0, 1], cfgs := [0], funcs := [1] },
                 { graph := 0, graphs := [0], nodes := [0], cfgs := [] }] }
    let t : ITab := { callee := [(0, 1)], outs := [(1, [3]), (0, [1])] }
    DevOK w ∧ HeapReg w 0 ∧ GraphIds w ∧ ¬ RegShared w 0 ∧
    (inlinePass 5 w 0 t).map (fun r => decide (WeakDev (Ghost r.subst r.w.values.length) r.w)) = some false := by
  decide

end IrVerif.Device

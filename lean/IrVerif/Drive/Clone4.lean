import IrVerif.Drive.Util
import IrVerif.Drive.Clone
import IrVerif.Model.Clone4
/-! Protocol handler for the fourth editing alphabet of `IrVerif.Clone` (`Edit4`, Model/Clone4.lean):
`clone.history4` (a clone step followed by `runHistory4`) and `clone.functionalize4`
(`functionalize4`).  The edit kinds of the older alphabets are parsed by Drive/Clone.lean. -/
open Lean IrVerif.Drive
namespace IrVerif.Drive.Clone4
open IrVerif.Clone IrVerif.Drive.Clone

def asInRef : Json → Except String InRef
  | Json.null => pure .absent
  | Json.arr a =>
    match a.toList with
    | [k, j] => do return .fresh (← asNat k) (← asNat j)
    | _ => throw "[k, j] expected"
  | j => do return .old (← asNat j)

def asNewNode (j : Json) : Except String NewNode := do
  return { name := ← getStr j "name", op := ← getStr j "opname",
           inputs := ← (← getArr j "inputs").mapM asInRef, outNames := ← getStrs j "outs" }

def getOptInt (j : Json) (k : String) : Except String (Option Int) := getOpt j k asInt

/-- an editing call of the fourth alphabet; everything else parses to `.base3` -/
def asEdit4 (j : Json) : Except String Edit4 := do
  match ← getStr j "e" with
  | "insertInput" => return .ioInsert true (← getNat j "g") (← getInt j "i") (← getNat j "v")
  | "insertOutput" => return .ioInsert false (← getNat j "g") (← getInt j "i") (← getNat j "v")
  | "removeInput" => return .ioRemove true (← getNat j "g") (← getNat j "v")
  | "removeOutput" => return .ioRemove false (← getNat j "g") (← getNat j "v")
  | "delInputAt" => return .ioDelAt true (← getNat j "g") (← getInt j "i")
  | "delOutputAt" => return .ioDelAt false (← getNat j "g") (← getInt j "i")
  | "setInputAt" => return .ioSetAt true (← getNat j "g") (← getInt j "i") (← getNat j "v")
  | "setOutputAt" => return .ioSetAt false (← getNat j "g") (← getInt j "i") (← getNat j "v")
  | "extendInputs" => return .ioExtend true (← getNat j "g") (← getNats j "vs")
  | "extendOutputs" => return .ioExtend false (← getNat j "g") (← getNats j "vs")
  | "clearInputs" => return .ioClear true (← getNat j "g")
  | "clearOutputs" => return .ioClear false (← getNat j "g")
  | "setdefaultInit" => return .setdefaultInit (← getNat j "g") (← getStr j "key") (← getNat j "v")
  | "setInputsStep" =>
    return .ioSetStep true (← getNat j "g") (← getOptInt j "a") (← getOptInt j "b") (← getInt j "step") (← getNats j "vs")
  | "setOutputsStep" =>
    return .ioSetStep false (← getNat j "g") (← getOptInt j "a") (← getOptInt j "b") (← getInt j "step") (← getNats j "vs")
  | "delInputsStep" =>
    return .ioDelStep true (← getNat j "g") (← getOptInt j "a") (← getOptInt j "b") (← getInt j "step")
  | "delOutputsStep" =>
    return .ioDelStep false (← getNat j "g") (← getOptInt j "a") (← getOptInt j "b") (← getInt j "step")
  | "replaceNodes" =>
    return .replaceNodes (← getNat j "g") (← getNat j "anchor") (← getNats j "ns")
      (← (← getArr j "news").mapM asNewNode) (← getNats j "ovs") (← asNatPairs j "nvs")
  | _ => return .base3 (← asEdit3 j)

def isUnsupported : Except Err Unit → Bool
  | .error (.unsupported _) => true
  | _ => false

def newKinds : List String :=
  ["insertInput", "insertOutput", "removeInput", "removeOutput", "delInputAt", "delOutputAt", "setInputAt",
   "setOutputAt", "extendInputs", "extendOutputs", "clearInputs", "clearOutputs", "setdefaultInit", "setInputsStep",
   "setOutputsStep", "delInputsStep", "delOutputsStep", "replaceNodes"]

/-- does the request carry an edit kind that only `Edit4` has? -/
def hasNewKind (j : Json) : Bool :=
  match getArr j "edits" with
  | .ok es => es.any fun e => match getStr e "e" with
    | .ok k => newKinds.contains k
    | .error _ => false
  | .error _ => false

/-- `clone.history4` / `clone.functionalize4`; the requests `clone.history` / `clone.functionalize` of
    Drive/Clone.lean are answered here too WHEN they carry an edit kind of the fourth alphabet (this
    handler is listed before `IrVerif.Drive.Clone.handle` in Driver.lean; without a new kind it
    declines and the older handler answers with `runHistory` .. `runHistory3`) -/
def handle : Handler := fun m j =>
  match (if (m == "clone.history" || m == "clone.functionalize") && hasNewKind j then m ++ "4" else m) with
  | "clone.history4" => some do
    -- a clone step followed by `runHistory4` on a list of edits
    let w0 ← (← getArr j "world").mapM asCell
    let (r, w1) ← runStep w0 (← j.getObjVal? "clone")
    let edits ← (← getArr j "edits").mapM asEdit4
    let (rs, w2) := runHistory4 edits w1
    return obj [("outcomes", Json.arr ((outcomeJ r) :: rs.map (fun x => outcomeJ (x.map fun _ => none))).toArray),
                ("world", Json.arr (w2.map cellJ).toArray)]
  | "clone.functionalize4" => some do
    -- `functionalize(pass)(model)` with the pass given as the edit history it performs
    let w0 ← (← getArr j "world").mapM asCell
    let edits ← (← getArr j "edits").mapM asEdit4
    let fuel := (j.getObjValAs? Nat "fuel").toOption.getD 64
    let mo ← getNat j "mo"
    let (r, w1) := functionalize4 fuel (fun _ _ => edits) mo w0
    -- for the harness only: did the model decline one of the edits (`unsupported`)?
    let declined := match run (modelClone fuel mo) w0 with
      | (.ok _, wc) => (runHistory4 edits wc).1.any isUnsupported
      | _ => false
    return obj [("outcome", outcomeJ (r.map some)), ("world", Json.arr (w1.map cellJ).toArray),
                ("declined", declined)]
  | _ => none

end IrVerif.Drive.Clone4

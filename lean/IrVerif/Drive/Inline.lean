import IrVerif.Drive.Util
import IrVerif.Drive.Passes
import IrVerif.Model.Inline
import IrVerif.Model.AddDefaults
/-! Protocol handler for the function-call models (C05): InlinePass, RemoveUnusedFunctionsPass,
RemoveUnusedOpsetsPass.
`{"m":"inline.run","model":<fmodel>,"crit":null|[[domain,type,overload]...]}` →
  `{"model":<fmodel>,"stuck":bool,"dangling":bool,"accepted_left":bool,"raised":bool,"valid":bool,"flat":bool,
    "why":[..],"valid_after":bool,"inlined":[[..]],"count":n}` (`raised`: the real pass raises on this model - a call
    does not supply a function input that the function returns; the model answers with the unchanged model)
`{"m":"inline.ruf","model":<fmodel>}` → `{"model":<fmodel>,"closed":bool,"used":[[..]]}`
`{"m":"inline.ruo","model":<fmodel>,"pf":bool}` → `{"model":<fmodel>}`
`{"m":"inline.defaults","model":<fmodel>,"imports":[[domain,version]],"nver":[[[out ids],version]],
  "table":[[[domain,type,version], null | [[name,required,attr|null]]]]}` →
  `{"model":<fmodel>,"modified":bool,"calls_untouched":bool,"touched":n,"nodes":n,"with_schema":n,"valid":bool}`
Encoding: fmodel `{"g":graph,"f":[func],"d":[domain]}`; func `{"id":[domain,type,overload],
"p":[[name,attr|null]],"i":[id],"o":[id],"n":[node],"d":[domain]}`; graph and node as in Drive/Passes.lean
with one more attribute kind `{"k":"ref","v":<parameter name>}`. -/
open Lean IrVerif.Drive IrVerif.Sem IrVerif.Inline
namespace IrVerif.Drive.Inline

def getFAttr (j : Json) : Except String FAttr := do
  let k ← getStr j "k"
  if k == "ref" then return .ref (← getStr j "v")
  else return .val (← IrVerif.Drive.Passes.getAttr j)

def getOpId (j : Json) : Except String OpId := do
  let a ← j.getArr?
  let l ← a.toList.mapM (fun e => e.getStr?)
  match l with
  | [d, n, o] => pure (OpId.mk d n o)
  | _ => throw "op id"

mutual
partial def getGraph (j : Json) : Except String FGraph := do
  let t ← getArr j "t"
  let inits ← t.mapM (fun e => do
    let a ← e.getArr?
    if h : a.size = 2 then return ((← a[0].getNat?), (← IrVerif.Drive.Passes.getTensor a[1])) else throw "initializer pair")
  let ns ← (← getArr j "n").mapM getNode
  return .mk (← getNats j "i") (← getNats j "o") inits ns
partial def getNode (j : Json) : Except String FNode := do
  let opid ← getOpId (← j.getObjVal? "op")
  let attrs ← (← getArr j "a").mapM (fun e => do
    let a ← e.getArr?
    if h : a.size = 2 then return ((← a[0].getStr?), (← getFAttr a[1])) else throw "attribute pair")
  let ins ← (← getArr j "in").mapM (fun e => match e with
    | .null => pure none
    | e => do return some (← e.getNat?))
  let bodies ← (← getArr j "b").mapM getGraph
  return .mk opid attrs ins (← getNats j "out") bodies
end

def getFunc (j : Json) : Except String Func := do
  let ps ← (← getArr j "p").mapM (fun e => do
    let a ← e.getArr?
    if h : a.size = 2 then
      let d ← match a[1] with
        | .null => pure none
        | x => do pure (some (← IrVerif.Drive.Passes.getAttr x))
      return ((← a[0].getStr?), d)
    else throw "parameter pair")
  let ns ← (← getArr j "n").mapM getNode
  return ⟨← getOpId (← j.getObjVal? "id"), ps, ← getNats j "i", ← getNats j "o", ns, ← getStrs j "d"⟩

def getFModel (j : Json) : Except String FModel := do
  let g ← getGraph (← j.getObjVal? "g")
  let fs ← (← getArr j "f").mapM getFunc
  return ⟨g, fs, ← getStrs j "d"⟩

def fattrJ : FAttr → Json
  | .val a => IrVerif.Drive.Passes.attrJ a
  | .ref p => obj [("k", "ref"), ("v", Json.str p)]

def opJ (op : OpId) : Json := strsJ [op.domain, op.name, op.overload]

mutual
partial def graphJ : FGraph → Json
  | .mk i o t n => obj [("i", natsJ i), ("o", natsJ o),
      ("t", Json.arr (t.map (fun p => Json.arr #[toJson p.1, IrVerif.Drive.Passes.tensorJ p.2])).toArray),
      ("n", Json.arr (n.map nodeJ).toArray)]
partial def nodeJ : FNode → Json
  | .mk op a ins outs b => obj [("op", opJ op),
      ("a", Json.arr (a.map (fun p => Json.arr #[Json.str p.1, fattrJ p.2])).toArray),
      ("in", Json.arr (ins.map (fun o => match o with | none => Json.null | some v => toJson v)).toArray),
      ("out", natsJ outs), ("b", Json.arr (b.map graphJ).toArray)]
end

def funcJ (f : Func) : Json :=
  obj [("id", opJ f.id),
    ("p", Json.arr (f.params.map (fun p => Json.arr #[Json.str p.1,
      match p.2 with | none => Json.null | some a => IrVerif.Drive.Passes.attrJ a])).toArray),
    ("i", natsJ f.inputs), ("o", natsJ f.outputs), ("n", Json.arr (f.nodes.map nodeJ).toArray),
    ("d", strsJ f.domains)]

def fmodelJ (m : FModel) : Json :=
  obj [("g", graphJ m.graph), ("f", Json.arr (m.funcs.map funcJ).toArray), ("d", strsJ m.domains)]

/-- which conjunct of `validF` fails (information only) -/
def whyInvalid (m : FModel) : List String :=
  (if (findFunc m.funcs identityOp).isNone then [] else ["identity_function"]) ++
  (if validModel (eraseModel m) then [] else ["validModel"]) ++
  (if decide ((m.funcs.map (·.id)).Nodup) then [] else ["func_ids"]) ++
  (if m.funcs.all (fun f => lvl m.funcs m.funcs.length f.id) then [] else ["recursive"]) ++
  (if callsOKG m.funcs m.graph && m.funcs.all (fun f => callsOKNodes m.funcs f.nodes) then [] else ["calls"]) ++
  (if m.funcs.all (fun f => opsAllNodes (fun op => !isStochasticOp op) f.nodes) then [] else ["stochastic_in_function"]) ++
  (if m.funcs.all (fun f => subInitsOKNodes f.nodes) then [] else ["sub_inits"])

def handle : Handler := fun m j =>
  match m with
  | "inline.run" => some do
    let model ← getFModel (← j.getObjVal? "model")
    let critJ ← j.getObjVal? "crit"
    let crit : OpId → Bool ← match critJ with
      | .null => pure (fun _ => true)
      | x => do
        let l ← (← x.getArr?).toList.mapM getOpId
        pure (fun op => l.contains op)
    let run := inlineRun crit model
    let out := inlineModel crit model
    return obj [("model", fmodelJ out), ("stuck", toJson run.st.stuck), ("canon_depth", toJson (depthOK out.funcs.length out.funcs && decide (out.funcs.length ≤ model.funcs.length))), ("dangling", toJson (!noDangling model.funcs run)),
      ("accepted_left", toJson (!noAccepted model.funcs crit run)), ("raised", toJson run.st.raised),
      ("syn_bad", toJson (synOK model.funcs model.funcs && !synOK model.funcs run.tbl)),
      ("depth_bad", toJson (depthOK model.funcs.length model.funcs && !depthOK model.funcs.length run.model.funcs)), ("valid", toJson (validF model)), ("flat", toJson (flatFuncs model)), ("pure_main", toJson (pureMain model)),
      ("pure_after", toJson (pureMain out)),
      ("why", strsJ (whyInvalid model)), ("valid_after", toJson (validF out)),
      ("inlined", Json.arr (run.st.inlined.map opJ).toArray), ("count", toJson run.st.count)]
  | "inline.ruf" => some do
    let model ← getFModel (← j.getObjVal? "model")
    return obj [("model", fmodelJ (rufModel model)), ("closed", toJson (closedUsed model.funcs (usedFuncs model))),
      ("used", Json.arr ((usedFuncs model).map opJ).toArray), ("valid", toJson (validF model)),
      ("pure_main", toJson (pureMain model))]
  | "inline.ruo" => some do
    let model ← getFModel (← j.getObjVal? "model")
    let pf ← getBool j "pf"
    return obj [("model", fmodelJ (ruoModel pf model))]
  | "inline.defaults" => some do
    -- AddDefaultAttributesPass: `table` = [[domain, type, version], null | [[name, required, attr | null], ...]],
    -- `imports` = [[domain, version]] of the main graph, `nver` = [[output ids of the node], node.version]
    let model ← getFModel (← j.getObjVal? "model")
    let imports ← (← getArr j "imports").mapM (fun e => do
      let a ← e.getArr?
      if h : a.size = 2 then return ((← a[0].getStr?), (← a[1].getNat?)) else throw "import pair")
    let nverL ← (← getArr j "nver").mapM (fun e => do
      let a ← e.getArr?
      if h : a.size = 2 then
        let outs ← (← a[0].getArr?).toList.mapM (fun x => x.getNat?)
        return (outs, (← a[1].getNat?))
      else throw "nver pair")
    let table ← (← getArr j "table").mapM (fun e => do
      let a ← e.getArr?
      if h : a.size = 2 then
        let key ← a[0].getArr?
        if hk : key.size = 3 then
          let entry ← match a[1] with
            | .null => pure none
            | x => do
              let l ← (← x.getArr?).toList.mapM (fun sa => do
                let t ← sa.getArr?
                if ht : t.size = 3 then
                  let d ← match t[2] with
                    | .null => pure none
                    | y => do pure (some (← IrVerif.Drive.Passes.getAttr y))
                  return (⟨← t[0].getStr?, ← t[1].getBool?, d⟩ : SchemaAttr)
                else throw "schema attribute")
              pure (some l)
          return (((← key[0].getStr?), (← key[1].getStr?), (← key[2].getNat?)), entry)
        else throw "table key"
      else throw "table entry")
    let T : SchemaTable := fun d t v => (table.lookup (d, t, v)).join
    let nver : FNode → Option Nat := fun n => nverL.lookup n.outs
    let S := nodeSchema T imports nver
    let out := addDefaultsModel T imports nver model
    return obj [("model", fmodelJ out), ("modified", toJson (addDefaultsModified S model)),
      ("calls_untouched", toJson (callsUntouched S model)),
      ("touched", toJson (countNodesG (touched S) model.graph +
        (model.funcs.map (fun f => countNodesNodes (touched S) f.nodes)).sum)),
      ("nodes", toJson (countNodesG (fun _ => true) model.graph +
        (model.funcs.map (fun f => countNodesNodes (fun _ => true) f.nodes)).sum)),
      ("with_schema", toJson (countNodesG (fun n => !(S n).isEmpty) model.graph +
        (model.funcs.map (fun f => countNodesNodes (fun n => !(S n).isEmpty) f.nodes)).sum)),
      ("valid", toJson (validF model))]
  | _ => none

end IrVerif.Drive.Inline

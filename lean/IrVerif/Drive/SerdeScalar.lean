import IrVerif.Drive.Util
import IrVerif.Model.SerdeScalar
/-! Protocol handler for the typed scalar level of C02 (`IrVerif/Model/SerdeScalar.lean`).

JSON conventions (shared with `harness/c02_scalar.py`):
* every integer that may exceed 2^53 - `dim_value`, `i`, Python ints, DOUBLE bit patterns - is a
  DECIMAL STRING (`"-9223372036854775809"`); float32 bit patterns, bytes and code points are JSON numbers;
* floats never travel as JSON floats, only as bit patterns;
* `bytes` are lower-case hex strings, a Python `str` is the array of its code points (a lone
  surrogate has no JSON string form);
* an absent optional field / Python `None` is `null`.
Dimension: `{"d": null | {"v": "<dec>"} | {"p": "<str>"}, "den": "<str>" | null}` (proto and IR side alike).
Attribute: `{"name": str, "doc": str | null, "k": "int" | "float" | "string", "v": ...}` with `v` =
proto side `"<dec>" | null` / `<bits> | null` / `"<hex>" | null`, IR side `"<dec>"` / `"<double bits dec>"` /
`{"str": [cp..]}` | `{"bytes": "<hex>"}`.
Requests carry `"dir": "des"` (x = proto: deserialize, then serialize the result) or `"ser"` (x = IR object). -/
open Lean IrVerif.Drive IrVerif.Proto IrVerif.Serde
namespace IrVerif.Drive.SerdeScalar

abbrev P := Except String

def field (j : Json) (k : String) : P Json := j.getObjVal? k

def decOf (j : Json) : P Int := do
  let s ← (fromJson? j : P String)
  match s.toInt? with
  | some i => return i
  | none => throw s!"not a decimal integer: {s}"

def natDecOf (j : Json) : P Nat := do
  let i ← decOf j
  if i < 0 then throw "negative" else return i.toNat

def jDec (i : Int) : Json := Json.str (toString i)
def jDecN (n : Nat) : Json := Json.str (toString n)
def jN (n : Nat) : Json := toJson n
def jOptS : Option String → Json
  | none => Json.null
  | some s => Json.str s

def optStr (j : Json) (k : String) : P (Option String) := do
  let v ← field j k
  if v.isNull then return none else return some (← fromJson? v)

def hexVal (c : Char) : Option Nat :=
  if '0' ≤ c ∧ c ≤ '9' then some (c.toNat - 48)
  else if 'a' ≤ c ∧ c ≤ 'f' then some (c.toNat - 87)
  else none

def bytesOfHex : List Char → P (List Nat)
  | [] => return []
  | a :: b :: rest => do
    match hexVal a, hexVal b with
    | some x, some y => return (x * 16 + y) :: (← bytesOfHex rest)
    | _, _ => throw "hex"
  | _ => throw "hex (odd length)"

def hexJ (j : Json) : P (List Nat) := do bytesOfHex (← (fromJson? j : P String)).toList
def jHex (bs : List Nat) : Json := Json.str (hexOfBytes bs)
def natsOf (j : Json) : P (List Nat) := do
  let a ← (fromJson? j : P (Array Nat))
  return a.toList

/-! ### dimensions -/

def dDimVal (j : Json) : P DimVal :=
  if j.isNull then return .unset else
  match j.getObjVal? "v" with
  | .ok v => do return .value (← decOf v)
  | .error _ => do return .param (← j.getObjValAs? String "p")

def eDimVal : DimVal → Json
  | .unset => Json.null
  | .value v => obj [("v", jDec v)]
  | .param s => obj [("p", Json.str s)]

def dDimF (j : Json) : P DimF := do return ⟨← dDimVal (← field j "d"), ← optStr j "den"⟩
def eDimF (d : DimF) : Json := obj [("d", eDimVal d.val), ("den", jOptS d.den)]

def dIRDim (j : Json) : P IRDimF := do
  let v ← dDimVal (← field j "d")
  return ⟨desDimVal v, ← optStr j "den"⟩
def eIRDim (d : IRDimF) : Json := obj [("d", eDimVal (serDimVal d.dim)), ("den", jOptS d.den)]

def eDimP (d : DimP) : Json := obj [("d", eDimVal d.val), ("den", Json.str d.den)]

/-- `res = .ok a` -/
def isOk {α} [DecidableEq α] (res : Except Err α) (a : α) : Bool :=
  match res with
  | .ok r => decide (r = a)
  | .error _ => false

/-- `res = .error k` -/
def isErr {α} (res : Except Err α) (k : String) : Bool :=
  match res with
  | .ok _ => false
  | .error e => e == k

def resJ {α} (e : α → Json) : Except Err α → List (String × Json)
  | .ok a => [("ok", Json.bool true), ("err", Json.str ""), ("r", e a)]
  | .error k => [("ok", Json.bool false), ("err", Json.str k), ("r", Json.null)]

def lst {α} (f : α → Json) (xs : List α) : Json := Json.arr (xs.map f).toArray

/-! ### attributes -/

def dScalarP (k : String) (v : Json) : P ScalarP :=
  match k with
  | "int" => if v.isNull then return .int none else do return .int (some (← decOf v))
  | "float" => if v.isNull then return .float none else do return .float (some (← fromJson? v))
  | "string" => if v.isNull then return .string none else do return .string (some (← hexJ v))
  | _ => throw s!"scalar kind {k}"

def eScalarP : ScalarP → Json
  | .int i => match i with | none => Json.null | some i => jDec i
  | .float b => match b with | none => Json.null | some b => jN b
  | .string s => match s with | none => Json.null | some s => jHex s

def kindP : ScalarP → String
  | .int _ => "int" | .float _ => "float" | .string _ => "string"

def dAttrP (j : Json) : P AttrScalarP := do
  let k ← j.getObjValAs? String "k"
  return { name := ← j.getObjValAs? String "name", doc := ← optStr j "doc", val := ← dScalarP k (← field j "v") }

def eAttrP (a : AttrScalarP) : Json :=
  obj [("name", Json.str a.name), ("doc", jOptS a.doc), ("k", Json.str (kindP a.val)), ("v", eScalarP a.val)]

def dPyStr (v : Json) : P PyStrVal :=
  match v.getObjVal? "str" with
  | .ok cps => do return .str (← natsOf cps)
  | .error _ => do return .bytes (← hexJ (← field v "bytes"))

def ePyStr : PyStrVal → Json
  | .str cps => obj [("str", lst jN cps)]
  | .bytes bs => obj [("bytes", jHex bs)]

def dIRScalar (k : String) (v : Json) : P IRScalar :=
  match k with
  | "int" => do return .int (← decOf v)
  | "float" => do return .float (← natDecOf v)
  | "string" => do return .string (← dPyStr v)
  | _ => throw s!"scalar kind {k}"

def eIRScalar : IRScalar → Json
  | .int n => jDec n
  | .float x => jDecN x
  | .string v => ePyStr v

def kindIR : IRScalar → String
  | .int _ => "int" | .float _ => "float" | .string _ => "string"

def dIRAttr (j : Json) : P IRAttrScalar := do
  let k ← j.getObjValAs? String "k"
  return { name := ← j.getObjValAs? String "name", doc := ← optStr j "doc", val := ← dIRScalar k (← field j "v") }

def eIRAttr (a : IRAttrScalar) : Json :=
  obj [("name", Json.str a.name), ("doc", jOptS a.doc), ("k", Json.str (kindIR a.val)), ("v", eIRScalar a.val)]

def eBStr : BStr → Json
  | .utf8 s => obj [("u", Json.str s)]
  | .raw h => obj [("b", Json.str h)]

/-- the rendering of `harness/c02.py` (`r_attr`) for the three scalar kinds -/
def eAttrPOld : AttrP → Json
  | .int n d i => obj [("k", "int"), ("name", Json.str n), ("doc", Json.str d), ("i", jDec i)]
  | .float n d b => obj [("k", "float"), ("name", Json.str n), ("doc", Json.str d), ("bits", jN b)]
  | .string n d s => obj [("k", "string"), ("name", Json.str n), ("doc", Json.str d), ("s", eBStr s)]
  | _ => Json.null

/-- the statement of `C02_attr_scalar_fields` (round-trip part) on one attribute -/
def attrThm (a : AttrScalarP) : Bool :=
  !wfScalarP a.val || isOk (serAttrScalarC (desAttrScalar a)) (normAttrScalarP a)

/-- the payload-level functions named in the theorems, evaluated on the payload of `a` -/
def attrPayloadAgrees (a : IRAttrScalar) : Bool :=
  match a.val, serAttrScalarC a with
  | .int n, .ok ⟨_, _, .int (some i)⟩ => isOk (serAttrIntC n) i
  | .float x, .ok ⟨_, _, .float (some b)⟩ => isOk (serAttrFloatC x) b
  | .string v, .ok ⟨_, _, .string (some s)⟩ => isOk (serAttrStringC v) s
  | .int n, .error _ => !inInt64 n
  | .string v, .error _ => isErr (serAttrStringC v) "UnicodeEncodeError"
  | _, _ => false

def attrOp (kind : String) (j : Json) : P Json := do
  let dir ← j.getObjValAs? String "dir"
  let x ← field j "x"
  if dir == "des" then
    let a ← dAttrP x
    if kindP a.val != kind then throw s!"attribute kind {kindP a.val}, expected {kind}"
    let ir := desAttrScalar a
    let old := a.toAttrP
    let oldRt := match desAttr [] old with
      | .ok y => match serAttr [] none y with
        | .ok z => eAttrPOld z == eAttrPOld old
        | .error _ => false
      | .error _ => false
    return obj ([("wf", Json.bool (wfScalarP a.val)), ("ir", eIRAttr ir), ("wfir", Json.bool (wfIRScalar ir.val))]
      ++ resJ eAttrP (serAttrScalarC ir)
      ++ [("norm", eAttrP (normAttrScalarP a)), ("thm", Json.bool (attrThm a)),
          ("old", eAttrPOld old), ("old_rt", Json.bool oldRt),
          ("payload", Json.bool (attrPayloadAgrees ir))])
  else
    let a ← dIRAttr x
    if kindIR a.val != kind then throw s!"attribute kind {kindIR a.val}, expected {kind}"
    let res := serAttrScalarC a
    let back := match res with
      | .ok p => eIRAttr (desAttrScalar p)
      | .error _ => Json.null
    let inr := match a.val with
      | .int n => inInt64 n
      | .float _ => true
      | .string (.str cps) => cps.all fun c => !isSurrogate c
      | .string (.bytes _) => true
    return obj ([("wfir", Json.bool (wfIRScalar a.val))] ++ resJ eAttrP res
      ++ [("back", back), ("inrange", Json.bool inr), ("payload", Json.bool (attrPayloadAgrees a))])

/-- instances of `C02_float32_rounding_partial` at the float32 pattern `b`: (4) round to nearest even for
`d` in {1, 2^28 - 1, 2^28, 2^28 + 1, 2^29 - 1} when `b` is normal and finite, (3) faithfulness and (1)
monotonicity at the midpoint between `b` and `b + 1` when `b + 1 <= inf32`, (2) the sign symmetry at
`f32ToF64 b`.  Returns (all instances true, hypothesis of (4) holds, hypothesis of (3) holds). -/
def roundingInstances (b : Nat) : Bool × Bool × Bool :=
  let hypN := decide (b < inf32) && decide (f32Exp b ≠ 0)
  let nearest := [1, 2 ^ 28 - 1, 2 ^ 28, 2 ^ 28 + 1, 2 ^ 29 - 1].all fun d =>
    f64ToF32 (f32ToF64 b + d) == (if d < 2 ^ 28 ∨ (d = 2 ^ 28 ∧ b % 2 = 0) then b else b + 1)
  let hypF := decide (b + 1 ≤ inf32)
  let lo := f32ToF64 b
  let hi := f32ToF64 (b + 1)
  let mid := (lo + hi) / 2
  let r := f64ToF32 mid
  let faithful := (r == b || r == b + 1) && decide (f64ToF32 lo ≤ r) && decide (r ≤ f64ToF32 hi)
  let sign := decide (lo ≥ 2 ^ 63) || f64ToF32 (2 ^ 63 + lo) == 2 ^ 31 + f64ToF32 lo
  ((!hypN || nearest) && (!hypF || faithful) && sign, hypN, hypF)

def handle : Handler := fun m j =>
  match m with
  | "serdescalar.dim" => some do
    let dir ← j.getObjValAs? String "dir"
    if dir == "des" then
      let d ← dDimF (← field j "x")
      let ir := desDimF d
      let res := serDimC ir
      let thm := !wfDimF d || isOk res (normDimF d)
      -- agreement with the unchecked model of Model/Serde.lean (presence forgotten)
      let agree := match res with
        | .ok r => decide (r.toP = serDim (desDim d.toP)) && decide (ir.toPair = desDim d.toP)
        | .error _ => !wfDimF d
      return obj ([("wf", Json.bool (wfDimF d)), ("ir", eIRDim ir)] ++ resJ eDimF res
        ++ [("norm", eDimF (normDimF d)), ("thm", Json.bool thm), ("agree", Json.bool agree),
            ("old", eDimP (serDim (desDim d.toP)))])
    else
      let d ← dIRDim (← field j "x")
      let res := serDimC d
      let back := match res with
        | .ok p => eIRDim (desDimF p)
        | .error _ => Json.null
      return obj (resJ eDimF res ++ [("inrange", Json.bool (irShapeInRange [d])), ("back", back)])
  | "serdescalar.shape" => some do
    let dir ← j.getObjValAs? String "dir"
    let xs ← (← field j "x").getArr?
    if dir == "des" then
      let s ← xs.toList.mapM dDimF
      let ir := desShapeF s
      let res := serShapeC ir
      let wf := s.all wfDimF
      let thm := !wf || isOk res (s.map normDimF)
      let agree := match res with
        | .ok r => decide (r.map DimF.toP = serShape (desShape (s.map DimF.toP)))
        | .error _ => !wf
      return obj ([("wf", Json.bool wf), ("ir", lst eIRDim ir)] ++ resJ (lst eDimF) res
        ++ [("norm", lst eDimF (s.map normDimF)), ("thm", Json.bool thm), ("agree", Json.bool agree)])
    else
      let s ← xs.toList.mapM dIRDim
      let res := serShapeC s
      let back := match res with
        | .ok p => lst eIRDim (desShapeF p)
        | .error _ => Json.null
      return obj (resJ (lst eDimF) res ++ [("inrange", Json.bool (irShapeInRange s)), ("back", back)])
  | "serdescalar.attr_int" => some (attrOp "int" j)
  | "serdescalar.attr_float" => some (attrOp "float" j)
  | "serdescalar.attr_string" => some (attrOp "string" j)
  | "serdescalar.f64_to_f32" => some do
    -- `{"xs": ["<dec>", ...]}` -> `{"rs": [bits, ...]}`
    let xs ← (← field j "xs").getArr?
    let ys ← xs.toList.mapM natDecOf
    return obj [("rs", lst jN (ys.map f64ToF32))]
  | "serdescalar.f32_to_f64" => some do
    -- `{"xs": [bits, ...]}` -> `{"rs": ["<dec>", ...], "back": [f64ToF32 (f32ToF64 b), ...], "quiet": [quiet32 b, ...],
    --   "inst": [[instances of C02_float32_rounding_partial true, hypothesis normal, hypothesis adjacent], ...]}`
    let bs ← natsOf (← field j "xs")
    return obj [("rs", lst jDecN (bs.map f32ToF64)), ("back", lst jN (bs.map fun b => f64ToF32 (f32ToF64 b))),
                ("quiet", lst jN (bs.map quiet32)),
                ("inst", lst (fun b => let (t, n, f) := roundingInstances b
                                       Json.arr #[Json.bool t, Json.bool n, Json.bool f]) bs)]
  | "serdescalar.utf8" => some do
    -- `{"xs": ["<hex>", ...]}` -> per item the decoding (`null` = UnicodeDecodeError) and the BStr rendering
    let xs ← (← field j "xs").getArr?
    let bss ← xs.toList.mapM hexJ
    return obj [("rs", lst (fun bs => match utf8Dec bs with
                                      | some cps => lst jN cps
                                      | none => Json.null) bss),
                ("bstr", lst (fun bs => eBStr (bstrOfBytes bs)) bss)]
  | _ => none

end IrVerif.Drive.SerdeScalar

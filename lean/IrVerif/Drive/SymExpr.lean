import IrVerif.Drive.Util
import IrVerif.Model.SymExpr
/-! Protocol handler for the C16 model (`sym.*`).

Expression trees travel as JSON arrays: `["n", 5]`, `["s", "N"]`, `["inf", true]`,
`["u", "floor", e]`, `["b", "add", a, b]`.  Rationals are `[num, den]`, `null` = no finite value.
Environments are lists of `[name, int]`. -/
open Lean IrVerif.Drive
namespace IrVerif.Drive.SymExpr
open IrVerif.SymExpr

def unOpName : UnOp → String
  | .neg => "neg" | .floor => "floor" | .ceil => "ceil" | .trunc => "trunc"
  | .abs => "abs" | .sign => "sign" | .sqrt => "sqrt"

def binOpName : BinOp → String
  | .add => "add" | .sub => "sub" | .mul => "mul" | .div => "div" | .fdiv => "fdiv"
  | .mod => "mod" | .pow => "pow" | .max => "max" | .min => "min"

def unOpOf : String → Except String UnOp
  | "neg" => pure .neg | "floor" => pure .floor | "ceil" => pure .ceil | "trunc" => pure .trunc
  | "abs" => pure .abs | "sign" => pure .sign | "sqrt" => pure .sqrt
  | s => throw s!"unknown unary op {s}"

def binOpOf : String → Except String BinOp
  | "add" => pure .add | "sub" => pure .sub | "mul" => pure .mul | "div" => pure .div
  | "fdiv" => pure .fdiv | "mod" => pure .mod | "pow" => pure .pow | "max" => pure .max
  | "min" => pure .min
  | s => throw s!"unknown binary op {s}"

partial def exprOfJson (j : Json) : Except String Expr := do
  let a ← j.getArr?
  let tag ← (a[0]?.getD Json.null).getStr?
  match tag, a.size with
  | "n", 2 => return .num (← a[1]!.getInt?)
  | "s", 2 => return .sym (← a[1]!.getStr?)
  | "inf", 2 => return .inf (← a[1]!.getBool?)
  | "u", 3 => return .un (← unOpOf (← a[1]!.getStr?)) (← exprOfJson a[2]!)
  | "b", 4 => return .bin (← binOpOf (← a[1]!.getStr?)) (← exprOfJson a[2]!) (← exprOfJson a[3]!)
  | t, _ => throw s!"bad expression node {t}"

def exprToJson : Expr → Json
  | .num n => Json.arr #[Json.str "n", toJson n]
  | .sym s => Json.arr #[Json.str "s", Json.str s]
  | .inf b => Json.arr #[Json.str "inf", Json.bool b]
  | .un o a => Json.arr #[Json.str "u", Json.str (unOpName o), exprToJson a]
  | .bin o a b => Json.arr #[Json.str "b", Json.str (binOpName o), exprToJson a, exprToJson b]

def envOfJson (j : Json) : Except String Env := do
  let a ← j.getArr?
  let mut l : List (String × Int) := []
  for p in a do
    let q ← p.getArr?
    if q.size ≠ 2 then throw "bad binding"
    l := l ++ [(← q[0]!.getStr?, ← q[1]!.getInt?)]
  return Env.ofList l

def getEnv (j : Json) (k : String) : Except String Env := do envOfJson (← j.getObjVal? k)

def getEnvs (j : Json) (k : String) : Except String (List Env) := do
  (← getArr j k).mapM envOfJson

def ratJ : Option Rat → Json
  | none => Json.null
  | some q => Json.arr #[toJson q.num, toJson (q.den : Int)]

def opName : Op → String
  | .plus => "+" | .minus => "-" | .star => "*" | .slash => "/" | .dslash => "//"
  | .percent => "%" | .dstar => "**"

def tokJ : Tok → Json
  | .num n => Json.arr #[Json.str "NUMBER", toJson n]
  | .ident s => Json.arr #[Json.str "IDENT", Json.str s]
  | .op o => Json.arr #[Json.str "OP", Json.str (opName o)]
  | .lparen => Json.arr #[Json.str "LPAREN", Json.str "("]
  | .rparen => Json.arr #[Json.str "RPAREN", Json.str ")"]
  | .comma => Json.arr #[Json.str "COMMA", Json.str ","]

def optJ {α} (f : α → Json) : Option α → Json
  | none => Json.null
  | some a => f a

def handle : Handler := fun m j =>
  match m with
  | "sym.eval" => some do
      let e ← exprOfJson (← j.getObjVal? "e")
      let envs ← getEnvs j "envs"
      return obj [("r", Json.arr (envs.map (fun env => ratJ (eval env e))).toArray)]
  | "sym.partial" => some do
      -- eval b2 (subst b1 e), eval (b1 ∪ b2) e, free (subst b1 e)
      let e ← exprOfJson (← j.getObjVal? "e")
      let b1 ← getEnv j "b1"
      let b2 ← getEnv j "b2"
      let r := subst b1 e
      return obj [("resid", ratJ (eval b2 r)), ("full", ratJ (eval (Env.union b1 b2) e)),
                  ("free", strsJ (free r).eraseDups)]
  | "sym.free" => some do
      let e ← exprOfJson (← j.getObjVal? "e")
      return obj [("r", strsJ (free e).eraseDups)]
  | "sym.tokenize" => some do
      let s ← getStr j "s"
      let cs := s.toList
      if !cs.all isAscii then return obj [("r", Json.str "nonascii")]
      return obj [("r", optJ (fun ts => Json.arr (ts.map tokJ).toArray) (tokenize cs))]
  | "sym.parse" => some do
      -- parse_symbolic_expression(s); on success the tree and its value under each env
      let s ← getStr j "s"
      let envs ← getEnvs j "envs"
      let cs := s.toList
      if !cs.all isAscii then return obj [("r", Json.str "nonascii")]
      match parseChars cs with
      | none => return obj [("r", Json.str "raised")]
      | some e =>
        return obj [("r", Json.str "ok"), ("tree", exprToJson e),
                    ("vals", Json.arr (envs.map (fun env => ratJ (eval env e))).toArray)]
  | "sym.pp" => some do
      -- the model printer: rendered text, the tokens, what the model parser makes of them
      let e ← exprOfJson (← j.getObjVal? "e")
      let ts := pp e
      let text := String.ofList (render ts)
      return obj [("s", Json.str text),
                  ("retok", Json.bool (tokenize (render ts) == some ts)),
                  ("reparsed", optJ exprToJson (parseTokens ts)),
                  ("norm", exprToJson (norm e))]
  | _ => none

end IrVerif.Drive.SymExpr

import IrVerif.Drive.Util
import IrVerif.Model.SymExpr
import IrVerif.Model.SymDim
import IrVerif.Model.SymLexU
/-! Protocol handler for the C16 model (`sym.*`).

Expression trees travel as JSON arrays: `["n", 5]`, `["s", "N"]`, `["inf", true]`,
`["u", "floor", e]`, `["b", "add", a, b]`.  Rationals are `[num, den]`, `null` = no finite value.
Environments are lists of `[name, int]`. -/
open Lean IrVerif.Drive
namespace IrVerif.Drive.SymExpr
open IrVerif.SymExpr

def unOpName : UnOp → String
  | .neg => "neg" | .floor => "floor" | .ceil => "ceil" | .trunc => "trunc"
  | .abs => "abs" | .sign => "sign" | .sqrt => "sqrt"

def binOpName : BinOp → String
  | .add => "add" | .sub => "sub" | .mul => "mul" | .div => "div" | .fdiv => "fdiv"
  | .mod => "mod" | .pow => "pow" | .max => "max" | .min => "min"

def unOpOf : String → Except String UnOp
  | "neg" => pure .neg | "floor" => pure .floor | "ceil" => pure .ceil | "trunc" => pure .trunc
  | "abs" => pure .abs | "sign" => pure .sign | "sqrt" => pure .sqrt
  | s => throw s!"unknown unary op {s}"

def binOpOf : String → Except String BinOp
  | "add" => pure .add | "sub" => pure .sub | "mul" => pure .mul | "div" => pure .div
  | "fdiv" => pure .fdiv | "mod" => pure .mod | "pow" => pure .pow | "max" => pure .max
  | "min" => pure .min
  | s => throw s!"unknown binary op {s}"

partial def exprOfJson (j : Json) : Except String Expr := do
  let a ← j.getArr?
  let tag ← (a[0]?.getD Json.null).getStr?
  match tag, a.size with
  | "n", 2 => return .num (← a[1]!.getInt?)
  | "s", 2 => return .sym (← a[1]!.getStr?)
  | "inf", 2 => return .inf (← a[1]!.getBool?)
  | "u", 3 => return .un (← unOpOf (← a[1]!.getStr?)) (← exprOfJson a[2]!)
  | "b", 4 => return .bin (← binOpOf (← a[1]!.getStr?)) (← exprOfJson a[2]!) (← exprOfJson a[3]!)
  | t, _ => throw s!"bad expression node {t}"

def exprToJson : Expr → Json
  | .num n => Json.arr #[Json.str "n", toJson n]
  | .sym s => Json.arr #[Json.str "s", Json.str s]
  | .inf b => Json.arr #[Json.str "inf", Json.bool b]
  | .un o a => Json.arr #[Json.str "u", Json.str (unOpName o), exprToJson a]
  | .bin o a b => Json.arr #[Json.str "b", Json.str (binOpName o), exprToJson a, exprToJson b]

def envOfJson (j : Json) : Except String Env := do
  let a ← j.getArr?
  let mut l : List (String × Int) := []
  for p in a do
    let q ← p.getArr?
    if q.size ≠ 2 then throw "bad binding"
    l := l ++ [(← q[0]!.getStr?, ← q[1]!.getInt?)]
  return Env.ofList l

def getEnv (j : Json) (k : String) : Except String Env := do envOfJson (← j.getObjVal? k)

def getEnvs (j : Json) (k : String) : Except String (List Env) := do
  (← getArr j k).mapM envOfJson

def ratJ : Option Rat → Json
  | none => Json.null
  | some q => Json.arr #[toJson q.num, toJson (q.den : Int)]

def opName : Op → String
  | .plus => "+" | .minus => "-" | .star => "*" | .slash => "/" | .dslash => "//"
  | .percent => "%" | .dstar => "**"

def tokJ : Tok → Json
  | .num n => Json.arr #[Json.str "NUMBER", toJson n]
  | .ident s => Json.arr #[Json.str "IDENT", Json.str s]
  | .op o => Json.arr #[Json.str "OP", Json.str (opName o)]
  | .lparen => Json.arr #[Json.str "LPAREN", Json.str "("]
  | .rparen => Json.arr #[Json.str "RPAREN", Json.str ")"]
  | .comma => Json.arr #[Json.str "COMMA", Json.str ","]

/-- derivation trees as JSON arrays: `["expr", t, tl]`, `["etNil"]`, `["etCons", "+", t, tl]`,
`["num", 3]`, `["ident", "N"]`, `["call1", "floor", a]`, ... ; the result is packed as a
sigma over the nonterminal and unpacked with the expected index. -/
def addOpOfS : String → Except String AddOp
  | "+" => pure .plus | "-" => pure .minus
  | s => throw s!"bad additive operator {s}"
def mulOpOfS : String → Except String MulOp
  | "*" => pure .star | "/" => pure .slash | "//" => pure .dslash | "%" => pure .percent
  | s => throw s!"bad multiplicative operator {s}"
def fn1OfS : String → Except String Fn1
  | "floor" => pure .floor | "ceiling" => pure .ceiling | "Abs" => pure .abs | "sign" => pure .sign
  | "sqrt" => pure .sqrt
  | s => throw s!"bad unary function {s}"
def fn2OfS : String → Except String Fn2
  | "mod" => pure .mod | "Mod" => pure .Mod
  | s => throw s!"bad binary function {s}"
def fnNOfS : String → Except String FnN
  | "max" => pure .max | "Max" => pure .Max | "min" => pure .min | "Min" => pure .Min
  | s => throw s!"bad variadic function {s}"

def castD {n : NT} (m : NT) (d : D n) : Except String (D m) :=
  if h : n = m then pure (h ▸ d) else throw "derivation tree: wrong nonterminal"

partial def derivOfJson (j : Json) : Except String (Sigma D) := do
  let a ← j.getArr?
  let tag ← (a[0]?.getD Json.null).getStr?
  let sub (i : Nat) (m : NT) : Except String (D m) := do
    let ⟨_, d⟩ ← derivOfJson (a[i]?.getD Json.null)
    castD m d
  match tag with
  | "expr" => return ⟨_, .expr (← sub 1 .term) (← sub 2 .exprTail)⟩
  | "etNil" => return ⟨_, .etNil⟩
  | "etCons" => return ⟨_, .etCons (← addOpOfS (← a[1]!.getStr?)) (← sub 2 .term) (← sub 3 .exprTail)⟩
  | "term" => return ⟨_, .term (← sub 1 .unary) (← sub 2 .termTail)⟩
  | "ttNil" => return ⟨_, .ttNil⟩
  | "ttCons" => return ⟨_, .ttCons (← mulOpOfS (← a[1]!.getStr?)) (← sub 2 .unary) (← sub 3 .termTail)⟩
  | "neg" => return ⟨_, .neg (← sub 1 .unary)⟩
  | "upow" => return ⟨_, .upow (← sub 1 .power)⟩
  | "prim" => return ⟨_, .prim (← sub 1 .primary)⟩
  | "pow" => return ⟨_, .pow (← sub 1 .primary) (← sub 2 .unary)⟩
  | "num" => return ⟨_, .num (← a[1]!.getNat?)⟩
  | "ident" => return ⟨_, .ident (← a[1]!.getStr?)⟩
  | "paren" => return ⟨_, .paren (← sub 1 .expr)⟩
  | "call1" => return ⟨_, .call1 (← fn1OfS (← a[1]!.getStr?)) (← sub 2 .expr)⟩
  | "call2" => return ⟨_, .call2 (← fn2OfS (← a[1]!.getStr?)) (← sub 2 .expr) (← sub 3 .expr)⟩
  | "callN" => return ⟨_, .callN (← fnNOfS (← a[1]!.getStr?)) (← sub 2 .args)⟩
  | "argsNil" => return ⟨_, .argsNil⟩
  | "argsCons" => return ⟨_, .argsCons (← sub 1 .expr) (← sub 2 .argsTail)⟩
  | "atNil" => return ⟨_, .atNil⟩
  | "atCons" => return ⟨_, .atCons (← sub 1 .expr) (← sub 2 .argsTail)⟩
  | t => throw s!"bad derivation node {t}"

def optJ {α} (f : α → Json) : Option α → Json
  | none => Json.null
  | some a => f a

/-! ### operator overloads, evaluate, Shape (Model/SymDim.lean)

Programs travel as JSON arrays: `["int", 3]`, `["dim", "N + 1"]` (= `SymbolicDim(text)`),
`["unknown"]` (= `SymbolicDim(None)`), `["other"]` (a float / None / ...), `["b", "add", x, y]`
(add sub mul truediv floordiv mod pow), `["u", "neg", x]` (neg floor ceil trunc),
`["lat", "max", x, y]`. -/

def bOpOf : String → Except String BOp
  | "add" => pure .add | "sub" => pure .sub | "mul" => pure .mul | "truediv" => pure .truediv
  | "floordiv" => pure .floordiv | "mod" => pure .mod | "pow" => pure .pow
  | s => throw s!"unknown operator {s}"

def uOpOf : String → Except String UOp
  | "neg" => pure .neg | "floor" => pure .floor | "ceil" => pure .ceil | "trunc" => pure .trunc
  | s => throw s!"unknown unary operator {s}"

partial def progOfJson (j : Json) : Except String Prog := do
  let a ← j.getArr?
  let tag ← (a[0]?.getD Json.null).getStr?
  match tag, a.size with
  | "int", 2 => return .int (← a[1]!.getInt?)
  | "bool", 2 => return .bool (← a[1]!.getBool?)
  | "dim", 2 =>
    let s ← a[1]!.getStr?
    if !s.toList.all isAscii then throw "nonascii"
    return .text s.toList
  | "unknown", 1 => return .unknown
  | "other", 1 => return .other
  | "b", 4 => return .bin (← bOpOf (← a[1]!.getStr?)) (← progOfJson a[2]!) (← progOfJson a[3]!)
  | "u", 3 => return .un (← uOpOf (← a[1]!.getStr?)) (← progOfJson a[2]!)
  | "lat", 4 => return .lat ((← a[1]!.getStr?) == "max") (← progOfJson a[2]!) (← progOfJson a[3]!)
  | t, _ => throw s!"bad program node {t}"

def dimJ (envs : List Env) : Dim → List (String × Json)
  | .unknown => [("status", Json.str "unknown")]
  | .bad => [("status", Json.str "bad")]
  | .expr e => [("status", Json.str "ok"), ("tree", exprToJson e),
      ("vals", Json.arr (envs.map (fun env => ratJ (eval env e))).toArray),
      ("free", strsJ (free e).eraseDups)]

def progResJ (envs : List Env) : ProgRes → Json
  | .typeError => obj [("status", Json.str "typeerror")]
  | .valueError => obj [("status", Json.str "valueerror")]
  | .val (.int n) => obj [("status", Json.str "int"), ("z", toJson n)]
  | .val .other => obj [("status", Json.str "other")]
  | .val (.bool b) => obj [("status", Json.str "bool"), ("b", Json.bool b)]
  | .val (.dim d) => obj (dimJ envs d)

def sdimOfJson (j : Json) : Except String SDim := do
  match j.getInt? with
  | .ok n => return .int n
  | .error _ =>
    match (← progOfJson j).run with
    | .val (.dim d) => return .dim d
    | .val (.int n) => return .int n
    | _ => throw "shape dimension does not evaluate to a dimension"

def sdimJ : SDim → Json
  | .int n => obj [("kind", Json.str "int"), ("z", toJson n)]
  | .dim .unknown => obj [("kind", Json.str "unknown")]
  | .dim .bad => obj [("kind", Json.str "bad")]
  | .dim (.expr e) => obj [("kind", Json.str "dim"), ("tree", exprToJson e),
      ("free", strsJ (free e).eraseDups)]

def eqOperandOfJson (j : Json) : Except String EqOperand := do
  let a ← j.getArr?
  let tag ← (a[0]?.getD Json.null).getStr?
  match tag, a.size with
  | "dim", 2 => match a[1]! with
    | Json.null => return .dim none
    | v => return .dim (some (← v.getStr?))
  | "str", 2 => return .str (← a[1]!.getStr?)
  | "none", 1 => return .none
  | "other", 1 => return .other
  | t, _ => throw s!"bad equality operand {t}"

def handleDim : Handler := fun m j =>
  match m with
  | "sym.ov" => some do
      -- a program over the real operator overloads: outcome, the tree the model builds, its values
      let envs ← getEnvs j "envs"
      match progOfJson (← j.getObjVal? "p") with
      | .error "nonascii" => return obj [("status", Json.str "nonascii")]
      | .error e => throw e
      | .ok p => return progResJ envs p.run
  | "sym.dimeval" => some do
      -- SymbolicDim.evaluate(b) on the dimension a program builds
      let envs ← getEnvs j "envs"
      let b ← getEnv j "b"
      match progOfJson (← j.getObjVal? "p") with
      | .error "nonascii" => return obj [("status", Json.str "nonascii")]
      | .error e => throw e
      | .ok p =>
        match p.run with
        | .val (.dim d) =>
          match d.evaluate b with
          | .int z => return obj [("status", Json.str "int"), ("z", toJson z)]
          | .raised => return obj [("status", Json.str "valueerror")]
          | .dim d' => return obj (dimJ envs d')
        | r => return obj [("status", Json.str "noprog"), ("run", progResJ envs r)]
  | "sym.shape" => some do
      -- Shape(dims): evaluate(b), free_symbols, is_static / is_dynamic before and after
      let b ← getEnv j "b"
      let dims ← (← getArr j "dims").mapM sdimOfJson
      let stat (sh : Shape) : List (String × Json) :=
        [("static", Json.bool (Shape.isStatic sh)), ("dynamic", Json.bool (Shape.isDynamic sh)),
         ("static_at", Json.arr ((List.range sh.length).map
            (fun i => optJ Json.bool (Shape.isStaticAt sh i))).toArray),
         ("dynamic_at", Json.arr ((List.range sh.length).map
            (fun i => optJ Json.bool (Shape.isDynamicAt sh i))).toArray),
         ("out_of_range", optJ Json.bool (Shape.isStaticAt sh sh.length)),
         ("free", optJ strsJ (Shape.freeSymbols sh))]
      let ev := Shape.evaluate b dims
      return obj [("before", obj (stat dims)),
                  ("evaluated", optJ (fun sh => Json.arr (sh.map sdimJ).toArray) ev),
                  ("after", optJ (fun sh => obj (stat sh)) ev)]
  | "sym.lexu" => some do
      -- the tokenizer / parse_symbolic_expression over a classification of the non-ASCII characters
      -- supplied by the caller (CPython's str predicates), ASCII characters classified by the model
      let str ← getStr j "s"
      let envs ← getEnvs j "envs"
      let ident ← getBool j "ident"
      let mut table : List (Char × CClass) := []
      for row in (← getArr j "cls") do
        let a ← row.getArr?
        let ch ← (a[0]?.getD Json.null).getStr?
        let kind ← (a[1]?.getD Json.null).getStr?
        let c := ch.toList.headD ' '
        let k : CClass ← match kind with
          | "space" => pure CClass.space
          | "alpha" => pure CClass.alpha
          | "numeric" => pure CClass.numeric
          | "other" => pure CClass.other
          | "digit" => match a[2]?.getD Json.null with
            | Json.null => pure (CClass.digit none)
            | v => do pure (CClass.digit (some (← v.getNat?)))
          | k => throw s!"bad class {k}"
        table := (c, k) :: table
      let cls : Char → CClass := fun c =>
        if isAscii c then asciiClass c else (table.lookup c).getD CClass.other
      let cs := str.toList
      let toks := tokenizeK cls cs
      let parsed := parseCharsK cls ident cs
      return obj [("tokens", optJ (fun ts => Json.arr (ts.map tokJ).toArray) toks),
                  ("r", Json.str (if parsed.isSome then "ok" else "raised")),
                  ("tree", optJ exprToJson parsed),
                  ("vals", optJ (fun e => Json.arr (envs.map (fun env => ratJ (eval env e))).toArray) parsed)]
  | "sym.lexu_sweep" => some do
      -- a whole range of code points at once: the classification the caller supplies (one entry per
      -- code point from `lo`: "s" space, "a" alpha, "n" numeric, "o" other, "d" a digit `int()`
      -- refuses, a number = the digit's value), ASCII characters classified by the model itself;
      -- per code point: the four decisions the tokenizer takes on that class (skip / digit run /
      -- identifier start / identifier continuation), the digit value, `isIdentifier` of the
      -- one-character text (ASCII only), and the model tokenizer on the probe texts
      -- `c`, `ac`, `1c`, `c1`
      let lo ← getNat j "lo"
      let mut arr : Array CClass := #[]
      for r in (← getArr j "cls") do
        let k : CClass ← match r with
          | Json.str "s" => pure CClass.space
          | Json.str "a" => pure CClass.alpha
          | Json.str "n" => pure CClass.numeric
          | Json.str "o" => pure CClass.other
          | Json.str "d" => pure (CClass.digit none)
          | v => do pure (CClass.digit (some (← v.getNat?)))
        arr := arr.push k
      let cls : Char → CClass := fun c =>
        if isAscii c then asciiClass c else (arr[c.toNat - lo]?).getD CClass.other
      let tj (o : Option (List Tok)) : Json := optJ (fun ts => Json.arr (ts.map tokJ).toArray) o
      let mut rows : Array Json := #[]
      for i in [0:arr.size] do
        let n := lo + i
        if h : n.isValidChar then
          let c : Char := Char.ofNatAux n h
          let k := cls c
          let dv : Json := match k with
            | .digit (some v) => toJson v
            | _ => Json.null
          rows := rows.push (Json.arr #[
            Json.bool k.isSpace, Json.bool k.isDigit, Json.bool (k.isAlpha || c == '_'),
            Json.bool (k.isAlnum || c == '_' || c == '.'), dv,
            (if isAscii c then Json.bool (isIdentifier [c]) else Json.null),
            tj (tokenizeK cls [c]), tj (tokenizeK cls ['a', c]), tj (tokenizeK cls ['1', c]),
            tj (tokenizeK cls [c, '1'])])
        else
          rows := rows.push Json.null
      return obj [("rows", Json.arr rows)]
  | "sym.dimeq" => some do
      let v : Option String ← match (← j.getObjVal? "v") with
        | Json.null => pure none
        | x => do pure (some (← x.getStr?))
      let o ← eqOperandOfJson (← j.getObjVal? "o")
      return obj [("eq", Json.bool (dimEq v o)), ("hashkey", optJ Json.str (dimHashKey v))]
  | _ => none

def handle : Handler := fun m j =>
  match m with
  | "sym.eval" => some do
      let e ← exprOfJson (← j.getObjVal? "e")
      let envs ← getEnvs j "envs"
      let ints : Json := if intFrag e then
          Json.arr (envs.map (fun env => optJ (fun (z : Int) => toJson z) (evalInt env e))).toArray
        else Json.null
      return obj [("r", Json.arr (envs.map (fun env => ratJ (eval env e))).toArray), ("int", ints)]
  | "sym.partial" => some do
      -- eval b2 (subst b1 e), eval (b1 ∪ b2) e, free (subst b1 e)
      let e ← exprOfJson (← j.getObjVal? "e")
      let b1 ← getEnv j "b1"
      let b2 ← getEnv j "b2"
      let r := subst b1 e
      return obj [("resid", ratJ (eval b2 r)), ("full", ratJ (eval (Env.union b1 b2) e)),
                  ("free", strsJ (free r).eraseDups)]
  | "sym.free" => some do
      let e ← exprOfJson (← j.getObjVal? "e")
      return obj [("r", strsJ (free e).eraseDups)]
  | "sym.tokenize" => some do
      let s ← getStr j "s"
      let cs := s.toList
      if !cs.all isAscii then return obj [("r", Json.str "nonascii")]
      return obj [("r", optJ (fun ts => Json.arr (ts.map tokJ).toArray) (tokenize cs))]
  | "sym.parse" => some do
      -- parse_symbolic_expression(s); on success the tree and its value under each env
      let s ← getStr j "s"
      let envs ← getEnvs j "envs"
      let cs := s.toList
      if !cs.all isAscii then return obj [("r", Json.str "nonascii")]
      match parseChars cs with
      | none => return obj [("r", Json.str "raised")]
      | some e =>
        return obj [("r", Json.str "ok"), ("tree", exprToJson e),
                    ("vals", Json.arr (envs.map (fun env => ratJ (eval env e))).toArray)]
  | "sym.derive" => some do
      -- a derivation tree of the documented grammar: its sentence, its meaning, the parser on it
      let ⟨_, d0⟩ ← derivOfJson (← j.getObjVal? "d")
      let d ← castD NT.expr d0
      let envs ← getEnvs j "envs"
      let ts := d.flatten
      let e : Expr := d.sem
      return obj [("s", Json.str (String.ofList (render ts))),
                  ("tokens", Json.arr (ts.map tokJ).toArray),
                  ("sem", exprToJson e),
                  ("parsed", optJ exprToJson (parseTokens ts)),
                  ("vals", Json.arr (envs.map (fun env => ratJ (eval env e))).toArray)]
  | "sym.pp" => some do
      -- the model printer: rendered text, the tokens, what the model parser makes of them
      let e ← exprOfJson (← j.getObjVal? "e")
      let ts := pp e
      let text := String.ofList (render ts)
      return obj [("s", Json.str text),
                  ("retok", Json.bool (tokenize (render ts) == some ts)),
                  ("reparsed", optJ exprToJson (parseTokens ts)),
                  ("norm", exprToJson (norm e))]
  | _ => handleDim m j

end IrVerif.Drive.SymExpr

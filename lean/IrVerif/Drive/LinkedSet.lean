import IrVerif.Drive.Util
import IrVerif.Model.LinkedSet
import IrVerif.Model.Traversal
/-! Protocol handler for `Model/LinkedSet.lean`.

`lset.run`: `{"init":[v..], "ops":[{"o":...}..], "snap":bool}` runs one whole history on the
concrete model *and* on the abstract `Spec` machine (one `Spec.St` per cursor) and answers with one
record per operation:
  r     result of the op (`true`/`false` = returned/raised for edits; the yielded value, `"stop"`,
        `"raised"` or `"fuel"` for `next`; value or null for `get`; bool for `has`; nat/null for `len`)
  L     `toList` after the op,  R  `toListRev`,  n  `len`,  f/l  `getItem 0` / `getItem (-1)`
  rests what each concrete cursor would still yield (`rest`)
  abs   `absCur` of every concrete cursor equals the `Spec` cursor, `Spec` list = `toList`,
        `Spec.rest` = `rest` (the refinement statement, evaluated)
  ends  how each cursor's generator would end if drained now (`"stop"` expected)
  inv   `invOk` (executable invariant)
The answer also carries `hist0`: `runHist` for the first cursor over all events since its creation
(`y` = what it yielded, `T` = touched values, `ok` = the statement of
C11_untouched_exactly_once_in_order evaluated on this history).
Ops: append{v} extend{vs} ia{a,vs} ib{a,vs} rm{v} iter{d:"f"|"r"} next{k} get{i} has{v} len. -/
open Lean IrVerif.Drive
namespace IrVerif.Drive.LinkedSet
open IrVerif.LinkedSet

structure RunSt where
  s : LSet
  curs : Array (Dir × Cursor)
  spec0 : Spec.St
  specs : Array Spec.St
  /-- state and direction when cursor 0 was created, and every event since (for `runHist`) -/
  h0 : Option (LSet × Dir) := none
  evs : Array Ev := #[]

def optNatJ : Option Nat → Json
  | some v => toJson v
  | none => Json.null

def resJ : Res → Json
  | .yield v => toJson v
  | .stop => Json.str "stop"
  | .raised => Json.str "raised"
  | .fuel => Json.str "fuel"

def absAgree (st : RunSt) : Bool :=
  let L := toList st.s
  st.spec0.L == L &&
  (List.range st.curs.size).all fun k =>
    match st.curs[k]?, st.specs[k]? with
    | some (d, c), some sp =>
      sp.L == L && decide (absCur st.s d c = sp.c) && Spec.rest sp.L sp.d sp.c == rest st.s d c
    | _, _ => false

def snapJ (st : RunSt) (r : Json) (full : Bool) : Json :=
  let base := [("r", r), ("L", natsJ (toList st.s)), ("n", optNatJ (len st.s)),
    ("f", optNatJ (getItem st.s 0)), ("l", optNatJ (getItem st.s (-1)))]
  let more := if full then
    [("R", natsJ (toListRev st.s)),
     ("rests", Json.arr (st.curs.map fun (d, c) => natsJ (rest st.s d c))),
     ("ends", Json.arr (st.curs.map fun (d, c) => resJ (drain st.s d (size st.s + 1) c).2)),
     ("abs", Json.bool (absAgree st)), ("inv", Json.bool (invOk st.s))] else []
  obj (base ++ more)

/-- apply a list-level edit to the model and the same abstract edit to every `Spec.St` -/
def edit (st : RunSt) (op : Op) : RunSt × Json :=
  let f : LSet → LSet × Bool := fun s => apply s op
  let g : Spec.St → Spec.St × Bool := fun sp => Spec.apply sp op
  let st := { st with evs := st.evs.push (.op op) }
  let r := f st.s
  let r0 := g st.spec0
  let rj := if r0.2 == r.2 then Json.bool r.2 else Json.str "model/spec differ"
  ({ st with s := r.1, spec0 := r0.1, specs := st.specs.map (fun sp => (g sp).1) }, rj)

def stepOp (st : RunSt) (j : Json) : Except String (RunSt × Json) := do
  let o ← getStr j "o"
  match o with
  | "append" =>
    let v ← getNat j "v"
    return edit st (.append v)
  | "extend" =>
    let vs ← getNats j "vs"
    return edit st (.extend vs)
  | "sort" =>
    -- step 5 of Graph.sort: `graph.extend(<arrangement of the present nodes>)` (C12_relink_refines)
    let vs ← getNats j "vs"
    return edit st (.extend vs)
  | "ia" =>
    let a ← getNat j "a"
    let vs ← getNats j "vs"
    return edit st (.insertAfter a vs)
  | "ib" =>
    let a ← getNat j "a"
    let vs ← getNats j "vs"
    return edit st (.insertBefore a vs)
  | "rm" =>
    let v ← getNat j "v"
    return edit st (.remove v)
  | "rmmany" =>
    -- `Graph.remove([n1, n2, ..])`: the wrapper checks every node first (nothing is written when one of
    -- them is not in this graph), then calls `_nodes.remove` once per node
    let vs ← getNats j "vs"
    if vs.all (fun v => contains st.s v) then
      let st' := vs.foldl (fun acc v => (edit acc (.remove v)).1) st
      return (st', Json.bool true)
    else
      return (st, Json.bool false)
  | "rejected" =>
    -- a call the Graph / Function wrapper rejects before it reaches the container: nothing happens
    return (st, Json.bool false)
  | "iter" =>
    let d ← getStr j "d"
    let dir := if d == "r" then Dir.rev else Dir.fwd
    let sp : Spec.St := { L := st.spec0.L, d := dir, c := Spec.start st.spec0.L dir }
    let h0 := if st.curs.size = 0 then some (st.s, dir) else st.h0
    let evs := if st.curs.size = 0 then #[] else st.evs
    return ({ st with curs := st.curs.push (dir, .notStarted), specs := st.specs.push sp,
                      h0 := h0, evs := evs },
      toJson (st.curs.size))
  | "next" =>
    let k ← getNat j "k"
    match st.curs[k]?, st.specs[k]? with
    | some (d, c), some sp =>
      let r := iterNext st.s d c
      let sr := Spec.step sp
      let agree := match r.2, sr.2 with
        | .yield v, some w => v == w
        | .stop, none => true
        | _, _ => false
      let rj := if agree then resJ r.2 else Json.str s!"model/spec differ"
      return ({ st with curs := st.curs.setIfInBounds k (d, r.1),
                        specs := st.specs.setIfInBounds k sr.1,
                        evs := if k = 0 then st.evs.push .next else st.evs }, rj)
    | _, _ => throw "bad cursor"
  | "get" =>
    let i ← getInt j "i"
    return (st, optNatJ (getItem st.s i))
  | "has" =>
    let v ← getNat j "v"
    return (st, Json.bool (contains st.s v))
  | "len" => return (st, optNatJ (len st.s))
  | "slice" =>
    -- `c[a:b:k]` (missing bound = absent / null field); null answer = ValueError (step 0)
    let oi (key : String) : Option Int := (j.getObjValAs? Int key).toOption
    return (st, match getSlice st.s (oi "a") (oi "b") (oi "k") with
      | some l => natsJ l
      | none => Json.null)
  | _ => throw s!"unknown op {o}"

def run (j : Json) : Except String Json := do
  let init ← getNats j "init"
  let ops ← getArr j "ops"
  let full := (j.getObjValAs? Bool "snap").toOption.getD true
  let s0 := (extend empty init).1
  let mut st : RunSt := { s := s0, curs := #[], spec0 := Spec.extend ⟨[], .fwd, .done⟩ init, specs := #[] }
  let mut out : Array Json := #[snapJ st (Json.bool true) full]
  for o in ops do
    let (st', r) ← stepOp st o
    st := st'
    out := out.push (snapJ st r full)
  let hist := match st.h0 with
    | some (s0, d) =>
      let r := runHist d s0 .notStarted st.evs.toList
      -- the statement of C11_untouched_exactly_once_in_order, evaluated
      let T := touchedRun d s0 .notStarted st.evs.toList
      let okU := untouched T (r.2.2 ++ rest r.1 d r.2.1) == untouched T (rest s0 d .notStarted)
      obj [("y", natsJ r.2.2), ("T", natsJ T), ("ok", Json.bool okU)]
    | none => Json.null
  return obj [("steps", Json.arr out), ("hist0", hist)]

/-! `lset.rec`: `{"sets":[[v..]..], "attrs":[[v,[{"g":h}|{"gs":[h..]}..]]..], "recf":null|[v..],
"fuel":n, "ops":[..]}` runs a history on the recursive-iterator model (`recStep`/`recNext`/
`recDrain` over an `RWorld`).  Ops: `iter{rev}`, `next{k}` (answer: `out` = events and yield of
this call, `r`), `edit{g, e:<flat op>}` (answer: `r`, `L` = all sequences), `drain{k}` (answer: `out`,
`r`), `spec{rev,g}` (answer: `spec` = `specTop`, `out`/`r` = `recDrain` of a fresh iterator). -/

def outJ : Out → Json
  | .yield g v => Json.arr #[Json.str "y", toJson g, toJson v]
  | .enter g => Json.arr #[Json.str "en", toJson g]
  | .exit g => Json.arr #[Json.str "ex", toJson g]
  | .pred v => Json.arr #[Json.str "p", toJson v]

def outsJ (os : List Out) : Json := Json.arr (os.map outJ).toArray

def parseOp (j : Json) : Except String Op := do
  let o ← getStr j "o"
  match o with
  | "append" => return .append (← getNat j "v")
  | "extend" => return .extend (← getNats j "vs")
  | "sort" => return .extend (← getNats j "vs")
  | "ia" => return .insertAfter (← getNat j "a") (← getNats j "vs")
  | "ib" => return .insertBefore (← getNat j "a") (← getNats j "vs")
  | "rm" => return .remove (← getNat j "v")
  | _ => throw s!"unknown edit {o}"

def parseAttr (j : Json) : Except String Attr :=
  match j.getObjValAs? Nat "g" with
  | .ok h => return .graph h
  | .error _ => do return .graphs (← getNats j "gs")

structure RecSt where
  w : RWorld
  its : Array (Dir × List RFrame)
  /-- plain `iter(graph)` / `reversed(graph)` generators on individual graphs -/
  flat : Array (Nat × Dir × Cursor) := #[]

def recOp (fuel : Nat) (st : RecSt) (j : Json) : Except String (RecSt × Json) := do
  let o ← getStr j "o"
  match o with
  | "iter" =>
    let rev ← getBool j "rev"
    let d := if rev then Dir.rev else Dir.fwd
    let g := (j.getObjValAs? Nat "g").toOption.getD 0
    return ({ st with its := st.its.push (d, recStart g) }, obj [("r", toJson st.its.size)])
  | "fiter" =>
    let rev ← getBool j "rev"
    let g ← getNat j "g"
    let d := if rev then Dir.rev else Dir.fwd
    return ({ st with flat := st.flat.push (g, d, .notStarted) }, obj [("r", toJson st.flat.size)])
  | "fnext" =>
    let k ← getNat j "k"
    match st.flat[k]? with
    | some (g, d, c) =>
      let r := iterNext (st.w.setOf g) d c
      return ({ st with flat := st.flat.setIfInBounds k (g, d, r.1) }, obj [("r", resJ r.2)])
    | none => throw "bad flat iterator"
  | "next" =>
    let k ← getNat j "k"
    match st.its[k]? with
    | some (d, stack) =>
      let r := recNext st.w d fuel stack
      return ({ st with its := st.its.setIfInBounds k (d, r.1) },
        obj [("out", outsJ r.2.1), ("r", resJ r.2.2)])
    | none => throw "bad iterator"
  | "drain" =>
    let k ← getNat j "k"
    match st.its[k]? with
    | some (d, stack) =>
      let r := recDrain st.w d fuel stack
      return ({ st with its := st.its.setIfInBounds k (d, []) },
        obj [("out", outsJ r.1), ("r", resJ r.2)])
    | none => throw "bad iterator"
  | "edit" =>
    let g ← getNat j "g"
    let e ← j.getObjVal? "e"
    let op ← parseOp e
    let r := st.w.applyAt g op
    return ({ st with w := r.1 },
      obj [("r", Json.bool r.2), ("L", Json.arr (r.1.sets.map (fun s => natsJ (toList s))).toArray),
           ("inv", Json.bool (r.1.sets.all invOk))])
  | "spec" =>
    let rev ← getBool j "rev"
    let g ← getNat j "g"
    let d := if rev then Dir.rev else Dir.fwd
    -- the step bound of C11_rec_preorder, not the generous default
    let sp := specTop st.w d (st.w.sets.length + 1) g
    let r := recDrain st.w d (2 * sp.length + 2) (recStart g)
    return (st, obj [("spec", outsJ sp),
      ("out", outsJ r.1), ("r", resJ r.2)])
  | _ => throw s!"unknown op {o}"

def runRec (j : Json) : Except String Json := do
  let setsJ ← getArr j "sets"
  let mut sets : List LSet := []
  for sj in setsJ do
    let vs : Array Nat ← fromJson? sj
    sets := sets ++ [(extend empty vs.toList).1]
  let attrsJ ← getArr j "attrs"
  let mut attrs : List (Nat × List Attr) := []
  for aj in attrsJ do
    let pair : Array Json ← fromJson? aj
    match pair[0]?, pair[1]? with
    | some vj, some lj =>
      let v : Nat ← fromJson? vj
      let items : Array Json ← fromJson? lj
      let as ← items.toList.mapM parseAttr
      attrs := attrs ++ [(v, as)]
    | _, _ => throw "bad attrs entry"
  let recf : Option (List Nat) := (getNats j "recf").toOption
  let fuel := (j.getObjValAs? Nat "fuel").toOption.getD 100000
  let ops ← getArr j "ops"
  let mut st : RecSt := { w := ⟨sets, attrs, recf⟩, its := #[] }
  let mut out : Array Json := #[]
  for o in ops do
    let (st', r) ← recOp fuel st o
    st := st'
    out := out.push r
  -- the decidable hypotheses of the C11_rec_*_acyclic theorems, evaluated on the final world
  -- (`homediv`: node v has home graph v / homediv)
  let shape := match (j.getObjValAs? Nat "homediv").toOption with
    | some hd =>
      let home : Nat → Nat := fun v => v / hd
      obj [("acyclic_f", Json.bool (st.w.acyclic .fwd)), ("acyclic_r", Json.bool (st.w.acyclic .rev)),
           ("static_f", Json.bool (st.w.acyclicStatic .fwd home)), ("static_r", Json.bool (st.w.acyclicStatic .rev home)),
           ("homed", Json.bool (st.w.homedOk home)), ("unshared", Json.bool (st.w.unshared 0)),
           ("tree", Json.bool (st.w.treeShape home 0))]
    | none => Json.null
  return obj [("steps", Json.arr out), ("shape", shape)]

/-! `lset.trav`: the recursive iterator with lazily read, editable attributes (`Model/Traversal.lean`).
`{"sets":[[v..]..], "attrs":[[v,[[k,<aval>]..]]..], "recf":null|[v..], "ops":[..]}`; `<aval>` =
`{"g":h}` | `{"gs":[h..]}` | `{"x":0}`; the initial dicts are built by inserting the keys in order.
Ops: `iter{rev,g}`, `next{k}` (`out`, `r`), `edit{g,e}` (`r`, `L`), `seta{v,k,a}`, `dela{v,k}` (`r`),
`drain{k}` (`out`, `r`, and `spec` = `tStackSpec` evaluated before draining, `sync` = every frame's
dict iterator is in step).  Every answer carries `acyc` (no graph nested in itself, both
directions), `ok` (cursor validity of every frame of every iterator) and `inv`.
`next` / `drain` also carry `ref`: the statement of C11_trav_refines_rec_next / _drain evaluated (null
when a dict iterator is out of step).  `meth{v,m,k,a,kvs,dflt}` calls a public method of
`node.attributes` (`AMeth`): `r`, `keys` (the keys of the dict afterwards, in order), `eff` (the
statement of C11_trav_meth_reduces: documented effect).  `spec{rev,g}`: a fresh iterator drained
(`out`, `r`), `tree` = `treeShape`, `nodup` / `nest` = conclusion of C11_trav_nodup, `same` = the
coarse model's drain and `specTop` agree.  `untouched{k,X}`: hypotheses (`adm`, `tree0`) and
conclusions (`concl`, `nodupX`) of C11_trav_untouched_once / C11_trav_never_twice for iterator `k`
over all events since its creation, and `Y` = the nodes it yielded according to `tRunY`. -/

def parseAVal (j : Json) : Except String AVal :=
  match j.getObjValAs? Nat "g" with
  | .ok h => return .graph h
  | .error _ =>
    match getNats j "gs" with
    | .ok hs => return .graphs hs
    | .error _ => return .other

structure TravSt where
  w : TWorld
  its : Array (Dir × List TFrame)
  /-- per iterator: the world and the root when it was created, and every event since (`next` of
      this iterator, edits of node sequences, primitive attribute writes) -/
  hist : Array (TWorld × Nat × Array TEv) := #[]

def TravSt.record (st : TravSt) (evs : List TEv) : TravSt :=
  { st with hist := st.hist.map fun (w0, g, es) => (w0, g, es ++ evs.toArray) }

def avalJ : AVal → Json
  | .graph h => obj [("g", toJson h)]
  | .graphs hs => obj [("gs", natsJ hs)]
  | .other => obj [("x", toJson (0 : Nat))]

/-- the dict of node `v` as an insertion-ordered mapping: `[[key, value], ..]` -/
def keysJ (w : TWorld) (v : Nat) : Json :=
  Json.arr ((w.dictOf v).live.map fun e => Json.arr #[toJson e.1, avalJ e.2]).toArray

def parseAValOpt (j : Json) : Option AVal :=
  if j.isNull then none else
  match j.getObjValAs? Nat "g" with
  | .ok h => some (.graph h)
  | .error _ =>
    match getNats j "gs" with
    | .ok hs => some (.graphs hs)
    | .error _ => some .other

def parseMeth (j : Json) : Except String AMeth := do
  let m ← getStr j "m"
  let k := (j.getObjValAs? Nat "k").toOption.getD 0
  let a : Option AVal := match j.getObjVal? "a" with
    | .ok aj => parseAValOpt aj
    | .error _ => none
  match m with
  | "setitem" => return .setitem k a
  | "add" =>
    match a with
    | some x => return .add k x
    | none => throw "add needs an Attr"
  | "update" =>
    let items ← getArr j "kvs"
    let mut kvs : List (Nat × Option AVal) := []
    for it in items do
      let kv : Array Json ← fromJson? it
      match kv[0]?, kv[1]? with
      | some kj, some aj =>
        let kk : Nat ← fromJson? kj
        kvs := kvs ++ [(kk, parseAValOpt aj)]
      | _, _ => throw "bad kvs item"
    return .update kvs
  | "delitem" => return .delitem k
  | "pop" => return .pop k ((j.getObjValAs? Bool "dflt").toOption.getD false)
  | "popitem" => return .popitem
  | "clear" => return .clear
  | "setdefault" => return .setdefault k a
  | _ => throw s!"unknown method {m}"

/-- the graphs reachable from `g` through the current nesting (bounded exploration) -/
def reachG (w : TWorld) (d : Dir) (g : Nat) : List Nat :=
  (List.range (w.sets.length + 1)).foldl (fun acc _ =>
    (acc.flatMap (w.kids d)).foldl (fun a h => if a.contains h then a else a ++ [h]) acc) [g]

def sortNats (l : List Nat) : List Nat := (l.toArray.qsort (· < ·)).toList

def travFlags (st : TravSt) : List (String × Json) :=
  [("acyc", Json.bool (st.w.acyclic .fwd && st.w.acyclic .rev)),
   ("ok", Json.bool (st.its.all fun (_, fs) => fs.all (fun fr => fr.validB st.w))),
   ("inv", Json.bool (st.w.sets.all invOk))]

/-- the hypotheses of C11_trav_finished_not_visited evaluated for every iterator at an edit of the
    attributes of node `v` (`fin`: `v` is finished for that iterator), and its conclusion (`finok`) -/
def finishedJ (st : TravSt) (w' : TWorld) (v : Nat) : List (String × Json) :=
  let k := st.w.sets.length + 1
  let rs := st.its.map fun (d, stack) =>
    let sp := tStackSpec (tVisit st.w d k) st.w d stack
    let fin := stack.all (fun fr => !(fr.ownNodes st.w d).contains v) &&
      sp.all (fun o => match o with
        | .yield _ x => x != v
        | _ => true)
    (fin, !fin || tStackSpec (tVisit w' d k) w' d stack == sp)
  [("fin", Json.arr (rs.map fun r => Json.bool r.1)), ("finok", Json.bool (rs.all fun r => r.2))]

def travOp (fuel : Nat) (st : TravSt) (j : Json) : Except String (TravSt × List (String × Json)) := do
  let o ← getStr j "o"
  match o with
  | "iter" =>
    let rev ← getBool j "rev"
    let d := if rev then Dir.rev else Dir.fwd
    let g := (j.getObjValAs? Nat "g").toOption.getD 0
    return ({ st with its := st.its.push (d, tStart g), hist := st.hist.push (st.w, g, #[]) },
      [("r", toJson st.its.size)])
  | "next" =>
    let k ← getNat j "k"
    match st.its[k]? with
    | some (d, stack) =>
      let r := tNext st.w d fuel stack
      -- C11_trav_refines_rec_next, evaluated
      let ref : Json := if stack.all (fun fr => fr.synced st.w) && r.2.2 != .fuel then
          Json.bool (decide (recNext st.w.toR d fuel (stack.map (TFrame.toR st.w d)) =
            (r.1.map (TFrame.toR st.w d), r.2.1, r.2.2)))
        else Json.null
      let hist := st.hist.modify k fun (w0, g, es) => (w0, g, es.push .next)
      return ({ st with its := st.its.setIfInBounds k (d, r.1), hist := hist },
        [("out", outsJ r.2.1), ("r", resJ r.2.2), ("ref", ref)])
    | none => throw "bad iterator"
  | "drain" =>
    let k ← getNat j "k"
    match st.its[k]? with
    | some (d, stack) =>
      let r := tDrain st.w d fuel stack
      let sp := tStackSpec (tVisit st.w d (st.w.sets.length + 1)) st.w d stack
      let ref : Json := if stack.all (fun fr => fr.synced st.w) && r.2 != .fuel then
          Json.bool (decide (recDrain st.w.toR d fuel (stack.map (TFrame.toR st.w d)) = r))
        else Json.null
      -- as a history: one `next()` per yielded node and the final one
      let nexts : Array TEv := (List.replicate ((yieldsOf r.1).length + 1) TEv.next).toArray
      let hist := st.hist.modify k fun (w0, g, es) => (w0, g, es ++ nexts)
      return ({ st with its := st.its.setIfInBounds k (d, []), hist := hist },
        [("out", outsJ r.1), ("r", resJ r.2), ("spec", outsJ sp), ("ref", ref),
         ("sync", Json.bool (stack.all fun fr => fr.synced st.w))])
    | none => throw "bad iterator"
  | "spec" =>
    let rev ← getBool j "rev"
    let g := (j.getObjValAs? Nat "g").toOption.getD 0
    let d := if rev then Dir.rev else Dir.fwd
    let r := tDrain st.w d fuel (tStart g)
    let ys := yieldsOf r.1
    let nest := sortNats ((reachG st.w d g).flatMap fun h => toList (st.w.setOf h))
    let k := st.w.sets.length + 1
    let rr := recDrain st.w.toR d fuel (recStart g)
    return (st, [("out", outsJ r.1), ("r", resJ r.2), ("tree", Json.bool (st.w.treeShape d g)),
      ("nodup", Json.bool (decide ys.Nodup)), ("nest", natsJ nest),
      ("isnest", Json.bool (sortNats ys == nest)),
      ("same", Json.bool (decide (rr = r) && decide (specTop st.w.toR d k g =
          Out.enter g :: tLoop (tVisit st.w d k) st.w d g (rest (st.w.setOf g) d .notStarted)) &&
        (st.w.toR.acyclic d == st.w.acyclic d)))])
  | "untouched" =>
    let k ← getNat j "k"
    let X ← getNats j "X"
    match st.its[k]?, st.hist[k]? with
    | some (d, _), some (w0, g, es) =>
      let evs := es.toList
      let adm := tAdm X d fuel w0 (tStart g) evs
      let r := tRunY d fuel w0 (tStart g) evs
      let concl := untouched X (r.2.2 ++ r.1.fut d r.2.1) == untouched X (w0.fut d (tStart g))
      return (st, [("adm", Json.bool adm), ("tree0", Json.bool (w0.treeShape d g)),
        ("concl", Json.bool (!adm || concl)),
        ("nodupX", Json.bool (decide (untouched X r.2.2).Nodup)), ("Y", natsJ r.2.2),
        ("closed0", Json.bool (w0.closedB d X))])
    | _, _ => throw "bad iterator"
  | "meth" =>
    let v ← getNat j "v"
    let m ← parseMeth j
    let before := (st.w.dictOf v).live
    let r := st.w.applyMeth v m
    let evs := (m.prims (st.w.dictOf v)).1.map (APrim.toEv v)
    let after := (r.1.dictOf v).live
    let eff := decide ((after, r.2) = m.effect before)
    return ({ (st.record evs) with w := r.1 },
      [("r", Json.bool r.2), ("keys", keysJ r.1 v), ("eff", Json.bool eff), ("nprims", toJson evs.length)] ++
        finishedJ st r.1 v)
  | "edit" =>
    let g ← getNat j "g"
    let e ← j.getObjVal? "e"
    let op ← parseOp e
    let r := st.w.applyAt g op
    return ({ (st.record [.edit g op]) with w := r.1 },
      [("r", Json.bool r.2), ("L", Json.arr (r.1.sets.map (fun s => natsJ (toList s))).toArray)])
  | "seta" =>
    let v ← getNat j "v"
    let k ← getNat j "k"
    let a ← parseAVal (← j.getObjVal? "a")
    let w' := st.w.setAttr v k a
    return ({ (st.record [.setAttr v k a]) with w := w' },
      [("r", Json.bool true), ("keys", keysJ w' v)] ++ finishedJ st w' v)
  | "dela" =>
    let v ← getNat j "v"
    let k ← getNat j "k"
    let r := st.w.delAttr v k
    return ({ (st.record [.delAttr v k]) with w := r.1 },
      [("r", Json.bool r.2), ("keys", keysJ r.1 v)] ++ finishedJ st r.1 v)
  | _ => throw s!"unknown op {o}"

def runTrav (j : Json) : Except String Json := do
  let setsJ ← getArr j "sets"
  let mut sets : List LSet := []
  for sj in setsJ do
    let vs : Array Nat ← fromJson? sj
    sets := sets ++ [(extend empty vs.toList).1]
  let mut w : TWorld := ⟨sets, [], (getNats j "recf").toOption⟩
  for aj in (← getArr j "attrs") do
    let pair : Array Json ← fromJson? aj
    match pair[0]?, pair[1]? with
    | some vj, some lj =>
      let v : Nat ← fromJson? vj
      let items : Array Json ← fromJson? lj
      for it in items do
        let kv : Array Json ← fromJson? it
        match kv[0]?, kv[1]? with
        | some kj, some aj' =>
          let k : Nat ← fromJson? kj
          w := w.setAttr v k (← parseAVal aj')
        | _, _ => throw "bad attr item"
    | _, _ => throw "bad attrs entry"
  let fuel := (j.getObjValAs? Nat "fuel").toOption.getD 100000
  let mut st : TravSt := { w := w, its := #[] }
  let mut out : Array Json := #[]
  for o in (← getArr j "ops") do
    let (st', r) ← travOp fuel st o
    st := st'
    out := out.push (obj (r ++ travFlags st))
  return obj [("steps", Json.arr out)]

def handle : Handler := fun m j =>
  match m with
  | "lset.run" => some (run j)
  | "lset.rec" => some (runRec j)
  | "lset.trav" => some (runTrav j)
  | _ => none

end IrVerif.Drive.LinkedSet

import IrVerif.Drive.Util
import IrVerif.Model.Path
open Lean IrVerif.Drive
namespace IrVerif.Drive.Path
open IrVerif.Path

def gs (j : Json) (k : String) : Except String Str := do return (← getStr j k).toList
def sJ (s : Str) : Json := Json.str (String.ofList s)

def handle : Handler := fun m j =>
  match m with
  | "path.normpath" => some do return obj [("r", sJ (normpath (← gs j "p")))]
  | "path.join" => some do return obj [("r", sJ (pjoin (← gs j "a") (← gs j "b")))]
  | "path.abspath" => some do return obj [("r", sJ (abspath (← gs j "cwd") (← gs j "p")))]
  | "path.dirname" => some do return obj [("r", sJ (dirname (← gs j "p")))]
  | "path.split" => some do
      let r := psplit (← gs j "p")
      return obj [("r", Json.arr #[sJ r.1, sJ r.2])]
  | "path.check1" => some do
      return obj [("r", toJson (check1 (← gs j "cwd") (← gs j "base") (← gs j "loc")))]
  | "path.loadbase" => some do return obj [("r", sJ (loadBase (← gs j "p")))]
  | "path.loadbase_unfixed" => some do return obj [("r", sJ (loadBaseUnfixed (← gs j "p")))]
  | _ => none

end IrVerif.Drive.Path

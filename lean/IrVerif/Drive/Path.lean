import IrVerif.Drive.Util
import IrVerif.Model.Path
import Std.Data.HashMap
open Lean IrVerif.Drive
namespace IrVerif.Drive.Path
open IrVerif.Path

def gs (j : Json) (k : String) : Except String Str := do return (← getStr j k).toList
def sJ (s : Str) : Json := Json.str (String.ofList s)

def lookupNode (es : List (Loc × Node)) (l : Loc) : Option Node :=
  match es with
  | [] => none
  | (k, v) :: t => if k = l then some v else lookupNode t l

def lookupDn (es : List (Loc × Nat)) (l : Loc) : Nat :=
  match es with
  | [] => 2
  | (k, v) :: t => if k = l then v else lookupDn t l

def lookupIno (is : List (Nat × Nat × List Nat)) (i : Nat) : Nat × List Nat :=
  match is with
  | [] => (0, [])
  | (k, v) :: t => if k = i then v else lookupIno t i

/-- `{"entries": [[path, "d"|"f"|"l", arg], ...], "inodes": [[id, nlink, data], ...]}` -/
def parseFS (j : Json) : Except String FS := do
  let es ← getArr j "entries"
  -- hash tables instead of association lists (trees with names of PATH_MAX bytes and more); a later entry of the
  -- same location replaces an earlier one, as with the lists
  let mut entries : Std.HashMap Loc Node := {}
  let mut dns : Std.HashMap Loc Nat := {}
  for e in es do
    let a ← e.getArr?
    if a.size != 3 then throw "entry: expected 3 fields"
    let p ← a[0]!.getStr?
    let k ← a[1]!.getStr?
    let n ← match k with
      | "d" => pure Node.dir
      | "f" => do pure (Node.file (← a[2]!.getNat?))
      | "l" => do pure (Node.link (← a[2]!.getStr?).toList)
      | "o" => do pure (Node.other (← a[2]!.getNat?))
      | _ => throw "entry kind"
    entries := entries.insert (comps p.toList) n
    if k == "d" then dns := dns.insert (comps p.toList) ((a[2]!.getNat?).toOption.getD 2)
  let is ← getArr j "inodes"
  let mut inodes : List (Nat × Nat × List Nat) := []
  for i in is do
    let a ← i.getArr?
    if a.size != 3 then throw "inode: expected 3 fields"
    inodes := (← a[0]!.getNat?, ← a[1]!.getNat?, (← a[2]!.getStr?).toList.map Char.toNat) :: inodes
  return { node := fun l => entries[l]?, dnlink := fun l => (dns[l]?).getD 2, nlink := fun i => (lookupIno inodes i).1,
           data := fun i => (lookupIno inodes i).2 }

/-- `{"i": [names], "n": [{"t": [names], "g": [trees]}]}` -/
partial def parseGTree (j : Json) : Except String GTree := do
  let i ← getStrs j "i"
  let ns ← getArr j "n"
  let mut nodes : List NTree := []
  for n in ns do
    let t ← getStrs n "t"
    let gs ← getArr n "g"
    let mut graphs : List GTree := []
    for g in gs do
      graphs := (← parseGTree g) :: graphs
    nodes := NTree.mk t graphs.reverse :: nodes
  return GTree.mk i nodes.reverse

def sortedUnique (xs : List String) : List String :=
  (xs.toArray.qsort (· < ·)).toList.eraseDups

def verdictJ : Verdict → Json
  | Verdict.skipped => "skipped" | Verdict.rej1 => "c1" | Verdict.rej2 => "c2"
  | Verdict.rej3 => "c3" | Verdict.pass => "pass"

def parseEP : String → Except String EntryPoint
  | "numpy" => pure EntryPoint.numpy | "tobytes" => pure EntryPoint.tobytes
  | "array" => pure EntryPoint.array | "serialize_raw" => pure EntryPoint.serializeRaw
  | "tofile_bytesio" => pure EntryPoint.tofile | "tofile_file" => pure EntryPoint.tofile
  | e => throw s!"entry point {e}"

def bytesJ (bs : List Nat) : Json := Json.str (String.ofList (bs.map Char.ofNat))

def parseKind : String → Except String BaseKind
  | "str" => pure BaseKind.str | "pathlike" => pure BaseKind.pathlike | "bytes" => pure BaseKind.bytes
  | k => throw s!"base kind {k}"

/-- canonical observation of one call: result, verdict of the check (if it ran), inode opened -/
def callJ (res : ReadResult) (events : List Ev) : Json :=
  let v := match events with
    | Ev.check v :: _ => verdictJ v
    | _ => Json.null
  let opened : Json := match events with
    | [_, Ev.openEv _ (some i)] => toJson i
    | [_, Ev.openEv _ none] => Json.str "fail"
    | _ => Json.null
  match res with
  | ReadResult.raised => obj [("r", "raised"), ("v", v), ("opened", opened), ("nev", toJson events.length)]
  | ReadResult.ok bs => obj [("r", "ok"), ("v", v), ("opened", opened), ("bytes", bytesJ bs), ("nev", toJson events.length)]

def handle : Handler := fun m j =>
  match m with
  | "path.normpath" => some do return obj [("r", sJ (normpath (← gs j "p")))]
  | "path.join" => some do return obj [("r", sJ (pjoin (← gs j "a") (← gs j "b")))]
  | "path.abspath" => some do return obj [("r", sJ (abspath (← gs j "cwd") (← gs j "p")))]
  | "path.dirname" => some do return obj [("r", sJ (dirname (← gs j "p")))]
  | "path.split" => some do
      let r := psplit (← gs j "p")
      return obj [("r", Json.arr #[sJ r.1, sJ r.2])]
  | "path.check1" => some do
      return obj [("r", toJson (check1 (← gs j "cwd") (← gs j "base") (← gs j "loc")))]
  | "path.loadbase" => some do
      return obj [("r", sJ (loadBase (← gs j "cwd") (← gs j "p"))),
                  ("abs", sJ (loadBaseAbs (← gs j "cwd") (← gs j "p")))]
  | "path.loadbase_unfixed" => some do return obj [("r", sJ (loadBaseUnfixed (← gs j "p")))]
  | "path.reads" => some do
      -- one tree, one cwd, many (base, loc, offset, length, entry point) queries
      let fs ← parseFS (← j.getObjVal? "fs")
      let cwdS ← gs j "cwd"
      let kfuel ← getNat j "kfuel"
      let fuel ← getNat j "fuel"
      let qs ← getArr j "queries"
      let mut out : Array Json := #[]
      for q in qs do
        let a ← q.getArr?
        if a.size != 5 then throw "query: expected 5 fields"
        let base := (← a[0]!.getStr?).toList
        let loc := (← a[1]!.getStr?).toList
        let ep ← parseEP (← a[4]!.getStr?)
        let r := read fs kfuel fuel cwdS (comps cwdS) base loc (← a[2]!.getNat?) (← a[3]!.getNat?) ep
        out := out.push (callJ r.1 r.2)
      return obj [("r", Json.arr out)]
  | "path.readsT" => some do
      -- like path.reads with a base_dir kind and a zero-size flag: queries [kind, base, loc, offset, length, zero, ep]
      let fs ← parseFS (← j.getObjVal? "fs")
      let cwdS ← gs j "cwd"
      let kfuel ← getNat j "kfuel"
      let fuel ← getNat j "fuel"
      let qs ← getArr j "queries"
      let mut out : Array Json := #[]
      for q in qs do
        let a ← q.getArr?
        if a.size != 7 then throw "query: expected 7 fields"
        let b : BaseVal := { kind := ← parseKind (← a[0]!.getStr?), s := (← a[1]!.getStr?).toList }
        let p : TensorP := { loc := (← a[2]!.getStr?).toList, offset := ← a[3]!.getNat?, length := ← a[4]!.getNat?,
                             zero := ← a[5]!.getBool? }
        let ep ← parseEP (← a[6]!.getStr?)
        let r := callT fs kfuel fuel cwdS (comps cwdS) p b ep TState.fresh
        out := out.push (callJ r.1 r.2.1)
      return obj [("r", Json.arr out)]
  | "path.readsP" => some do
      -- PATH_MAX at every lstat / stat / open: queries [base, loc, offset, length] (a fresh tofile read)
      let fs ← parseFS (← j.getObjVal? "fs")
      let cwdS ← gs j "cwd"
      let kfuel ← getNat j "kfuel"
      let fuel ← getNat j "fuel"
      let mut out : Array Json := #[]
      for q in (← getArr j "queries") do
        let a ← q.getArr?
        if a.size != 4 then throw "query: expected 4 fields"
        let base := (← a[0]!.getStr?).toList
        let loc := (← a[1]!.getStr?).toList
        let r := readP fs kfuel fuel cwdS (comps cwdS) base loc (← a[2]!.getNat?) (← a[3]!.getNat?)
        -- hypothesis of C10_pathmax_safe: both answers of realpath are link-free
        let lf := linkFreeAnswer fs (realpathP fs kfuel fuel cwdS (comps cwdS) (tensorPath base loc)) &&
          linkFreeAnswer fs (realpathP fs kfuel fuel cwdS (comps cwdS) base)
        -- the general model over restricted system calls, instantiated with PATH_MAX only, is this model
        let rv := readV (sysP fs kfuel (comps cwdS)) fs.data fuel cwdS base loc (← a[2]!.getNat?) (← a[3]!.getNat?)
        out := out.push (((callJ r.1 r.2).setObjVal! "lf" (toJson lf)).setObjVal! "veq" (toJson (decide (rv = r))))
      return obj [("r", Json.arr out)]
  | "path.readsA" => some do
      -- an unprivileged process: PATH_MAX and search permissions; "nosearch": directories the uid may not search;
      -- queries [base, loc, offset, length] (a fresh tofile read); "stats": strings to lstat / stat
      let fs ← parseFS (← j.getObjVal? "fs")
      let cwdS ← gs j "cwd"
      let kfuel ← getNat j "kfuel"
      let fuel ← getNat j "fuel"
      let mut ns : Std.HashMap Loc Unit := {}
      for p in (← getStrs j "nosearch") do
        ns := ns.insert (comps p.toList) ()
      let search : Loc → Bool := fun l => !(ns.contains l)
      let sys := sysA fs search kfuel (comps cwdS)
      let mut out : Array Json := #[]
      for q in (← getArr j "queries") do
        let a ← q.getArr?
        if a.size != 4 then throw "query: expected 4 fields"
        let base := (← a[0]!.getStr?).toList
        let loc := (← a[1]!.getStr?).toList
        let r := readV sys fs.data fuel cwdS base loc (← a[2]!.getNat?) (← a[3]!.getNat?)
        out := out.push ((callJ r.1 r.2).setObjVal! "rp" (sJ (realpathV sys fuel cwdS (tensorPath base loc))))
      let showN := fun (n : Option Node) =>
        match n with
        | some Node.dir => Json.str "d"
        | some (Node.file i) => Json.str s!"f{i}"
        | some (Node.link t) => Json.str ("l" ++ String.ofList t)
        | some (Node.other i) => Json.str s!"o{i}"
        | none => Json.str "none"
      let showS := fun (x : Option StatId) =>
        match x with
        | some (StatId.dir _) => Json.str "d"
        | some (StatId.ino i) => Json.str s!"f{i}"
        | some (StatId.oth i) => Json.str s!"o{i}"
        | none => Json.str "none"
      let ps ← getStrs j "stats"
      return obj [("r", Json.arr out), ("lstat", Json.arr (ps.map fun p => showN (sys.lstat p.toList)).toArray),
                  ("stat", Json.arr (ps.map fun p => showS (sys.statId p.toList)).toArray),
                  ("realpath", Json.arr (ps.map fun p => sJ (realpathV sys fuel cwdS p.toList)).toArray),
                  ("nolink", Json.arr (ps.map fun p => toJson (noLinkOn sys.lstat p.toList)).toArray)]
  | "path.readsTB" => some do
      -- a bytes LOCATION: queries [kind, base, loc, offset, length, zero, ep]
      let fs ← parseFS (← j.getObjVal? "fs")
      let cwdS ← gs j "cwd"
      let kfuel ← getNat j "kfuel"
      let fuel ← getNat j "fuel"
      let mut out : Array Json := #[]
      for q in (← getArr j "queries") do
        let a ← q.getArr?
        if a.size != 7 then throw "query: expected 7 fields"
        let b : BaseVal := { kind := ← parseKind (← a[0]!.getStr?), s := (← a[1]!.getStr?).toList }
        let p : TensorP := { loc := (← a[2]!.getStr?).toList, offset := ← a[3]!.getNat?, length := ← a[4]!.getNat?,
                             zero := ← a[5]!.getBool? }
        let ep ← parseEP (← a[6]!.getStr?)
        let r := callTB fs kfuel fuel cwdS (comps cwdS) p b ep TState.fresh
        out := out.push (callJ r.1 r.2.1)
      return obj [("r", Json.arr out)]
  | "path.world" => some do
      -- several tensors [[loc, offset, length, zero], ...] and a history of public operations:
      --   {"op":"fs","fs":{..}} | {"op":"base","t":n,"kind":..,"base":..} | {"op":"basedir","ts":[..],"kind":..,"base":..}
      --   | {"op":"release","t":n} | {"op":"call","t":n,"ep":..} | {"op":"load","ts":[..]}
      let cwdS ← gs j "cwd"
      let kfuel ← getNat j "kfuel"
      let fuel ← getNat j "fuel"
      let mut psL : List TensorP := []
      for t in (← getArr j "tensors") do
        let a ← t.getArr?
        if a.size != 4 then throw "tensor: expected 4 fields"
        psL := { loc := (← a[0]!.getStr?).toList, offset := ← a[1]!.getNat?, length := ← a[2]!.getNat?,
                 zero := ← a[3]!.getBool? } :: psL
      let psA := psL.reverse
      let ps : Nat → TensorP := fun k => psA.getD k { loc := [], offset := 0, length := 0, zero := false }
      let natList (x : Json) (k : String) : Except String (List Nat) := do
        let arr ← getArr x k
        let mut r : List Nat := []
        for v in arr do
          r := (← v.getNat?) :: r
        return r.reverse
      let mut opsL : List COp := []
      for s in (← getArr j "ops") do
        let op ← s.getObjValAs? String "op"
        match op with
        | "fs" => opsL := COp.op (WOp.setFS (← parseFS (← s.getObjVal? "fs"))) :: opsL
        | "base" =>
          opsL := COp.op (WOp.setBase (← getNat s "t")
            { kind := ← parseKind (← s.getObjValAs? String "kind"), s := (← s.getObjValAs? String "base").toList }) :: opsL
        | "basedir" =>
          opsL := COp.op (WOp.setBaseDir (← natList s "ts")
            { kind := ← parseKind (← s.getObjValAs? String "kind"), s := (← s.getObjValAs? String "base").toList }) :: opsL
        | "release" => opsL := COp.op (WOp.release (← getNat s "t")) :: opsL
        | "call" => opsL := COp.op (WOp.call (← getNat s "t") (← parseEP (← s.getObjValAs? String "ep"))) :: opsL
        | "load" => opsL := COp.op (WOp.loadToModel (← natList s "ts")) :: opsL
        | "chdir" => opsL := COp.chdir (← s.getObjValAs? String "cwd").toList :: opsL
        | _ => throw s!"world op {op}"
      let w0 : World := { fs := { node := fun _ => none, dnlink := fun _ => 2, nlink := fun _ => 0, data := fun _ => [] },
                          ts := fun _ => { base := { kind := BaseKind.str, s := [] }, st := TState.fresh }, aborted := false }
      -- without a chdir this is runWorld (the history C10_world_safe is about); with one, runWorldC
      let hasChdir := opsL.any (fun o => match o with | COp.chdir _ => true | _ => false)
      let log : List WLog :=
        if hasChdir then (runWorldC kfuel fuel ps cwdS w0 opsL.reverse).map Prod.snd
        else runWorld kfuel fuel cwdS (comps cwdS) ps w0
          (opsL.reverse.filterMap (fun o => match o with | COp.op x => some x | _ => none))
      let mut out : Array Json := #[]
      for e in log do
        out := out.push ((callJ e.res e.events).setObjVal! "t" (toJson e.t))
      return obj [("r", Json.arr out)]
  | "path.realpaths" => some do
      let fs ← parseFS (← j.getObjVal? "fs")
      let cwdS ← gs j "cwd"
      let kfuel ← getNat j "kfuel"
      let fuel ← getNat j "fuel"
      let ps ← getStrs j "paths"
      return obj [("r", Json.arr (ps.map fun p =>
        sJ (realpath fs kfuel fuel cwdS (comps cwdS) p.toList)).toArray)]
  | "path.lstats" => some do
      -- kernel walk: "d" / "f<ino>" / "l<target>" / "none" for lstat, same for stat (follow)
      let fs ← parseFS (← j.getObjVal? "fs")
      let cwdS ← gs j "cwd"
      let kfuel ← getNat j "kfuel"
      let follow ← getBool j "follow"
      let ps ← getStrs j "paths"
      let show1 := fun (p : String) =>
        match kresolve fs kfuel (comps cwdS) p.toList follow with
        | none => Json.str "none"
        | some l => match fs.get l with
          | some Node.dir => Json.str "d"
          | some (Node.file i) => Json.str s!"f{i}"
          | some (Node.link t) => Json.str ("l" ++ String.ofList t)
          | some (Node.other i) => Json.str s!"o{i}"
          | none => Json.str "none"
      return obj [("r", Json.arr (ps.map show1).toArray)]
  | "path.nolinks" => some do
      -- the prefix walk of check 3 (D454) with PATH_MAX in os.lstat: true = every prefix examinable and no link
      let fs ← parseFS (← j.getObjVal? "fs")
      let cwdS ← gs j "cwd"
      let kfuel ← getNat j "kfuel"
      let ps ← getStrs j "paths"
      return obj [("r", Json.arr (ps.map fun p =>
        toJson (noLinkOn (lstatP fs kfuel (comps cwdS)) p.toList)).toArray)]
  | "path.walker" => some do
      let t ← j.getObjVal? "tree"
      let g ← parseGTree (← t.getObjVal? "main")
      let mut fsRev : List GTree := []
      for f in (← getArr t "funcs") do
        fsRev := (← parseGTree f) :: fsRev
      let fs := fsRev.reverse
      return obj [("walker", strsJ (sortedUnique (loadTensors g fs))), ("reach", strsJ (sortedUnique (reachModel g fs))),
                  ("shallow", strsJ (sortedUnique (allTensorsShallow g))), ("main_only", strsJ (sortedUnique (allTensors g)))]
  | "path.session" => some do
      -- one tensor (loc, offset, length), a sequence of steps:
      --   {"op":"fs","fs":{..}} | {"op":"base","base":".."} | {"op":"release"} | {"op":"call","ep":".."}
      let cwdS ← gs j "cwd"
      let kfuel ← getNat j "kfuel"
      let fuel ← getNat j "fuel"
      let loc ← gs j "loc"
      let off ← getNat j "offset"
      let len ← getNat j "length"
      let steps ← getArr j "steps"
      let mut stepsL : List Step := []
      for s in steps do
        let op ← s.getObjValAs? String "op"
        match op with
        | "fs" => stepsL := Step.setFS (← parseFS (← s.getObjVal? "fs")) :: stepsL
        | "base" => stepsL := Step.setBase (← s.getObjValAs? String "base").toList :: stepsL
        | "release" => stepsL := Step.release :: stepsL
        | "call" => stepsL := Step.call (← parseEP (← s.getObjValAs? String "ep")) :: stepsL
        | _ => throw s!"session op {op}"
      let s0 : Sess := { fs := { node := fun _ => none, dnlink := fun _ => 2, nlink := fun _ => 0,
                                 data := fun _ => [] }, base := [], st := TState.fresh }
      let log := (runSess kfuel fuel cwdS (comps cwdS) loc off len s0 stepsL.reverse).2
      let mut out : Array Json := #[]
      for e in log do
        out := out.push (callJ e.res e.events)
      return obj [("r", Json.arr out)]
  | _ => none

end IrVerif.Drive.Path

import IrVerif.Drive.Util
import IrVerif.Model.Serde
import IrVerif.Model.SerdeWide
/-! Protocol handler for the serde model (C02; also usable by C03/C17).
Requests `{"m": "serde.<kind>", "x": <proto as JSON>, ...}`; answers
`{"ok": bool, "r": <serialize (deserialize x)>, "err": kind, "wf": WFproto x, "norm": norm x}`.
The JSON rendering of the proto messages is the one produced by `harness/c02.py`. -/
open Lean IrVerif.Drive IrVerif.Proto IrVerif.Serde
namespace IrVerif.Drive.Serde

abbrev P := Except String

def arr (j : Json) : P (List Json) := do
  let a ← j.getArr?
  return a.toList

def field (j : Json) (k : String) : P Json := j.getObjVal? k
def fStr (j : Json) (k : String) : P String := j.getObjValAs? String k
def fInt (j : Json) (k : String) : P Int := j.getObjValAs? Int k
def fNat (j : Json) (k : String) : P Nat := j.getObjValAs? Nat k
def fList {α} (j : Json) (k : String) (f : Json → P α) : P (List α) := do
  let xs ← arr (← field j k)
  xs.mapM f
def jInt (j : Json) : P Int := fromJson? j
def jNat (j : Json) : P Nat := fromJson? j
def jStr (j : Json) : P String := fromJson? j
def fOpt {α} (j : Json) (k : String) (f : Json → P α) : P (Option α) := do
  let v ← field j k
  if v.isNull then return none else return some (← f v)

def lst {α} (f : α → Json) (xs : List α) : Json := Json.arr (xs.map f).toArray
def jI (i : Int) : Json := toJson i
def jN (n : Nat) : Json := toJson n
def jS (s : String) : Json := Json.str s
def jOpt {α} (f : α → Json) : Option α → Json
  | none => Json.null
  | some a => f a

/-! ### decoders -/

def dEntry (j : Json) : P Entry := do
  match ← arr j with
  | [k, v] => return ⟨← jStr k, ← jStr v⟩
  | _ => throw "entry"

def dOpset (j : Json) : P OpsetP := do
  match ← arr j with
  | [k, v] => return ⟨← jStr k, ← jInt v⟩
  | _ => throw "opset"

def dDimVal (j : Json) : P DimVal :=
  if j.isNull then return .unset else
  match j.getObjVal? "v" with
  | .ok v => return .value (← jInt v)
  | .error _ => do return .param (← fStr j "p")

def dDim (j : Json) : P DimP := do return ⟨← dDimVal (← field j "d"), ← fStr j "den"⟩

partial def dType (j : Json) : P TypeP := do
  let k ← fStr j "k"
  let den ← fStr j "den"
  match k with
  | "unset" => return .unset den
  | "tensor" => return .tensor (← fOpt j "elem" jInt) (← fOpt j "shape" fun s => do (← arr s).mapM dDim) den
  | "sparse" => return .sparse (← fOpt j "elem" jInt) (← fOpt j "shape" fun s => do (← arr s).mapM dDim) den
  | "seq" => return .sequence (← dType (← field j "elem")) den
  | "opt" => return .optional (← dType (← field j "elem")) den
  | "map" => return .map den
  | _ => throw s!"type kind {k}"

def dVI (j : Json) : P ValueInfoP := do
  return { name := ← fStr j "name", type := ← dType (← field j "type"), doc := ← fStr j "doc",
           metadata := ← fList j "meta" dEntry }

def dTensor (j : Json) : P TensorP := do
  return { name := ← fStr j "name", doc := ← fStr j "doc", dataType := ← fInt j "dt",
           dims := ← fList j "dims" jInt, dataLocation := ← fInt j "loc",
           rawData := ← fOpt j "raw" jStr, floatData := ← fList j "f32" jNat,
           int32Data := ← fList j "i32" jInt, stringData := ← fList j "str" jStr,
           int64Data := ← fList j "i64" jInt, doubleData := ← fList j "f64" jNat,
           uint64Data := ← fList j "u64" jNat, externalData := ← fList j "ext" dEntry,
           metadata := ← fList j "meta" dEntry }

def dBStr (j : Json) : P BStr :=
  match j.getObjVal? "u" with
  | .ok v => do return .utf8 (← jStr v)
  | .error _ => do return .raw (← fStr j "b")

def dAnnot (j : Json) : P AnnotP := do
  return ⟨← fStr j "tensor", ← fList j "params" dEntry⟩

def dSimple (j : Json) : P SimpleShardP := do
  return ⟨← dDimVal (← field j "d"), ← fInt j "n"⟩
def dShardedDim (j : Json) : P ShardedDimP := do
  return ⟨← fInt j "axis", ← fList j "simple" dSimple⟩
def dGroup (j : Json) : P IntListEntryP := do
  return ⟨← fInt j "key", ← fList j "value" jInt⟩
def dSpec (j : Json) : P ShardingSpecP := do
  return ⟨← fStr j "tensor", ← fList j "device" jInt, ← fList j "map" dGroup, ← fList j "dims" dShardedDim⟩
def dNodeDev (j : Json) : P NodeDevCfgP := do
  return ⟨← fStr j "id", ← fList j "specs" dSpec, ← fOpt j "stage" jInt⟩
def dDevCfg (j : Json) : P DevCfgP := do
  return ⟨← fStr j "name", ← fInt j "n", ← fList j "device" jStr⟩

mutual
partial def dAttr (j : Json) : P AttrP := do
  let k ← fStr j "k"
  let n ← fStr j "name"
  let d ← fStr j "doc"
  match k with
  | "ref" => return .ref n d (← fStr j "ref") (← fInt j "type")
  | "int" => return .int n d (← fInt j "i")
  | "float" => return .float n d (← fNat j "bits")
  | "string" => return .string n d (← dBStr (← field j "s"))
  | "ints" => return .ints n d (← fList j "xs" jInt)
  | "floats" => return .floats n d (← fList j "xs" jNat)
  | "strings" => return .strings n d (← fList j "xs" dBStr)
  | "tensor" => return .tensor n d (← dTensor (← field j "t"))
  | "tensors" => return .tensors n d (← fList j "ts" dTensor)
  | "graph" => return .graph n d (← dGraph (← field j "g"))
  | "graphs" => return .graphs n d (← fList j "gs" dGraph)
  | "tp" => return .typeProto n d (← dType (← field j "tp"))
  | "tps" => return .typeProtos n d (← fList j "tps" dType)
  | "undefined" => return .undefined n d
  | "sparse" => return .sparse n d (← j.getObjValAs? Bool "plural")
  | "unknown" => return .unknown n d (← fInt j "type")
  | _ => throw s!"attr kind {k}"

partial def dNode (j : Json) : P NodeP := do
  return .mk (← fList j "in" jStr) (← fList j "out" jStr) (← fStr j "name") (← fStr j "op")
    (← fStr j "domain") (← fStr j "overload") (← fStr j "doc") (← fList j "attrs" dAttr)
    (← fList j "meta" dEntry) (← fList j "dev" dNodeDev)

partial def dGraph (j : Json) : P GraphP := do
  return .mk (← fStr j "name") (← fStr j "doc") (← fList j "nodes" dNode) (← fList j "init" dTensor)
    (← fList j "in" dVI) (← fList j "out" dVI) (← fList j "vi" dVI) (← fList j "quant" dAnnot)
    (← fList j "meta" dEntry)
end

def dFunction (j : Json) : P FunctionP := do
  return { name := ← fStr j "name", domain := ← fStr j "domain", overload := ← fStr j "overload",
           doc := ← fStr j "doc", inputs := ← fList j "in" jStr, outputs := ← fList j "out" jStr,
           attrNames := ← fList j "attr_names" jStr, attrProtos := ← fList j "attrs" dAttr,
           nodes := ← fList j "nodes" dNode, opsetImport := ← fList j "opsets" dOpset,
           valueInfo := ← fList j "vi" dVI, metadata := ← fList j "meta" dEntry }

def dModel (j : Json) : P ModelP := do
  return { irVersion := ← fInt j "ir", producerName := ← fStr j "producer",
           producerVersion := ← fStr j "producer_version", domain := ← fStr j "domain",
           modelVersion := ← fInt j "model_version", doc := ← fStr j "doc",
           opsetImport := ← fList j "opsets" dOpset, metadata := ← fList j "meta" dEntry,
           graph := ← dGraph (← field j "graph"), functions := ← fList j "functions" dFunction,
           configuration := ← fList j "config" dDevCfg }

/-! ### encoders -/

def eEntry (e : Entry) : Json := Json.arr #[jS e.key, jS e.value]
def eOpset (o : OpsetP) : Json := Json.arr #[jS o.domain, jI o.version]
def eDimVal : DimVal → Json
  | .unset => Json.null
  | .value v => obj [("v", jI v)]
  | .param s => obj [("p", jS s)]
def eDim (d : DimP) : Json := obj [("d", eDimVal d.val), ("den", jS d.den)]

def eType : TypeP → Json
  | .unset den => obj [("k", "unset"), ("den", jS den)]
  | .tensor e sh den => obj [("k", "tensor"), ("elem", jOpt jI e), ("shape", jOpt (lst eDim) sh), ("den", jS den)]
  | .sparse e sh den => obj [("k", "sparse"), ("elem", jOpt jI e), ("shape", jOpt (lst eDim) sh), ("den", jS den)]
  | .sequence e den => obj [("k", "seq"), ("elem", eType e), ("den", jS den)]
  | .optional e den => obj [("k", "opt"), ("elem", eType e), ("den", jS den)]
  | .map den => obj [("k", "map"), ("den", jS den)]

def eVI (v : ValueInfoP) : Json :=
  obj [("name", jS v.name), ("type", eType v.type), ("doc", jS v.doc), ("meta", lst eEntry v.metadata)]

def eTensor (t : TensorP) : Json :=
  obj [("name", jS t.name), ("doc", jS t.doc), ("dt", jI t.dataType), ("dims", lst jI t.dims),
       ("loc", jI t.dataLocation), ("raw", jOpt jS t.rawData), ("f32", lst jN t.floatData),
       ("i32", lst jI t.int32Data), ("str", lst jS t.stringData), ("i64", lst jI t.int64Data),
       ("f64", lst jN t.doubleData), ("u64", lst jN t.uint64Data), ("ext", lst eEntry t.externalData),
       ("meta", lst eEntry t.metadata)]

def eBStr : BStr → Json
  | .utf8 s => obj [("u", jS s)]
  | .raw h => obj [("b", jS h)]

def eAnnot (a : AnnotP) : Json := obj [("tensor", jS a.tensorName), ("params", lst eEntry a.params)]
def eSimple (s : SimpleShardP) : Json := obj [("d", eDimVal s.dim), ("n", jI s.numShards)]
def eShardedDim (d : ShardedDimP) : Json := obj [("axis", jI d.axis), ("simple", lst eSimple d.simple)]
def eGroup (g : IntListEntryP) : Json := obj [("key", jI g.key), ("value", lst jI g.value)]
def eSpec (s : ShardingSpecP) : Json :=
  obj [("tensor", jS s.tensorName), ("device", lst jI s.device), ("map", lst eGroup s.groupMap),
       ("dims", lst eShardedDim s.dims)]
def eNodeDev (c : NodeDevCfgP) : Json :=
  obj [("id", jS c.configurationId), ("specs", lst eSpec c.specs), ("stage", jOpt jI c.pipelineStage)]
def eDevCfg (c : DevCfgP) : Json := obj [("name", jS c.name), ("n", jI c.numDevices), ("device", lst jS c.device)]

mutual
partial def eAttr : AttrP → Json
  | .ref n d r t => obj [("k", "ref"), ("name", jS n), ("doc", jS d), ("ref", jS r), ("type", jI t)]
  | .int n d i => obj [("k", "int"), ("name", jS n), ("doc", jS d), ("i", jI i)]
  | .float n d b => obj [("k", "float"), ("name", jS n), ("doc", jS d), ("bits", jN b)]
  | .string n d s => obj [("k", "string"), ("name", jS n), ("doc", jS d), ("s", eBStr s)]
  | .ints n d xs => obj [("k", "ints"), ("name", jS n), ("doc", jS d), ("xs", lst jI xs)]
  | .floats n d xs => obj [("k", "floats"), ("name", jS n), ("doc", jS d), ("xs", lst jN xs)]
  | .strings n d xs => obj [("k", "strings"), ("name", jS n), ("doc", jS d), ("xs", lst eBStr xs)]
  | .tensor n d t => obj [("k", "tensor"), ("name", jS n), ("doc", jS d), ("t", eTensor t)]
  | .tensors n d ts => obj [("k", "tensors"), ("name", jS n), ("doc", jS d), ("ts", lst eTensor ts)]
  | .graph n d g => obj [("k", "graph"), ("name", jS n), ("doc", jS d), ("g", eGraph g)]
  | .graphs n d gs => obj [("k", "graphs"), ("name", jS n), ("doc", jS d), ("gs", Json.arr (gs.map eGraph).toArray)]
  | .typeProto n d tp => obj [("k", "tp"), ("name", jS n), ("doc", jS d), ("tp", eType tp)]
  | .typeProtos n d tps => obj [("k", "tps"), ("name", jS n), ("doc", jS d), ("tps", lst eType tps)]
  | .undefined n d => obj [("k", "undefined"), ("name", jS n), ("doc", jS d)]
  | .sparse n d p => obj [("k", "sparse"), ("name", jS n), ("doc", jS d), ("plural", Json.bool p)]
  | .unknown n d t => obj [("k", "unknown"), ("name", jS n), ("doc", jS d), ("type", jI t)]

partial def eNode : NodeP → Json
  | .mk ins outs name op domain overload doc attrs mp dev =>
    obj [("in", lst jS ins), ("out", lst jS outs), ("name", jS name), ("op", jS op), ("domain", jS domain),
         ("overload", jS overload), ("doc", jS doc), ("attrs", Json.arr (attrs.map eAttr).toArray),
         ("meta", lst eEntry mp), ("dev", lst eNodeDev dev)]

partial def eGraph : GraphP → Json
  | .mk name doc nodes inits ins outs vi quant mp =>
    obj [("name", jS name), ("doc", jS doc), ("nodes", Json.arr (nodes.map eNode).toArray),
         ("init", lst eTensor inits), ("in", lst eVI ins), ("out", lst eVI outs), ("vi", lst eVI vi),
         ("quant", lst eAnnot quant), ("meta", lst eEntry mp)]
end

def eFunction (f : FunctionP) : Json :=
  obj [("name", jS f.name), ("domain", jS f.domain), ("overload", jS f.overload), ("doc", jS f.doc),
       ("in", lst jS f.inputs), ("out", lst jS f.outputs), ("attr_names", lst jS f.attrNames),
       ("attrs", lst eAttr f.attrProtos), ("nodes", lst eNode f.nodes), ("opsets", lst eOpset f.opsetImport),
       ("vi", lst eVI f.valueInfo), ("meta", lst eEntry f.metadata)]

def eModel (m : ModelP) : Json :=
  obj [("ir", jI m.irVersion), ("producer", jS m.producerName), ("producer_version", jS m.producerVersion),
       ("domain", jS m.domain), ("model_version", jI m.modelVersion), ("doc", jS m.doc),
       ("opsets", lst eOpset m.opsetImport), ("meta", lst eEntry m.metadata), ("graph", eGraph m.graph),
       ("functions", lst eFunction m.functions), ("config", lst eDevCfg m.configuration)]

/-! ### commands -/

/-- answer for one round trip: `res` = serialize (deserialize x), `wf` = WFproto x, `nrm` = norm x.
`thm` = (wf -> res = ok nrm), the statement of the C02 theorem evaluated on this input. -/
def answer (res : Except Err Json) (wf : Bool) (nrm : Json) : Json :=
  let (ok, r, err) := match res with
    | .ok r => (true, r, "")
    | .error e => (false, Json.null, e)
  obj [("ok", Json.bool ok), ("r", r), ("err", jS err), ("wf", Json.bool wf), ("norm", nrm),
       ("thm", Json.bool (!wf || (ok && r == nrm)))]

/-- the same plus the widened domain of the deepening round: `wfw` = WFproto (fold x), `normw` =
norm (fold x), `thmw` = (wfw -> res = ok normw) (the statement of `C02_*_wide` on this input),
`sub` = (wf -> fold x = x, i.e. normw = norm) (`C02_wide_subsumes`), `unread` = (deserialize (fold x) =
deserialize x, observed through serialize) (`C02_fold_unread*`) -/
def answerW (res : Except Err Json) (wf : Bool) (nrm : Json) (wfw : Bool) (nrmw : Json)
    (resFold : Except Err Json) (wfx : Bool := wfw) (nrmx : Json := nrmw) : Json :=
  let (ok, r, err) := match res with
    | .ok r => (true, r, "")
    | .error e => (false, Json.null, e)
  let unread := match res, resFold with
    | .ok a, .ok b => a == b
    | .error _, .error _ => true
    | _, _ => false
  obj [("ok", Json.bool ok), ("r", r), ("err", jS err), ("wf", Json.bool wf), ("norm", nrm),
       ("thm", Json.bool (!wf || (ok && r == nrm))),
       ("wfw", Json.bool wfw), ("normw", nrmw), ("thmw", Json.bool (!wfw || (ok && r == nrmw))),
       ("sub", Json.bool (!wf || (wfw && nrmw == nrm))), ("unread", Json.bool unread),
       -- stage E: canon = merge (fold x); `thmx` = statement of `C02_*_canon`, `subx` = `C02_canon_subsumes`
       ("wfx", Json.bool wfx), ("normx", nrmx), ("thmx", Json.bool (!wfx || (ok && r == nrmx))),
       ("subx", Json.bool (!wfw || (wfx && nrmx == nrmw)))]

/-- stage F (E4): canonD = merge (outdup (fold x)).  `wfd` = WFproto (canonD x), `thmd` = (wfd -> res = ok
(norm (canonD x))) (the statement of `C02_*_outdup` / `C02_node_alone_wide` / `C02_attr_wide`), `subd` =
(wfx -> wfd and norm (canonD x) = norm (canon x)) (`C02_outdup_subsumes`), `unreadd` = (wfd ->
serialize (deserialize (canonD x)) = res) (`C02_outdup_deserialize*` observed through serialize);
`normd` is only sent when `thmd` fails -/
def answerD (base : Json) (res : Except Err Json) (wfx : Bool) (nrmx : Json) (wfd : Bool) (nrmd : Json)
    (resD : Except Err Json) : Json :=
  let thmd := !wfd || (match res with | .ok r => r == nrmd | .error _ => false)
  let unreadd := !wfd || (match res, resD with
    | .ok a, .ok b => a == b
    | _, _ => false)
  base.mergeObj (obj [("wfd", Json.bool wfd), ("thmd", Json.bool thmd),
    ("subd", Json.bool (!wfx || (wfd && nrmd == nrmx))), ("unreadd", Json.bool unreadd),
    ("normd", if thmd then Json.null else nrmd)])

def optVer (j : Json) : Option Int :=
  match j.getObjValAs? Int "ver" with
  | .ok v => some v
  | .error _ => none

def scopesOf (j : Json) : P Scopes :=
  match j.getObjVal? "scopes" with
  | .ok s => do (← arr s).mapM fun sc => do (← arr sc).mapM jStr
  | .error _ => return []

def handle : Handler := fun m j =>
  match m with
  | "serde.dim" => some do
    let d ← dDim (← field j "x")
    return answer (.ok (eDim (serDim (desDim d)))) true (eDim d)
  | "serde.entries" => some do
    let es ← fList j "x" dEntry
    return answer (.ok (lst eEntry (sortEntries (dictOfEntries es)))) (wfEntries es) (lst eEntry (normEntries es))
  | "serde.type" => some do
    let t ← dType (← field j "x")
    let res := do
      let (ty, sh) ← desTypeAndShape t
      pure (eType (serTypeAndShape ty sh))
    return answer res (wfType t) (eType t)
  | "serde.vi" => some do
    let vi ← dVI (← field j "x")
    let res := do
      let v ← applyInfo (IRValue.blank vi.name) vi
      pure (eVI (serValue v))
    return answer res (wfVI vi) (eVI (normValueInfo vi))
  | "serde.tensor" => some do
    let t ← dTensor (← field j "x")
    let res := do
      let x ← desTensor t
      pure (eTensor (serTensor x))
    let resFold := do
      let x ← desTensor (foldTensor t)
      pure (eTensor (serTensor x))
    -- `rf` = serialize_tensor_into written out field by field; `fields` = tensorFieldsKept rf x
    -- (the statement of `C02_tensor_fields`)
    let rf := match desTensor t with
      | .ok x => eTensor (serTensorF x)
      | .error _ => Json.null
    let fields := match desTensor t with
      | .ok x => tensorFieldsKept (serTensorF x) t
      | .error _ => false
    return (answerW res (wfTensor t) (eTensor (normTensor t)) (wfTensorW t) (eTensor (normTensorW t)) resFold).mergeObj
      (obj [("rf", rf), ("fields", Json.bool (!wfTensorW t || fields))])
  | "serde.attr" => some do
    let a ← dAttr (← field j "x")
    let scopes ← scopesOf j
    let res := do
      let x ← desAttr scopes a
      let y ← serAttr scopes none x
      pure (eAttr y)
    let resD := do
      let x ← desAttr scopes (canonDAttr a)
      let y ← serAttr scopes none x
      pure (eAttr y)
    return answerD (answer res (wfAttr scopes a) (eAttr (normAttr a))) res (wfAttr scopes a) (eAttr (normAttr a))
      (wfAttrD scopes a) (eAttr (normAttr (canonDAttr a))) resD
  | "serde.node" => some do
    let n ← dNode (← field j "x")
    let res := do
      let (x, tbl) ← desNodeAlone n
      let y ← serNode [tableNames tbl] (optVer j) x
      pure (eNode y)
    let resD := do
      let (x, tbl) ← desNodeAlone (canonDNode n)
      let y ← serNode [tableNames tbl] (optVer j) x
      pure (eNode y)
    return answerD (answer res (wfNodeAlone n) (eNode (normNode n))) res (wfNodeAlone n) (eNode (normNode n))
      (wfNodeAloneD n) (eNode (normNode (canonDNode n))) resD
  | "serde.graph" => some do
    let g ← dGraph (← field j "x")
    let res := do
      let x ← desGraph [] g
      let y ← serGraph [] (optVer j) x
      pure (eGraph y)
    let resFold := do
      let x ← desGraph [] (foldGraph g)
      let y ← serGraph [] (optVer j) x
      pure (eGraph y)
    let resD := do
      let x ← desGraph [] (canonDGraph g)
      let y ← serGraph [] (optVer j) x
      pure (eGraph y)
    return answerD (answerW res (wfGraph [] g) (eGraph (normGraph g)) (wfGraphW [] g) (eGraph (normGraphW g)) resFold
      (wfGraphX [] g) (eGraph (normGraphX g))) res (wfGraphX [] g) (eGraph (normGraphX g))
      (wfGraphD [] g) (eGraph (normGraphD g)) resD
  | "serde.wfgraph" => some do
    -- development aid: the conjuncts of wfGraph for the top-level graph
    match ← dGraph (← field j "x") with
    | .mk _ _ nodes initializers inputs outputs valueInfo quant metadata =>
      let inputNames := inputs.map (·.name)
      let outputNames := outputs.map (·.name)
      let initNames := initializers.map (·.name)
      let outs := nodeOutNames nodes
      let names := scopeNames inputNames initNames outs
      return obj [
        ("nodup_names", Json.bool (nodupStr names)), ("nonempty", Json.bool (names.all (fun n => !n.isEmpty))),
        ("nodup_init", Json.bool (nodupStr initNames)),
        ("vi_wf", Json.bool (inputs.all wfVI && outputs.all wfVI && valueInfo.all wfVI)),
        ("vi_nodup", Json.bool (nodupStr (valueInfo.map (·.name)))),
        ("vi_not_io", Json.bool (valueInfo.all (fun vi => !inputNames.contains vi.name && !outputNames.contains vi.name))),
        ("out_cons", Json.bool (consOutputs outputs)),
        ("init_wf", Json.bool (initializers.all (fun t => wfTensor t && validDType t.dataType))),
        ("quant", Json.bool (nodupStr (quant.map (·.tensorName)) && quant.all (fun a => names.contains a.tensorName && !a.params.isEmpty && wfEntries a.params))),
        ("meta", Json.bool (wfEntries metadata)),
        ("nodes", Json.bool (wfNodes (names :: []) nodes))]
  | "serde.wfmodel" => some do
    -- development aid: the conjuncts of wfModel
    let m ← dModel (← field j "x")
    return obj [
      ("graph", Json.bool (wfGraph [] m.graph)),
      ("functions", Json.arr (m.functions.map (fun f => Json.bool (wfFunction m.irVersion f))).toArray),
      ("meta", Json.bool (wfEntries m.metadata)),
      ("opsets", Json.bool (nodupStr (m.opsetImport.map (·.domain)))),
      ("keys", Json.bool (nodupKeys (m.functions.map fun f => (f.domain, f.name, f.overload)))),
      ("dev", Json.bool (decide (m.irVersion ≥ 11) || (m.configuration.isEmpty && !graphHasDevCfg m.graph
          && m.functions.all (fun f => !nodesHaveDevCfg f.nodes)))),
      ("exp", Json.bool (decide (m.irVersion ≥ 10) ||
        (scopeNames (m.graph.inputs.map (·.name)) (m.graph.initializers.map (·.name))
            (nodeOutNames m.graph.nodes)).all (fun n => (parseExperimentalName n).isNone)))]
  | "serde.function" => some do
    let f ← dFunction (← field j "x")
    let res := do
      let x ← desFunction f
      let y ← serFunction (optVer j) true x
      pure (eFunction y)
    let resFold := do
      let x ← desFunction (foldFunction f)
      let y ← serFunction (optVer j) true x
      pure (eFunction y)
    let resD := do
      let x ← desFunction (canonDFunction f)
      let y ← serFunction (optVer j) true x
      pure (eFunction y)
    return answerD (answerW res (wfFunctionAlone f) (eFunction (normFunction true f)) (wfFunctionAloneW f)
      (eFunction (normFunctionW true f)) resFold (wfFunctionAloneX f) (eFunction (normFunctionX true f)))
      res (wfFunctionAloneX f) (eFunction (normFunctionX true f))
      (wfFunctionAloneD f) (eFunction (normFunctionD true f)) resD
  | "serde.model" => some do
    let mdl ← dModel (← field j "x")
    let res := do
      let x ← desModel mdl
      let y ← serModel x
      pure (eModel y)
    let resFold :=
      if mdl.irVersion ≥ 10 || inputsPlain mdl.graph then do
        let x ← desModel (foldModel mdl)
        let y ← serModel x
        pure (eModel y)
      else res
    let resD := do
      let x ← desModel (canonDModel mdl)
      let y ← serModel x
      pure (eModel y)
    return (answerD (answerW res (wfModel mdl) (eModel (normModel mdl)) (wfModelW mdl) (eModel (normModelW mdl)) resFold
      (wfModelX mdl) (eModel (normModelX mdl))) res (wfModelX mdl) (eModel (normModelX mdl))
      (wfModelD mdl) (eModel (normModelD mdl)) resD).mergeObj (
      -- E8: `wf9` / `thm9` = hypothesis and statement of `C02_model_ir9`, `wf9w` / `thm9w` of `C02_model_ir9_wide`,
      -- `sub9` = `C02_ir9_subsumes`
      let eqr := fun (n : ModelP) => match res with
        | .ok r => r == eModel n
        | .error _ => false
      obj [("wf9", Json.bool (wfModel9 mdl)), ("thm9", Json.bool (!wfModel9 mdl || eqr (normModel9 mdl))),
           ("wf9w", Json.bool (wfModel9W mdl)), ("thm9w", Json.bool (!wfModel9W mdl || eqr (normModel9W mdl))),
           ("wf9d", Json.bool (wfModel9D mdl)), ("thm9d", Json.bool (!wfModel9D mdl || eqr (normModel9D mdl))),
           ("sub9", Json.bool ((!wfModel mdl || (wfModel9 mdl && eModel (normModel9 mdl) == eModel (normModel mdl)))
              && (!wfModelW mdl || (wfModel9W mdl && eModel (normModel9W mdl) == eModel (normModelW mdl)))
              && (!wfModelD mdl || (wfModel9D mdl && eModel (normModel9D mdl) == eModel (normModelD mdl)))))])
  | _ => none

end IrVerif.Drive.Serde

import IrVerif.Drive.Util
import IrVerif.Model.Layout
import IrVerif.Model.LayoutSt
import IrVerif.Model.LayoutSeq
import IrVerif.Model.LayoutStSave
/-! Protocol handler for `IrVerif.Layout` (property C07).  Commands `layout.*`.
Optional naturals are JSON `null` or a number; byte strings travel as lower-case hex. -/
open Lean IrVerif.Drive
namespace IrVerif.Drive.Layout
open IrVerif.Layout

def getOptNat (j : Json) (k : String) : Except String (Option Nat) :=
  match j.getObjVal? k with
  | .error _ => pure none
  | .ok Json.null => pure none
  | .ok v => do let n ← v.getNat?; pure (some n)

def hexDigit (n : Nat) : Char := if n < 10 then Char.ofNat (48 + n) else Char.ofNat (87 + n)

def toHex (bs : List Nat) : String :=
  String.ofList (bs.flatMap fun b => [hexDigit (b / 16 % 16), hexDigit (b % 16)])

def hexVal (c : Char) : Nat :=
  if c.val ≥ 97 then c.val.toNat - 87 else c.val.toNat - 48

def ofHexChars : List Char → List Nat
  | a :: b :: rest => (hexVal a * 16 + hexVal b) :: ofHexChars rest
  | _ => []

def ofHex (s : String) : List Nat := ofHexChars s.toList

def natListsJ (xss : List (List Nat)) : Json := Json.arr (xss.map natsJ).toArray

def infoJ (i : Info) : Json := natsJ [i.offset, i.length]

def newConstJ : NewConst → Json
  | .same => Json.str "S"
  | .memory => Json.str "M"
  | .external p => natsJ [p.shard, p.total, p.offset, p.length]

def getInits (j : Json) (k : String) : Except String (List Init) := do
  let arr ← getArr j k
  arr.mapM fun e => do
    let a ← (fromJson? e : Except String (Array Nat))
    pure { nbytes := a.getD 0 0, isExternal := a.getD 1 0 = 1, hasConst := a.getD 2 1 = 1,
           isString := a.getD 3 0 = 1 }

/-- initializer list with the tensor bytes: objects {"n": nbytes, "e": 0/1, "c": 0/1, "b": hex} -/
def getInitsB (j : Json) (k : String) : Except String (List (Init × List Nat)) := do
  let arr ← getArr j k
  arr.mapM fun e => do
    let n ← e.getObjValAs? Nat "n"
    let ex ← e.getObjValAs? Nat "e"
    let c ← e.getObjValAs? Nat "c"
    let b ← e.getObjValAs? String "b"
    let str := (e.getObjValAs? Nat "s").toOption.getD 0
    pure ({ nbytes := n, isExternal := ex = 1, hasConst := c = 1, isString := str = 1 }, ofHex b)

def getWrites (j : Json) (k : String) : Except String (List (Nat × List Nat)) := do
  let arr ← getArr j k
  arr.mapM fun e => do
    let off ← e.getObjValAs? Nat "o"
    let hx ← e.getObjValAs? String "b"
    pure (off, ofHex hx)

def optNatJ : Option Nat → Json
  | none => Json.null
  | some n => toJson n

def nameBytes (s : String) : List Nat := s.toUTF8.toList.map (·.toNat)

/-- tensors handed to the safetensors writer: {"name": str, "dtype": code, "shape": [..], "b": hex} -/
def getStTensors (j : Json) (k : String) : Except String (List StTensor) := do
  let arr ← getArr j k
  arr.mapM fun e => do
    let nm ← e.getObjValAs? String "name"
    let code ← e.getObjValAs? Nat "dtype"
    let shape ← e.getObjValAs? (Array Nat) "shape"
    let b ← e.getObjValAs? String "b"
    match IrVerif.TensorRepr.DType.ofCode code with
    | some d => pure { name := nameBytes nm, dtype := d, shape := shape.toList, bytes := ofHex b }
    | none => throw s!"bad dtype code {code}"

def entryJ (e : StEntry) : Json :=
  Json.arr #[Json.str (toHex e.name), Json.str e.sd.headerName, natsJ e.hshape, toJson e.start, toJson e.stop]

def optPlacementJ : Option Placement → Json
  | none => Json.null
  | some p => natsJ [p.shard, p.total, p.offset, p.length]

def refJ : Ref FileKey → Json
  | .inline _ => Json.arr #[Json.str "I"]
  | .stale => Json.arr #[Json.str "S"]
  | .ext (b, i, n) off len => Json.arr #[Json.str "E", toJson b, toJson i, toJson n, toJson off, toJson len]

def getOpSpec (e : Json) : Except String OpSpec := do
  let op ← e.getObjValAs? String "op"
  match op with
  | "load" => pure .load
  | "load_to_model" => pure .loadToModel
  | "convert" => pure (.convert (← e.getObjValAs? Nat "k"))
  | "save_st" => pure (.stSave (← e.getObjValAs? Nat "base") (← e.getObjValAs? Int "thr") (← getOptNat e "max"))
  | _ =>
    let base ← e.getObjValAs? Nat "base"
    let thr ← e.getObjValAs? Int "thr"
    let mx ← getOptNat e "max"
    let al ← getOptNat e "al"
    let athr ← e.getObjValAs? Nat "athr"
    if op = "unload" then pure (.rawUnload base thr mx al athr) else pure (.rawSave base thr mx al athr)

/-- name / dtype / shape of every initializer of a sequence model: {"name": str, "dtype": code, "shape": [..]} -/
def getMetas (j : Json) (k : String) : Except String (List StMeta) :=
  match j.getObjVal? k with
  | .error _ => pure []
  | .ok v => do
    let arr ← (match v with | Json.arr a => pure a.toList | _ => throw "metas: array expected")
    arr.mapM fun e => do
      let nm ← e.getObjValAs? String "name"
      let code ← e.getObjValAs? Nat "dtype"
      let shape ← e.getObjValAs? (Array Nat) "shape"
      match IrVerif.TensorRepr.DType.ofCode code with
      | some d => pure { name := nameBytes nm, dtype := d, shape := shape.toList }
      | none => throw s!"bad dtype code {code}"

/-- initializer positions of a safetensors save:
    {"name": str, "dtype": code, "shape": [..], "b": hex, "n": nbytes, "e": 0/1, "c": 0/1, "s": 0/1} -/
def getStInits (j : Json) (k : String) : Except String (List StInit) := do
  let arr ← getArr j k
  arr.mapM fun e => do
    let nm ← e.getObjValAs? String "name"
    let code ← e.getObjValAs? Nat "dtype"
    let shape ← e.getObjValAs? (Array Nat) "shape"
    let b ← e.getObjValAs? String "b"
    let n ← e.getObjValAs? Nat "n"
    let ex ← e.getObjValAs? Nat "e"
    let c ← e.getObjValAs? Nat "c"
    let str ← e.getObjValAs? Nat "s"
    match IrVerif.TensorRepr.DType.ofCode code with
    | some d => pure { name := nameBytes nm, init := { nbytes := n, isExternal := ex = 1, hasConst := c = 1,
                                                       isString := str = 1 },
                       dtype := d, shape := shape.toList, bytes := ofHex b }
    | none => throw s!"bad dtype code {code}"

def getStore (j : Json) : Except String (Nat × Store) := do
  let cells ← getArr j "store"
  let cells ← cells.mapM fun t => match t with
    | Json.null => pure (none : Option Nat)
    | x => do let n ← x.getNat?; pure (some n)
  pure (cells.length, fun v => (cells[v]?).join)

def getStop (j : Json) (plan : SavePlan) : Except String (Option Nat) := do
  let phase ← getStr j "phase"
  let occ := (getNat j "occ").toOption.getD 0
  let ph? : Option Phase := match phase with
    | "validate" => some .validate
    | "loadMem" => some .loadMem
    | "write" => some .write
    | "serialize" => some .serialize
    | "protoSave" => some .protoSave
    | _ => none
  match ph? with
  | none => pure none
  | some ph => match pointIndex ph occ plan.prog with
    | some n => pure (some n)
    | none => throw s!"no point {phase} #{occ} in the program"

def handle : Handler := fun m j =>
  match m with
  | "layout.seq" => some do
      -- a call sequence on a model whose initializers are in memory with the given bytes: after every call
      -- where each initializer of the caller's model lives and what it reads (null: stale / unreadable)
      let vals := (← getStrs j "vals").map ofHex
      let metas ← getMetas j "metas"
      let specs ← (← getArr j "ops").mapM getOpSpec
      let ops := specs.map (OpSpec.toOp metas)
      let s0 : SeqState FileKey := { fs := fun _ => none, mem := vals.map Ref.inline, disk := none }
      let rec go (s : SeqState FileKey) (ops : List (SeqOp FileKey)) (acc : List Json) : List Json :=
        match ops with
        | [] => acc.reverse
        | op :: rest =>
          match seqStep s op with
          | none => (Json.str "undefined" :: acc).reverse
          | some s' =>
            let snap := obj [("mem", Json.arr (s'.mem.map refJ).toArray),
              ("vals", Json.arr (s'.mem.map fun r => match r.value s'.fs with
                | some bs => Json.str (toHex bs)
                | none => Json.null).toArray),
              ("disk", match s'.disk with
                | some refs => Json.arr (refs.map refJ).toArray
                | none => Json.null)]
            go s' rest (snap :: acc)
      return obj [("steps", Json.arr (go s0 ops []).toArray)]
  | "layout.st_unload" => some do
      -- a whole `save_safetensors` on initializer POSITIONS: does it get past the name check and the dtype
      -- table, the state of every position that serialization sees, the files moved into place (none on
      -- KeyError), and what `ir.load` of the saved model holds at every position
      let vs ← getStInits j "inits"
      let thr ← getInt j "thr"
      let mx ← getOptNat j "max"
      let base := (← getStr j "base").toList
      let namesOk := stNamesOk ((vs.filter stSnapshotB).map (·.name))
      if !namesOk then return obj [("names_ok", toJson false)]
      if !stSaveOk vs thr then
        return obj [("names_ok", toJson true), ("ok", toJson false),
          ("files", match stFiles (stSaved vs thr) mx with
            | none => Json.null
            | some fs => Json.arr (fs.map fun f => Json.str (toHex f)).toArray)]
      let files := stSaveFiles vs thr mx
      let consts := unloadStV vs thr mx
      let cj := consts.map fun c => match c with
        | .same => Json.str "S"
        | .memory => Json.str "M"
        | .external p => Json.arr #[Json.str (String.ofList (stShardName base p.shard p.total)),
            toJson p.offset, toJson p.length]
      let fj := files.zipIdx.map fun (img, i) =>
        Json.arr #[Json.str (String.ofList (stShardName base i files.length)), Json.str (toHex img)]
      let lj := (List.range vs.length).map fun k => match stLoadedAt vs thr mx k with
        | none => Json.null
        | some l => Json.arr #[toJson l.external, toJson l.dtype.code, natsJ l.shape, Json.str (toHex l.bytes)]
      return obj [("names_ok", toJson true), ("ok", toJson true), ("consts", Json.arr cj.toArray),
        ("files", Json.arr fj.toArray), ("loaded", Json.arr lj.toArray)]
  | "layout.save_run_async" => some do
      -- `layout.save_run_checked` with a stop point of the try block and an asynchronous exception delivered
      -- inside the finally loop after "cut" completed assignments (null: none)
      let vs ← getInits j "inits"
      let thr ← getInt j "thr"
      let fresh ← getNat j "fresh"
      let (ncells, st) ← getStore j
      let plan := if (← getStr j "backend") = "st" then stPlan vs thr fresh else rawPlan vs thr fresh
      let stop ← getStop j plan
      let debug := (getBool j "debug").toOption.getD false
      let nonproto := (getNats j "nonproto").toOption.getD []
      let cut ← getOptNat j "cut"
      let (mid, fin, raised) := saveRunAsync debug (fun o => !nonproto.contains o) st plan stop cut
      let dump (s : Store) : Json := Json.arr ((List.range ncells).map fun v => optNatJ (s v)).toArray
      return obj [("mid", dump mid), ("fin", dump fin), ("raised", toJson raised),
        ("snapshot", natsJ plan.snapshot)]
  | "layout.save_run_checked" => some do
      -- `layout.save_run` with the finally block as a loop through the const_value setter
      let vs ← getInits j "inits"
      let thr ← getInt j "thr"
      let fresh ← getNat j "fresh"
      let cells ← getArr j "store"
      let cells ← cells.mapM fun t => match t with
        | Json.null => pure (none : Option Nat)
        | x => do let n ← x.getNat?; pure (some n)
      let st : Store := fun v => (cells[v]?).join
      let plan := if (← getStr j "backend") = "st" then stPlan vs thr fresh else rawPlan vs thr fresh
      let debug ← getBool j "debug"
      let nonproto ← getNats j "nonproto"
      let (mid, fin, raised) := saveRunChecked debug (fun o => !nonproto.contains o) st plan none
      let dump (s : Store) : Json := Json.arr ((List.range cells.length).map fun v => optNatJ (s v)).toArray
      return obj [("mid", dump mid), ("fin", dump fin), ("raised", toJson raised)]
  | "layout.st_tables" => some do
      return obj [
        ("ir_to_name", Json.arr (irToStName.map fun (d, n) => Json.arr #[toJson d.code, Json.str n]).toArray),
        ("names", Json.arr (stNameTable.map fun (n, sd) =>
          Json.arr #[Json.str n, Json.str sd.headerName, toJson sd.rank, toJson sd.bits]).toArray),
        ("st_to_ir", Json.arr (stToIr.map fun (n, d) => Json.arr #[Json.str n, toJson d.code]).toArray),
        ("migrated", natsJ (migrated.map (·.code)))]
  | "layout.st_file" => some do
      -- one shard handed to serialize_file: writing order, header entries, whole file image
      let ts ← getStTensors j "tensors"
      match shardViews ts with
      | none => return obj [("err", Json.str "dtype")]
      | some vs =>
        let es := stEntries vs
        return obj [("entries", Json.arr (es.map entryJ).toArray),
          ("n", toJson (stHeader es).length),
          ("ok", toJson (vs.all fun v => stViewOk v.sd v.hshape v.bytes.length)),
          ("file", Json.str (toHex (stFile vs)))]
  | "layout.st_save" => some do
      -- a whole `_save_file` on `tensors_to_save`: files, the record every saved value ends up with,
      -- dtype and shape of the tensor it holds afterwards, and what reading the record returns
      let ts ← getStTensors j "tensors"
      let mx ← getOptNat j "max"
      let names := ts.map (·.name)
      if !stNamesOk names then return obj [("err", Json.str "names")]
      match stShardViews ts mx with
      | none => return obj [("err", Json.str "dtype")]
      | some shards =>
        let files := shards.map stFile
        let res := stReplace names (stAssignments shards)
        let allEntries := shards.flatMap stEntries
        let reload := ts.map fun t =>
          match allEntries.find? (fun e => e.name = t.name) with
          | some e => (match reloadedDtypeShape t e with
              | some (d, sh) => Json.arr #[toJson d.code, natsJ sh]
              | none => Json.null)
          | none => Json.null
        let reads := res.map fun p => match p with
          | some p => Json.str (toHex (readAt (files.getD p.shard []) p.offset p.length))
          | none => Json.null
        return obj [("files", Json.arr (files.map fun f => Json.str (toHex f)).toArray),
          ("places", Json.arr (res.map optPlacementJ).toArray),
          ("reload", Json.arr reload.toArray), ("reads", Json.arr reads.toArray)]
  | "layout.align" => some do
      return obj [("r", toJson (alignOffset (← getNat j "cur") (← getNat j "size")
        (← getOptNat j "al") (← getNat j "athr")))]
  | "layout.infos" => some do
      let sizes ← getNats j "sizes"
      let al ← getOptNat j "al"
      let athr ← getNat j "athr"
      let infos := computeInfos al athr sizes
      return obj [("r", Json.arr (infos.map infoJ).toArray),
        ("end", toJson (layoutEnd al athr sizes)), ("total", toJson (totalSize infos))]
  | "layout.shard_raw" => some do
      return obj [("r", natListsJ (shardRaw id (← getNat j "max") (← getOptNat j "al")
        (← getNat j "athr") (← getNats j "sizes")))]
  | "layout.shard_st" => some do
      return obj [("r", natListsJ (shardSt id (← getOptNat j "max") (← getNats j "sizes")))]
  | "layout.filename" => some do
      let base ← getStr j "base"
      return obj [("r", Json.str (String.ofList (shardFilename base.toList (← getNat j "idx")
        (← getNat j "total") (← getOptNat j "sc"))))]
  | "layout.splitext" => some do
      let (a, b) := splitext (← getStr j "p").toList
      return obj [("r", strsJ [String.ofList a, String.ofList b])]
  | "layout.split" => some do
      let (a, b) := posixSplit (← getStr j "p").toList
      return obj [("r", strsJ [String.ofList a, String.ofList b])]
  | "layout.pad5" => some do
      return obj [("r", Json.str (String.ofList (pad5 (← getNat j "n"))))]
  | "layout.unload_raw" => some do
      let vs ← getInits j "inits"
      let thr ← getInt j "thr"
      let (ext, mem) := splitRaw thr vs
      return obj [("ext", natsJ ext), ("mem", natsJ mem),
        ("r", Json.arr ((unloadRaw vs thr (← getOptNat j "max") (← getOptNat j "al")
          (← getNat j "athr")).map newConstJ).toArray)]
  | "layout.save_raw" => some do
      -- the whole raw-file save: classification, placements with file names, data file images
      let vb ← getInitsB j "inits"
      let vs := vb.map (·.1)
      let thr ← getInt j "thr"
      let mx ← getOptNat j "max"
      let al ← getOptNat j "al"
      let athr ← getNat j "athr"
      let base := (← getStr j "base").toList
      let sched ← match j.getObjVal? "sched" with
        | .ok (Json.arr a) => do
            let xs ← a.toList.mapM (·.getNat?)
            pure (some xs)
        | _ => pure none
      let consts := unloadRaw vs thr mx al athr
      let files := saveRawFiles vb thr mx al athr sched
      let total := files.length
      let cj := consts.map fun c => match c with
        | .same => Json.str "S"
        | .memory => Json.str "M"
        | .external p => Json.arr #[Json.str (String.ofList (
            match mx with
            | none => base
            | some _ => rawShardName base p.shard p.total)), toJson p.offset, toJson p.length]
      let fj := files.zipIdx.map fun (img, i) => Json.arr #[Json.str (String.ofList (
            match mx with
            | none => base
            | some _ => rawShardName base i total)), Json.str (toHex img)]
      return obj [("consts", Json.arr cj.toArray), ("files", Json.arr fj.toArray)]
  | "layout.save_st" => some do
      let vs ← getInits j "inits"
      let thr ← getInt j "thr"
      let mx ← getOptNat j "max"
      let base := (← getStr j "base").toList
      let (ext, _) := splitSt thr vs
      let st := unloadSt vs thr mx
      let cj := st.map fun c => match c with
        | .same => Json.str "S"
        | .memory => Json.str "M"
        | .external p => Json.arr #[Json.str (String.ofList (stShardName base p.shard p.total)),
            toJson p.length]
      return obj [("consts", Json.arr cj.toArray), ("ext", natsJ ext)]
  | "layout.split_st" => some do
      let (ext, mem) := splitSt (← getInt j "thr") (← getInits j "inits")
      return obj [("ext", natsJ ext), ("mem", natsJ mem)]
  | "layout.image" => some do
      let ws ← getWrites j "ws"
      match ← getOptNat j "prealloc" with
      | none => return obj [("r", Json.str (toHex (serialImage ws)))]
      | some t => return obj [("r", Json.str (toHex (parallelImage t ws)))]
  | "layout.read" => some do
      return obj [("r", Json.str (toHex (readAt (ofHex (← getStr j "img")) (← getNat j "off")
        (← getNat j "len"))))]
  | "layout.save_run" => some do
      -- the save as an effect sequence: store before (tensor id or null per initializer position),
      -- where it stops ("phase" + "occ", or "none"), store at that moment and at the end
      let vs ← getInits j "inits"
      let thr ← getInt j "thr"
      let fresh ← getNat j "fresh"
      let cells ← getArr j "store"
      let cells ← cells.mapM fun t => match t with
        | Json.null => pure (none : Option Nat)
        | x => do let n ← x.getNat?; pure (some n)
      let st : Store := fun v => (cells[v]?).join
      let plan := if (← getStr j "backend") = "st" then stPlan vs thr fresh else rawPlan vs thr fresh
      let phase ← getStr j "phase"
      let occ := (getNat j "occ").toOption.getD 0
      let ph? : Option Phase := match phase with
        | "validate" => some .validate
        | "loadMem" => some .loadMem
        | "write" => some .write
        | "serialize" => some .serialize
        | "protoSave" => some .protoSave
        | _ => none
      let stop ← match ph? with
        | none => pure none
        | some ph => match pointIndex ph occ plan.prog with
          | some n => pure (some n)
          | none => throw s!"no point {phase} #{occ} in the program"
      let (mid, fin) := saveRun st plan stop
      let dump (s : Store) : Json := Json.arr ((List.range cells.length).map fun v => optNatJ (s v)).toArray
      return obj [("mid", dump mid), ("fin", dump fin), ("snapshot", natsJ plan.snapshot)]
  | _ => none

end IrVerif.Drive.Layout

import IrVerif.Drive.Util
import IrVerif.Model.Passes
/-! Protocol handler for the pass models (C05).
`{"m":"passes.run","pass":[<name>...],"model":<model>}` → `{"model":<model>,"valid":<bool>}`.
Encoding: model `{"g":graph,"f":[graph]}`; graph `{"i":[id],"o":[id],"t":[[id,tensor]],"n":[node]}`;
node `{"op":[domain,type,overload],"a":[[name,attr]],"in":[id|null],"out":[id],"b":[graph]}`;
tensor `{"d":dtype,"s":[dim],"b":[byte],"x":[[byte]]}`; attr `{"k":kind,"v":payload}`. -/
open Lean IrVerif.Drive IrVerif.Sem
namespace IrVerif.Drive.Passes

def getTensor (j : Json) : Except String Tensor := do
  let x ← getArr j "x"
  let xs ← x.mapM (fun e => do let a ← e.getArr?; a.toList.mapM (fun b => b.getNat?))
  return ⟨← getNat j "d", ← getNats j "s", ← getNats j "b", xs⟩

def getNatLists (j : Json) : Except String (List (List Nat)) := do
  let a ← j.getArr?
  a.toList.mapM (fun e => do let b ← e.getArr?; b.toList.mapM (fun c => c.getNat?))

def getAttr (j : Json) : Except String AttrData := do
  let k ← getStr j "k"
  let v ← j.getObjVal? "v"
  match k with
  | "int" => return .int (← v.getInt?)
  | "float" => return .float (← v.getNat?)
  | "str" => return .str (← (← v.getArr?).toList.mapM (fun c => c.getNat?))
  | "ints" => return .ints (← (← v.getArr?).toList.mapM (fun c => c.getInt?))
  | "floats" => return .floats (← (← v.getArr?).toList.mapM (fun c => c.getNat?))
  | "strs" => return .strs (← getNatLists v)
  | "tensor" => return .tensor (← getTensor v)
  | "opaque" => return .opaque (← getNat v "tag") (← getNat v "uid")
  | _ => throw s!"unknown attribute kind {k}"

mutual
partial def getGraph (j : Json) : Except String Graph := do
  let t ← getArr j "t"
  let inits ← t.mapM (fun e => do
    let a ← e.getArr?
    if h : a.size = 2 then return ((← a[0].getNat?), (← getTensor a[1])) else throw "initializer pair")
  let ns ← (← getArr j "n").mapM getNode
  return .mk (← getNats j "i") (← getNats j "o") inits ns
partial def getNode (j : Json) : Except String Node := do
  let op ← getStrs j "op"
  let opid ← match op with
    | [d, n, o] => pure (OpId.mk d n o)
    | _ => throw "op id"
  let attrs ← (← getArr j "a").mapM (fun e => do
    let a ← e.getArr?
    if h : a.size = 2 then return ((← a[0].getStr?), (← getAttr a[1])) else throw "attribute pair")
  let ins ← (← getArr j "in").mapM (fun e => match e with
    | .null => pure none
    | e => do return some (← e.getNat?))
  let bodies ← (← getArr j "b").mapM getGraph
  return .mk opid attrs ins (← getNats j "out") bodies
end

def getModel (j : Json) : Except String Model := do
  let g ← getGraph (← j.getObjVal? "g")
  let fs ← (← getArr j "f").mapM getGraph
  return ⟨g, fs⟩

def natListsJ (xs : List (List Nat)) : Json := Json.arr (xs.map natsJ).toArray

def tensorJ (t : Tensor) : Json :=
  obj [("d", toJson t.dtype), ("s", natsJ t.shape), ("b", natsJ t.bytes), ("x", natListsJ t.strs)]

def attrJ : AttrData → Json
  | .int i => obj [("k", "int"), ("v", toJson i)]
  | .float b => obj [("k", "float"), ("v", toJson b)]
  | .str s => obj [("k", "str"), ("v", natsJ s)]
  | .ints l => obj [("k", "ints"), ("v", intsJ l)]
  | .floats l => obj [("k", "floats"), ("v", natsJ l)]
  | .strs l => obj [("k", "strs"), ("v", natListsJ l)]
  | .tensor t => obj [("k", "tensor"), ("v", tensorJ t)]
  | .opaque tag uid => obj [("k", "opaque"), ("v", obj [("tag", toJson tag), ("uid", toJson uid)])]

mutual
partial def graphJ : Graph → Json
  | .mk i o t n => obj [("i", natsJ i), ("o", natsJ o),
      ("t", Json.arr (t.map (fun p => Json.arr #[toJson p.1, tensorJ p.2])).toArray),
      ("n", Json.arr (n.map nodeJ).toArray)]
partial def nodeJ : Node → Json
  | .mk op a ins outs b => obj [("op", strsJ [op.domain, op.name, op.overload]),
      ("a", Json.arr (a.map (fun p => Json.arr #[Json.str p.1, attrJ p.2])).toArray),
      ("in", Json.arr (ins.map (fun o => match o with | none => Json.null | some v => toJson v)).toArray),
      ("out", natsJ outs), ("b", Json.arr (b.map graphJ).toArray)]
end

def modelJ (m : Model) : Json := obj [("g", graphJ m.graph), ("f", Json.arr (m.funcs.map graphJ).toArray)]

open IrVerif.Passes in
def passByName : String → Option PassId
  | "dce" => some .dce
  | "identity" => some .identity
  | "cse" => some (.cse 10)
  | "cse0" => some (.cse 0)
  | "dedup" => some (.dedup 1024)
  | "dedup_hashed" => some (.dedup 4294967296)
  | "lift_const" => some (.liftConst false 16)
  | "lift_const_all0" => some (.liftConst true 0)
  | "lift_sub_inits" => some .liftSubInits
  | "rm_init_inputs" => some .rmInitInputs
  | "add_init_inputs" => some .addInitInputs
  | "output_fix" => some .outputFix
  | "clear_meta" => some .clearMeta
  | "name_fix" => some .nameFix
  | "topo_sort" => some .topoSort
  | nm =>
    match nm.splitOn ":" with
    | ["cse", n] => n.toNat?.map (fun k => .cse k)
    | ["dedup", n] => n.toNat?.map (fun k => .dedup k)
    | ["lift", a, n] => n.toNat?.map (fun k => .liftConst (a == "1") k)
    | _ => none

open IrVerif.Passes in
def handle : Handler := fun m j =>
  match m with
  | "passes.run" => some do
    let model ← getModel (← j.getObjVal? "model")
    let names ← getStrs j "pass"
    let ids ← names.mapM (fun nm => match passByName nm with
      | some p => pure p
      | none => throw s!"unknown pass {nm}")
    let out := runPasses ids model
    return obj [("model", modelJ out), ("valid", toJson (validModel model)),
      ("chain_ok", toJson (chainOK ids model)), ("valid_after", toJson (validModel out)),
      ("why", strsJ ((if ssaG model.graph then [] else ["ssa"]) ++ (if closedG model.graph then [] else ["closed"]) ++
        (if noFwdG model.graph then [] else ["nofwd"]) ++ (if scopedG [] model.graph then [] else ["scoped"]) ++
        (if model.funcs.all validG then [] else ["funcs"])))]
  | "passes.reorder" => some do
    let a ← getModel (← j.getObjVal? "a")
    let b ← getModel (← j.getObjVal? "b")
    return obj [("reorder", toJson (reorderModel a b)), ("valid_a", toJson (validModel a)),
      ("valid_b", toJson (validModel b))]
  | _ => none

end IrVerif.Drive.Passes

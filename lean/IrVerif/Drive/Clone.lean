import IrVerif.Drive.Util
import IrVerif.Model.Clone
import IrVerif.Model.Clone2
/-! Protocol handler for `IrVerif.Clone`: `clone.run` takes a heap (`world`: list of cells, ids are
list positions) and a `script` (clone entry points and edits, applied in order, each with its own
outcome; the heap survives a raising step exactly as the Python heap does) and answers the list of
outcomes and the final heap. -/
open Lean IrVerif.Drive
namespace IrVerif.Drive.Clone
open IrVerif.Clone

def optJ (f : α → Json) : Option α → Json
  | none => Json.null
  | some a => f a

def natJ (n : Nat) : Json := toJson n
def pairsJ (f : β → Json) (xs : List (String × β)) : Json :=
  Json.arr (xs.map fun e => Json.arr #[Json.str e.1, f e.2]).toArray

def dimJ : Dim → Json
  | .int n => toJson n
  | .sym none => Json.null
  | .sym (some s) => Json.str s

def devJ (d : List DevCfg) : Json :=
  Json.arr (d.map fun c => obj [("cfg", natJ c.cfg),
    ("specs", Json.arr (c.specs.map fun sp => Json.arr #[optJ natJ sp.value, natJ sp.payload]).toArray)]).toArray

def cellJ : Cell → Json
  | .val v => obj [("k", "val"), ("name", optJ Json.str v.name), ("doc", optJ Json.str v.doc),
      ("producer", optJ natJ v.producer), ("index", optJ natJ v.index),
      ("uses", Json.arr (v.uses.map fun u => Json.arr #[natJ u.1, natJ u.2]).toArray),
      ("graph", optJ natJ v.graph), ("in", v.isIn), ("out", v.isOut), ("init", v.isInit),
      ("type", optJ natJ v.type), ("shape", optJ natJ v.shape), ("const", optJ natJ v.const),
      ("props", natJ v.props), ("mstore", natJ v.mstore)]
  | .node n => obj [("k", "node"), ("name", optJ Json.str n.name), ("doc", optJ Json.str n.doc),
      ("domain", n.domain), ("op", n.opType), ("overload", n.overload),
      ("version", optJ (fun (i : Int) => toJson i) n.version),
      ("inputs", Json.arr (n.inputs.map (optJ natJ)).toArray), ("outputs", natsJ n.outputs),
      ("attrs", pairsJ natJ n.attrs), ("graph", optJ natJ n.graph), ("dev", devJ n.dev),
      ("props", natJ n.props), ("mstore", natJ n.mstore)]
  | .graph g => obj [("k", "graph"), ("name", optJ Json.str g.name), ("doc", optJ Json.str g.doc),
      ("inputs", natsJ g.inputs), ("outputs", natsJ g.outputs), ("inits", pairsJ natJ g.inits),
      ("nodes", natsJ g.nodes), ("opsets", pairsJ (fun (i : Int) => toJson i) g.opsets),
      ("props", natJ g.props), ("mstore", natJ g.mstore), ("view", g.view)]
  | .type t => obj [("k", "type"),
      ("wrap", Json.arr (t.wrap.map fun e => Json.arr #[natJ e.1, optJ Json.str e.2]).toArray),
      ("leaf", natJ t.leaf), ("dtype", natJ t.dtype), ("denot", optJ Json.str t.denot)]
  | .shape s => obj [("k", "shape"), ("dims", Json.arr (s.dims.map dimJ).toArray),
      ("denots", Json.arr (s.denots.map (optJ Json.str)).toArray), ("frozen", s.frozen)]
  | .dict d => obj [("k", "dict"), ("data", pairsJ Json.str d.data), ("invalid", strsJ d.invalid)]
  | .attr a => obj [("k", "attr"), ("name", a.name), ("doc", optJ Json.str a.doc),
      ("v", match a.v with
        | .plain p => obj [("plain", natJ p)]
        | .ref p => obj [("ref", natJ p)]
        | .graph g => obj [("graph", natJ g)]
        | .graphs gs => obj [("graphs", natsJ gs)])]
  | .func f => obj [("k", "func"), ("domain", f.domain), ("name", f.name), ("overload", f.overload),
      ("graph", natJ f.graph), ("attrs", pairsJ natJ f.attrs)]
  | .tensor nm => obj [("k", "tensor"), ("name", optJ Json.str nm)]
  | .model m => obj [("k", "model"), ("graph", natJ m.graph), ("funcs", natsJ m.funcs),
      ("header", natJ m.header), ("dev", natJ m.dev), ("props", natJ m.props),
      ("mstore", natJ m.mstore)]


def vinfoJ (i : VInfo) : Json :=
  obj [("name", optJ Json.str i.name), ("doc", optJ Json.str i.doc), ("const", optJ natJ i.const),
       ("type", optJ (fun t => cellJ (.type t)) i.type),
       ("shape", optJ (fun (sh : List Dim × List (Option String)) =>
          Json.arr #[Json.arr (sh.1.map dimJ).toArray, Json.arr (sh.2.map (optJ Json.str)).toArray]) i.shape),
       ("props", pairsJ Json.str i.props), ("mdata", pairsJ Json.str i.mdata), ("minvalid", strsJ i.minvalid)]

mutual
partial def sgraphJ : SGraph → Json
  | .mk name doc opsets ins inits nodes outs props mdata minvalid =>
    obj [("name", optJ Json.str name), ("doc", optJ Json.str doc),
         ("opsets", pairsJ (fun (i : Int) => toJson i) opsets),
         ("inputs", Json.arr (ins.map vinfoJ).toArray), ("inits", Json.arr (inits.map vinfoJ).toArray),
         ("nodes", Json.arr (nodes.map snodeJ).toArray), ("outputs", Json.arr (outs.map vinfoJ).toArray),
         ("props", pairsJ Json.str props), ("mdata", pairsJ Json.str mdata), ("minvalid", strsJ minvalid)]
partial def snodeJ : SNode → Json
  | .mk name doc domain op overload version ins outs attrs props mdata minvalid dev =>
    obj [("name", optJ Json.str name), ("doc", optJ Json.str doc), ("domain", domain), ("op", op),
         ("overload", overload), ("version", optJ (fun (i : Int) => toJson i) version),
         ("inputs", Json.arr (ins.map (optJ (optJ Json.str))).toArray),
         ("outputs", Json.arr (outs.map vinfoJ).toArray),
         ("attrs", Json.arr (attrs.map sattrJ).toArray),
         ("props", pairsJ Json.str props), ("mdata", pairsJ Json.str mdata), ("minvalid", strsJ minvalid),
         ("dev", Json.arr (dev.map fun c => Json.arr #[natJ c.1,
            Json.arr (c.2.map fun sp => Json.arr #[natJ sp.1, optJ (optJ Json.str) sp.2]).toArray]).toArray)]
partial def sattrJ : SAttr → Json
  | .plain name doc v => obj [("name", name), ("doc", optJ Json.str doc),
      ("v", match v with | .plain p => obj [("plain", natJ p)] | .ref p => obj [("ref", natJ p)] | _ => Json.null)]
  | .graph name doc g => obj [("name", name), ("doc", optJ Json.str doc), ("graph", sgraphJ g)]
  | .graphs name doc gs => obj [("name", name), ("doc", optJ Json.str doc),
      ("graphs", Json.arr (gs.map sgraphJ).toArray)]
end

/-! parsing -/

def getOpt (j : Json) (k : String) (f : Json → Except String α) : Except String (Option α) :=
  match j.getObjVal? k with
  | .ok Json.null => pure none
  | .ok v => do return some (← f v)
  | .error _ => pure none

def asNat (j : Json) : Except String Nat := fromJson? j
def asInt (j : Json) : Except String Int := fromJson? j
def asStr (j : Json) : Except String String := fromJson? j
def asOptNat : Json → Except String (Option Nat)
  | Json.null => pure none
  | j => do return some (← asNat j)
def asOptStr : Json → Except String (Option String)
  | Json.null => pure none
  | j => do return some (← asStr j)

def asPairs (f : Json → Except String β) (j : Json) : Except String (List (String × β)) := do
  let a ← j.getArr?
  a.toList.mapM fun e => do
    let p ← e.getArr?
    match p.toList with
    | [k, v] => do return (← asStr k, ← f v)
    | _ => throw "pair expected"

def getPairs (j : Json) (k : String) (f : Json → Except String β) :
    Except String (List (String × β)) := do
  asPairs f (← j.getObjVal? k)

def getOptNats (j : Json) (k : String) : Except String (List (Option Nat)) := do
  (← getArr j k).mapM asOptNat

def asDim : Json → Except String Dim
  | Json.null => pure (.sym none)
  | Json.str s => pure (.sym (some s))
  | j => do return .int (← asInt j)

def asDev (j : Json) : Except String DevCfg := do
  let specs ← (← getArr j "specs").mapM fun e => do
    let p ← e.getArr?
    match p.toList with
    | [v, pl] => do return ({ value := ← asOptNat v, payload := ← asNat pl } : DevSpec)
    | _ => throw "spec expected"
  return { cfg := ← getNat j "cfg", specs := specs }

def asType (j : Json) : Except String TypeS := do
  let wrap ← (← getArr j "wrap").mapM fun e => do
    let p ← e.getArr?
    match p.toList with
    | [k, d] => do return (← asNat k, ← asOptStr d)
    | _ => throw "wrap expected"
  return { wrap := wrap, leaf := ← getNat j "leaf", dtype := ← getNat j "dtype",
           denot := ← getOpt j "denot" asStr }

def asShape (j : Json) : Except String ShapeS := do
  return { dims := ← (← getArr j "dims").mapM asDim,
           denots := ← (← getArr j "denots").mapM asOptStr,
           frozen := ← getBool j "frozen" }

def asCell (j : Json) : Except String Cell := do
  match ← getStr j "k" with
  | "val" =>
    let uses ← (← getArr j "uses").mapM fun e => do
      let p ← e.getArr?
      match p.toList with
      | [a, b] => do return (← asNat a, ← asNat b)
      | _ => throw "use expected"
    return .val { name := ← getOpt j "name" asStr, doc := ← getOpt j "doc" asStr,
                  producer := ← getOpt j "producer" asNat, index := ← getOpt j "index" asNat,
                  uses := uses, graph := ← getOpt j "graph" asNat,
                  isIn := ← getBool j "in", isOut := ← getBool j "out", isInit := ← getBool j "init",
                  type := ← getOpt j "type" asNat, shape := ← getOpt j "shape" asNat,
                  const := ← getOpt j "const" asNat,
                  props := ← getNat j "props", mstore := ← getNat j "mstore" }
  | "node" =>
    return .node { name := ← getOpt j "name" asStr, doc := ← getOpt j "doc" asStr,
                   domain := ← getStr j "domain", opType := ← getStr j "op",
                   overload := ← getStr j "overload", version := ← getOpt j "version" asInt,
                   inputs := ← getOptNats j "inputs", outputs := ← getNats j "outputs",
                   attrs := ← getPairs j "attrs" asNat, graph := ← getOpt j "graph" asNat,
                   dev := ← (← getArr j "dev").mapM asDev,
                   props := ← getNat j "props", mstore := ← getNat j "mstore" }
  | "graph" =>
    return .graph { name := ← getOpt j "name" asStr, doc := ← getOpt j "doc" asStr,
                    inputs := ← getNats j "inputs", outputs := ← getNats j "outputs",
                    inits := ← getPairs j "inits" asNat, nodes := ← getNats j "nodes",
                    opsets := ← getPairs j "opsets" asInt,
                    props := ← getNat j "props", mstore := ← getNat j "mstore",
                    view := ← getBool j "view" }
  | "type" => return .type (← asType j)
  | "shape" => return .shape (← asShape j)
  | "dict" => return .dict { data := ← getPairs j "data" asStr, invalid := ← getStrs j "invalid" }
  | "attr" =>
    let vj ← j.getObjVal? "v"
    let v ← match vj.getObjVal? "plain", vj.getObjVal? "ref", vj.getObjVal? "graph", vj.getObjVal? "graphs" with
      | .ok p, _, _, _ => do pure (AttrV.plain (← asNat p))
      | _, .ok p, _, _ => do pure (AttrV.ref (← asNat p))
      | _, _, .ok g, _ => do pure (AttrV.graph (← asNat g))
      | _, _, _, .ok gs => do pure (AttrV.graphs (← (← gs.getArr?).toList.mapM asNat))
      | _, _, _, _ => throw "attr value expected"
    return .attr { name := ← getStr j "name", doc := ← getOpt j "doc" asStr, v := v }
  | "func" =>
    return .func { domain := ← getStr j "domain", name := ← getStr j "name",
                   overload := ← getStr j "overload", graph := ← getNat j "graph",
                   attrs := ← getPairs j "attrs" asNat }
  | "model" =>
    return .model { graph := ← getNat j "graph", funcs := ← getNats j "funcs",
                    header := ← getNat j "header", dev := ← getNat j "dev",
                    props := ← getNat j "props", mstore := ← getNat j "mstore" }
  | "tensor" => return .tensor (← getOpt j "name" asStr)
  | k => throw s!"unknown cell kind {k}"

def asWhich (j : Json) : Except String Which := do
  match ← getStr j "which" with
  | "props" => pure .props
  | "mstore" => pure .mstore
  | k => throw s!"unknown container {k}"

def asEdit (j : Json) : Except String Edit := do
  match ← getStr j "e" with
  | "setName" => return .setName (← getNat j "v") (← getOpt j "s" asStr)
  | "setType" => return .setType (← getNat j "v") (← getOpt j "t" asType)
  | "setDtype" => return .setDtype (← getNat j "v") (← getNat j "d")
  | "setTypeDenot" => return .setTypeDenot (← getNat j "v") (← getOpt j "s" asStr)
  | "setShape" => return .setShape (← getNat j "v") (← getOpt j "t" asShape)
  | "setDim" => return .setDim (← getNat j "v") (← getNat j "i") (← asDim (j.getObjValD "d"))
  | "setDimDenot" => return .setDimDenot (← getNat j "v") (← getNat j "i") (← getOpt j "s" asStr)
  | "setConst" => return .setConst (← getNat j "v") (← getOpt j "t" asNat)
  | "setDoc" => return .setDoc (← getNat j "v") (← getOpt j "s" asStr)
  | "dictSet" => return .dictSet (← getNat j "o") (← asWhich j) (← getStr j "key") (← getStr j "x")
  | "dictDel" => return .dictDel (← getNat j "o") (← asWhich j) (← getStr j "key")
  | "metaInvalidate" => return .metaInvalidate (← getNat j "o") (← getStr j "key")
  | "replaceInput" => return .replaceInput (← getNat j "n") (← getNat j "i") (← getOpt j "v" asNat)
  | "setNodeName" => return .setNodeName (← getNat j "n") (← getOpt j "s" asStr)
  | "setOpType" => return .setOpType (← getNat j "n") (← getStr j "s")
  | "setAttr" => return .setAttr (← getNat j "n") (← getStr j "key") (← getNat j "p")
  | "delAttr" => return .delAttr (← getNat j "n") (← getStr j "key")
  | "setGraphName" => return .setGraphName (← getNat j "g") (← getOpt j "s" asStr)
  | "setOpset" => return .setOpset (← getNat j "g") (← getStr j "dom") (← getInt j "ver")
  | "removeNode" => return .removeNode (← getNat j "g") (← getNat j "n")
  | "appendNode" =>
    let ins ← getOptNats j "inputs"
    let outs ← getStrs j "outs"
    return .appendNode (← getNat j "g") (← getStr j "name") (← getStr j "opname") ins outs
  | "appendOutput" => return .appendOutput (← getNat j "g") (← getNat j "v")
  | "popOutput" => return .popOutput (← getNat j "g")
  | "setNodeDomain" => return .setNodeDomain (← getNat j "n") (← getStr j "s")
  | "setNodeOverload" => return .setNodeOverload (← getNat j "n") (← getStr j "s")
  | "setNodeVersion" => return .setNodeVersion (← getNat j "n") (← getOpt j "ver" asInt)
  | "setNodeDoc" => return .setNodeDoc (← getNat j "n") (← getOpt j "s" asStr)
  | "setGraphDoc" => return .setGraphDoc (← getNat j "g") (← getOpt j "s" asStr)
  | "setFuncName" => return .setFuncName (← getNat j "f") (← getStr j "s")
  | "setModelHeader" => return .setModelHeader (← getNat j "mo") (← getNat j "p")
  | "setDev" => return .setDev (← getNat j "n") (← (← getArr j "dev").mapM asDev)
  | e => throw s!"unknown edit {e}"

/-- an editing call of the extended alphabet; the names of the first alphabet parse to `.base` -/
def asEdit2 (j : Json) : Except String Edit2 := do
  match ← getStr j "e" with
  | "appendInput" => return .appendInput (← getNat j "g") (← getNat j "v")
  | "popInput" => return .popInput (← getNat j "g")
  | "setInit" => return .setInit (← getNat j "g") (← getStr j "key") (← getNat j "v")
  | "delInit" => return .delInit (← getNat j "g") (← getStr j "key")
  | "registerInit" => return .registerInit (← getNat j "g") (← getNat j "v")
  | "sort" => return .sort (← getNat j "g")
  | "insertBefore" => return .insertBefore (← getNat j "g") (← getNat j "anchor") (← getNat j "n")
  | "insertAfter" => return .insertAfter (← getNat j "g") (← getNat j "anchor") (← getNat j "n")
  | "replaceAllUses" => return .replaceAllUses (← getNat j "v") (← getNat j "r") (← getBool j "outs")
  | "resizeInputs" => return .resizeInputs (← getNat j "n") (← getNat j "size")
  | "resizeOutputs" => return .resizeOutputs (← getNat j "n") (← getNat j "size")
  | "putFunc" => return .putFunc (← getNat j "mo") (← getOpt j "idx" asNat) (← getNat j "f")
  | "delFunc" => return .delFunc (← getNat j "mo") (← getNat j "idx")
  | _ => return .base (← asEdit j)

def asNatPairs (j : Json) (k : String) : Except String (List (Nat × Nat)) := do
  (← getArr j k).mapM fun e => do
    match (← e.getArr?).toList with
    | [a, b] => do return (← asNat a, ← asNat b)
    | _ => throw "pair expected"

/-- an editing call of the third alphabet; everything else parses to `.base2` -/
def asEdit3 (j : Json) : Except String Edit3 := do
  match ← getStr j "e" with
  | "sortDeep" => return .sortDeep (← getNat j "g") (← getNats j "nest")
  | "setInputsSlice" => return .setInputsSlice (← getNat j "g") (← getNat j "a") (← getNat j "b") (← getNats j "vs")
  | "setOutputsSlice" => return .setOutputsSlice (← getNat j "g") (← getNat j "a") (← getNat j "b") (← getNats j "vs")
  | "popInit" => return .popInit (← getNat j "g") (← getStr j "key")
  | "clearInits" => return .clearInits (← getNat j "g")
  | "updateInits" =>
    let items ← (← getArr j "items").mapM fun e => do
      match (← e.getArr?).toList with
      | [k, v] => do return (← asStr k, ← asNat v)
      | _ => throw "item expected"
    return .updateInits (← getNat j "g") items
  | "extendNodes" => return .extendNodes (← getNat j "g") (← getNats j "ns")
  | "removeSafe" => return .removeSafe (← getNat j "g") (← getNats j "ns")
  | "rauwMulti" => return .rauwMulti (← asNatPairs j "pairs") (← getBool j "outs")
  | "renameValues" =>
    let pairs ← (← getArr j "pairs").mapM fun e => do
      match (← e.getArr?).toList with
      | [v, nm] => do return (← asNat v, ← asStr nm)
      | _ => throw "pair expected"
    return .renameValues pairs
  | "replaceNode" =>
    return .replaceNode (← getNat j "g") (← getNat j "n") (← getStr j "name") (← getStr j "opname")
      (← getOptNats j "inputs") (← getStrs j "outs")
  | _ => return .base2 (← asEdit2 j)

def isBase2 : Edit3 → Option Edit2
  | .base2 e => some e
  | _ => none

/-- all edits are of the second alphabet -/
def allBase2 (es : List Edit3) : Option (List Edit2) := es.mapM isBase2

def isBase : Edit2 → Option Edit
  | .base e => some e
  | _ => none

/-- all edits are of the first alphabet: run them with `runHistory` / `functionalize` -/
def allBase (es : List Edit2) : Option (List Edit) := es.mapM isBase

def outcomeJ : Except Err (Option Nat) → Json
  | .ok none => obj [("r", "ok")]
  | .ok (some i) => obj [("r", "ok"), ("id", natJ i)]
  | .error (.raised why) => obj [("r", "raised"), ("why", why)]
  | .error .fuel => obj [("r", "fuel")]
  | .error (.unsupported why) => obj [("r", "unsupported"), ("why", why)]

def runStep (w : World) (j : Json) : Except String (Except Err (Option Nat) × World) := do
  let fuel := (j.getObjValAs? Nat "fuel").toOption.getD 64
  match ← getStr j "op" with
  | "graphClone" =>
    let (r, w') := run (graphClone fuel (← getBool j "allow") (← getNat j "g")) w
    return (r.map some, w')
  | "funcClone" =>
    let (r, w') := run (funcClone fuel (← getNat j "f")) w
    return (r.map some, w')
  | "modelClone" =>
    let (r, w') := run (modelClone fuel (← getNat j "mo")) w
    return (r.map some, w')
  | "edit" =>
    let (r, w') := run (applyEdit3 (← asEdit3 j)) w
    return (r.map fun _ => none, w')
  | "wellFormed" =>
    return (if wellFormed w && usesBounded w then .ok none else .error (.raised "dangling pointer"), w)
  | "devLocal" =>
    return (if devLocalW w then .ok none else .error (.raised "a sharding spec targets a value that is not an input/output of its node"), w)
  | "wellFormed2" =>
    return (if wellFormed2 w then .ok none else .error (.raised "dangling pointer (extended)"), w)
  | "closedW" =>
    return (if closedW w then .ok none else .error (.raised "a pointer field names no cell"), w)
  | op => throw s!"unknown step {op}"

def handle : Handler := fun m j =>
  match m with
  | "clone.run" => some do
    let w0 ← (← getArr j "world").mapM asCell
    let steps ← getArr j "script"
    let mut w := w0
    let mut outs : Array Json := #[]
    for st in steps do
      let (r, w') ← runStep w st
      w := w'
      outs := outs.push (outcomeJ r)
    return obj [("outcomes", Json.arr outs), ("world", Json.arr (w.map cellJ).toArray)]
  | "clone.ser" => some do
    -- `serGraph` of a graph and of its clone, in the heap after cloning
    let w0 ← (← getArr j "world").mapM asCell
    let src ← getNat j "src"
    let k := (j.getObjValAs? Nat "k").toOption.getD 8
    let before := serGraph k w0 src
    let (r, w1) ← runStep w0 (← j.getObjVal? "clone")
    match r with
    | .ok (some g') =>
      let a := (serGraph k w1 src).map sgraphJ
      let b := (serGraph k w1 g').map sgraphJ
      return obj [("outcome", outcomeJ r), ("defined", before.isSome),
                  ("same_after", (before.map sgraphJ) == a), ("equal", a == b)]
    | _ => return obj [("outcome", outcomeJ r), ("defined", before.isSome)]
  | "clone.verdict" => some do
    -- the scope walker on the source heap (C13_clone_succeeds / C13_clone_raises_iff)
    let w0 ← (← getArr j "world").mapM asCell
    let fuel := (j.getObjValAs? Nat "fuel").toOption.getD 64
    -- `Model.clone` (C13_model_clone_*): the verdict carries no walker state
    if let .ok mo := j.getObjValAs? Nat "mo" then
      match modelVerdict fuel w0 mo with
      | .ok _ => return obj [("v", "ok")]
      | .err (.raised why) => return obj [("v", "raised"), ("why", why)]
      | .err (.unsupported why) => return obj [("v", "unsupported"), ("why", why)]
      | .err .fuel => return obj [("v", "fuel")]
      | .irregular why => return obj [("v", "irregular"), ("why", why)]
    let verdict ← match j.getObjValAs? Nat "f" with
      | .ok f => pure (funcVerdict fuel w0 f)
      | .error _ => do pure (cloneVerdict fuel (← getBool j "allow") w0 (← getNat j "g"))
    match verdict with
    | .ok A => return obj [("v", "ok"), ("bound", natsJ A.bound.reverse)]
    | .err (.raised why) => return obj [("v", "raised"), ("why", why)]
    | .err (.unsupported why) => return obj [("v", "unsupported"), ("why", why)]
    | .err .fuel => return obj [("v", "fuel")]
    | .irregular why => return obj [("v", "irregular"), ("why", why)]
  | "clone.vmap" => some do
    -- the cloner's final value map (C13_wiring_image / C13_value_map_bijection): `cloneGraph` run with a fresh
    -- cloner state, exactly what `graphClone` runs before it forgets the map
    let w0 ← (← getArr j "world").mapM asCell
    let fuel := (j.getObjValAs? Nat "fuel").toOption.getD 64
    let vmJ := fun (vm : List (Nat × Nat)) => Json.arr (vm.reverse.map fun p => Json.arr #[natJ p.1, natJ p.2]).toArray
    -- `Model.clone` (C13_wiring_image_model): one value map per cloner (main graph, then every function);
    -- `same`: clone and heap are those of `modelClone`
    if let .ok mo := j.getObjValAs? Nat "mo" then
      let (r, s') := modelCloneTrace fuel mo { w := w0 }
      let (r0, w0') := run (modelClone fuel mo) w0
      let same := (match r, r0 with
        | .ok x, .ok y => x.1 == y
        | .error _, .error _ => true
        | _, _ => false) && s'.w == w0'
      return obj [("outcome", outcomeJ (r.map fun x => some x.1)), ("same", same),
                  ("vms", Json.arr ((match r with | .ok x => x.2 | .error _ => []).map vmJ).toArray),
                  ("world", Json.arr (s'.w.map cellJ).toArray)]
    -- `Function.clone` (C13_wiring_image_function): `funcCloneCore` under a fresh cloner state
    if let .ok f := j.getObjValAs? Nat "f" then
      let (r, s') := funcCloneCore fuel f { w := w0 }
      let (r0, w0') := run (funcClone fuel f) w0
      let same := (match r, r0 with
        | .ok x, .ok y => x == y
        | .error _, .error _ => true
        | _, _ => false) && s'.w == w0'
      return obj [("outcome", outcomeJ (r.map some)), ("same", same), ("vms", Json.arr #[vmJ s'.vm]),
                  ("world", Json.arr (s'.w.map cellJ).toArray)]
    let (r, s') := cloneGraph (← getBool j "allow") fuel (← getNat j "g") { w := w0 }
    return obj [("outcome", outcomeJ (r.map some)),
                ("vm", Json.arr (s'.vm.reverse.map fun p => Json.arr #[natJ p.1, natJ p.2]).toArray),
                ("world", Json.arr (s'.w.map cellJ).toArray)]
  | "clone.functionalizeAny" => some do
    -- `functionalize(Sequential(...) / PassManager(...))(model)`: every stage instance with the edit history it
    -- performs (C13_functionalize_any); `PassManager(steps=k)` is sent as the k-fold repetition of its stages
    let w0 ← (← getArr j "world").mapM asCell
    let fuel := (j.getObjValAs? Nat "fuel").toOption.getD 64
    let mo ← getNat j "mo"
    let stages ← (← getArr j "stages").mapM fun sj => do
      let edits ← (← getArr sj "edits").mapM asEdit2
      let d : Decl := { inPlace := ← getBool sj "inPlace", changesInput := ← getBool sj "changesInput" }
      match ← getStr sj "kind" with
      | "inplace" => pure (d, Stage.inPlace (fun _ _ => edits))
      | "rewrap" => do pure (d, Stage.rewrap (fun _ _ => edits) (← getNat sj "header"))
      | k => throw s!"unknown stage kind {k}"
    let (r, w1) := functionalizeAny fuel stages 1 mo w0
    let d := seqDecl stages
    -- for the harness only: did the model decline one of the edits (`unsupported`)?
    let declined := match run (modelClone fuel mo) w0 with
      | (.ok m', wc) =>
        let rec go : List (Decl × Stage) → Nat → World → Bool
          | [], _, _ => false
          | p :: rest, m, w =>
            (runHistory2 (p.2.edits m w) w).1.any (fun x => match x with
              | .error (.unsupported _) => true
              | _ => false) ||
            match runStage p.1 p.2 m w with
            | (.ok m1, w1) => go rest m1 w1
            | _ => false
        go stages m' wc
      | _ => false
    return obj [("outcome", outcomeJ (r.map some)), ("world", Json.arr (w1.map cellJ).toArray),
                ("declared", obj [("inPlace", d.inPlace), ("changesInput", d.changesInput)]),
                ("declined", declined)]
  | "clone.functionalizeHooks" => some do
    -- `functionalize(P)(model)` with `requires` / `ensures` hooks, `modified` flags and `early_stop`
    -- (C13_functionalize_hooks).  The harness sends one pass list PER ROUND (same declarations, the histories of the
    -- hooks and of `call`, whether a hook raises and the reported `modified` flag may differ per call); the rounds are
    -- glued here exactly as `runRoundsH` does, from the model's own `runStagesH` / `runHook` / `callChecked`; with one
    -- pass list the answer is checked against `functionalizeHooks` itself (`agrees`).
    let w0 ← (← getArr j "world").mapM asCell
    let fuel := (j.getObjValAs? Nat "fuel").toOption.getD 64
    let mo ← getNat j "mo"
    let steps ← getNat j "steps"
    let earlyStop ← getBool j "earlyStop"
    let hookOf := fun (hj : Json) => do
      let edits ← (← getArr hj "edits").mapM asEdit2
      let raises ← getBool hj "raises"
      pure ({ edits := fun _ _ => edits, raises := fun _ _ => raises } : Hook)
    let rounds ← (← getArr j "rounds").mapM fun rj => do
      (← getArr rj "passes").mapM fun sj => do
        let edits ← (← getArr sj "edits").mapM asEdit2
        let d : Decl := { inPlace := ← getBool sj "inPlace", changesInput := ← getBool sj "changesInput" }
        let st ← match ← getStr sj "kind" with
          | "inplace" => pure (Stage.inPlace (fun _ _ => edits))
          | "rewrap" => do pure (Stage.rewrap (fun _ _ => edits) (← getNat sj "header"))
          | k => throw s!"unknown stage kind {k}"
        let md ← getBool sj "modified"
        pure ({ decl := d, requires := ← hookOf (← sj.getObjVal? "requires"), stage := st,
                ensures := ← hookOf (← sj.getObjVal? "ensures"), modified := fun _ _ => md } : PassH)
    let outerReq ← hookOf (← j.getObjVal? "outerRequires")
    let outerEns ← hookOf (← j.getObjVal? "outerEnsures")
    let declines := fun (es : List Edit2) (w : World) => (runHistory2 es w).1.any fun x => match x with
      | .error (.unsupported _) => true
      | _ => false
    let fin := fun (r : Except Err Nat) (w : World) (n : Nat) (declined agrees : Bool) =>
      obj [("outcome", outcomeJ (r.map some)), ("world", Json.arr (w.map cellJ).toArray), ("rounds", natJ n),
           ("declined", declined), ("agrees", agrees)]
    match run (modelClone fuel mo) w0 with
    | (.error e, w1) => return fin (.error e) w1 0 false true
    | (.ok m', w1) =>
      let mut declined := declines (outerReq.edits m' w1) w1
      match runHook "PreconditionError" outerReq m' w1 with
      | (.error e, w2) => return fin (.error e) w2 0 declined true
      | (.ok _, w2) =>
        let mut m := m'
        let mut w := w2
        let mut err : Option Err := none
        let mut nrounds := 0
        let mut stop := false
        for k in [0:steps] do
          if err.isSome || stop then break
          let ps := rounds.getD k (rounds.getLastD [])
          -- which edits does the model decline (`unsupported`)?  a scan with the pieces `callPassH` is made of
          let mut mm := m
          let mut ww := w
          let mut dead := false
          for p in ps do
            if dead then break
            declined := declined || declines (p.requires.edits mm ww) ww
            match runHook "PreconditionError" p.requires mm ww with
            | (.error _, _) => dead := true
            | (.ok _, w1') =>
              declined := declined || declines (p.stage.edits mm w1') w1'
              match stageCall p.stage mm w1' with
              | (.error _, _) => dead := true
              | (.ok m1, w2') =>
                declined := declined || declines (p.ensures.edits m1 w2') w2'
                match runHook "PostconditionError" p.ensures m1 w2' with
                | (.error _, _) => dead := true
                | (.ok _, w3') =>
                  match callChecked p.decl mm (.ok m1, w3') with
                  | (.ok m2, w4') =>
                    mm := m2
                    ww := w4'
                  | (.error _, _) => dead := true
          match runStagesH ps m false w with
          | (.error e, w3) =>
            err := some e
            w := w3
            nrounds := nrounds + 1
          | (.ok r, w3) =>
            m := r.1
            w := w3
            nrounds := nrounds + 1
            if !r.2 && earlyStop then stop := true
        let ps0 := rounds.headD []
        let uniform := rounds.length ≤ 1
        let direct := functionalizeHooks fuel ps0 outerReq outerEns steps earlyStop mo w0
        let same := fun (r : Except Err Nat) (w5 : World) => !uniform || (direct.2 == w5 && (match direct.1, r with
          | .ok a, .ok b => a == b
          | .error (.raised a), .error (.raised b) => a == b
          | .error _, .error _ => true
          | _, _ => false))
        match err with
        | some e => return fin (.error e) w nrounds declined (same (.error e) w)
        | none =>
          declined := declined || declines (outerEns.edits m w) w
          match runHook "PostconditionError" outerEns m w with
          | (.error e, w4) => return fin (.error e) w4 nrounds declined (same (.error e) w4)
          | (.ok _, w4) =>
            let (r, w5) := callChecked ⟨false, false⟩ mo (callChecked (seqDeclH ps0) m' (.ok m, w4))
            return fin r w5 nrounds declined (same r w5)
  | "clone.functionalize" => some do
    -- `functionalize(pass)(model)` with the pass given as the edit history it performs
    let w0 ← (← getArr j "world").mapM asCell
    let edits3 ← (← getArr j "edits").mapM asEdit3
    let fuel := (j.getObjValAs? Nat "fuel").toOption.getD 64
    let mo ← getNat j "mo"
    let (r, w1) := match allBase2 edits3 with
      | some edits2 =>
        (match allBase edits2 with
          | some edits => functionalize fuel (fun _ _ => edits) mo w0
          | none => functionalize2 fuel (fun _ _ => edits2) mo w0)
      | none => functionalize3 fuel (fun _ _ => edits3) mo w0
    -- for the harness only: did the model decline one of the edits (`unsupported`)?
    let declined := match run (modelClone fuel mo) w0 with
      | (.ok _, wc) => (runHistory3 edits3 wc).1.any fun x => match x with
        | .error (.unsupported _) => true
        | _ => false
      | _ => false
    return obj [("outcome", outcomeJ (r.map some)), ("world", Json.arr (w1.map cellJ).toArray),
                ("declined", declined)]
  | "clone.history" => some do
    -- a clone step followed by `runHistory` on a list of edits
    let w0 ← (← getArr j "world").mapM asCell
    let (r, w1) ← runStep w0 (← j.getObjVal? "clone")
    let edits3 ← (← getArr j "edits").mapM asEdit3
    let (rs, w2) := match allBase2 edits3 with
      | some edits2 =>
        (match allBase edits2 with
          | some edits => runHistory edits w1
          | none => runHistory2 edits2 w1)
      | none => runHistory3 edits3 w1
    return obj [("outcomes", Json.arr ((outcomeJ r) :: rs.map (fun x => outcomeJ (x.map fun _ => none))).toArray),
                ("world", Json.arr (w2.map cellJ).toArray)]
  | _ => none

end IrVerif.Drive.Clone

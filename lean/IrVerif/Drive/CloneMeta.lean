import IrVerif.Drive.Util
import IrVerif.Model.CloneMeta
/-! Protocol handler for `IrVerif.Clone.Meta`: `clonemeta.run` takes a heap of Python containers
(`heap`: list of `{"list": [val..]}` / `{"dict": [[key, val]..]}`, ids are list positions; a val is
`{"a": <string>}` or `{"r": <cell>}`), the meta stores of the cloned IR object in cloner order
(`stores`: `{"data": [[key, val]..], "invalid": [key..]}`), `deep`, `fuel`, and an optional list of
in-place edits (`edits`) to run on the heap after the clone.  Answer: the outcome, the clone's
stores, the final heap, the outcome of every edit, and (when `obs` = depth is given) whether every
stored value of source and clone observes to the same tree before the edits. -/
open Lean IrVerif.Drive
namespace IrVerif.Drive.CloneMeta
open IrVerif.Clone.Meta

def valJ : PyVal → Json
  | .atom s => obj [("a", Json.str s)]
  | .ref i => obj [("r", toJson i)]

def asVal (j : Json) : Except String PyVal :=
  match j.getObjValAs? String "a" with
  | .ok s => pure (.atom s)
  | .error _ => do return .ref (← getNat j "r")

def kvJ (kv : List (String × PyVal)) : Json :=
  Json.arr (kv.map fun e => Json.arr #[Json.str e.1, valJ e.2]).toArray

def asKV (j : Json) : Except String (String × PyVal) := do
  let a ← (fromJson? j : Except String (Array Json))
  match a.toList with
  | [k, v] => return (← fromJson? k, ← asVal v)
  | _ => throw "pair expected"

def objJ : PyObj → Json
  | .list xs => obj [("list", Json.arr (xs.map valJ).toArray)]
  | .dict kv => obj [("dict", kvJ kv)]

def asObj (j : Json) : Except String PyObj :=
  match getArr j "list" with
  | .ok xs => do return .list (← xs.mapM asVal)
  | .error _ => do return .dict (← (← getArr j "dict").mapM asKV)

def storeJ (s : Store) : Json := obj [("data", kvJ s.data), ("invalid", strsJ s.invalid)]

def asStore (j : Json) : Except String Store := do
  return { data := ← (← getArr j "data").mapM asKV, invalid := ← getStrs j "invalid" }

def asEdit (j : Json) : Except String PyEdit := do
  let i ← getNat j "i"
  match ← getStr j "op" with
  | "append" => return .listAppend i (← asVal (← j.getObjVal? "v"))
  | "lset" => return .listSet i (← getNat j "k") (← asVal (← j.getObjVal? "v"))
  | "pop" => return .listPop i
  | "dset" => return .dictSet i (← getStr j "k") (← asVal (← j.getObjVal? "v"))
  | "ddel" => return .dictDel i (← getStr j "k")
  | o => throw s!"unknown edit {o}"

def handle : Handler := fun m j =>
  match m with
  | "clonemeta.run" => some do
    let h0 ← (← getArr j "heap").mapM asObj
    let stores ← (← getArr j "stores").mapM asStore
    let deep ← getBool j "deep"
    let fuel ← getNat j "fuel"
    let edits ← match getArr j "edits" with
      | .ok es => es.mapM asEdit
      | .error _ => pure []
    match cloneMetaAll deep fuel stores h0 with
    | .error .fuel => return obj [("outcome", "fuel")]
    | .error (.unsupported why) => return obj [("outcome", "unsupported"), ("why", why)]
    | .ok (stores', h1) =>
      let sameObs : Json := match j.getObjValAs? Nat "obs" with
        | .ok k => toJson ((stores.zip stores').all fun p =>
            decide (obsStore k h1 p.2 = obsStore k h0 p.1))
        | .error _ => Json.null
      let mut h := h1
      let mut outs : Array Json := #[]
      for e in edits do
        match applyPyEdit e h with
        | .ok h' => h := h'; outs := outs.push "ok"
        | .error why => outs := outs.push (Json.str why)
      -- `runPyHistory` is the same fold with the outcomes dropped
      let agree := decide (runPyHistory edits h1 = h)
      return obj [("outcome", "ok"), ("stores", Json.arr (stores'.map storeJ).toArray),
                  ("heap", Json.arr (h.map objJ).toArray), ("edits", Json.arr outs),
                  ("history_agrees", agree), ("same_obs", sameObs),
                  ("base", toJson h0.length),
                  ("heap_closed", heapClosedB h0), ("stores_ok", stores.all (storeOkB h0))]
  | _ => none

end IrVerif.Drive.CloneMeta

import IrVerif.Drive.Util
import IrVerif.Model.WriterN
import IrVerif.Model.WriterNC
import IrVerif.Model.WriterPlan
import IrVerif.Model.WriterFlatN
import IrVerif.Drive.Writer
import Std.Data.HashSet
/-! Protocol handler for the general (nested) writer transition system (C09).
`writern.run {cfg, sched}` / `writern.cover {cfg, maxStates}`: as `writer.run` / `writer.cover`;
labels are `[0,q,c]` owner of pool q, `[1,q,0]` take, `[2,q,0]` exit, `[3,i,0]` task i.
With `"nc": true` both use the transition system of the writer without a callback (`stepNC`).
`writern.plan {ts, maxShard, al, athr, workers, capacity}`: the configuration `planCfg` builds from the
arguments of the save (offsets, shards, pool tree, start images), or null; when the tensor entries carry
`external` instead of `size` (and the request a `chunk`), the reservations are computed by `reservationBytes`
(`planArgs`).
`writern.copyreads {chunk, len, external}`: buffer sizes of the copy loop of `ExternalTensor.tofile`, `peakBytes`
and `reservationBytes`.
`writern.flat {cfg (flat), sched (flat labels)}`: the one-pool configuration `toN cfg` and whether the flat run,
translated state by state (`absState`), is the general model's run on it (`C09_flat_is_general`). -/
open Lean IrVerif.Drive
namespace IrVerif.Drive.WriterN
open IrVerif.WriterN

def getOptNat (j : Json) (k : String) : Except String (Option Nat) :=
  match j.getObjVal? k with
  | .ok Json.null => pure none
  | .ok v => do let n ← (fromJson? v : Except String Nat); pure (some n)
  | .error _ => pure none

def getTensor (j : Json) : Except String Tensor := do
  return { obj := ← getNat j "obj", size := ← getNat j "size", fails := ← getBool j "fails",
           cbFails := ← getBool j "cbFails", job := ← getNat j "job", file := ← getNat j "file",
           off := ← getNat j "off", data := ← getNats j "data" }

def getPool (j : Json) : Except String PoolCfg := do
  return { size := ← getNat j "size", asCompleted := ← getBool j "asCompleted",
           jobs := ← getNats j "jobs", innerCb := ← getBool j "innerCb", parent := ← getOptNat j "parent" }

def getJob (j : Json) : Except String JobCfg := do
  return { pool := ← getNat j "pool", start := ← getNat j "start", sub := ← getOptNat j "sub" }

def getCfg (j : Json) : Except String Cfg := do
  let c ← j.getObjVal? "cfg"
  let fs ← (← getArr c "files").mapM fun f => do
    let a ← (fromJson? f : Except String (Array Nat))
    return a.toList
  return { capacity := ← getNat c "capacity", nObjs := ← getNat c "nObjs",
           tensors := ← (← getArr c "tensors").mapM getTensor,
           pools := ← (← getArr c "pools").mapM getPool,
           jobs := ← (← getArr c "jobs").mapM getJob, files := fs }

def getTSpec (j : Json) : Except String TSpec := do
  return { obj := ← getNat j "obj", size := ← getNat j "size", fails := ← getBool j "fails",
           cbFails := ← getBool j "cbFails", data := ← getNats j "data" }

def getTArg (j : Json) : Except String TArg := do
  return { obj := ← getNat j "obj", external := ← getBool j "external", fails := ← getBool j "fails",
           cbFails := ← getBool j "cbFails", data := ← getNats j "data" }

/-- a tensor entry of `writern.plan`: with `size` a `TSpec` as it is, with `external` a `TArg` whose reservation
    `reservationBytes chunk` computes -/
def getPlanT (chunk : Nat) (j : Json) : Except String TSpec :=
  match j.getObjVal? "size" with
  | .ok _ => getTSpec j
  | .error _ => do return (← getTArg j).spec chunk

/-- the flat run translated state by state is the general model's run on `toN cfg` -/
def flatAgree (cfg : IrVerif.Writer.Cfg) : IrVerif.Writer.State → State → List IrVerif.Writer.Label → Bool
  | s, t, [] => decide (IrVerif.Writer.absState s = t)
  | s, t, l :: ls =>
    decide (IrVerif.Writer.absState s = t) &&
      match IrVerif.Writer.step cfg s l, step (IrVerif.Writer.toN cfg) t (IrVerif.Writer.absLabel l) with
      | some s', some t' => flatAgree cfg s' t' ls
      | none, none => true
      | _, _ => false

def optNatJ : Option Nat → Json
  | none => Json.null
  | some n => toJson n

def cfgJ (c : Cfg) : Json :=
  obj [("capacity", toJson c.capacity), ("nObjs", toJson c.nObjs),
       ("tensors", Json.arr (c.tensors.map fun t =>
          obj [("obj", toJson t.obj), ("size", toJson t.size), ("fails", toJson t.fails),
               ("cbFails", toJson t.cbFails), ("job", toJson t.job), ("file", toJson t.file),
               ("off", toJson t.off), ("data", natsJ t.data)]).toArray),
       ("pools", Json.arr (c.pools.map fun p =>
          obj [("size", toJson p.size), ("asCompleted", toJson p.asCompleted), ("jobs", natsJ p.jobs),
               ("innerCb", toJson p.innerCb), ("parent", optNatJ p.parent)]).toArray),
       ("jobs", Json.arr (c.jobs.map fun jb =>
          obj [("pool", toJson jb.pool), ("start", toJson jb.start), ("sub", optNatJ jb.sub)]).toArray),
       ("files", Json.arr (c.files.map natsJ).toArray)]

def getLabel (j : Json) : Except String Label := do
  let a ← (fromJson? j : Except String (Array Nat))
  match a.toList with
  | [0, q, c] => return .owner q c
  | [1, q, _] => return .take q
  | [2, q, _] => return .exit q
  | [3, i, _] => return .task i
  | _ => throw "bad label"

def labelJ : Label → Json
  | .owner q c => natsJ [0, q, c]
  | .take q => natsJ [1, q, 0]
  | .exit q => natsJ [2, q, 0]
  | .task i => natsJ [3, i, 0]

def pcS : Pc → String
  | .notStarted => "notStarted" | .cbAcqIn => "cbAcqIn" | .cbAcq => "cbAcq" | .cbBody => "cbBody"
  | .tAcq => "tAcq" | .bAcq => "bAcq" | .waiting => "waiting" | .woken => "woken" | .write => "write"
  | .bRel true => "bRelOk" | .bRel false => "bRelErr"
  | .done true => "doneOk" | .done false => "doneErr"

def futS : Fut → String
  | .pending => "pending" | .running => "running" | .cancelled => "cancelled"
  | .ok => "ok" | .err => "err"

def ownerS : OwnerPc → String
  | .notCreated => "notCreated" | .submit _ => "submit" | .collect => "collect" | .join _ => "join"
  | .closed false => "returned" | .closed true => "raised"

def stepF (nc : Bool) (cfg : Cfg) (s : State) (l : Label) : Option State :=
  if nc then stepNC cfg s l else step cfg s l

def getNc (j : Json) : Bool :=
  match j.getObjVal? "nc" with
  | .ok (Json.bool b) => b
  | _ => false

def choices (nc : Bool) (cfg : Cfg) (s : State) : List Label :=
  let owners : List Label := (List.range cfg.nPools).flatMap fun q =>
    match (s.pools.getD q default).owner, (cfg.pool q).asCompleted with
    | .collect, true => (cfg.pool q).jobs.map (Label.owner q)
    | _, _ => [Label.owner q 0]
  let pool : List Label := (List.range cfg.nPools).flatMap fun q => [Label.take q, Label.exit q]
  (owners ++ pool ++ (List.range cfg.n).map Label.task).filter fun l => (stepF nc cfg s l).isSome

def boolsJ (bs : List Bool) : Json := Json.arr (bs.map (fun (b : Bool) => toJson b)).toArray

def poolJ (P : PoolSt) : Json :=
  obj [("owner", Json.str (ownerS P.owner)), ("queue", natsJ P.queue), ("idle", toJson P.idle),
       ("exited", toJson P.exited), ("shutdown", toJson P.shutdown)]

def obsJ (nc : Bool) (cfg : Cfg) (s : State) (withFiles : Bool) : Json :=
  obj ([("pools", Json.arr (s.pools.map poolJ).toArray),
        ("futs", strsJ (s.futs.map futS)),
        ("tasks", strsJ (s.tasks.map pcS)),
        ("cb", toJson s.cbLock), ("cbin", boolsJ s.cbIn), ("tl", boolsJ s.tLocks),
        ("inflight", toJson s.inFlight), ("oversized", toJson s.oversized),
        ("log", natsJ s.log),
        ("enabled", Json.arr ((choices nc cfg s).map labelJ).toArray),
        ("terminal", toJson (terminal s))]
       ++ (if withFiles then [("files", Json.arr (s.files.map natsJ).toArray)] else []))

def runObs (nc : Bool) (cfg : Cfg) : State → List Label → Nat → Array Json → Array Json × Option Nat × State
  | s, [], _, acc => (acc, none, s)
  | s, l :: ls, k, acc =>
      match stepF nc cfg s l with
      | none => (acc, some k, s)
      | some s' => runObs nc cfg s' ls (k + 1) (acc.push (obsJ nc cfg s' false))

structure CoverSt where
  seen : Std.HashSet State := {}
  scheds : Array (List Label) := #[]
  edges : Nat := 0
  deadlocks : Nat := 0
  truncated : Bool := false

partial def complete (nc : Bool) (cfg : Cfg) (s : State) (rev : List Label) : List Label :=
  match choices nc cfg s with
  | [] => rev.reverse
  | l :: _ => match stepF nc cfg s l with
    | some s' => complete nc cfg s' (l :: rev)
    | none => rev.reverse

partial def dfs (nc : Bool) (cfg : Cfg) (maxStates : Nat) (s : State) (rev : List Label) :
    StateM CoverSt Unit := do
  let ls := choices nc cfg s
  if ls.isEmpty then
    modify fun c => { c with scheds := c.scheds.push rev.reverse
                             deadlocks := c.deadlocks + (if terminal s then 0 else 1) }
  else
    for l in ls do
      match stepF nc cfg s l with
      | none => pure ()
      | some s' =>
          modify fun c => { c with edges := c.edges + 1 }
          let c ← get
          if c.seen.contains s' then
            modify fun c => { c with scheds := c.scheds.push (complete nc cfg s' (l :: rev)) }
          else if c.seen.size ≥ maxStates then
            modify fun c => { c with truncated := true
                                     scheds := c.scheds.push (complete nc cfg s' (l :: rev)) }
          else
            modify fun c => { c with seen := c.seen.insert s' }
            dfs nc cfg maxStates s' (l :: rev)

def handle : Handler := fun m j =>
  match m with
  | "writern.run" => some do
      let cfg ← getCfg j
      let sched ← (← getArr j "sched").mapM getLabel
      let nc := getNc j
      let s0 := init cfg
      let (obs, stuck, sEnd) := runObs nc cfg s0 sched 0 #[obsJ nc cfg s0 false]
      return obj [("obs", Json.arr obs), ("stuck", match stuck with | some k => toJson k | none => Json.null),
                  ("final", obsJ nc cfg sEnd true),
                  ("wf", toJson (wfb cfg && layoutb cfg && preallocb cfg && (!nc || ncb cfg))),
                  ("serial", Json.arr ((serialFiles cfg).map natsJ).toArray)]
  | "writern.cover" => some do
      let cfg ← getCfg j
      let maxStates ← getNat j "maxStates"
      let nc := getNc j
      let s0 := init cfg
      let ((), c) := (dfs nc cfg maxStates s0 []).run { seen := ({} : Std.HashSet State).insert s0 }
      return obj [("scheds", Json.arr (c.scheds.map fun sc => Json.arr (sc.map labelJ).toArray)),
                  ("states", toJson c.seen.size), ("edges", toJson c.edges),
                  ("deadlocks", toJson c.deadlocks), ("truncated", toJson c.truncated),
                  ("wf", toJson (wfb cfg && layoutb cfg && preallocb cfg && (!nc || ncb cfg)))]
  | "writern.plan" => some do
      let chunk := match getNat j "chunk" with | .ok c => c | .error _ => copyChunkSize
      let ts ← (← getArr j "ts").mapM (getPlanT chunk)
      let maxShard ← getOptNat j "maxShard"
      let al ← getOptNat j "al"
      match planCfg ts maxShard al (← getNat j "athr") (← getNat j "workers") (← getNat j "capacity") with
      | none => return obj [("cfg", Json.null)]
      | some cfg =>
          return obj [("cfg", cfgJ cfg), ("wf", toJson (wfb cfg)), ("layout", toJson (layoutb cfg)),
                      ("prealloc", toJson (preallocb cfg)),
                      ("shards", toJson (shardsOf ts maxShard al (← getNat j "athr")).length)]
  | "writern.copyreads" => some do
      let chunk := match getNat j "chunk" with | .ok c => c | .error _ => copyChunkSize
      let len ← getNat j "len"
      let ext ← getBool j "external"
      let a : TArg := { obj := 0, external := ext, fails := false, cbFails := false, data := List.replicate len 0 }
      return obj [("reads", natsJ (copyReads chunk len len)), ("peak", toJson (peakBytes chunk a)),
                  ("reservation", toJson (reservationBytes chunk ext len))]
  | "writern.flat" => some do
      let fcfg ← IrVerif.Drive.Writer.getCfg j
      let sched ← (← getArr j "sched").mapM IrVerif.Drive.Writer.getLabel
      let g := IrVerif.Writer.toN fcfg
      return obj [("cfg", cfgJ g), ("wf", toJson (wfb g)),
                  ("agree", toJson (flatAgree fcfg (IrVerif.Writer.init fcfg) (init g) sched))]
  | _ => none

end IrVerif.Drive.WriterN

import IrVerif.Drive.Util
import IrVerif.Drive.Scope
import IrVerif.Drive.ScopeMeta
import IrVerif.Model.ScopeExt9
/-! Protocol handler for the IR version < 10 format of the extended model (`IrVerif.Model.ScopeExt9`, C17 / C03).

`scope.medeser9` {"p": GraphE, "funcs": [FuncE], "ver": int}: `deserializeME9`, `serializeME9 ver`, and both again
`scope.meser9`   {"w": MWorld, "ext": Ext, "ver": int}: `serializeME9 ver`, again on the world left by it, `deserializeME9`
of the proto and `serializeME9` of that (reload fix-point).  JSON formats as in Drive/ScopeMeta.lean. -/
open Lean IrVerif.Drive
namespace IrVerif.Drive.ScopeExt9
open IrVerif.Scope IrVerif.Drive.Scope IrVerif.Drive.ScopeMeta

/-- the hypothesis of `C17_ir9_entries_inert` on the extended world -/
def keysNamed (w : MWorldE) : Bool := w.root.inits.all fun kv => (w.st.vals kv.2).name == some kv.1

/-- conclusion of `C17_ext9_entries_inert` / `C03_roundtrip_ext_ir9_partial`, evaluated: the main graph `serializeME9`
    writes (with the experimental entries) and the one `serializeME` writes (without) deserialize to the same world
    and extension state -/
def inertAgrees (ver : Option Int) (w : MWorldE) (Q : ModelE) : Bool :=
  match serializeME ver w with
  | .error _ => false
  | .ok (_, q) =>
    match deserializeE Q.graph, deserializeE q.graph with
    | .ok a, .ok b => (obj (worldEJ a)).compress == (obj (worldEJ b)).compress
    | .error e1, .error e2 => (errJ e1).compress == (errJ e2).compress
    | _, _ => false

def handle : Handler := fun m j =>
  match m with
  | "scope.medeser9" => some do
      let p ← parseModelE j
      let ver : Option Int := (j.getObjValAs? Int "ver").toOption
      match deserializeME9 p with
      | .error e => return obj [("ok", toJson false), ("err", errJ e)]
      | .ok w =>
        let extra : List (String × Json) :=
          match serializeME9 ver w with
          | .error e => [("ser_ok", toJson false), ("ser_err", eerrJ e)]
          | .ok (_, q) =>
            [("inert_agrees", toJson (inertAgrees ver w q))] ++
            match deserializeME9 q with
            | .error _ => [("ser_ok", toJson true), ("q", modelEJ q), ("deser2_ok", toJson false)]
            | .ok w2 =>
              match serializeME9 ver w2 with
              | .error _ => [("ser_ok", toJson true), ("q", modelEJ q), ("deser2_ok", toJson true),
                  ("ser2_ok", toJson false)]
              | .ok (_, q2) => [("ser_ok", toJson true), ("q", modelEJ q), ("deser2_ok", toJson true),
                  ("ser2_ok", toJson true), ("q2", modelEJ q2)]
        -- erasure (C17_ext9_erasure), evaluated: the core of the extended run is the core run
        let erased : Bool := match deserializeM9 (eraseM p) with
          | .ok c => (mworldJ c).compress == (mworldJ w.core).compress
          | .error _ => false
        -- main-graph part of `C17_ext9_reloadable` (decision procedure of Model/ScopeCert.lean): `false` is a model /
        -- driver defect
        return obj ([("ok", toJson true), ("init_keys_named", toJson (keysNamed w)), ("erasure_agrees", toJson erased),
          ("reloadable_ext_root", toJson (reloadableEB ⟨w.st, w.ext, w.root⟩))]
          ++ mworldEJ w ++ extra)
  | "scope.meser9" => some do
      let w0 ← parseMWorld (j.getObjValD "w")
      let x ← parseExt (j.getObjValD "ext")
      let ver : Option Int := (j.getObjValAs? Int "ver").toOption
      let w : MWorldE := ⟨w0.st, x, w0.root, w0.funcs⟩
      match serializeME9 ver w with
      | .error e => return obj [("ser_ok", toJson false), ("ser_err", eerrJ e)]
      | .ok (w1, p) =>
        let twice : List (String × Json) :=
          match serializeME9 ver w1 with
          | .error _ => [("ser2_ok", toJson false)]
          | .ok (_, p2) => [("ser2_ok", toJson true), ("p2", modelEJ p2)]
        let rt : List (String × Json) :=
          match deserializeME9 p with
          | .error e => [("deser_ok", toJson false), ("err", errJ e)]
          | .ok w2 =>
            let fix : Bool := match serializeME9 ver w2 with
              | .ok (_, p3) => (modelEJ p3).compress == (modelEJ p).compress
              | .error _ => false
            [("deser_ok", toJson true), ("world2", mworldJ w2.core), ("ext2", extJ w2.st w2.ext),
              ("reload_fixpoint", toJson fix)]
        -- main-graph part of the hypothesis `ReloadableME` of `C03_roundtrip_ext_ir9_partial` (decision procedure of
        -- Model/ScopeCert.lean) and the main-graph conclusion
        return obj ([("ser_ok", toJson true), ("init_keys_named", toJson (keysNamed w)),
          ("reloadable_ext_root", toJson (reloadableEB ⟨w.st, w.ext, w.root⟩)),
          ("inert_agrees", toJson (inertAgrees ver w p)), ("p", modelEJ p)] ++ twice ++ rt)
  | _ => none

end IrVerif.Drive.ScopeExt9

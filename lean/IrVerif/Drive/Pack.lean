import IrVerif.Drive.Util
import IrVerif.Model.Pack
open Lean IrVerif.Drive
namespace IrVerif.Drive.Pack
open IrVerif.Pack

def handle : Handler := fun m j =>
  match m with
  | "pack.pack4" => some do return obj [("r", natsJ (pack4 (← getNats j "xs")))]
  | "pack.pack2" => some do return obj [("r", natsJ (pack2 (← getNats j "xs")))]
  | "pack.unpack4" => some do return obj [("r", natsJ (unpack4 (← getNats j "bs") (← getNat j "n")))]
  | "pack.unpack2" => some do return obj [("r", natsJ (unpack2 (← getNats j "bs") (← getNat j "n")))]
  | "pack.nbytes" => some do return obj [("r", toJson (nbytes (← getNat j "size") (← getNat j "bw")))]
  | "pack.tobytes" => some do return obj [("r", natsJ (tobytes (← getNat j "bw") (← getNats j "xs")))]
  | _ => none

end IrVerif.Drive.Pack

import IrVerif.Drive.Util
import IrVerif.Model.Pack
import IrVerif.Model.TensorRepr
import IrVerif.Model.Strided
open Lean IrVerif.Drive
namespace IrVerif.Drive.Pack
open IrVerif.Pack IrVerif.TensorRepr

/-! Protocol handler for the C04 models: `pack.*` (Model/Pack.lean) and `trepr.*`
(Model/TensorRepr.lean).  Element types travel as their integer codes. -/

def getOptNat (j : Json) (k : String) : Except String (Option Nat) :=
  match j.getObjVal? k with
  | .ok .null => pure none
  | .ok v => do let n : Nat ← fromJson? v; pure (some n)
  | .error _ => pure none

def getOptNats (j : Json) (k : String) : Except String (Option (List Nat)) :=
  match j.getObjVal? k with
  | .ok .null => pure none
  | .ok v => do let a : Array Nat ← fromJson? v; pure (some a.toList)
  | .error _ => pure none

def getNatsD (j : Json) (k : String) : Except String (List Nat) := do
  return (← getOptNats j k).getD []

def getIntsD (j : Json) (k : String) : Except String (List Int) :=
  match j.getObjVal? k with
  | .ok .null => pure []
  | .ok v => do let a : Array Int ← fromJson? v; pure a.toList
  | .error _ => pure []

/-- the content of a data file: `file_pad` pattern bytes (`(37 i + 11) mod 251`) followed by `file`
    (keeps requests small when the tensor sits at a large offset); `none` when there is no file -/
def getFile (j : Json) : Except String (Option (List Nat)) := do
  match ← getOptNats j "file" with
  | none => return none
  | some bytes =>
    let pad := (← getOptNat j "file_pad").getD 0
    return some ((List.range pad).map (fun i => (37 * i + 11) % 251) ++ bytes)

def getDType (j : Json) (k : String) : Except String DType := do
  let c ← getNat j k
  match DType.ofCode c with
  | some d => pure d
  | none => throw s!"not an element type code: {c}"

def protoOfJson (j : Json) : Except String Proto := do
  let ext ← match j.getObjVal? "ext" with
    | .ok .null => pure none
    | .ok e => do pure (some ((← getOptNat e "offset"), (← getOptNat e "length")))
    | .error _ => pure none
  return { dataType := ← getNat j "d", dims := ← getNats j "dims", rawData := ← getOptNats j "raw",
           int32Data := ← getIntsD j "i32", int64Data := ← getIntsD j "i64",
           uint64Data := ← getNatsD j "u64", floatData := ← getNatsD j "f32",
           doubleData := ← getNatsD j "f64", external := ext }

/-- a strided array: shape, byte strides, byte offset, storage bytes, itemsize, byte order -/
def arrOfJson (j : Json) : Except String IrVerif.Strided.Arr := do
  return { shape := ← getNats j "dims", strides := ← getInts j "strides", offset := ← getNat j "offset",
           storage := ← getNats j "storage", itemsize := ← getNat j "itemsize",
           bigEndian := ← getBool j "be", complex := ← getBool j "cplx" }

partial def repOfJson (j : Json) : Except String Rep := do
  match ← getStr j "k" with
  | "strided" => return (← arrOfJson j).toRep (← getDType j "d") (← getBool j "nd")
  | "tstrided" => return (← arrOfJson j).toTorchRep (← getDType j "d")
  | "array" => return .array (← getDType j "d") (← getNats j "dims") (← getNats j "elems")
  | "arraymem" =>
    return .arrayMem (← getDType j "d") (← getNats j "dims") (← getNats j "mem") (← getBool j "be")
      (← getBool j "nd")
  | "torch" =>
    -- either the elements, or a larger storage and the view's storage_offset
    match ← getOptNats j "storage" with
    | some st =>
      let dims ← getNats j "dims"
      return .torch (← getDType j "d") dims (torchView st (← getNat j "offset") (prod dims))
    | none => return .torch (← getDType j "d") (← getNats j "dims") (← getNats j "elems")
  | "packed" =>
    return .packed { dtype := ← getDType j "d", dims := ← getNats j "dims", raw := ← getNats j "raw" }
  | "proto" => return .proto (← protoOfJson j)
  | "external" =>
    return .external { dtype := ← getDType j "d", dims := ← getNats j "dims",
                       offset := ← getOptNat j "offset", length := ← getOptNat j "length" }
                     (← getFile j)
  | "lazy" => return .lazy (← getDType j "d") (← getNats j "dims") (← repOfJson (← j.getObjVal? "inner"))
  | k => throw s!"unknown representation kind {k}"

def optNatJ : Option Nat → Json
  | some n => toJson n
  | none => Json.null

def optNatsJ : Option (List Nat) → Json
  | some xs => natsJ xs
  | none => Json.null

def protoJ (p : Proto) : Json :=
  obj [("k", Json.str "proto"), ("d", toJson p.dataType), ("dims", natsJ p.dims),
       ("raw", optNatsJ p.rawData), ("i32", intsJ p.int32Data), ("i64", intsJ p.int64Data),
       ("u64", natsJ p.uint64Data), ("f32", natsJ p.floatData), ("f64", natsJ p.doubleData),
       ("ext", match p.external with
               | some (o, l) => obj [("offset", optNatJ o), ("length", optNatJ l)]
               | none => Json.null)]

def rJ {α : Type} (f : α → Json) : R α → Json
  | .ok a => f a
  | .error e => obj [("raised", Json.str e)]

def destOfJson (j : Json) : Except String Dest := do
  return { img := ← getNats j "img", pos := ← getNat j "pos", append := ← getBool j "append",
           regular := ← getBool j "regular" }

def destJ (r : Rep) (f : Dest) : Json :=
  rJ (fun (p : Dest × Bool) =>
    obj [("img", natsJ p.1.img), ("pos", toJson p.1.pos), ("raised", toJson p.2)]) (r.tofileAt f)

/-- every observable of a representation, and `tofile` into each of the given destinations -/
def observe (r : Rep) (dests : List Dest) : Json :=
  obj [("dtype", rJ (fun d => toJson d.code) r.dtype), ("shape", natsJ r.shape),
       ("nbytes", rJ (fun (n : Nat) => toJson n) r.nbytes), ("numpy", rJ natsJ r.numpy),
       ("tobytes", rJ natsJ r.tobytes),
       ("tofile", rJ (fun (p : List Nat × Bool) => obj [("bytes", natsJ p.1), ("raised", toJson p.2)])
                    r.tofile),
       ("serialize", rJ protoJ (serialize r)),
       ("dests", Json.arr ((dests.map (destJ r)).toArray))]

def codesJ (p : DType → Bool) : Json := natsJ ((DType.all.filter p).map DType.code)

def optStrJ : Option String → Json
  | some s => Json.str s
  | none => Json.null

def tables : Json :=
  obj [("members", Json.arr ((DType.all.zip DType.names).map
          (fun (d, n) => obj [("code", toJson d.code), ("name", Json.str n)])).toArray),
       ("bitwidth", Json.arr (DType.bitwidthTable.map
          (fun (d, b) => Json.arr #[toJson d.code, toJson b])).toArray),
       ("np", Json.arr (DType.npTable.map
          (fun (s, d) => Json.arr #[Json.str s, toJson d.code])).toArray),
       ("np_itemsize", Json.arr (DType.npItemsizeTable.map
          (fun (s, b) => Json.arr #[Json.str s, toJson b])).toArray),
       ("short", Json.arr (DType.shortNameTable.map
          (fun (d, s) => Json.arr #[toJson d.code, Json.str s])).toArray),
       ("per_type", Json.arr (DType.all.map (fun d =>
          obj [("code", toJson d.code), ("bitwidth", optNatJ d.bitwidth),
               ("np_name", optStrJ d.npName), ("short_name", optStrJ d.shortName),
               ("from_short", optNatJ ((d.shortName.bind DType.ofShortName).map DType.code)),
               ("from_np", optNatJ ((d.npName.bind DType.ofNpName).map DType.code)),
               ("np_itembytes", toJson (npItemBytes d)),
               ("is_floating_point", toJson d.isFloatingPoint), ("is_integer", toJson d.isInteger),
               ("is_signed", toJson d.isSigned)])).toArray),
       ("torch_mapped", codesJ DType.torchMapped)]

def handle : Handler := fun m j =>
  match m with
  | "pack.pack4" => some do return obj [("r", natsJ (pack4 (← getNats j "xs")))]
  | "pack.pack2" => some do return obj [("r", natsJ (pack2 (← getNats j "xs")))]
  | "pack.unpack4" => some do return obj [("r", natsJ (unpack4 (← getNats j "bs") (← getNat j "n")))]
  | "pack.unpack2" => some do return obj [("r", natsJ (unpack2 (← getNats j "bs") (← getNat j "n")))]
  | "pack.nbytes" => some do return obj [("r", toJson (nbytes (← getNat j "size") (← getNat j "bw")))]
  | "pack.tobytes" => some do return obj [("r", natsJ (tobytes (← getNat j "bw") (← getNats j "xs")))]
  | "trepr.tables" => some (pure tables)
  | "trepr.obs" => some do
      let r ← repOfJson (← j.getObjVal? "repr")
      let dests ← match j.getObjVal? "dests" with
        | .ok (.arr ds) => ds.toList.mapM destOfJson
        | _ => pure []
      return observe r dests
  | "trepr.deserialize" => some do
      let p ← protoOfJson (← j.getObjVal? "proto")
      let file ← getFile j
      return rJ (fun r => observe r []) (deserialize p file)
  | "pack.bits" => some do
      let bits := bitStream (← getNats j "bs")
      return obj [("r", Json.arr (bits.map (fun (b : Bool) => toJson b)).toArray)]
  | "pack.elembits" => some do
      let bits := elemStream (← getNat j "bw") (← getNats j "xs") (← getNat j "nb")
      return obj [("r", Json.arr (bits.map (fun (b : Bool) => toJson b)).toArray)]
  | "strided.obs" => some do
      let r ← j.getObjVal? "repr"
      let a ← arrOfJson r
      let d ← getDType r "d"
      let nd := (getBool r "nd").toOption.getD false
      let hyp := a.inBounds && a.storage.all (· < 256) && d.bitwidth.isSome && a.itemsize == npItemBytes d
      return obj [("tobytes", rJ natsJ (a.tobytes d nd)), ("torch_tobytes", rJ natsJ (a.torchTobytes d)),
                  ("units", natsJ a.units), ("in_bounds", toJson a.inBounds), ("hyp", toJson hyp),
                  ("count", toJson a.items.length), ("np_check", toJson a.npCheck),
                  ("torch_check", toJson a.torchCheck), ("span_ok", toJson a.spanOk),
                  ("nonempty_storage", toJson (a.storage.length != 0))]
  | "strided.check" => some do
      -- the constructor checks alone (out-of-bounds descriptions included)
      let a ← arrOfJson (← j.getObjVal? "repr")
      return obj [("np_check", toJson a.npCheck), ("torch_check", toJson a.torchCheck),
                  ("in_bounds", toJson a.inBounds), ("span_ok", toJson a.spanOk)]
  | "trepr.packle" => some do
      return obj [("r", natsJ (packLE (← getNat j "bw") (← getNats j "xs")))]
  | _ => none

end IrVerif.Drive.Pack

import Lean.Data.Json
/-! Helpers shared by the per-model protocol handlers (`IrVerif/Drive/*.lean`).
A handler has type `String → Lean.Json → Option (Except String Lean.Json)`: `none` when the
command does not belong to it. -/
open Lean
namespace IrVerif.Drive

abbrev Handler := String → Json → Option (Except String Json)

def getNat (j : Json) (k : String) : Except String Nat := j.getObjValAs? Nat k
def getInt (j : Json) (k : String) : Except String Int := j.getObjValAs? Int k
def getStr (j : Json) (k : String) : Except String String := j.getObjValAs? String k
def getBool (j : Json) (k : String) : Except String Bool := j.getObjValAs? Bool k
def getNats (j : Json) (k : String) : Except String (List Nat) := do
  let a ← j.getObjValAs? (Array Nat) k
  return a.toList
def getInts (j : Json) (k : String) : Except String (List Int) := do
  let a ← j.getObjValAs? (Array Int) k
  return a.toList
def getStrs (j : Json) (k : String) : Except String (List String) := do
  let a ← j.getObjValAs? (Array String) k
  return a.toList
def getArr (j : Json) (k : String) : Except String (List Json) := do
  let a ← j.getObjValAs? (Array Json) k
  return a.toList

def natsJ (xs : List Nat) : Json := Json.arr (xs.map (fun (n : Nat) => toJson n)).toArray
def intsJ (xs : List Int) : Json := Json.arr (xs.map (fun (n : Int) => toJson n)).toArray
def strsJ (xs : List String) : Json := Json.arr (xs.map Json.str).toArray
def obj (kvs : List (String × Json)) : Json := Json.mkObj kvs

end IrVerif.Drive

import IrVerif.Drive.Util
import IrVerif.Model.Device
import IrVerif.Model.DeviceInl
/-! Protocol handler for the C19 model: `device.run` executes a history of operations from the
empty world and returns, after every operation, the outcome and the complete canonical state
(object identities are heap indices), the checker output and the serialized device fields of
every model. -/
open Lean IrVerif.Drive
namespace IrVerif.Drive.Device
open IrVerif.Device

def optIntJ : Option Int → Json
  | none => Json.null
  | some i => toJson i

def dimJ : Dim → Json
  | .int n => toJson n
  | .sym s => Json.str s
  | .unk => Json.null

def shapeJ : Option (List Dim) → Json
  | none => Json.null
  | some sh => Json.arr (sh.map dimJ).toArray

def sdimJ (d : SDim) : Json := Json.arr #[toJson d.axis, dimJ d.dim, toJson d.numShards]

def specJ (s : Spec) : Json :=
  Json.arr #[toJson s.value, intsJ s.device, Json.arr (s.dims.map sdimJ).toArray]

def nodeCfgJ (nc : NodeCfg) : Json :=
  Json.arr #[toJson nc.cfg, Json.arr (nc.specs.map specJ).toArray, optIntJ nc.stage]

def nodeJ (nd : NodeS) : Json :=
  obj [("i", Json.arr (nd.inputs.map (fun o => match o with
          | none => Json.null
          | some (v : Nat) => toJson v)).toArray),
       ("o", natsJ nd.outputs),
       ("d", Json.arr (nd.dev.map nodeCfgJ).toArray),
       ("s", natsJ nd.subgraphs)]

def errJ : Err → Json
  | .cfgEmptyName => "cfgEmptyName"
  | .cfgNotDeclared => "cfgNotDeclared"
  | .cfgImposter => "cfgImposter"
  | .valEmptyName => "valEmptyName"
  | .valNotIO => "valNotIO"
  | .axisRange => "axisRange"
  | .axisRepeat => "axisRepeat"
  | .numShards => "numShards"
  | .deviceRange => "deviceRange"

def pspecJ (p : PSpec) : Json :=
  Json.arr #[Json.str p.tensor, intsJ p.device, Json.arr (p.dims.map sdimJ).toArray]

def pcfgJ (p : PCfg) : Json :=
  Json.arr #[Json.str p.id, Json.arr (p.specs.map pspecJ).toArray, optIntJ p.stage]

def sortNats (l : List Nat) : List Nat := (l.toArray.qsort (· < ·)).toList

/-- per node (ascending node id): the serialized device field, or "raised" for the whole model -/
def serJ (w : World) (ms : ModelS) : Json :=
  match optAll (ms.nodes.map (fun n => serNodeDev w (nodeGated w ms n) (w.node n))) with
  | none => Json.str "raised"
  | some _ =>
    Json.arr ((sortNats ms.nodes).map (fun n =>
      Json.arr #[toJson n, Json.arr (((serNodeDev w (nodeGated w ms n) (w.node n)).getD []).map pcfgJ).toArray])).toArray

/-- per node (ascending node id): the checker's violation kinds for that node, in order -/
def chkJ (w : World) (ms : ModelS) : Json :=
  Json.arr ((sortNats ms.nodes).map (fun n =>
    Json.arr #[toJson n, Json.arr ((checkNode w ms (w.node n)).map errJ).toArray])).toArray

def modelJ (w : World) (_m : Nat) (ms : ModelS) : Json :=
  obj [("g", toJson ms.graph), ("gs", natsJ (sortNats ms.graphs)), ("n", natsJ (sortNats ms.nodes)),
       ("c", natsJ ms.cfgs), ("ir", toJson ms.irVersion), ("f", natsJ ms.funcs),
       ("chk", chkJ w ms), ("ser", serJ w ms)]

def stateJ (w : World) : Json :=
  obj [("values", Json.arr (w.values.map (fun v => Json.arr #[Json.str v.name, shapeJ v.shape])).toArray),
       ("cfgs", Json.arr (w.cfgs.map (fun c =>
          Json.arr #[Json.str c.name, toJson c.numDevices, strsJ c.deviceNames])).toArray),
       ("nodes", Json.arr (w.nodes.map nodeJ).toArray),
       ("graphs", Json.arr (w.graphs.map (fun g => obj [("i", natsJ g.inputs), ("n", natsJ g.nodes), ("t", natsJ g.inits)])).toArray),
       ("models", Json.arr ((List.range w.models.length).map
          (fun m => modelJ w m (w.model m))).toArray)]

def getOptInt (j : Json) (k : String) : Except String (Option Int) :=
  match j.getObjVal? k with
  | .ok Json.null => pure none
  | .ok v => do let i ← fromJson? (α := Int) v; pure (some i)
  | .error _ => pure none

def getOptNat (j : Json) (k : String) : Except String (Option Nat) :=
  match j.getObjVal? k with
  | .ok Json.null => pure none
  | .ok v => do let i ← fromJson? (α := Nat) v; pure (some i)
  | .error _ => pure none

def parseDim (j : Json) : Except String Dim :=
  match j with
  | Json.null => pure .unk
  | Json.str s => pure (.sym s)
  | v => do let i ← fromJson? (α := Int) v; pure (.int i)

def parseShape (j : Json) : Except String (Option (List Dim)) :=
  match j with
  | Json.null => pure none
  | Json.arr a => do let ds ← a.toList.mapM parseDim; pure (some ds)
  | _ => throw "shape"

def getShape (j : Json) (k : String) : Except String (Option (List Dim)) :=
  match j.getObjVal? k with
  | .ok v => parseShape v
  | .error _ => pure none

def parseOptNat (j : Json) : Except String (Option Nat) :=
  match j with
  | Json.null => pure none
  | v => do let i ← fromJson? (α := Nat) v; pure (some i)

def parseSDim (j : Json) : Except String SDim := do
  match j with
  | Json.arr a =>
    if a.size = 3 then
      let axis ← fromJson? (α := Int) a[0]!
      let dim ← parseDim a[1]!
      let k ← fromJson? (α := Int) a[2]!
      pure ⟨axis, dim, k⟩
    else throw "sdim"
  | _ => throw "sdim"

def parseSpec (j : Json) : Except String Spec := do
  match j with
  | Json.arr a =>
    if a.size = 3 then
      let v ← fromJson? (α := Nat) a[0]!
      let devs ← fromJson? (α := Array Int) a[1]!
      let dims ← match a[2]! with
        | Json.arr d => d.toList.mapM parseSDim
        | _ => throw "dims"
      pure ⟨v, devs.toList, dims⟩
    else throw "spec"
  | _ => throw "spec"

/-- `[cfg, [spec...], stage|null]` — the format `nodeCfgJ` prints -/
def parseNodeCfg (j : Json) : Except String NodeCfg := do
  match j with
  | Json.arr a =>
    if a.size = 3 then
      let c ← fromJson? (α := Nat) a[0]!
      let specs ← match a[1]! with
        | Json.arr d => d.toList.mapM parseSpec
        | _ => throw "specs"
      let stage ← match a[2]! with
        | Json.null => pure none
        | v => do let i ← fromJson? (α := Int) v; pure (some i)
      pure ⟨c, specs, stage⟩
    else throw "nodecfg"
  | _ => throw "nodecfg"

/-- parse one operation of the alphabet -/
def parseOp (j : Json) : Except String Op := do
  let op ← getStr j "op"
  match op with
  | "newModel" => pure (.newModel (← getNat j "ir"))
  | "newInput" => pure (.newInput (← getNat j "g") (← getStr j "name") (← getShape j "shape"))
  | "newSubgraph" => pure (.newSubgraph (← getNat j "n"))
  | "newNode" =>
    let ins ← (← getArr j "ins").mapM parseOptNat
    let outs ← (← getArr j "outs").mapM (fun o => do
      let name ← getStr o "name"
      let sh ← getShape o "shape"
      pure (name, sh))
    pure (.newNode (← getNat j "g") ins outs)
  | "removeNode" => pure (.removeNode (← getNat j "g") (← getNat j "n") (← getBool j "safe"))
  | "attachNode" => pure (.attachNode (← getNat j "g") (← getNat j "n"))
  | "newInit" => pure (.newInit (← getNat j "g") (← getStr j "name") (← getShape j "shape"))
  | "setShape" => pure (.setShape (← getNat j "v") (← getShape j "shape"))
  | "setDev" => pure (.setDev (← getNat j "n") (← (← getArr j "dev").mapM parseNodeCfg))
  | "setModelCfgs" => pure (.setModelCfgs (← getNat j "m") (← getNats j "cfgs"))
  | "rename" => pure (.rename (← getNat j "v") (← getStr j "name"))
  | "addCfg" =>
    pure (.addCfg (← getNat j "m") (← getStr j "name") (← getOptInt j "num") (← getStrs j "names"))
  | "removeCfg" =>
    let r ← match j.getObjVal? "byName" with
      | .ok (Json.str s) => pure (CfgRef.byName s)
      | _ => do pure (CfgRef.byObj (← getNat j "c"))
    pure (.removeCfg (← getNat j "m") r (← getBool j "cascade"))
  | "shard" =>
    pure (.shard (← getNat j "n") (← getNat j "v") (← getNat j "c") (← getInt j "axis")
      (← getInt j "k") (← getInts j "devs") (← getOptInt j "stage"))
  | "setStage" => pure (.setStage (← getNat j "n") (← getNat j "c") (← getInt j "stage"))
  | "replaceInput" => pure (.replaceInput (← getNat j "n") (← getInt j "i") (← getOptNat j "v"))
  | "resizeInputs" => pure (.resizeInputs (← getNat j "n") (← getNat j "k"))
  | "resizeOutputs" => pure (.resizeOutputs (← getNat j "n") (← getNat j "k"))
  | "clone" => pure (.clone (← getNat j "m"))
  | "roundTrip" => pure (.roundTrip (← getNat j "m"))
  | "newFunction" => pure (.newFunction (← getNat j "m"))
  | "cloneFunc" => pure (.cloneFunc (← getNat j "m") (← getNat j "i"))
  | "cloneSub" => pure (.cloneSub (← getNat j "n") (← getNat j "g"))
  | _ => throw s!"unknown op {op}"

/-- one protocol line: an operation of the alphabet (through `step`) or the query `shardingOf`;
    returns the new world, the outcome, the query answer and whether `Pre` held -/
def stepOp (w : World) (j : Json) : Except String (World × Res × Json × Bool) := do
  let op ← getStr j "op"
  if op = "shardingOf" then
    let sp := shardingOf (w.node (← getNat j "n")) (← getNat j "v")
    pure (w, .ok, Json.arr (sp.map specJ).toArray, true)
  else
    let o ← parseOp j
    let r := step w o
    -- `PreAny` of `C19_step_any` / `C19_history_any`: `Pre`, or a round trip below IR version 11 of a model with
    -- closed lists and names unique per scope chain
    let legacy := match o with
      | .roundTrip m => decide ((w.model m).irVersion < 11 ∧ Closed w (w.model m) ∧ NamesChain w (w.model m))
      | _ => false
    -- for a round trip: whether the former, stronger hypothesis (names unique across the whole model) holds too
    let out := match o with
      | .roundTrip m => obj [("namesUnique", toJson (decide (NamesUnique w (w.model m)))),
                             ("namesChain", toJson (decide (NamesChain w (w.model m))))]
      | _ => Json.null
    pure (r.1, r.2, out, decide (Pre w o) || legacy)

def resJ : Res → Json
  | .ok => "ok"
  | .raised => "raised"

def runOps (full : Bool) : World → List Json → List Json → Except String (List Json)
  | w, [], acc => pure ((obj [("final", stateJ w)]) :: acc).reverse
  | w, j :: rest, acc => do
    let (w1, r, out, pre) ← stepOp w j
    let st := if full then [("state", stateJ w1)] else []
    runOps full w1 rest (obj ([("res", resJ r), ("out", out), ("pre", toJson pre),
      ("devok", toJson (decide (DevOK w1))), ("named", toJson (decide (Named w1)))] ++ st) :: acc)

/-- `device.inst`: the inliner's instantiation of one body node: `node` = {i, o, d} as printed by `nodeJ`,
    `vm` = [[formal, actual|null], ...], `base` = id of the first new output -/
def instReq (j : Json) : Except String Json := do
  let nj ← j.getObjVal? "node"
  let ins ← (← getArr nj "i").mapM parseOptNat
  let outs ← getNats nj "o"
  let dev ← (← getArr nj "d").mapM parseNodeCfg
  let vm ← (← getArr j "vm").mapM (fun p => do
    match p with
    | Json.arr a =>
      if a.size = 2 then
        let k ← fromJson? (α := Nat) a[0]!
        let t ← parseOptNat a[1]!
        pure (k, t)
      else throw "vm"
    | _ => throw "vm")
  let base ← getNat j "base"
  match instNode vm { inputs := ins, outputs := outs, dev := dev } base with
  | none => pure (obj [("res", "raised")])
  | some nd => pure (obj [("res", "ok"), ("node", nodeJ nd)])


/-- silently run a world-building history -/
def buildWorld : World → List Json → Except String World
  | w, [] => pure w
  | w, j :: rest => do
    let (w1, _, _, _) ← stepOp w j
    buildWorld w1 rest

def parsePairNatNats (j : Json) : Except String (Nat × List Nat) := do
  match j with
  | Json.arr a =>
    if a.size = 2 then
      let k ← fromJson? (α := Nat) a[0]!
      let vs ← fromJson? (α := Array Nat) a[1]!
      pure (k, vs.toList)
    else throw "pair"
  | _ => throw "pair"

def parsePairNat (j : Json) : Except String (Nat × Nat) := do
  match j with
  | Json.arr a =>
    if a.size = 2 then
      let k ← fromJson? (α := Nat) a[0]!
      let v ← fromJson? (α := Nat) a[1]!
      pure (k, v)
    else throw "pair"
  | _ => throw "pair"

/-- `device.inline`: build a world from `ops`, then run the model of `InlinePass` on model `m` with the side
    table `callee` = [[node, body graph], ...], `outs` = [[graph, [value, ...]], ...]; returns the final state,
    the side table, the ghost set `subst`, the theorem's hypotheses and the Lean predicate `WeakOK` -/
def inlineReq (j : Json) : Except String Json := do
  let ops ← getArr j "ops"
  let w ← buildWorld {} ops
  let m ← getNat j "model"
  let fuel ← getNat j "fuel"
  let callee ← (← getArr j "callee").mapM parsePairNat
  let outs ← (← getArr j "outs").mapM parsePairNatNats
  let t : ITab := { callee := callee, outs := outs }
  let hyp := obj [("devok", toJson (decide (DevOK w))), ("heapreg", toJson (decide (HeapReg w m))),
    ("graphids", toJson (decide (GraphIds w)))]
  match inlinePass fuel w m t with
  | none => pure (obj [("res", "raised"), ("hyp", hyp), ("before", stateJ w)])
  | some r =>
    pure (obj [("res", "ok"), ("hyp", hyp), ("before", stateJ w), ("state", stateJ r.w),
      ("callee", Json.arr (r.t.callee.map (fun p => Json.arr #[toJson p.1, toJson p.2])).toArray),
      ("outs", Json.arr ((List.range r.w.graphs.length).map (fun g => natsJ (r.t.outsOf g))).toArray),
      ("subst", natsJ r.subst),
      ("weak", toJson (decide (WeakOK r.w m r.subst)))])

def handle : Handler := fun m j =>
  match m with
  | "device.inst" => some (instReq j)
  | "device.inline" => some (inlineReq j)
  | "device.run" => some do
      let ops ← getArr j "ops"
      let full := (j.getObjValAs? Bool "full").toOption.getD true
      let steps ← runOps full {} ops []
      return obj [("steps", Json.arr steps.toArray)]
  | _ => none

end IrVerif.Drive.Device

import IrVerif.Drive.Util
import IrVerif.Model.Sort
import IrVerif.Model.SortState
import IrVerif.Model.SortIds
/-! Protocol handler for the C12 model (`IrVerif.Sort`).

Requests: `{"m": "sort.sort", "graph": G}` (`r` = `sortModel`, `after` = `sortEffect`, `ids` = `sortIds`, the
transcription with identity-keyed dicts), `{"m": "sort.universe", "graph": G}` with
`G = {"g": gid, "n": [N...]}` and `N = {"i": id, "in": [producer id | null ...], "s": [G...]}`;
`{"m": "sort.pass", "graphs": [G...]}` (TopologicalSortPass over main graph + functions; `partial` = the
containers right after the sorts, before the restore step of fix D201);
`{"m": "sort.hyp", "graph": G}` (the hypotheses `WellScoped` / `OrderedG` of the fixpoint theorems);
`{"m": "sort.relink", "cur": [...], "xs": [...]}`;
`{"m": "sort.state", "events": [E...]}` runs a whole history on the stateful world (`Model/SortState.lean`,
containers = C11's pointer-level model): `E = {"e":"new"}` | `{"e":"op","g":k,"o":"append|extend|ia|ib|rm",...}` |
`{"e":"tables","ins":[[v,[p|null..]]..],"attrs":[[v,[{"g":k}|{"gs":[k..]}..]]..]}` |
`{"e":"sort","g":k,"order":[k..]|null}`; the answer has one record per sort: outcome, write trace, node
sequence of every container afterwards, C11's executable invariant on every container, the keys of
`sorted_nodes_by_graph` and whether the requested re-link order was an arrangement of them. -/
open Lean IrVerif.Drive
namespace IrVerif.Drive.Sort
open IrVerif.Sort

mutual
partial def parseNode (j : Json) : Except String MNode := do
  let i ← getNat j "i"
  let insJ ← getArr j "in"
  let ins ← insJ.mapM (fun x => match x with
    | Json.null => pure (none : Option Nat)
    | x => do let n ← (fromJson? x : Except String Nat); pure (some n))
  let subsJ ← getArr j "s"
  let subs ← subsJ.mapM parseGraph
  return MNode.mk i ins subs
partial def parseGraph (j : Json) : Except String MGraph := do
  let g ← getNat j "g"
  let nsJ ← getArr j "n"
  let ns ← nsJ.mapM parseNode
  return (g, ns)
end

def graphsJ (r : List (Nat × List Nat)) : Json :=
  Json.arr (r.map (fun (p : Nat × List Nat) => Json.arr #[toJson p.1, natsJ p.2])).toArray

def parseSOp (j : Json) : Except String SOp := do
  let e ← getStr j "e"
  match e with
  | "new" => return .newGraph
  | "op" =>
    let g ← getNat j "g"
    let o ← getStr j "o"
    match o with
    | "append" => return .edit g (.append (← getNat j "v"))
    | "extend" => return .edit g (.extend (← getNats j "vs"))
    | "ia" => return .edit g (.insertAfter (← getNat j "a") (← getNats j "vs"))
    | "ib" => return .edit g (.insertBefore (← getNat j "a") (← getNats j "vs"))
    | "rm" => return .edit g (.remove (← getNat j "v"))
    | _ => throw s!"unknown container op {o}"
  | "tables" =>
    let insJ ← getArr j "ins"
    let ins ← insJ.mapM (fun x => do
      let a ← (fromJson? x : Except String (Array Json))
      let v ← (fromJson? a[0]! : Except String Nat)
      let ps ← (fromJson? a[1]! : Except String (Array Json))
      let ps ← ps.toList.mapM (fun y => match y with
        | Json.null => pure (none : Option Nat)
        | y => do let n ← (fromJson? y : Except String Nat); pure (some n))
      pure (v, ps))
    let attrsJ ← getArr j "attrs"
    let attrs ← attrsJ.mapM (fun x => do
      let a ← (fromJson? x : Except String (Array Json))
      let v ← (fromJson? a[0]! : Except String Nat)
      let as ← (fromJson? a[1]! : Except String (Array Json))
      let as ← as.toList.mapM (fun y => match y.getObjValAs? Nat "g" with
        | .ok h => pure (LinkedSet.Attr.graph h)
        | .error _ => do
          let hs ← getNats y "gs"
          pure (LinkedSet.Attr.graphs hs))
      pure (v, as))
    return .tables ins attrs
  | "sort" =>
    let g ← getNat j "g"
    match j.getObjVal? "order" with
    | .ok Json.null => return .sort g none
    | .ok _ => return .sort g (some (← getNats j "order"))
    | .error _ => return .sort g none
  | _ => throw s!"unknown event {e}"

def isPermOf (a b : List Nat) : Bool :=
  a.length == b.length && a.all (fun x => a.count x == b.count x)

def soutJ : SOut → Json
  | .ok => Json.str "ok"
  | .valueError => Json.str "valueError"
  | .recursionError => Json.str "recursionError"

/-- run a history; a requested order that is not an arrangement of the keys is replaced by the
    default order and reported -/
def runState (evs : List SOp) : List Json :=
  let rec go (w : SWorld) : List SOp → List Json
    | [] => []
    | o :: os =>
      match o with
      | .sort g ord =>
        let keys := defaultOrder w g
        let okOrd := match ord with
          | none => true
          | some l => isPermOf l keys
        let st := stepW w (.sort g (if okOrd then ord else none))
        match st.2 with
        | none => go st.1 os
        | some r =>
          obj [("out", soutJ r.out), ("trace", graphsJ r.trace),
            ("after", Json.arr (r.world.rw.sets.map (fun s => natsJ (LinkedSet.toList s))).toArray),
            ("inv", toJson (r.world.rw.sets.all LinkedSet.invOk)),
            ("keys", natsJ keys), ("order_ok", toJson okOrd)] :: go st.1 os
      | o => go (stepW w o).1 os
  go SWorld.init evs

def handle : Handler := fun m j =>
  match m with
  | "sort.sort" => some do
      let g ← parseGraph (← j.getObjVal? "graph")
      let eff := sortEffect g
      let ids := match sortIds g with
        | none => Json.str "raised"
        | some r => graphsJ r
      match sortModel g with
      | none => return obj [("r", Json.str "raised"), ("after", graphsJ eff.2), ("ids", ids)]
      | some r => return obj [("r", graphsJ r), ("after", graphsJ eff.2), ("ids", ids)]
  | "sort.universe" => some do
      let g ← parseGraph (← j.getObjVal? "graph")
      return obj [("r", Json.arr ((nodesOf g).map (fun e =>
        Json.arr #[toJson e.id, toJson e.gid])).toArray)]
  | "sort.pass" => some do
      let gsJ ← getArr j "graphs"
      let gs ← gsJ.mapM parseGraph
      let e := passEffect gs
      return obj [("raised", toJson e.1), ("after", Json.arr (e.2.map graphsJ).toArray),
        ("partial", Json.arr ((passSorts gs).2.map graphsJ).toArray)]
  | "sort.hyp" => some do
      let g ← parseGraph (← j.getObjVal? "graph")
      return obj [("ws", toJson (decide (WellScoped g))),
        ("ordered", Json.arr ((allGraphs g).map (fun h =>
          Json.arr #[toJson h.1, toJson (decide (OrderedG h))])).toArray)]
  | "sort.state" => some do
      let evsJ ← getArr j "events"
      let evs ← evsJ.mapM parseSOp
      return obj [("sorts", Json.arr (runState evs).toArray)]
  | "sort.relink" => some do
      return obj [("r", natsJ (relink (← getNats j "cur") (← getNats j "xs")))]
  | _ => none

end IrVerif.Drive.Sort

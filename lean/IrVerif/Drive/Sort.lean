import IrVerif.Drive.Util
import IrVerif.Model.Sort
/-! Protocol handler for the C12 model (`IrVerif.Sort`).

Requests: `{"m": "sort.sort", "graph": G}`, `{"m": "sort.universe", "graph": G}` with
`G = {"g": gid, "n": [N...]}` and `N = {"i": id, "in": [producer id | null ...], "s": [G...]}`;
`{"m": "sort.pass", "graphs": [G...]}` (TopologicalSortPass over main graph + functions; `partial` = the
containers right after the sorts, before the restore step of fix D201);
`{"m": "sort.hyp", "graph": G}` (the hypotheses `WellScoped` / `OrderedG` of the fixpoint theorems);
`{"m": "sort.relink", "cur": [...], "xs": [...]}`. -/
open Lean IrVerif.Drive
namespace IrVerif.Drive.Sort
open IrVerif.Sort

mutual
partial def parseNode (j : Json) : Except String MNode := do
  let i ← getNat j "i"
  let insJ ← getArr j "in"
  let ins ← insJ.mapM (fun x => match x with
    | Json.null => pure (none : Option Nat)
    | x => do let n ← (fromJson? x : Except String Nat); pure (some n))
  let subsJ ← getArr j "s"
  let subs ← subsJ.mapM parseGraph
  return MNode.mk i ins subs
partial def parseGraph (j : Json) : Except String MGraph := do
  let g ← getNat j "g"
  let nsJ ← getArr j "n"
  let ns ← nsJ.mapM parseNode
  return (g, ns)
end

def graphsJ (r : List (Nat × List Nat)) : Json :=
  Json.arr (r.map (fun (p : Nat × List Nat) => Json.arr #[toJson p.1, natsJ p.2])).toArray

def handle : Handler := fun m j =>
  match m with
  | "sort.sort" => some do
      let g ← parseGraph (← j.getObjVal? "graph")
      let eff := sortEffect g
      match sortModel g with
      | none => return obj [("r", Json.str "raised"), ("after", graphsJ eff.2)]
      | some r => return obj [("r", graphsJ r), ("after", graphsJ eff.2)]
  | "sort.universe" => some do
      let g ← parseGraph (← j.getObjVal? "graph")
      return obj [("r", Json.arr ((nodesOf g).map (fun e =>
        Json.arr #[toJson e.id, toJson e.gid])).toArray)]
  | "sort.pass" => some do
      let gsJ ← getArr j "graphs"
      let gs ← gsJ.mapM parseGraph
      let e := passEffect gs
      return obj [("raised", toJson e.1), ("after", Json.arr (e.2.map graphsJ).toArray),
        ("partial", Json.arr ((passSorts gs).2.map graphsJ).toArray)]
  | "sort.hyp" => some do
      let g ← parseGraph (← j.getObjVal? "graph")
      return obj [("ws", toJson (decide (WellScoped g))),
        ("ordered", Json.arr ((allGraphs g).map (fun h =>
          Json.arr #[toJson h.1, toJson (decide (OrderedG h))])).toArray)]
  | "sort.relink" => some do
      return obj [("r", natsJ (relink (← getNats j "cur") (← getNats j "xs")))]
  | _ => none

end IrVerif.Drive.Sort

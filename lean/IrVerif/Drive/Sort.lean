import IrVerif.Drive.Util
import IrVerif.Model.Sort
import IrVerif.Model.SortState
import IrVerif.Model.SortIds
import IrVerif.Model.SortFull
import IrVerif.Model.Heap
import IrVerif.Model.SortHeap
/-! Protocol handler for the C12 model (`IrVerif.Sort`).

Requests: `{"m": "sort.sort", "graph": G}` (`r` = `sortModel`, `after` = `sortEffect`, `ids` = `sortIds`, the
transcription with identity-keyed dicts), `{"m": "sort.universe", "graph": G}` with
`G = {"g": gid, "n": [N...]}` and `N = {"i": id, "in": [producer id | null ...], "s": [G...]}`;
`{"m": "sort.pass", "graphs": [G...]}` (TopologicalSortPass over main graph + functions; `partial` = the
containers right after the sorts, before the restore step of fix D201);
`{"m": "sort.hyp", "graph": G}` (the hypotheses `WellScoped` / `OrderedG` of the fixpoint theorems);
`{"m": "sort.relink", "cur": [...], "xs": [...]}`;
`{"m": "sort.state", "events": [E...]}` runs a whole history on the stateful world (`Model/SortState.lean`,
containers = C11's pointer-level model): `E = {"e":"new"}` | `{"e":"op","g":k,"o":"append|extend|ia|ib|rm",...}` |
`{"e":"tables","ins":[[v,[p|null..]]..],"attrs":[[v,[{"g":k}|{"gs":[k..]}..]]..]}` |
`{"e":"sort","g":k,"order":[k..]|null}`; the answer has one record per sort: outcome, write trace, node
sequence of every container afterwards, C11's executable invariant on every container, the keys of
`sorted_nodes_by_graph` and whether the requested re-link order was an arrangement of them.
`{"m": "sort.full", "events": [E...]}` runs a history on the FULL world (`Model/SortFull.lean`): the events above plus
`{"e":"recs","nodes":[[id,graph|null,name|null,opType,[outs]]..],"vals":[[id,name|null,null|[locked,tname|null],owner|null]..],
"auths":[[g,vCtr,nCtr,[vNames],[nNames]]..]}` (what the checks and the naming step read, as it is now) and
`{"e":"pass","roots":[k..],"orders":[[k..]|null ..]}` (`TopologicalSortPass.call`: `passF`; also `passW` on the containers
and `passHypB`); a `sort` event runs `sortF`.  Per sort / pass: outcome, write trace, containers, `node.graph` and the
names of the listed nodes / values / tensors, the authorities of the listed graphs, the hypotheses
(`Consistent`, order is an arrangement of `keysF`, C11's invariant, `passHypB`).
`{"m": "sort.heap", "ops": [["push", k] | ["pop"] ...], "init": [k..]}`: `heapq.heapify` / `heappush` / `heappop` on a list
(`Model/Heap.lean`): the list after every operation, the popped keys, the heap invariant after every operation;
`pops` = `runHeap`, `abs` = `runAbs` (the abstract priority queue of `C12_heap_extract_min`).
`sort.full` with `"d392": true` runs the pass events on `passFD` / `passWD` (the pass after the proposed fix D392: only
graph-likes whose order changed are re-extended) instead of `passF` / `passW`; the harness probes the real pass.
`sort.sort` also returns `heap` = `sortHeap` (`Model/SortHeap.lean`, the loop on the binary heap);
`{"m": "sort.heaptrace", "graph": G}`: per iteration of `while priority_queue:` the queue (as positions, in `heapq`'s list
layout) before the `heappop` and the popped node; `final` = the queue when the loop ends. -/
open Lean IrVerif.Drive
namespace IrVerif.Drive.Sort
open IrVerif.Sort

mutual
partial def parseNode (j : Json) : Except String MNode := do
  let i ← getNat j "i"
  let insJ ← getArr j "in"
  let ins ← insJ.mapM (fun x => match x with
    | Json.null => pure (none : Option Nat)
    | x => do let n ← (fromJson? x : Except String Nat); pure (some n))
  let subsJ ← getArr j "s"
  let subs ← subsJ.mapM parseGraph
  return MNode.mk i ins subs
partial def parseGraph (j : Json) : Except String MGraph := do
  let g ← getNat j "g"
  let nsJ ← getArr j "n"
  let ns ← nsJ.mapM parseNode
  return (g, ns)
end

def graphsJ (r : List (Nat × List Nat)) : Json :=
  Json.arr (r.map (fun (p : Nat × List Nat) => Json.arr #[toJson p.1, natsJ p.2])).toArray

def parseSOp (j : Json) : Except String SOp := do
  let e ← getStr j "e"
  match e with
  | "new" => return .newGraph
  | "op" =>
    let g ← getNat j "g"
    let o ← getStr j "o"
    match o with
    | "append" => return .edit g (.append (← getNat j "v"))
    | "extend" => return .edit g (.extend (← getNats j "vs"))
    | "ia" => return .edit g (.insertAfter (← getNat j "a") (← getNats j "vs"))
    | "ib" => return .edit g (.insertBefore (← getNat j "a") (← getNats j "vs"))
    | "rm" => return .edit g (.remove (← getNat j "v"))
    | _ => throw s!"unknown container op {o}"
  | "tables" =>
    let insJ ← getArr j "ins"
    let ins ← insJ.mapM (fun x => do
      let a ← (fromJson? x : Except String (Array Json))
      let v ← (fromJson? a[0]! : Except String Nat)
      let ps ← (fromJson? a[1]! : Except String (Array Json))
      let ps ← ps.toList.mapM (fun y => match y with
        | Json.null => pure (none : Option Nat)
        | y => do let n ← (fromJson? y : Except String Nat); pure (some n))
      pure (v, ps))
    let attrsJ ← getArr j "attrs"
    let attrs ← attrsJ.mapM (fun x => do
      let a ← (fromJson? x : Except String (Array Json))
      let v ← (fromJson? a[0]! : Except String Nat)
      let as ← (fromJson? a[1]! : Except String (Array Json))
      let as ← as.toList.mapM (fun y => match y.getObjValAs? Nat "g" with
        | .ok h => pure (LinkedSet.Attr.graph h)
        | .error _ => do
          let hs ← getNats y "gs"
          pure (LinkedSet.Attr.graphs hs))
      pure (v, as))
    return .tables ins attrs
  | "sort" =>
    let g ← getNat j "g"
    match j.getObjVal? "order" with
    | .ok Json.null => return .sort g none
    | .ok _ => return .sort g (some (← getNats j "order"))
    | .error _ => return .sort g none
  | _ => throw s!"unknown event {e}"

def isPermOf (a b : List Nat) : Bool :=
  a.length == b.length && a.all (fun x => a.count x == b.count x)

def soutJ : SOut → Json
  | .ok => Json.str "ok"
  | .valueError => Json.str "valueError"
  | .recursionError => Json.str "recursionError"

/-- run a history; a requested order that is not an arrangement of the keys is replaced by the
    default order and reported -/
def runState (evs : List SOp) : List Json :=
  let rec go (w : SWorld) : List SOp → List Json
    | [] => []
    | o :: os =>
      match o with
      | .sort g ord =>
        let keys := defaultOrder w g
        let okOrd := match ord with
          | none => true
          | some l => isPermOf l keys
        let st := stepW w (.sort g (if okOrd then ord else none))
        match st.2 with
        | none => go st.1 os
        | some r =>
          obj [("out", soutJ r.out), ("trace", graphsJ r.trace),
            ("after", Json.arr (r.world.rw.sets.map (fun s => natsJ (LinkedSet.toList s))).toArray),
            ("inv", toJson (r.world.rw.sets.all LinkedSet.invOk)),
            ("keys", natsJ keys), ("order_ok", toJson okOrd)] :: go st.1 os
      | o => go (stepW w o).1 os
  go SWorld.init evs


/-! ### the full world -/

def optStrJ : Option String → Json
  | none => Json.null
  | some s => Json.str s
def optNatJ : Option Nat → Json
  | none => Json.null
  | some n => toJson n

def parseOptStr (j : Json) : Except String (Option String) :=
  match j with
  | Json.null => pure none
  | j => do let s ← (fromJson? j : Except String String); pure (some s)
def parseOptNat (j : Json) : Except String (Option Nat) :=
  match j with
  | Json.null => pure none
  | j => do let s ← (fromJson? j : Except String Nat); pure (some s)

inductive FEv where
  | s (o : SOp)
  | recs (nodes : List (Nat × NodeR)) (vals : List (Nat × ValR)) (auths : List (Nat × AuthR))
  | pass (roots : List Nat) (orders : List (Option (List Nat)))

def parseFEv (j : Json) : Except String FEv := do
  let e ← getStr j "e"
  match e with
  | "recs" =>
    let ns ← (← getArr j "nodes").mapM (fun x => do
      let a ← (fromJson? x : Except String (Array Json))
      let i ← (fromJson? a[0]! : Except String Nat)
      let g ← parseOptNat a[1]!
      let nm ← parseOptStr a[2]!
      let op ← (fromJson? a[3]! : Except String String)
      let outs ← (fromJson? a[4]! : Except String (Array Nat))
      pure (i, ({ graph := g, name := nm, opType := op, outputs := outs.toList } : NodeR)))
    let vs ← (← getArr j "vals").mapM (fun x => do
      let a ← (fromJson? x : Except String (Array Json))
      let i ← (fromJson? a[0]! : Except String Nat)
      let nm ← parseOptStr a[1]!
      let c ← (match a[2]! with
        | Json.null => pure none
        | c => do
          let ca ← (fromJson? c : Except String (Array Json))
          let l ← (fromJson? ca[0]! : Except String Bool)
          let tn ← parseOptStr ca[1]!
          pure (some (l, tn)) : Except String (Option (Bool × Option String)))
      let ow ← parseOptNat a[3]!
      pure (i, ({ name := nm, const := c, owner := ow } : ValR)))
    let as ← (← getArr j "auths").mapM (fun x => do
      let a ← (fromJson? x : Except String (Array Json))
      let g ← (fromJson? a[0]! : Except String Nat)
      let vc ← (fromJson? a[1]! : Except String Nat)
      let nc ← (fromJson? a[2]! : Except String Nat)
      let vn ← (fromJson? a[3]! : Except String (Array String))
      let nn ← (fromJson? a[4]! : Except String (Array String))
      pure (g, ({ vCtr := vc, nCtr := nc, vNames := vn.toList, nNames := nn.toList } : AuthR)))
    return .recs ns vs as
  | "pass" =>
    let roots ← getNats j "roots"
    let ords ← (← getArr j "orders").mapM (fun x => match x with
      | Json.null => pure (none : Option (List Nat))
      | x => do let a ← (fromJson? x : Except String (Array Nat)); pure (some a.toList))
    return .pass roots ords
  | _ => return .s (← parseSOp j)

def foutJ : FOut → Json
  | .ok => Json.str "ok"
  | .valueError => Json.str "valueError"
  | .recursionError => Json.str "recursionError"
  | .assertionError => Json.str "assertionError"
  | .refused => Json.str "refused"
  | .late => Json.str "late"

def sortStrs (l : List String) : List String := (l.toArray.qsort (· < ·)).toList

/-- what is observable of the records of the listed nodes / values / graphs -/
def recsJ (w : FWorld) (ns vs gs : List Nat) : List (String × Json) :=
  [("nodes", Json.arr (ns.map (fun n => Json.arr #[toJson n, optNatJ (w.nodes n).graph, optStrJ (w.nodes n).name])).toArray),
   ("vals", Json.arr (vs.map (fun v => Json.arr #[toJson v, optStrJ (w.vals v).name,
      match (w.vals v).const with | none => Json.null | some c => optStrJ c.2])).toArray),
   ("auths", Json.arr (gs.map (fun g => Json.arr #[toJson g, toJson (w.auths g).vCtr, toJson (w.auths g).nCtr,
      strsJ (sortStrs (w.auths g).vNames), strsJ (sortStrs (w.auths g).nNames)])).toArray)]

def absJ (w : SWorld) : Json := Json.arr (w.rw.sets.map (fun s => natsJ (LinkedSet.toList s))).toArray

/-- the re-link orders of the sorts of a pass, resolved in sequence (a missing / impossible order is replaced by
    the default order of that moment); also: were all requested orders arrangements of the keys -/
def resolveOrders : FWorld → List (Nat × Option (List Nat)) → List (Nat × List Nat) × Bool
  | _, [] => ([], true)
  | w, (g, o) :: rest =>
    let keys := defaultOrderF w g
    let okOrd := match o with
      | none => true
      | some l => isPermOf l keys
    let ord := if okOrd then o.getD keys else keys
    let r := sortF w ord g
    if r.out = .ok then
      let rr := resolveOrders r.world rest
      ((g, ord) :: rr.1, okOrd && rr.2)
    else ((g, ord) :: rest.map (fun p => (p.1, p.2.getD [])), okOrd)

def runFull (fixD : Bool) (evs : List FEv) : List Json :=
  let rec go (w : FWorld) (ns vs gs : List Nat) : List FEv → List Json
    | [] => []
    | ev :: os =>
      match ev with
      | .s (.sort g ord) =>
        let keys := defaultOrderF w g
        let okOrd := match ord with
          | none => true
          | some l => isPermOf l keys
        let r := sortF w (if okOrd then ord.getD keys else keys) g
        let cons := match unfoldG w.sw w.sw.fuel g with
          | none => true
          | some t => decide (Consistent w (nodesOf t))
        obj ([("out", foutJ r.out), ("trace", graphsJ r.trace), ("after", absJ r.world.sw),
          ("inv", toJson (r.world.sw.rw.sets.all LinkedSet.invOk)), ("keys", natsJ keys),
          ("order_ok", toJson okOrd), ("consistent", toJson cons),
          ("sw_out", soutJ (sortW w.sw (if okOrd then ord.getD keys else keys) g).out)] ++ recsJ r.world ns vs gs)
          :: go r.world ns vs gs os
      | .s o => go { w with sw := (stepW w.sw o).1 } ns vs gs os
      | .recs n v a =>
        go { w with nodes := fun i => (n.lookup i).getD {}, vals := fun i => (v.lookup i).getD {},
                    auths := fun i => (a.lookup i).getD {} }
          (n.map Prod.fst) (v.map Prod.fst) (a.map Prod.fst) os
      | .pass roots ords =>
        let rs := resolveOrders w (roots.zip (ords ++ List.replicate roots.length none))
        -- `fixD`: the real pass was probed to restore only the graph-likes whose order changed (proposed fix D392)
        let r := if fixD then passFD w rs.1 else passF w rs.1
        let gls := (graphLikes w.sw roots).getD []
        let rw := if fixD then passWD w.sw rs.1 gls else passW w.sw rs.1 gls
        obj ([("out", foutJ r.out), ("trace", graphsJ r.trace), ("after", absJ r.world.sw),
          ("inv", toJson (r.world.sw.rw.sets.all LinkedSet.invOk)), ("gls", natsJ gls),
          ("order_ok", toJson rs.2), ("pass_hyp", toJson (passHypB w.sw rs.1)),
          ("pass_cons", toJson (passConsB w rs.1)), ("pass_disj", toJson (passDisjB w.sw rs.1)),
          ("w_out", soutJ rw.out), ("w_after", absJ rw.world), ("w_trace", graphsJ rw.trace)] ++ recsJ r.world ns vs gs)
          :: go r.world ns vs gs os
  go ⟨SWorld.init, fun _ => {}, fun _ => {}, fun _ => {}⟩ [] [] [] evs

def handle : Handler := fun m j =>
  match m with
  | "sort.sort" => some do
      let g ← parseGraph (← j.getObjVal? "graph")
      let eff := sortEffect g
      let ids := match sortIds g with
        | none => Json.str "raised"
        | some r => graphsJ r
      let hp := match sortHeap g with
        | none => Json.str "raised"
        | some r => graphsJ r
      match sortModel g with
      | none => return obj [("r", Json.str "raised"), ("after", graphsJ eff.2), ("ids", ids), ("heap", hp)]
      | some r => return obj [("r", graphsJ r), ("after", graphsJ eff.2), ("ids", ids), ("heap", hp)]
  | "sort.heaptrace" => some do
      let g ← parseGraph (← j.getObjVal? "graph")
      let u := nodesOf g
      let posJ := fun (h : List Nat) => natsJ (h.map (fun k => u.length - k))
      let rec go : Nat → HState → List Json → List Json × HState
        | 0, s, acc => (acc.reverse, s)
        | f + 1, s, acc =>
          match stepH u (step1 u).preds (nodeIndex u) s with
          | none => (acc.reverse, s)
          | some s' => go f s' (obj [("heap", posJ s.heap), ("pop", toJson (s'.sorted.headD 0)),
              ("inv", toJson (Heap.isHeap s.heap))] :: acc)
      let r := go u.length (kahnHeapInit u) []
      return obj [("steps", Json.arr r.1.toArray), ("final", posJ r.2.heap),
        ("same", toJson (r.2.sorted == (kahnHeap u).sorted))]
  | "sort.universe" => some do
      let g ← parseGraph (← j.getObjVal? "graph")
      return obj [("r", Json.arr ((nodesOf g).map (fun e =>
        Json.arr #[toJson e.id, toJson e.gid])).toArray)]
  | "sort.pass" => some do
      let gsJ ← getArr j "graphs"
      let gs ← gsJ.mapM parseGraph
      let e := passEffect gs
      return obj [("raised", toJson e.1), ("after", Json.arr (e.2.map graphsJ).toArray),
        ("partial", Json.arr ((passSorts gs).2.map graphsJ).toArray)]
  | "sort.hyp" => some do
      let g ← parseGraph (← j.getObjVal? "graph")
      return obj [("ws", toJson (decide (WellScoped g))),
        ("ordered", Json.arr ((allGraphs g).map (fun h =>
          Json.arr #[toJson h.1, toJson (decide (OrderedG h))])).toArray)]
  | "sort.state" => some do
      let evsJ ← getArr j "events"
      let evs ← evsJ.mapM parseSOp
      return obj [("sorts", Json.arr (runState evs).toArray)]
  | "sort.full" => some do
      let evsJ ← getArr j "events"
      let evs ← evsJ.mapM parseFEv
      let fixD := match j.getObjValAs? Bool "d392" with
        | .ok b => b
        | .error _ => false
      return obj [("sorts", Json.arr (runFull fixD evs).toArray)]
  | "sort.heap" => some do
      let init ← getNats j "init"
      let opsJ ← getArr j "ops"
      let ops ← opsJ.mapM (fun x => do
        let a ← (fromJson? x : Except String (Array Json))
        let k ← (fromJson? a[0]! : Except String String)
        if k == "push" then do
          let v ← (fromJson? a[1]! : Except String Nat)
          pure (some v)
        else pure (none : Option Nat))
      let h0 := Heap.heapify init
      let rec run (h : List Nat) : List (Option Nat) → List Json
        | [] => []
        | some v :: os =>
          let h' := Heap.heappush h v
          obj [("heap", natsJ h'), ("inv", toJson (Heap.isHeap h'))] :: run h' os
        | none :: os =>
          let r := Heap.heappop h
          obj [("heap", natsJ r.2), ("pop", optNatJ r.1), ("inv", toJson (Heap.isHeap r.2)),
            ("min", optNatJ (Heap.minOf h))] :: run r.2 os
      return obj [("heap0", natsJ h0), ("inv0", toJson (Heap.isHeap h0)), ("steps", Json.arr (run h0 ops).toArray),
        ("pops", Json.arr ((Heap.runHeap h0 ops).map optNatJ).toArray),
        ("abs", Json.arr ((Heap.runAbs init ops).map optNatJ).toArray)]
  | "sort.relink" => some do
      return obj [("r", natsJ (relink (← getNats j "cur") (← getNats j "xs")))]
  | _ => none

end IrVerif.Drive.Sort

import IrVerif.Drive.Util
import IrVerif.Drive.SymExpr
import IrVerif.Model.SymExprSympy
/-! Protocol handler for the SymPy printer model of C16 (`sym.sympy_pp`).

SymPy trees travel as JSON arrays: `["int", -3]`, `["rat", -1, 2]`, `["sym", "N"]`,
`["add", [t, ...]]`, `["mul", [f, ...]]`, `["pow", b, e]`,
`["fn", "floor" | "ceiling" | "Abs" | "sign" | "Mod" | "Max" | "Min", [args]]`. -/
open Lean IrVerif.Drive
namespace IrVerif.Drive.SymExprSympy
open IrVerif.SymExpr IrVerif.Drive.SymExpr

def sfnOf : String → Except String SFn
  | "floor" => pure .floor | "ceiling" => pure .ceiling | "Abs" => pure .abs | "sign" => pure .sign
  | "Mod" => pure .mod | "Max" => pure .max | "Min" => pure .min
  | s => throw s!"unknown function {s}"

partial def sexprOfJson (j : Json) : Except String SExpr := do
  let a ← j.getArr?
  let tag ← (a[0]?.getD Json.null).getStr?
  let list (x : Json) : Except String (List SExpr) := do
    (← x.getArr?).toList.mapM sexprOfJson
  match tag, a.size with
  | "int", 2 => return .int (← a[1]!.getInt?)
  | "rat", 3 => return .rat (← a[1]!.getInt?) (← a[2]!.getNat?)
  | "sym", 2 => return .sym (← a[1]!.getStr?)
  | "add", 2 => return .add (← list a[1]!)
  | "mul", 2 => return .mul (← list a[1]!)
  | "pow", 3 => return .pow (← sexprOfJson a[1]!) (← sexprOfJson a[2]!)
  | "fn", 3 => return .fn (← sfnOf (← a[1]!.getStr?)) (← list a[2]!)
  | t, _ => throw s!"bad SymPy node {t}"

def handle : Handler := fun m j =>
  match m with
  | "sym.sympy_pp" => some do
      let s ← sexprOfJson (← j.getObjVal? "e")
      let envs ← getEnvs j "envs"
      let ts := ppSympy s
      let parsed := parseTokens ts
      let den := sden s
      return obj [("tokens", Json.arr (ts.map tokJ).toArray),
                  ("s", Json.str (String.ofList (render ts))),
                  ("wf", Json.bool (swf s)),
                  ("wfx", Json.bool (swfX s)),
                  ("nz", Json.arr (envs.map (fun env => Json.bool (denNZ env s))).toArray),
                  ("parsed", optJ exprToJson parsed),
                  ("surf", exprToJson (surf s)),
                  ("den", exprToJson den),
                  ("vals_parsed", Json.arr (envs.map (fun env =>
                      match parsed with
                      | some e => ratJ (eval env e)
                      | none => Json.null)).toArray),
                  ("vals_den", Json.arr (envs.map (fun env => ratJ (eval env den))).toArray)]
  | _ => none

end IrVerif.Drive.SymExprSympy

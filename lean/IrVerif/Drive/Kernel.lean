import IrVerif.Drive.Util
import IrVerif.Model.Kernel
import IrVerif.Model.KernelView
import IrVerif.Model.KernelFix
/-! Protocol handler for the IR kernel model.
`{"m":"kernel.run","ops":[op,…]}` → `{"steps":[{"o":"ok"|"raised","k":kind,"eq":bool,"d":delta},…]}`
where `delta` lists the records that are new or changed and `eq` says whether the world after the step is structurally equal to the world before it. -/
open Lean IrVerif.Drive
namespace IrVerif.Drive.Kernel
open IrVerif.Kernel

def optJ {α : Type} (f : α → Json) : Option α → Json
  | none => Json.null
  | some a => f a

def natJ (n : Nat) : Json := toJson n
def intJ (n : Int) : Json := toJson n

def getOpt {α : Type} (j : Json) (k : String) (f : Json → Except String α) : Except String (Option α) :=
  match j.getObjVal? k with
  | .error _ => pure none
  | .ok Json.null => pure none
  | .ok v => some <$> f v

def asNat (j : Json) : Except String Nat := fromJson? j
def asInt (j : Json) : Except String Int := fromJson? j
def asStr (j : Json) : Except String String := fromJson? j
def asOptNat (j : Json) : Except String (Option Nat) :=
  match j with
  | Json.null => pure none
  | v => some <$> asNat v
def asList {α : Type} (f : Json → Except String α) (j : Json) : Except String (List α) := do
  let a ← j.getArr?
  a.toList.mapM f

def getOptNatList (j : Json) (k : String) : Except String (List (Option Nat)) := do
  asList asOptNat (← j.getObjVal? k)

def asOptInt (j : Json) : Except String (Option Int) :=
  match j with
  | Json.null => pure none
  | v => some <$> asInt v

def getOI (j : Json) (k : String) : Except String (Option Int) := do
  match j.getObjVal? k with
  | .error _ => pure none
  | .ok v => asOptInt v

def getNatList (j : Json) (k : String) : Except String (List Nat) := do
  asList asNat (← j.getObjVal? k)

def asKV (j : Json) : Except String (String × Nat) := do
  let a ← j.getArr?
  match a.toList with
  | [k, v] => return (← asStr k, ← asNat v)
  | _ => throw "expected [key, value]"

def asOrder (j : Json) : Except String (Nat × List Nat) := do
  let a ← j.getArr?
  match a.toList with
  | [g, l] => return (← asNat g, ← asList asNat l)
  | _ => throw "expected [graph, [nodes]]"

def parseIOMut (j : Json) : Except String IOMut := do
  let m ← getStr j "m"
  match m with
  | "append" => return .append (← getNat j "v")
  | "extend" => return .extend (← getNatList j "vs")
  | "insert" => return .insert (← getInt j "i") (← getNat j "v")
  | "pop" => return .pop (← getInt j "i")
  | "remove" => return .remove (← getNat j "v")
  | "clear" => return .clear
  | "setItem" => return .setItem (← getInt j "i") (← getNat j "v")
  | "setSlice" => return .setSlice (← getOI j "start") (← getOI j "stop") (← getOI j "step") (← getNatList j "vs")
  | "delItem" => return .delItem (← getInt j "i")
  | "delSlice" => return .delSlice (← getOI j "start") (← getOI j "stop") (← getOI j "step")
  | "reverse" => return .reverse
  | "iadd" => return .iadd (← getNatList j "vs")
  | "imul" => return .imul (← getInt j "k")
  | "sort" => return .sort (← getNatList j "keys") (← getBool j "rev")
  | _ => throw s!"unknown io mutator {m}"

def parseInitMut (j : Json) : Except String InitMut := do
  let m ← getStr j "m"
  match m with
  | "setItem" => return .setItem (← getStr j "key") (← getNat j "v")
  | "delItem" => return .delItem (← getStr j "key")
  | "add" => return .add (← getNat j "v")
  | "pop" => return .pop (← getStr j "key")
  | "popitem" => return .popitem
  | "clear" => return .clear
  | "update" => return .update (← asList asKV (← j.getObjVal? "kvs"))
  | "setdefault" => return .setdefault (← getStr j "key") (← getNat j "v")
  | "register" => return .register (← getNat j "v")
  | _ => throw s!"unknown initializer mutator {m}"

def asAttr (j : Json) : Except String (String × List Nat) := do
  let a ← j.getArr?
  match a.toList with
  | [k, v] => return (← asStr k, ← asList asNat v)
  | _ => throw "expected [key, [graphs]]"

def getAttrs (j : Json) (k : String) : Except String (List (String × List Nat)) :=
  match j.getObjVal? k with
  | .error _ => pure []
  | .ok Json.null => pure []
  | .ok v => asList asAttr v

def parseOp (j : Json) : Except String Op := do
  let o ← getStr j "op"
  match o with
  | "newValue" => return .newValue (← getOpt j "name" asStr)
  | "setConst" => return .setConst (← getNat j "v") ((← getOpt j "locked" (fun x => (fromJson? x : Except String Bool))).getD false)
  | "newNode" =>
    match ← getAttrs j "attrs" with
    | [] =>
      return .newNode (← getStr j "opType") (← getOpt j "name" asStr) (← getOptNatList j "inputs")
        (← getOpt j "numOutputs" asInt) (← getOpt j "outputs" (asList asNat)) (← getOpt j "graph" asNat)
    | attrs =>
      return .newNodeAttrs (← getStr j "opType") (← getOpt j "name" asStr) (← getOptNatList j "inputs")
        (← getOpt j "numOutputs" asInt) (← getOpt j "outputs" (asList asNat)) (← getOpt j "graph" asNat) attrs
  | "newGraph" =>
    return .newGraph (← getNatList j "inputs") (← getNatList j "outputs") (← getNatList j "nodes")
      (← getNatList j "inits")
  | "replaceInput" => return .replaceInput (← getNat j "n") (← getInt j "idx") (← getOpt j "v" asNat)
  | "resizeInputs" => return .resizeInputs (← getNat j "n") (← getInt j "k")
  | "resizeOutputs" => return .resizeOutputs (← getNat j "n") (← getInt j "k")
  | "rauw" => return .rauw (← getNat j "v") (← getNat j "r") (← getBool j "rgo")
  | "io" =>
    let k ← getStr j "kind"
    return .io (← getNat j "g") (if k == "inp" then .inp else .out) (← parseIOMut j)
  | "init" => return .init (← getNat j "g") (← parseInitMut j)
  | "setName" => return .setName (← getNat j "v") (← getOpt j "s" asStr)
  | "append" => return .append (← getNat j "g") (← getNat j "n")
  | "extend" => return .extend (← getNat j "g") (← getNatList j "ns")
  | "insertAfter" => return .insertAfter (← getNat j "g") (← getNat j "a") (← getNatList j "ns")
  | "insertBefore" => return .insertBefore (← getNat j "g") (← getNat j "a") (← getNatList j "ns")
  | "remove" => return .remove (← getNat j "g") (← getNatList j "ns") (← getBool j "safe")
  | "sortOk" => return .sortOk (← asList asOrder (← j.getObjVal? "orders"))
  | "sortCycle" => return .sortCycle
  | "attrEdit" => return .attrEdit
  | "sort" => return .sort (← getNat j "g")
  | "setNodeName" => return .setNodeName (← getNat j "n") (← getOpt j "s" asStr)
  | "setOpType" => return .setOpType (← getNat j "n") (← getStr j "s")
  | "clearConst" => return .clearConst (← getNat j "v")
  | "attrSet" => return .attrSet (← getNat j "n") (← getStr j "key") (← getNatList j "gs")
  | "attrDel" => return .attrDel (← getNat j "n") (← getStr j "key") (← getBool j "strict")
  | "attrClear" => return .attrClear (← getNat j "n")
  | _ => throw s!"unknown kernel op {o}"

def parseAny (j : Json) : Except String AnyOp := do
  let o ← getStr j "op"
  match o with
  | "tapeInitializer" =>
    return .conv (.tapeInitializer (← getOpt j "g" asNat) (← getOpt j "name" asStr) (← getOpt j "tname" asStr)
      ((← getOpt j "locked" (fun x => (fromJson? x : Except String Bool))).getD false))
  | "builderNode" =>
    return .conv (.builderNode (← getOpt j "g" asNat) (← getStr j "opType") (← getOptNatList j "inputs")
      (← getNat j "k") (← getOpt j "names" (asList asStr)))
  | "rauwMany" =>
    if (← getOpt j "exact" (fun x => (fromJson? x : Except String Bool))).getD false then
      return .conv (.rauwManyExact (← getNatList j "vs") (← getNatList j "rs") (← getBool j "rgo"))
    else return .conv (.rauwMany (← getNatList j "vs") (← getNatList j "rs") (← getBool j "rgo"))
  | "renameValues" => return .conv (.renameValues (← getNatList j "vs") (← getStrs j "names"))
  | "replaceNodesAndValues" =>
    if (← getOpt j "exact" (fun x => (fromJson? x : Except String Bool))).getD false then
      return .conv (.replaceNodesAndValuesExact (← getNat j "g") (← getNat j "ip") (← getNatList j "oldNodes")
        (← getNatList j "newNodes") (← getNatList j "oldVals") (← getNatList j "newVals"))
    else
      return .conv (.replaceNodesAndValues (← getNat j "g") (← getNat j "ip") (← getNatList j "oldNodes")
        (← getNatList j "newNodes") (← getNatList j "oldVals") (← getNatList j "newVals"))
  | _ => return .one (← parseOp j)

/-- the `GraphView` operations (`Model/KernelView.lean`); `none` = not a view operation -/
def parseView (j : Json) : Except String (Option ViewOp) := do
  let o ← getStr j "op"
  match o with
  | "newView" =>
    return some (.newView (← getNatList j "inputs") (← getNatList j "outputs") (← getNatList j "nodes")
      (← getNatList j "inits"))
  | "viewSet" =>
    let slot ← getStr j "slot"
    if slot == "inputs" then return some (.setInputs (← getNat j "view") (← getNatList j "vs"))
    else return some (.setOutputs (← getNat j "view") (← getNatList j "vs"))
  | "viewInits" => return some (.setInits (← getNat j "view") (← asList asKV (← j.getObjVal? "kvs")))
  | "viewInitPut" => return some (.initPut (← getNat j "view") (← getStr j "key") (← getNat j "v"))
  | "viewInitDel" => return some (.initDel (← getNat j "view") (← getStr j "key"))
  | "viewDrop" => return some (.drop (← getNat j "view"))
  | _ => return none

def parseV (j : Json) : Except String VOp := do
  match ← parseView j with
  | some op => return .view op
  | none => return .kernel (← parseAny j)

/-- what the driver runs: the alphabet with views, or the model of a PROPOSED fix (`Model/KernelFix.lean`; sent by the
harness only when its probe finds the patch applied to the real function) -/
inductive DOp where
  | v (op : VOp)
  | rnvHoisted (g ip : Nat) (oldNodes newNodes oldVals newVals : List Nat)

def dstep (vw : VWorld) : DOp → VWorld × Outcome
  | .v op => vstep vw op
  | .rnvHoisted g ip a b c d =>
    let r := replaceNodesAndValuesHoisted vw.w g ip a b c d
    ({ vw with w := r.1 }, r.2)

def parseD (j : Json) : Except String DOp := do
  let o ← getStr j "op"
  if o == "replaceNodesAndValues" && (← getOpt j "hoisted" (fun x => (fromJson? x : Except String Bool))).getD false then
    return .rnvHoisted (← getNat j "g") (← getNat j "ip") (← getNatList j "oldNodes") (← getNatList j "newNodes")
      (← getNatList j "oldVals") (← getNatList j "newVals")
  else return .v (← parseV j)

def viewJ (r : ViewS) : Json :=
  if r.alive then
    obj [("inputs", natsJ r.inputs), ("outputs", natsJ r.outputs),
      ("inits", Json.arr (r.inits.map (fun p => Json.arr #[Json.str p.1, natJ p.2])).toArray), ("nodes", natsJ r.nodes)]
  else Json.null

def pairsJ (xs : List (Nat × Nat)) : Json :=
  Json.arr (xs.map (fun p => Json.arr #[natJ p.1, natJ p.2])).toArray

/-- counters: non-zero entries, by value id -/
def cntJ (c : List Nat) : Json :=
  pairsJ ((enumFrom 0 c).filter (fun p => p.2 ≠ 0))

def valueJ (r : ValueS) : Json :=
  obj [("name", optJ Json.str r.name), ("producer", optJ natJ r.producer), ("index", optJ intJ r.index),
    ("uses", pairsJ r.uses), ("graph", optJ natJ r.graph), ("in", Json.bool r.isIn),
    ("out", Json.bool r.isOut), ("init", Json.bool r.isInit), ("const", optJ natJ r.const)]

def nodeJ (r : NodeS) : Json :=
  obj [("inputs", Json.arr (r.inputs.map (optJ natJ)).toArray), ("outputs", natsJ r.outputs),
    ("graph", optJ natJ r.graph), ("name", optJ Json.str r.name), ("opType", Json.str r.opType),
    ("attrs", Json.arr (r.attrs.map (fun p => Json.arr #[Json.str p.1, natsJ p.2])).toArray)]

def sortedStrs (xs : List String) : List String := (xs.toArray.qsort (· < ·)).toList

def dedupStrs (xs : List String) : List String := xs.foldl (fun acc s => if acc.contains s then acc else acc ++ [s]) []

def graphJ (rx : GraphS × List String) : Json :=
  let r := rx.1
  obj [("inputs", natsJ r.inputs), ("outputs", natsJ r.outputs), ("incnt", cntJ r.inCnt),
    ("outcnt", cntJ r.outCnt),
    ("inits", Json.arr (r.inits.map (fun p => Json.arr #[Json.str p.1, natJ p.2])).toArray),
    ("nodes", natsJ r.nodes), ("vctr", natJ r.vCtr), ("nctr", natJ r.nCtr),
    ("vnames", strsJ (sortedStrs (dedupStrs (r.vNames ++ rx.2)))), ("nnames", strsJ (sortedStrs r.nNames))]

def withExtra (w : World) : List (GraphS × List String) :=
  (enumFrom 0 w.graphs).map (fun p => (p.2, lget w.extra p.1))

def worldJ (w : World) : Json :=
  obj [("values", Json.arr (w.vals.map valueJ).toArray), ("nodes", Json.arr (w.nodes.map nodeJ).toArray),
    ("graphs", Json.arr ((withExtra w).map graphJ).toArray),
    ("tensors", Json.arr (w.tensors.map (optJ Json.str)).toArray)]

/-- records that are new or whose printed form changed (stores never shrink) -/
def deltaStore {α : Type} (f : α → Json) (old new : List α) : Json :=
  let olds := (old.map f).toArray
  Json.arr ((enumFrom 0 (new.map f)).filterMap (fun (p : Nat × Json) =>
    match olds[p.1]? with
    | some o => if o.compress == p.2.compress then none else some (Json.arr #[natJ p.1, p.2])
    | none => some (Json.arr #[natJ p.1, p.2]))).toArray

def deltaJ (w w' : World) : Json :=
  obj [("values", deltaStore valueJ w.vals w'.vals), ("nodes", deltaStore nodeJ w.nodes w'.nodes),
    ("graphs", deltaStore graphJ (withExtra w) (withExtra w')),
    ("tensors", deltaStore (optJ Json.str) w.tensors w'.tensors)]

/-- the hypothesis of `C01_sort_step` on the world a `sort` call meets: `Sort.WF (treeOf w g)` -/
def sortHyp (w : World) : AnyOp → Option Bool
  | .one (.sort g) =>
    let t := treeOf w g
    some (decide (((IrVerif.Sort.nodesOf t).map IrVerif.Sort.Ent.id).Nodup) &&
      decide (((IrVerif.Sort.allGraphs t).map Prod.fst).Nodup))
  | _ => none

/-- the conclusion of `C01_sort_exact` evaluated on an accepted `sort` call: every entry the sort model returned is the
node sequence its graph has after the call -/
def sortExact (w w' : World) : AnyOp → Outcome → Option Bool
  | .one (.sort g), .ok =>
    match IrVerif.Sort.sortModel (treeOf w g) with
    | some r => some (r.all (fun p => decide ((w'.gr p.1).nodes = p.2)))
    | none => some false
  | _, _ => none

def runOps (ops : List DOp) : List Json :=
  let rec go (vw : VWorld) : List DOp → List Json
    | [] => []
    | vop :: rest =>
      let (vw', out) := dstep vw vop
      let (w, w') := (vw.w, vw'.w)
      let (o, k) := match out with
        | .ok => ("ok", "")
        | .raised k => ("raised", k)
      let extra := match vop with
        | .rnvHoisted .. => []
        | .v (.kernel op) =>
          (match sortHyp w op with
           | some b => [("sortWF", Json.bool b)]
           | none => []) ++
          (match sortExact w w' op out with
           | some b => [("sortExact", Json.bool b)]
           | none => [])
        | .v (.view _) => [("veq", Json.bool (decide (vw' = vw)))]
      obj ([("o", Json.str o), ("k", Json.str k), ("eq", Json.bool (decide (w' = w))), ("d", deltaJ w w')] ++ extra ++
          (if vw'.views.isEmpty then [] else [("v", Json.arr (vw'.views.map viewJ).toArray)]))
        :: go vw' rest
  go {} ops

def handle : Handler := fun m j =>
  match m with
  | "kernel.run" => some do
      let ops ← (← getArr j "ops").mapM parseD
      return obj [("steps", Json.arr (runOps ops).toArray)]
  | _ => none

end IrVerif.Drive.Kernel

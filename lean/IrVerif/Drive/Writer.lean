import IrVerif.Drive.Util
import IrVerif.Model.Writer
import Std.Data.HashSet
/-! Protocol handler for the writer transition system (C09).

* `writer.run`   `{cfg, sched}` → observation of the initial state and after every label of
  `sched` (labels are `[0,c]` main, `[1,0]` take, `[2,0]` exit, `[3,i]` task i); stops at the first
  label that is not enabled (`stuck` = its index).
* `writer.cover` `{cfg, maxStates}` → a set of complete schedules that together traverse every
  transition of the reachable state graph (DFS with a visited set; every non-tree edge and every
  leaf yields one schedule, completed to a terminal state), plus the number of states / edges and
  whether any non-terminal state without an enabled label was met.
* `writer.serial` `{cfg}` → the serial file images.
-/
open Lean IrVerif.Drive
namespace IrVerif.Drive.Writer
open IrVerif.Writer

def getTensor (j : Json) : Except String Tensor := do
  return { obj := ← getNat j "obj", size := ← getNat j "size", fails := ← getBool j "fails",
           cbFails := ← getBool j "cbFails", job := ← getNat j "job", file := ← getNat j "file",
           off := ← getNat j "off", data := ← getNats j "data" }

def getCfg (j : Json) : Except String Cfg := do
  let c ← j.getObjVal? "cfg"
  let mode ← getStr c "mode"
  let ts ← (← getArr c "tensors").mapM getTensor
  let fs ← (← getArr c "files").mapM fun f => do
    let a ← (fromJson? f : Except String (Array Nat))
    return a.toList
  return { workers := ← getNat c "workers", capacity := ← getNat c "capacity",
           nObjs := ← getNat c "nObjs", mode := if mode == "shards" then .shards else .parallel,
           tensors := ts, jobStarts := ← getNats c "jobStarts", files := fs }

def getLabel (j : Json) : Except String Label := do
  let a ← (fromJson? j : Except String (Array Nat))
  match a.toList with
  | [0, c] => return .main c
  | [1, _] => return .take
  | [2, _] => return .exit
  | [3, i] => return .task i
  | _ => throw "bad label"

def labelJ : Label → Json
  | .main c => natsJ [0, c]
  | .take => natsJ [1, 0]
  | .exit => natsJ [2, 0]
  | .task i => natsJ [3, i]

def pcS : Pc → String
  | .notStarted => "notStarted" | .cbAcq => "cbAcq" | .cbBody => "cbBody" | .tAcq => "tAcq"
  | .bAcq => "bAcq" | .waiting => "waiting" | .woken => "woken" | .write => "write"
  | .bRel true => "bRelOk" | .bRel false => "bRelErr"
  | .done true => "doneOk" | .done false => "doneErr"

def futS : Fut → String
  | .pending => "pending" | .running => "running" | .cancelled => "cancelled"
  | .ok => "ok" | .err => "err"

def mainS : MainPc → String
  | .submit _ => "submit" | .collect => "collect" | .join _ => "join"
  | .finished false => "returned" | .finished true => "raised"

/-- labels worth exploring in `s`: the main thread's choice only matters in `collect` of the
    parallel mode -/
def choices (cfg : Cfg) (s : State) : List Label :=
  let mains : List Label :=
    match s.main, cfg.mode with
    | .collect, .parallel => (List.range cfg.nJobs).map .main
    | _, _ => [.main 0]
  (mains ++ [Label.take, Label.exit] ++ (List.range cfg.n).map Label.task).filter
    fun l => (step cfg s l).isSome

def obsJ (cfg : Cfg) (s : State) (withFiles : Bool) : Json :=
  obj ([("main", Json.str (mainS s.main)),
        ("queue", natsJ s.queue),
        ("futs", strsJ (s.futs.map futS)),
        ("idle", toJson s.idle), ("exited", toJson s.exited),
        ("tasks", strsJ (s.tasks.map pcS)),
        ("cb", toJson s.cbLock),
        ("tl", Json.arr (s.tLocks.map (fun (b : Bool) => toJson b)).toArray),
        ("inflight", toJson s.inFlight), ("oversized", toJson s.oversized),
        ("shutdown", toJson s.shutdown),
        ("log", natsJ s.log),
        ("enabled", Json.arr ((choices cfg s).map labelJ).toArray),
        ("terminal", toJson (terminal s))]
       ++ (if withFiles then [("files", Json.arr (s.files.map natsJ).toArray)] else []))

def runObs (cfg : Cfg) : State → List Label → Nat → Array Json → Array Json × Option Nat × State
  | s, [], _, acc => (acc, none, s)
  | s, l :: ls, k, acc =>
      match step cfg s l with
      | none => (acc, some k, s)
      | some s' => runObs cfg s' ls (k + 1) (acc.push (obsJ cfg s' false))

structure CoverSt where
  seen : Std.HashSet State := {}
  scheds : Array (List Label) := #[]
  edges : Nat := 0
  deadlocks : Nat := 0
  truncated : Bool := false

/-- extend a (reversed) schedule to a terminal state, always taking the first enabled label -/
partial def complete (cfg : Cfg) (s : State) (rev : List Label) : List Label :=
  match choices cfg s with
  | [] => rev.reverse
  | l :: _ => match step cfg s l with
    | some s' => complete cfg s' (l :: rev)
    | none => rev.reverse

partial def dfs (cfg : Cfg) (maxStates : Nat) (s : State) (rev : List Label) :
    StateM CoverSt Unit := do
  let ls := choices cfg s
  if ls.isEmpty then
    modify fun c => { c with scheds := c.scheds.push rev.reverse
                             deadlocks := c.deadlocks + (if terminal s then 0 else 1) }
  else
    for l in ls do
      match step cfg s l with
      | none => pure ()
      | some s' =>
          modify fun c => { c with edges := c.edges + 1 }
          let c ← get
          if c.seen.contains s' then
            modify fun c => { c with scheds := c.scheds.push (complete cfg s' (l :: rev)) }
          else if c.seen.size ≥ maxStates then
            modify fun c => { c with truncated := true
                                     scheds := c.scheds.push (complete cfg s' (l :: rev)) }
          else
            modify fun c => { c with seen := c.seen.insert s' }
            dfs cfg maxStates s' (l :: rev)

def handle : Handler := fun m j =>
  match m with
  | "writer.run" => some do
      let cfg ← getCfg j
      let sched ← (← getArr j "sched").mapM getLabel
      let s0 := init cfg
      let (obs, stuck, sEnd) := runObs cfg s0 sched 0 #[obsJ cfg s0 false]
      return obj [("obs", Json.arr obs), ("stuck", match stuck with | some k => toJson k | none => Json.null),
                  ("final", obsJ cfg sEnd true), ("wf", toJson (wfb cfg && layoutb cfg && preallocb cfg)),
                  ("serial", Json.arr ((serialFiles cfg).map natsJ).toArray)]
  | "writer.cover" => some do
      let cfg ← getCfg j
      let maxStates ← getNat j "maxStates"
      let s0 := init cfg
      let ((), c) := (dfs cfg maxStates s0 []).run { seen := ({} : Std.HashSet State).insert s0 }
      return obj [("scheds", Json.arr (c.scheds.map fun sc => Json.arr (sc.map labelJ).toArray)),
                  ("states", toJson c.seen.size), ("edges", toJson c.edges),
                  ("deadlocks", toJson c.deadlocks), ("truncated", toJson c.truncated),
                  ("wf", toJson (wfb cfg && layoutb cfg && preallocb cfg))]
  | "writer.serial" => some do
      let cfg ← getCfg j
      return obj [("files", Json.arr ((serialFiles cfg).map natsJ).toArray)]
  | _ => none

end IrVerif.Drive.Writer

import IrVerif.Drive.Util
import IrVerif.Model.Names
open Lean IrVerif.Drive
namespace IrVerif.Drive.Names
open IrVerif.Names

def optStr (j : Json) : Except String (Option String) :=
  match j with
  | .null => pure none
  | .str s => pure (some s)
  | _ => throw "expected string or null"

def optNat (j : Json) : Except String (Option Nat) :=
  match j with
  | .null => pure none
  | j => do return some (← j.getNat?)

def optStrJ : Option String → Json
  | none => .null
  | some s => .str s

def optNatJ : Option Nat → Json
  | none => .null
  | some n => toJson n

/-- `["v", name|null]` or `["n", name|null, op_type]` -/
def parseOp (j : Json) : Except String Op := do
  let a ← j.getArr?
  let k ← (a[0]?.getD Json.null).getStr?
  let name ← optStr (a[1]?.getD Json.null)
  if k == "v" then return .value name
  else if k == "n" then return .node name (← (a[2]?.getD Json.null).getStr?)
  else throw s!"bad op kind {k}"

def getOptStrs (j : Json) (k : String) : Except String (List (Option String)) := do
  (← getArr j k).mapM optStr
def getOptNats (j : Json) (k : String) : Except String (List (Option Nat)) := do
  (← getArr j k).mapM optNat

def parseDict (j : Json) : Except String (List (String × Nat)) := do
  (← j.getArr?).toList.mapM fun e => do
    let a ← e.getArr?
    return (← (a[0]?.getD Json.null).getStr?, ← (a[1]?.getD Json.null).getNat?)

def dictJ (d : List (String × Nat)) : Json :=
  Json.arr (d.map fun e => Json.arr #[Json.str e.1, toJson e.2]).toArray

def parseWorld (j : Json) : Except String (World × Nat × Nat × Nat) := do
  let vn ← getOptStrs j "vnames"
  let nn ← (getOptStrs j "nnames" <|> pure [])
  let io ← getOptNats j "initOf"
  let ds ← (← getArr j "dicts").mapM parseDict
  return ({ vname := fun i => vn.getD i none, nname := fun i => nn.getD i none,
            initOf := fun i => io.getD i none, dicts := fun g => ds.getD g [] },
          vn.length, nn.length, ds.length)

def worldJ (w : World) (nv nn ng : Nat) : List (String × Json) :=
  [("vnames", Json.arr ((List.range nv).map fun i => optStrJ (w.vname i)).toArray),
   ("nnames", Json.arr ((List.range nn).map fun i => optStrJ (w.nname i)).toArray),
   ("initOf", Json.arr ((List.range nv).map fun i => optNatJ (w.initOf i)).toArray),
   ("dicts", Json.arr ((List.range ng).map fun g => dictJ (w.dicts g)).toArray)]

mutual
  /-- `{"g":gid,"isGraph":b,"ins":[..],"outs":[..],"nodes":[node..]}` items of a `subs` list -/
  partial def parseGraphs (js : List Json) : Except String Tr :=
    match js with
    | [] => pure .nil
    | j :: rest => do
      let body ← parseNodes (← getArr j "nodes")
      return .graph (← getNat j "g") (← getBool j "isGraph") (← getNats j "ins") (← getNats j "outs") body
        (← parseGraphs rest)
  /-- `{"n":nid,"ins":[vid|null..],"outs":[..],"subs":[graph..]}` -/
  partial def parseNodes (js : List Json) : Except String Tr :=
    match js with
    | [] => pure .nil
    | j :: rest => do
      let subs ← parseGraphs (← getArr j "subs")
      return .node (← getNat j "n") (← getOptNats j "ins") (← getNats j "outs") subs (← parseNodes rest)
end

def parseTop (j : Json) : Except String Top := do
  return { gid := ← getNat j "g", isGraph := ← getBool j "isGraph", ins := ← getNats j "ins",
           outs := ← getNats j "outs", body := ← parseNodes (← getArr j "nodes") }

def parsePair (j : Json) : Except String (Nat × String) := do
  let a ← j.getArr?
  return (← (a[0]?.getD Json.null).getNat?, ← (a[1]?.getD Json.null).getStr?)

/-- values (initializers up to id `nv` included) a top-level graph can meet -/
def cvals (w : World) (nv : Nat) (t : Top) : List Nat :=
  mentioned t.tr ++ (List.range nv).filter (fun u => match w.initOf u with
    | some g => (graphsOf t.tr).contains g
    | none => false)

/-- `TopDisj` pairwise, on the id range of the request -/
def disjTops (w : World) (nv : Nat) : List Top → Bool
  | [] => true
  | t :: ts => ts.all (fun t' => (cvals w nv t).all (fun u => !(cvals w nv t').contains u)
                                && (allNodes t.body).all (fun n => !(allNodes t'.body).contains n))
               && disjTops w nv ts

/-- `["rv",v] ["rn",n,op] ["nv",v] ["sv",v,name|null] ["sn",n,name|null] ["dv",v] ["dn",n]` -/
def parseGOp (j : Json) : Except String GOp := do
  let a ← j.getArr?
  let k ← (a[0]?.getD Json.null).getStr?
  let i ← (a[1]?.getD Json.null).getNat?
  match k with
  | "rv" => return .regValue i
  | "rn" => return .regNode i (← (a[2]?.getD Json.null).getStr?)
  | "nv" => return .noteValue i
  | "sv" => return .setValue i (← optStr (a[2]?.getD Json.null))
  | "sn" => return .setNode i (← optStr (a[2]?.getD Json.null))
  | "dv" => return .dropValue i
  | "dn" => return .dropNode i
  | _ => throw s!"bad graph op {k}"

/-- executable form of `Pairwise DisjointL` -/
def pairwiseDisjoint : List (List Nat) → Bool
  | [] => true
  | l :: ls => ls.all (fun l' => l.all (fun x => !l'.contains x)) && pairwiseDisjoint ls

/-- executable `InjT`: non-empty names, pairwise different along the list (repeated ids allowed) -/
def injB (f : Nat → Option String) (L : List Nat) : Bool :=
  L.all (fun a => truthy (f a)) && L.all (fun a => L.all (fun b => a == b || f a != f b))

/-- top-level graphs share no node object -/
def nodeDisjTops : List Top → Bool
  | [] => true
  | t :: ts => ts.all (fun t' => (allNodes t.body).all (fun n => !(allNodes t'.body).contains n)) && nodeDisjTops ts

def handle : Handler := fun m j =>
  match m with
  | "names.hist" => some do
      let ops ← (← getArr j "ops").mapM parseOp
      let (a, evs) := run ops {}
      return obj [("names", strsJ (evs.map (·.name))),
                  ("gen", Json.arr (evs.map (fun e => Json.bool e.generated)).toArray),
                  ("vc", toJson a.vc), ("nc", toJson a.nc),
                  ("vnames", strsJ a.vnames.eraseDups), ("nnames", strsJ a.nnames.eraseDups)]
  | "names.ghist" => some do
      let vn ← getOptStrs j "vnames"
      let nn ← getOptStrs j "nnames"
      let ops ← (← getArr j "ops").mapM parseGOp
      let st := grun ops { vname := fun i => vn.getD i none, nname := fun i => nn.getD i none }
      return obj [("vnames", Json.arr ((List.range vn.length).map fun i => optStrJ (st.vname i)).toArray),
                  ("nnames", Json.arr ((List.range nn.length).map fun i => optStrJ (st.nname i)).toArray),
                  ("vc", toJson st.auth.vc), ("nc", toJson st.auth.nc),
                  ("vseen", strsJ st.auth.vnames.eraseDups), ("nseen", strsJ st.auth.nnames.eraseDups),
                  ("vown", natsJ st.vown.eraseDups), ("nown", natsJ st.nown.eraseDups)]
  | "names.fix" => some do
      let (w, nv, nn, ng) ← parseWorld j
      let tops ← (← getArr j "tops").mapM parseTop
      let r := fixModel w tops
      -- the hypotheses of the pass-level theorems, evaluated on this input
      let hScoped := tops.all (fun t => scopedB w.inits t.tr [] [])
      let hClosed := tops.all (fun t => closedB w.initOf t)
      let hNodup := tops.all (fun t => decide (allNodes t.body).Nodup)
      return obj (worldJ r.1 nv nn ng ++ [("modified", Json.bool r.2.1), ("raised", Json.bool r.2.2),
        ("scoped", Json.bool hScoped), ("closed", Json.bool hClosed), ("nodup", Json.bool hNodup),
        ("disjoint", Json.bool (disjTops w nv tops)),
        ("wellOwned", Json.bool (tops.all (fun t => wellOwnedB w.inits t.tr []))),
        ("ownedDisjoint", Json.bool (tops.all (fun t => pairwiseDisjoint (ownedLists w.inits t.tr)))),
        -- hypotheses and conclusion of C15_illscoped_nodes (no scoping rule)
        ("nodeDisjoint", Json.bool (nodeDisjTops tops)), ("initsOk", Json.bool (initsOkB w nv ng)),
        ("nodesPost", Json.bool (!r.2.2 && initsOkB r.1 nv ng
          && tops.all (fun t => (allNodeScopes t.tr).all (injB r.1.nname)))),
        -- C15_illscoped_values: the recorded-scope lists and the conclusion on the model's output
        ("recLists", Json.arr (tops.flatMap (fun t => (recScopes w.inits t.tr [] []).map natsJ)).toArray),
        ("recPost", Json.bool (tops.all (fun t => (recScopes w.inits t.tr [] []).all (injB r.1.vname)
          && (cvals w nv t).all (fun u => truthy (r.1.vname u)))))])
  | "names.fixx" => some do
      -- NameFixPass with a generator (`gen`: "simple" | {"const": s} | {"v": [[id, answer]..], "n": [[id, answer]..]},
      -- a table falls back to the simple generator) and backing tensors
      let (w, nv, nn, ng) ← parseWorld j
      let tops ← (← getArr j "tops").mapM parseTop
      let co ← (getOptNats j "constOf" <|> pure [])
      let tn ← (getOptStrs j "tnames" <|> pure [])
      let fz ← (getNats j "frozen" <|> pure [])
      let tw : TWorld := { toWorld := w, constOf := fun i => co.getD i none, tname := fun t => tn.getD t none,
                           frozen := fun t => fz.contains t }
      let gj := (j.getObjVal? "gen").toOption.getD (Json.str "simple")
      -- the generator and whether it never answers the empty string (`NameGen.NonEmpty`, decided on its description)
      let (gen, genNE) : NameGen × Bool ← match gj with
        | .str _ => pure (simpleGen, true)
        | gj => match gj.getObjVal? "const" with
          | .ok c => do
            let c ← c.getStr?
            pure ({ v := fun _ _ => c, n := fun _ _ => c }, c != "")
          | .error _ => do
            let tv ← (← getArr gj "v").mapM parsePair
            let tnn ← (← getArr gj "n").mapM parsePair
            pure ({ v := fun i nm => (tv.lookup i).getD (simpleGen.v i nm),
                    n := fun i nm => (tnn.lookup i).getD (simpleGen.n i nm) },
                  tv.all (fun e => e.2 != "") && tnn.all (fun e => e.2 != ""))
      let r := fixModelX gen tw [] tops
      let r0 := fixModel w tops
      let plainEq := (List.range nv).all (fun i => r.w.vname i == r0.1.vname i)
        && (List.range nn).all (fun i => r.w.nname i == r0.1.nname i)
        && (List.range ng).all (fun g => r.w.dicts g == r0.1.dicts g)
        && r.modified == r0.2.1 && r.raised == r0.2.2
      -- hypotheses of C15_gen_post evaluated on this input, and its conclusion on the model's output
      let passWF := initsOkB w nv ng && tops.all (fun t => scopedB w.inits t.tr [] []) && tops.all (fun t => closedB w.initOf t)
        && tops.all (fun t => decide (allNodes t.body).Nodup) && disjTops w nv tops
      let noFz := (List.range nv).all (fun v => match tw.constOf v with | some t => !tw.frozen t | none => true)
      let postOk := !r.raised && initsOkB r.w.toWorld nv ng
        && tops.all (fun t => (allScopes w.inits t.tr []).all (injB r.w.vname) && (allNodeScopes t.tr).all (injB r.w.nname))
      -- conclusion of C15_gen_untouched
      let untouched := (List.range nv).all (fun v => r.glog.contains (false, v) || r.w.vname v == w.vname v)
        && (List.range nn).all (fun n => r.glog.contains (true, n) || r.w.nname n == w.nname n)
        && (List.range tn.length).all (fun t =>
              (List.range nv).any (fun v => tw.constOf v == some t && r.glog.contains (false, v)) || r.w.tname t == tw.tname t)
      return obj (worldJ r.w.toWorld nv nn ng ++ [("modified", Json.bool r.modified), ("raised", Json.bool r.raised),
        ("tnames", Json.arr ((List.range tn.length).map fun t => optStrJ (r.w.tname t)).toArray),
        ("glog", Json.arr (r.glog.reverse.map fun e => Json.arr #[Json.bool e.1, toJson e.2]).toArray),
        ("initsOk", Json.bool (initsOkB w nv ng)), ("initsOkAfter", Json.bool (initsOkB r.w.toWorld nv ng)),
        ("plainEq", Json.bool plainEq), ("genNonEmpty", Json.bool genNE), ("passWF", Json.bool passWF),
        ("noFz", Json.bool noFz), ("postOk", Json.bool postOk), ("untouched", Json.bool untouched),
        ("closed", Json.bool (tops.all (fun t => closedB w.initOf t)))])
  | "names.rename" => some do
      let (w, nv, nn, ng) ← parseWorld j
      let pairs ← (← getArr j "pairs").mapM parsePair
      let co ← (getOptNats j "constOf" <|> pure [])
      let tn ← (getOptStrs j "tnames" <|> pure [])
      let fz ← (getNats j "frozen" <|> pure [])
      let tw : TWorld := { toWorld := w, constOf := fun i => co.getD i none, tname := fun t => tn.getD t none,
                           frozen := fun t => fz.contains t }
      let r := renameValuesT tw pairs
      -- the tensor-free model must agree with the tensor model whenever no tensor refuses
      let r0 := renameValues w pairs
      return obj (worldJ r.1.toWorld nv nn ng ++ [("raised", Json.bool r.2),
        ("tnames", Json.arr ((List.range tn.length).map fun t => optStrJ (r.1.tname t)).toArray),
        ("raised0", Json.bool r0.2), ("vnames0", Json.arr ((List.range nv).map fun i => optStrJ (r0.1.vname i)).toArray)])
  | _ => none

end IrVerif.Drive.Names

import IrVerif.Drive.Util
import IrVerif.Model.Scope
import IrVerif.Model.ScopeSer
import IrVerif.Model.ScopeFunc
/-! Protocol handler for `IrVerif.Scope` (C03 / C17).

Info    = [ty|null, sh|null, doc|null]
GraphP  = {"inputs":[[name,Info]], "inits":[[name,data,ty,sh]], "vinfo":[[name,Info]],
           "nodes":[{"i":[name],"o":[name],"g":[GraphP]}], "outputs":[[name,Info]]}
World   = {"vals":[ValueS], "tens":[[name|null,data,ty,sh]], "root":GraphT}
GraphT  = {"id":n, "inputs":[v], "inits":[[key,v]], "nodes":[{"id":n,"graph":n|null,"i":[v|null],
           "o":[v],"g":[GraphT]}], "outputs":[v]}
FuncP   = {"id":[domain,name,overload], "inputs":[name], "outputs":[name], "vinfo":[[name,Info]], "nodes":[NodeP]}
ModelP  = {"p":GraphP, "funcs":[FuncP]}
MWorld  = World + {"funcs":[[[domain,name,overload], GraphT]]}
-/
open Lean IrVerif.Drive
namespace IrVerif.Drive.Scope
open IrVerif.Scope

def optStrJ : Option String → Json
  | none => Json.null
  | some s => Json.str s

def optNatJ : Option Nat → Json
  | none => Json.null
  | some (n : Nat) => toJson n

def getOptStr (j : Json) : Except String (Option String) :=
  match j with
  | .null => .ok none
  | .str s => .ok (some s)
  | _ => .error "expected string or null"

def getOptNat (j : Json) : Except String (Option Nat) :=
  match j with
  | .null => .ok none
  | _ => do let n ← (fromJson? j : Except String Nat); return some n

def arrOf (j : Json) : Except String (List Json) :=
  match j with
  | .arr a => .ok a.toList
  | _ => .error "expected array"

def parseInfo (j : Json) : Except String Info := do
  match ← arrOf j with
  | [a, b, c] => return ⟨← getOptStr a, ← getOptStr b, ← getOptStr c⟩
  | _ => throw "info: expected [ty, sh, doc]"

def infoJ (i : Info) : Json := Json.arr #[optStrJ i.ty, optStrJ i.sh, optStrJ i.doc]

def parseVInfo (j : Json) : Except String VInfoP := do
  match ← arrOf j with
  | [n, t] => return ⟨← (fromJson? n : Except String String), ← parseInfo t⟩
  | _ => throw "vinfo: expected [name, info]"

def parseTensorP (j : Json) : Except String TensorP := do
  match ← arrOf j with
  | [n, d, t, s] =>
    return ⟨← (fromJson? n : Except String String), ← (fromJson? d : Except String String),
      ← (fromJson? t : Except String String), ← (fromJson? s : Except String String)⟩
  | _ => throw "tensor: expected [name, data, ty, sh]"

mutual
partial def parseGraphP (j : Json) : Except String GraphP := do
  let ins ← (← getArr j "inputs").mapM parseVInfo
  let its ← (← getArr j "inits").mapM parseTensorP
  let vis ← (← getArr j "vinfo").mapM parseVInfo
  let ns ← (← getArr j "nodes").mapM parseNodeP
  let outs ← (← getArr j "outputs").mapM parseVInfo
  return .mk ins its vis ns outs
partial def parseNodeP (j : Json) : Except String NodeP := do
  let i ← getStrs j "i"
  let o ← getStrs j "o"
  let g ← (← getArr j "g").mapM parseGraphP
  return .mk i o g
end

def vinfoJ (v : VInfoP) : Json := Json.arr #[Json.str v.name, infoJ v.info]
def tensorPJ (t : TensorP) : Json :=
  Json.arr #[Json.str t.name, Json.str t.data, Json.str t.ty, Json.str t.sh]

mutual
partial def graphPJ : GraphP → Json
  | .mk ins its vis ns outs =>
    obj [("inputs", Json.arr (ins.map vinfoJ).toArray), ("inits", Json.arr (its.map tensorPJ).toArray),
      ("vinfo", Json.arr (vis.map vinfoJ).toArray), ("nodes", Json.arr (ns.map nodePJ).toArray),
      ("outputs", Json.arr (outs.map vinfoJ).toArray)]
partial def nodePJ : NodeP → Json
  | .mk i o g => obj [("i", strsJ i), ("o", strsJ o), ("g", Json.arr (g.map graphPJ).toArray)]
end

mutual
partial def parseGraphT (j : Json) : Except String GraphT := do
  let id ← getNat j "id"
  let ins ← getNats j "inputs"
  let its ← (← getArr j "inits").mapM fun e => do
    match ← arrOf e with
    | [k, v] => return ((← (fromJson? k : Except String String)), (← (fromJson? v : Except String Nat)))
    | _ => throw "init: expected [key, v]"
  let ns ← (← getArr j "nodes").mapM parseNodeT
  let outs ← getNats j "outputs"
  return .mk id ins its ns outs
partial def parseNodeT (j : Json) : Except String NodeT := do
  let id ← getNat j "id"
  let gr ← getOptNat (j.getObjValD "graph")
  let i ← (← getArr j "i").mapM getOptNat
  let o ← getNats j "o"
  let g ← (← getArr j "g").mapM parseGraphT
  return .mk id gr i o g
end

mutual
partial def graphTJ : GraphT → Json
  | .mk id ins its ns outs =>
    obj [("id", toJson id), ("inputs", natsJ ins),
      ("inits", Json.arr (its.map fun (k, v) => Json.arr #[Json.str k, toJson v]).toArray),
      ("nodes", Json.arr (ns.map nodeTJ).toArray), ("outputs", natsJ outs)]
partial def nodeTJ : NodeT → Json
  | .mk id gr i o g =>
    obj [("id", toJson id), ("graph", optNatJ gr), ("i", Json.arr (i.map optNatJ).toArray),
      ("o", natsJ o), ("g", Json.arr (g.map graphTJ).toArray)]
end

def parseValue (j : Json) : Except String ValueS := do
  let uses ← (← getArr j "uses").mapM fun e => do
    match ← arrOf e with
    | [n, i] => return ((← (fromJson? n : Except String Nat)), (← (fromJson? i : Except String Nat)))
    | _ => throw "use: expected [node, index]"
  return {
    name := ← getOptStr (j.getObjValD "name"), info := ← parseInfo (j.getObjValD "info"),
    const := ← getOptNat (j.getObjValD "const"), producer := ← getOptNat (j.getObjValD "producer"),
    index := ← getOptNat (j.getObjValD "index"), uses := uses,
    graph := ← getOptNat (j.getObjValD "graph"), isIn := ← getBool j "isIn",
    isOut := ← getBool j "isOut", isInit := ← getBool j "isInit" }

def valueJ (c : ValueS) : Json :=
  obj [("name", optStrJ c.name), ("info", infoJ c.info), ("const", optNatJ c.const),
    ("producer", optNatJ c.producer), ("index", optNatJ c.index),
    ("uses", Json.arr (c.uses.map fun (n, i) => Json.arr #[toJson n, toJson i]).toArray),
    ("graph", optNatJ c.graph), ("isIn", toJson c.isIn), ("isOut", toJson c.isOut),
    ("isInit", toJson c.isInit)]

def parseTensorS (j : Json) : Except String TensorS := do
  match ← arrOf j with
  | [n, d, t, s] =>
    return ⟨← getOptStr n, ← (fromJson? d : Except String String), ← (fromJson? t : Except String String),
      ← (fromJson? s : Except String String)⟩
  | _ => throw "tensor: expected [name, data, ty, sh]"

def tensorSJ (t : TensorS) : Json :=
  Json.arr #[optStrJ t.name, Json.str t.data, Json.str t.ty, Json.str t.sh]

def parseWorld (j : Json) : Except String World := do
  let vs ← (← getArr j "vals").mapM parseValue
  let ts ← (← getArr j "tens").mapM parseTensorS
  let root ← parseGraphT (j.getObjValD "root")
  let va := vs.toArray
  let ta := ts.toArray
  return ⟨{ vals := fun i => va.getD i {}, nv := va.size, tens := fun i => ta.getD i {}, nt := ta.size,
            nn := (← getNat j "nn"), ng := (← getNat j "ng") }, root⟩

def storeJ (st : Store) : List (String × Json) :=
  [("vals", Json.arr ((List.range st.nv).map fun i => valueJ (st.vals i)).toArray),
   ("tens", Json.arr ((List.range st.nt).map fun i => tensorSJ (st.tens i)).toArray),
   ("nn", toJson st.nn), ("ng", toJson st.ng)]

def worldJ (w : World) : Json := obj (storeJ w.st ++ [("root", graphTJ w.root)])

def errJ : Err → Json
  | .redeclared n => obj [("kind", "redeclared"), ("name", Json.str n)]
  | .assertScope n => obj [("kind", "assertScope"), ("name", Json.str n)]
  | .keyError n => obj [("kind", "keyError"), ("name", Json.str n)]

def serJ (w : World) : List (String × Json) :=
  match serialize w with
  | .error _ => [("ser_ok", toJson false)]
  | .ok (w1, p) =>
    [("ser_ok", toJson true), ("p", graphPJ p),
     ("tens_after", Json.arr ((List.range w1.st.nt).map fun i => tensorSJ (w1.st.tens i)).toArray)]

def parseFId (j : Json) : Except String FId := do
  match ← arrOf j with
  | [a, b, c] => return ⟨← (fromJson? a : Except String String), ← (fromJson? b : Except String String),
      ← (fromJson? c : Except String String)⟩
  | _ => throw "function id: expected [domain, name, overload]"

def fidJ (i : FId) : Json := Json.arr #[Json.str i.domain, Json.str i.name, Json.str i.overload]

def parseFuncP (j : Json) : Except String FuncP := do
  let id ← parseFId (j.getObjValD "id")
  let ins ← getStrs j "inputs"
  let outs ← getStrs j "outputs"
  let vis ← (← getArr j "vinfo").mapM parseVInfo
  let ns ← (← getArr j "nodes").mapM parseNodeP
  return ⟨id, ins, outs, vis, ns⟩

def funcPJ (f : FuncP) : Json :=
  obj [("id", fidJ f.id), ("inputs", strsJ f.inputs), ("outputs", strsJ f.outputs),
    ("vinfo", Json.arr (f.vinfo.map vinfoJ).toArray), ("nodes", Json.arr (f.nodes.map nodePJ).toArray)]

def parseModelP (j : Json) : Except String ModelP := do
  let p ← parseGraphP (j.getObjValD "p")
  let fs ← (← getArr j "funcs").mapM parseFuncP
  return ⟨p, fs⟩

def modelPJ (m : ModelP) : Json := obj [("p", graphPJ m.graph), ("funcs", Json.arr (m.funcs.map funcPJ).toArray)]

def parseMWorld (j : Json) : Except String MWorld := do
  let w ← parseWorld j
  let fs ← (← getArr j "funcs").mapM fun e => do
    match ← arrOf e with
    | [i, g] => return ((← parseFId i), (← parseGraphT g))
    | _ => throw "function: expected [id, GraphT]"
  return ⟨w.st, w.root, fs⟩

def mworldJ (w : MWorld) : Json :=
  obj (storeJ w.st ++ [("root", graphTJ w.root),
    ("funcs", Json.arr (w.funcs.map fun (i, g) => Json.arr #[fidJ i, graphTJ g]).toArray)])

def handle : Handler := fun m j =>
  match m with
  | "scope.deser" => some do
      let p ← parseGraphP (j.getObjValD "p")
      match deserialize p with
      | .error e => return obj [("ok", toJson false), ("err", errJ e)]
      | .ok w =>
        -- also: serialize the result, deserialize that, serialize again (fix-point data)
        let extra : List (String × Json) :=
          match serialize w with
          | .error _ => [("ser_ok", toJson false)]
          | .ok (_, q) =>
            match deserialize q with
            | .error _ => [("ser_ok", toJson true), ("q", graphPJ q), ("deser2_ok", toJson false)]
            | .ok w2 =>
              match serialize w2 with
              | .error _ => [("ser_ok", toJson true), ("q", graphPJ q), ("deser2_ok", toJson true),
                  ("ser2_ok", toJson false)]
              | .ok (_, q2) => [("ser_ok", toJson true), ("q", graphPJ q), ("deser2_ok", toJson true),
                  ("ser2_ok", toJson true), ("q2", graphPJ q2)]
        return obj ([("ok", toJson true), ("world", worldJ w)] ++ extra)
  | "scope.ser" => some do
      let w ← parseWorld (j.getObjValD "w")
      let base := serJ w ++ [("serializable", toJson (serializableB w))]
      match serialize w with
      | .error _ => return obj base
      | .ok (w1, p) =>
        -- second serialization of the world left by the first, and the round trip
        let twice : List (String × Json) :=
          match serialize w1 with
          | .error _ => [("ser2_ok", toJson false)]
          | .ok (_, p2) => [("ser2_ok", toJson true), ("p2", graphPJ p2)]
        let rt : List (String × Json) :=
          match deserialize p with
          | .error e => [("deser_ok", toJson false), ("err", errJ e)]
          | .ok w2 => [("deser_ok", toJson true), ("world2", worldJ w2)]
        return obj (base ++ twice ++ rt)
  | "scope.mdeser" => some do
      let p ← parseModelP j
      match deserializeM p with
      | .error e => return obj [("ok", toJson false), ("err", errJ e)]
      | .ok w =>
        let extra : List (String × Json) :=
          match serializeM w with
          | .error _ => [("ser_ok", toJson false)]
          | .ok (_, q) =>
            match deserializeM q with
            | .error _ => [("ser_ok", toJson true), ("q", modelPJ q), ("deser2_ok", toJson false)]
            | .ok w2 =>
              match serializeM w2 with
              | .error _ => [("ser_ok", toJson true), ("q", modelPJ q), ("deser2_ok", toJson true),
                  ("ser2_ok", toJson false)]
              | .ok (_, q2) => [("ser_ok", toJson true), ("q", modelPJ q), ("deser2_ok", toJson true),
                  ("ser2_ok", toJson true), ("q2", modelPJ q2)]
        return obj ([("ok", toJson true), ("world", mworldJ w)] ++ extra)
  | "scope.mser" => some do
      let w ← parseMWorld (j.getObjValD "w")
      match serializeM w with
      | .error _ => return obj [("ser_ok", toJson false)]
      | .ok (w1, p) =>
        let base : List (String × Json) :=
          [("ser_ok", toJson true), ("p", modelPJ p),
           ("tens_after", Json.arr ((List.range w1.st.nt).map fun i => tensorSJ (w1.st.tens i)).toArray)]
        let twice : List (String × Json) :=
          match serializeM w1 with
          | .error _ => [("ser2_ok", toJson false)]
          | .ok (_, p2) => [("ser2_ok", toJson true), ("p2", modelPJ p2)]
        let rt : List (String × Json) :=
          match deserializeM p with
          | .error e => [("deser_ok", toJson false), ("err", errJ e)]
          | .ok w2 => [("deser_ok", toJson true), ("world2", mworldJ w2)]
        return obj (base ++ twice ++ rt)
  | _ => none

end IrVerif.Drive.Scope

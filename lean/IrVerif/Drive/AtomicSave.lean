import IrVerif.Drive.Util
import IrVerif.Model.AtomicSave
import IrVerif.Model.AtomicSaveLinks
import IrVerif.Model.AtomicSaveConc
import IrVerif.Model.AtomicSaveNest
/-! Protocol handler for the C08 model (`asave.run`, `asave.image`, `asave.writeat`).

Request `asave.run`:
  kind: "save" | "unload" | "sharded";  dest, newMode, cb
  files: [[name, ino]], dirs: [name], inodes: [[ino, bytes, mode]], next
  tensors: [{off, chunks, ext: null | {path, off, len}}]   (jobs: [[dest, tensors]] when sharded)
  valid: [bool], mapped: [ino | null]   (per external-tensor object id)
  small: [[id, ext]]                    (unload only)
  faults: [[k, p]]                      (effect index k fails after p bytes)
  universe: [name], exts: [[id, ext]]   (what to report)
Answer: trace, raised, final state, state at the first failed step (crash), overwritten ids.
  kind "marked": writer: [[tag, args.., failed, p]] (a writer block in which failed effects do not end the block)
  kind "shardedAll": jobs in the order the shard drivers ran them, a failing shard does not stop the others
Request `asave.resolveL`: links [[loc, abs, target]], gas, requested -> destination path, entry, temp parent, ...
Request `asave.runL` (kind "saveL" | "shardedL"): the save on a file system with symbolic links.
Request `asave.parvalid`: is the writer trace in the language of `_write_parallel`?
Request `asave.conc`: concurrent shard drivers interleaved effect by effect (`saveShardedConc`):
  jobs [[dest, tensors]] (serial writers), sched [[k, p | null]] or "seq" (the sequential schedule, no fault);
  answer: trace [[k, eff.., failed]], refused, raised, allDone, cleanFaults (no clean-up effect failed),
  final / crash / crashLast (shared directory + per driver [tmpdir, tmpfile]), newBytes per job. -/
open Lean IrVerif.Drive
namespace IrVerif.Drive.AtomicSave
open IrVerif.AtomicSave

def getExt (j : Json) : Except String Ext := do
  return ⟨← getStr j "path", ← getNat j "off", ← getNat j "len"⟩

def getBytesList (j : Json) (k : String) : Except String (List Bytes) := do
  let a ← getArr j k
  a.mapM fun x => do
    let v ← (fromJson? x : Except String (Array Nat))
    return v.toList

def getTensor (j : Json) : Except String Tensor := do
  let e ← j.getObjVal? "ext"
  let ext ← if e.isNull then pure none else (do return some (← getExt e))
  return ⟨← getNat j "off", ← getBytesList j "chunks", ext⟩

def getTensors (j : Json) (k : String) : Except String (List Tensor) := do
  (← getArr j k).mapM getTensor

def optNatJ : Option Nat → Json
  | some n => toJson n
  | none => Json.null

def optBytesJ : Option Bytes → Json
  | some b => natsJ b
  | none => Json.null

def mkFS (j : Json) : Except String FS := do
  let files ← getArr j "files"
  let dirs ← getStrs j "dirs"
  let inodes ← getArr j "inodes"
  let mut file : Path → Option Nat := fun _ => none
  for f in files do
    let a ← (fromJson? f : Except String (Array Json))
    let name ← (fromJson? a[0]! : Except String String)
    let ino ← (fromJson? a[1]! : Except String Nat)
    file := upd file (.user name) (some ino)
  let mut isDir : Path → Bool := fun _ => false
  for d in dirs do
    isDir := upd isDir (.user d) true
  let mut data : Nat → Bytes := fun _ => []
  let mut mode : Nat → Nat := fun _ => 0
  for i in inodes do
    let a ← (fromJson? i : Except String (Array Json))
    let ino ← (fromJson? a[0]! : Except String Nat)
    let bs ← (fromJson? a[1]! : Except String (Array Nat))
    let md ← (fromJson? a[2]! : Except String Nat)
    data := upd data ino bs.toList
    mode := upd mode ino md
  return ⟨file, isDir, data, mode, ← getNat j "next"⟩

def mkSt (j : Json) : Except String St := do
  let fs ← mkFS j
  let valid ← (j.getObjValAs? (Array Bool) "valid")
  let mappedJ ← getArr j "mapped"
  let mapped ← mappedJ.mapM fun x =>
    if x.isNull then pure none else (do return some (← (fromJson? x : Except String Nat)))
  return ⟨fs, none, 0, fun i => valid.toList.getD i true, fun i => mapped.getD i none,
    fun _ => none, false, fun _ => none⟩

def mkFaults (j : Json) : Except String (Nat → Option Nat) := do
  let fs ← getArr j "faults"
  let mut f : Nat → Option Nat := fun _ => none
  for x in fs do
    let a ← (fromJson? x : Except String (Array Nat))
    f := upd f a[0]! (some a[1]!)
  return f

def effJ : Eff → List Json
  | .mkdtemp => [Json.str "mkdtemp"]
  | .openTmp => [Json.str "open"]
  | .callback i => [Json.str "cb", toJson i]
  | .seek o => [Json.str "seek", toJson o]
  | .write bs => [Json.str "write", toJson bs.length]
  | .closeTmp => [Json.str "close"]
  | .release i => [Json.str "release", toJson i]
  | .copymode => [Json.str "copymode"]
  | .replace => [Json.str "replace"]
  | .removeTmp => [Json.str "remove"]
  | .rmdirTmp => [Json.str "rmdir"]
  | .invalidate i => [Json.str "invalidate", toJson i]
  | .loadSmall i _ => [Json.str "load", toJson i]
  | .truncate n => [Json.str "truncate", toJson n]
  | .openW w => [Json.str "openw", toJson w]
  | .seekW w o => [Json.str "seekw", toJson w, toJson o]
  | .writeW w bs => [Json.str "writew", toJson w, toJson bs.length]
  | .closeW w => [Json.str "closew", toJson w]

/-- Writer effects given explicitly (parallel writer: the observed schedule). Only effects on the
temporary file are accepted. -/
def getWriterEff (x : Json) : Except String Eff := do
  let a ← (fromJson? x : Except String (Array Json))
  let tag ← (fromJson? a[0]! : Except String String)
  let nat (i : Nat) : Except String Nat := (fromJson? a[i]! : Except String Nat)
  let bytes (i : Nat) : Except String Bytes := do
    let v ← (fromJson? a[i]! : Except String (Array Nat))
    return v.toList
  match tag with
  | "open" => return .openTmp
  | "truncate" => return .truncate (← nat 1)
  | "close" => return .closeTmp
  | "cb" => return .callback (← nat 1)
  | "seek" => return .seek (← nat 1)
  | "write" => return .write (← bytes 1)
  | "openw" => return .openW (← nat 1)
  | "seekw" => return .seekW (← nat 1) (← nat 2)
  | "writew" => return .writeW (← nat 1) (← bytes 2)
  | "closew" => return .closeW (← nat 1)
  | t => throw s!"not a writer effect: {t}"

/-- `[tag, args.., failed, p]`: a writer effect with its fate. -/
def getMarked (x : Json) : Except String Marked := do
  let a ← (fromJson? x : Except String (Array Json))
  if a.size < 3 then throw "marked effect too short"
  let e ← getWriterEff (Json.arr (a.extract 0 (a.size - 2)))
  let failed ← (fromJson? a[a.size - 2]! : Except String Bool)
  let p ← (fromJson? a[a.size - 1]! : Except String Nat)
  return (e, if failed then some p else none)

def getJobs (j : Json) : Except String (List (String × List Tensor)) := do
  (← getArr j "jobs").mapM fun x => do
    let a ← (fromJson? x : Except String (Array Json))
    let d ← (fromJson? a[0]! : Except String String)
    let ts ← (← (fromJson? a[1]! : Except String (Array Json))).toList.mapM getTensor
    return (d, ts)

def stepJ (s : Step) : Json := Json.arr (effJ s.eff ++ [Json.bool s.failed]).toArray

def inoJ (s : St) : Option Nat → Json
  | some i => Json.arr #[toJson i, natsJ (s.fs.data i), toJson (s.fs.mode i)]
  | none => Json.null

def stJ (univ : List String) (exts : List (Nat × Ext)) (s : St) : Json :=
  obj [
    ("files", Json.arr (univ.map fun n =>
        Json.arr #[Json.str n, inoJ s (s.fs.file (.user n)), Json.bool (s.fs.isDir (.user n))]).toArray),
    ("tmpdir", Json.bool (s.fs.isDir .tmpDir)),
    ("tmpfile", inoJ s (s.fs.file .tmpFile)),
    ("valid", Json.arr (exts.map fun (i, _) => Json.bool (s.valid i)).toArray),
    ("mapped", Json.arr (exts.map fun (i, _) => optNatJ (s.mapped i)).toArray),
    ("reads", Json.arr (exts.map fun (i, e) => optBytesJ (readT s i e)).toArray),
    ("mem", Json.arr (exts.map fun (i, _) => optBytesJ (s.mem i)).toArray),
    ("replaced", Json.bool s.replaced)]

def getExts (j : Json) (k : String) : Except String (List (Nat × Ext)) := do
  (← getArr j k).mapM fun x => do
    let a ← (fromJson? x : Except String (Array Json))
    let i ← (fromJson? a[0]! : Except String Nat)
    return (i, ← getExt a[1]!)

def run (j : Json) : Except String Json := do
  let kind ← getStr j "kind"
  let s0 ← mkSt j
  let f ← mkFaults j
  let cb ← getBool j "cb"
  let newMode ← getNat j "newMode"
  let univ ← getStrs j "universe"
  let exts ← getExts j "exts"
  let (res, ow, inv) ← match kind with
    | "save" => do
        let cfg : Cfg := ⟨⟨← getStr j "dest", newMode⟩, ← getTensors j "tensors", cb⟩
        pure (save cfg f 0 s0, overwritten cfg s0, invalidated cfg s0)
    | "unload" => do
        let cfg : Cfg := ⟨⟨← getStr j "dest", newMode⟩, ← getTensors j "tensors", cb⟩
        pure (unload cfg (← getExts j "small") f s0, overwritten cfg s0, invalidated cfg s0)
    | "writer" => do
        let cfg : Cfg := ⟨⟨← getStr j "dest", newMode⟩, ← getTensors j "tensors", cb⟩
        let writer ← (← getArr j "writer").mapM getWriterEff
        pure (saveWriter cfg writer f 0 s0, overwritten cfg s0, invalidated cfg s0)
    | "marked" => do
        let cfg : Cfg := ⟨⟨← getStr j "dest", newMode⟩, ← getTensors j "tensors", cb⟩
        let m ← (← getArr j "writer").mapM getMarked
        pure (saveMarked cfg m f 0 s0, overwritten cfg s0, invalidated cfg s0)
    | "shardedAll" => do
        let jobs ← getJobs j
        pure (saveShardedAll newMode cb jobs f s0, [], [])
    | "sharded" => do
        let jobs ← (← getArr j "jobs").mapM fun x => do
          let a ← (fromJson? x : Except String (Array Json))
          let d ← (fromJson? a[0]! : Except String String)
          let ts ← (← (fromJson? a[1]! : Except String (Array Json))).toList.mapM getTensor
          return (d, ts)
        pure (saveSharded newMode cb jobs f s0, [], [])
    | k => throw s!"unknown kind {k}"
  let crash := match res.steps.find? (·.failed) with
    | some st => stJ univ exts st.st
    | none => Json.null
  let crashLast := match (res.steps.filter (·.failed)).getLast? with
    | some st => stJ univ exts st.st
    | none => Json.null
  return obj [
    ("crashLast", crashLast),
    ("trace", Json.arr (res.steps.map stepJ).toArray),
    ("raised", Json.bool res.faulted),
    ("final", stJ univ exts res.final),
    ("crash", crash),
    ("overwritten", natsJ ow),
    ("invalidated", natsJ inv)]


/-! ### File system with symbolic links -/

def getComps (x : Json) : Except String Comps := do
  let a ← (fromJson? x : Except String (Array String))
  return a.toList

def getLinks (j : Json) : Except String Links := do
  (← getArr j "links").mapM fun x => do
    let a ← (fromJson? x : Except String (Array Json))
    let loc ← getComps a[0]!
    let ab ← (fromJson? a[1]! : Except String Bool)
    let tg ← getComps a[2]!
    return (loc, ⟨ab, tg⟩)

def compsJ (p : Comps) : Json := strsJ p

def optCompsJ : Option Comps → Json
  | some p => compsJ p
  | none => Json.null

def linksJ (L : Links) : Json :=
  Json.arr (L.map fun (loc, l) => Json.arr #[compsJ loc, Json.bool l.abs, compsJ l.target]).toArray

def getLTensor (j : Json) : Except String LTensor := do
  let e ← j.getObjVal? "ext"
  let ext ← if e.isNull then pure none else (do
    return some (⟨← getComps (← e.getObjVal? "path"), ← getNat e "off", ← getNat e "len"⟩ : LExt))
  return ⟨← getNat j "off", ← getBytesList j "chunks", ext⟩

def resolveL (j : Json) : Except String Json := do
  let L ← getLinks j
  let gas ← getNat j "gas"
  let req ← getComps (← j.getObjVal? "requested")
  let d := destinationPathL L gas req
  return obj [
    ("islink", Json.bool (isLinkL L gas req)),
    ("realpath", optCompsJ (realpathL L gas req)),
    ("dest", optCompsJ d),
    ("entry", optCompsJ (destEntryL L gas req)),
    ("entryIsLink", match destEntryL L gas req with
      | some e => Json.bool (L.lookup e).isSome
      | none => Json.null),
    ("tmpParent", match d with
      | some d => optCompsJ (tmpParentL L gas d)
      | none => Json.null),
    ("proper", Json.bool (properBase req)),
    ("follow", Json.str (followName L gas req))]

def lstJ (univ : List String) (exts : List (Nat × Ext)) (gas : Nat) (req : Comps) (s : LSt) : Json :=
  (stJ univ exts s.st).mergeObj (obj [
    ("links", linksJ s.links),
    ("reach", optBytesJ (reachL s.links gas s.st req))])

def runL (j : Json) : Except String Json := do
  let kind ← getStr j "kind"
  let s0 ← mkSt j
  let f ← mkFaults j
  let cb ← getBool j "cb"
  let newMode ← getNat j "newMode"
  let univ ← getStrs j "universe"
  let L ← getLinks j
  let gas ← getNat j "gas"
  match kind with
  | "saveL" => do
    let req ← getComps (← j.getObjVal? "requested")
    let ts ← (← getArr j "tensors").mapM getLTensor
    let c : LCfg := ⟨gas, req, newMode, ts, cb⟩
    -- what to report for the external tensor objects: ids with the fields as spelled
    let lexts ← (← getArr j "exts").mapM fun x => do
      let a ← (fromJson? x : Except String (Array Json))
      let i ← (fromJson? a[0]! : Except String Nat)
      let e := a[1]!
      return (i, (⟨followName L gas (← getComps (← e.getObjVal? "path")), ← getNat e "off", ← getNat e "len"⟩ : Ext))
    match saveL L c f 0 s0 with
    | none => return obj [("unresolvable", Json.bool true)]
    | some res =>
      let crash := match res.steps.find? (·.failed) with
        | some st => lstJ univ lexts gas req st.st
        | none => Json.null
      let crashLast := match (res.steps.filter (·.failed)).getLast? with
        | some st => lstJ univ lexts gas req st.st
        | none => Json.null
      return obj [
        ("unresolvable", Json.bool false),
        ("entry", optCompsJ (destEntryL L gas req)),
        ("trace", Json.arr (res.steps.map fun s => Json.arr (effJ s.eff ++ [Json.bool s.failed]).toArray).toArray),
        ("raised", Json.bool res.faulted),
        ("final", lstJ univ lexts gas req res.final),
        ("crash", crash),
        ("crashLast", crashLast),
        ("linksKept", Json.bool (res.steps.all fun s => s.st.links == L))]
  | "shardedL" => do
    let jobsL ← (← getArr j "jobs").mapM fun x => do
      let a ← (fromJson? x : Except String (Array Json))
      let d ← getComps a[0]!
      let ts ← (← (fromJson? a[1]! : Except String (Array Json))).toList.mapM getLTensor
      return (d, ts)
    let exts ← getExts j "exts"
    match lowerJobs L gas jobsL with
    | none => return obj [("unresolvable", Json.bool true)]
    | some jobs =>
      let res := saveSharded newMode cb jobs f s0
      let crash := match res.steps.find? (·.failed) with
        | some st => stJ univ exts st.st
        | none => Json.null
      let crashLast := match (res.steps.filter (·.failed)).getLast? with
        | some st => stJ univ exts st.st
        | none => Json.null
      return obj [
        ("unresolvable", Json.bool false),
        ("jobs", strsJ (jobs.map (·.1))),
        ("trace", Json.arr (res.steps.map stepJ).toArray),
        ("raised", Json.bool res.faulted),
        ("final", stJ univ exts res.final),
        ("crash", crash),
        ("crashLast", crashLast)]
  | k => throw s!"unknown kind {k}"

def parvalid (j : Json) : Except String Json := do
  let cfg : Cfg := ⟨⟨"", 0⟩, ← getTensors j "tensors", ← getBool j "cb"⟩
  let writer ← (← getArr j "writer").mapM getWriterEff
  return obj [("r", Json.bool (parValid cfg (← getNat j "maxWorkers") writer)),
    ("total", toJson (totalSize cfg.tensors))]

/-! ### Concurrent shard drivers -/

def cstJ (univ : List String) (exts : List (Nat × Ext)) (n : Nat) (c : CSt) : Json :=
  (stJ univ exts c.sh).mergeObj (obj [
    ("tmps", Json.arr ((List.range n).map fun k =>
      Json.arr #[Json.bool ((c.procs k).loc.fs.isDir .tmpDir), Json.bool ((c.procs k).loc.fs.file .tmpFile).isSome]).toArray),
    ("pcs", Json.arr ((List.range n).map fun k => Json.str (match (c.procs k).pc with
      | .init => "init" | .body _ => "body" | .fin1 _ => "fin1" | .fin2 _ => "fin2"
      | .done true => "raised" | .done false => "returned")).toArray)])

def conc (j : Json) : Except String Json := do
  let s0 ← mkSt j
  let cb ← getBool j "cb"
  let newMode ← getNat j "newMode"
  let univ ← getStrs j "universe"
  let exts ← getExts j "exts"
  let jobs := (← getJobs j).map (serialJob cb)
  let schedJ ← j.getObjVal? "sched"
  let sched ← match schedJ with
    | Json.str "seq" => pure (seqSched jobs fun _ _ => none)
    | _ => do
      let a ← (fromJson? schedJ : Except String (Array Json))
      a.toList.mapM fun x => do
        let b ← (fromJson? x : Except String (Array Json))
        let k ← (fromJson? b[0]! : Except String Nat)
        let f ← if b[1]!.isNull then pure none else (do return some (← (fromJson? b[1]! : Except String Nat)))
        return (⟨k, f⟩ : Pick)
  let res := saveShardedConc newMode jobs sched s0
  let n := jobs.length
  let crash := match res.steps.find? (·.failed) with
    | some st => cstJ univ exts n st.st
    | none => Json.null
  let crashLast := match (res.steps.filter (·.failed)).getLast? with
    | some st => cstJ univ exts n st.st
    | none => Json.null
  return obj [
    ("trace", Json.arr (res.steps.map fun s => Json.arr ([toJson s.k] ++ effJ s.eff ++ [Json.bool s.failed]).toArray).toArray),
    ("refused", Json.bool res.refused),
    ("raised", Json.bool (res.refused || anyRaised n res.final)),
    ("allDone", Json.bool (allDone n res.final)),
    ("cleanFaults", Json.bool (res.steps.all fun s => !s.failed || (s.eff != .removeTmp && s.eff != .rmdirTmp))),
    ("writerBodies", Json.bool (jobs.all fun jb => jb.body.all Eff.isWriter)),
    ("newBytes", Json.arr (jobs.map fun jb => optBytesJ (newBytes newMode jb)).toArray),
    ("final", cstJ univ exts n res.final),
    ("crash", crash),
    ("crashLast", crashLast)]

/-! ### Two levels: concurrent shard drivers with inner parallel writers (`saveShardedNest`)

Request `asave.nest`: jobs [[dest, tensors]], par (inner writers are parallel: `workers_per_shard > 1`), cb,
sched [[k, w | null, task | null, p | null]] (shard, handle of the inner worker or null = the driver thread, the task an
idle worker takes, fault);
answer: trace [[k, w | null, eff.., failed]], refused, raised, allDone, jobOk / nBytes / parallel per job, states. -/

def ncstJ (univ : List String) (exts : List (Nat × Ext)) (n : Nat) (c : NCSt) : Json :=
  (stJ univ exts c.sh).mergeObj (obj [
    ("tmps", Json.arr ((List.range n).map fun k =>
      Json.arr #[Json.bool ((c.procs k).loc.fs.isDir .tmpDir), Json.bool ((c.procs k).loc.fs.file .tmpFile).isSome]).toArray),
    ("pcs", Json.arr ((List.range n).map fun k => Json.str (match (c.procs k).pc with
      | .init => "init" | .pre _ => "pre" | .pool => "pool" | .closing _ _ => "closing" | .rep => "rep"
      | .fin1 _ => "fin1" | .fin2 _ => "fin2"
      | .done true => "raised" | .done false => "returned")).toArray),
    ("busy", Json.arr ((List.range n).map fun k => toJson (c.procs k).act.length).toArray)])

def nest (j : Json) : Except String Json := do
  let s0 ← mkSt j
  let cb ← getBool j "cb"
  let par ← getBool j "par"
  let newMode ← getNat j "newMode"
  let univ ← getStrs j "universe"
  let exts ← getExts j "exts"
  let jobs := (← getJobs j).map (mkNJob cb par)
  let a ← getArr j "sched"
  let sched ← a.mapM fun x => do
    let b ← (fromJson? x : Except String (Array Json))
    let k ← (fromJson? b[0]! : Except String Nat)
    let w ← if b[1]!.isNull then pure none else (do return some (← (fromJson? b[1]! : Except String Nat)))
    let tk ← if b[2]!.isNull then pure 0 else (fromJson? b[2]! : Except String Nat)
    let f ← if b[3]!.isNull then pure none else (do return some (← (fromJson? b[3]! : Except String Nat)))
    return (⟨k, w, tk, f⟩ : NPick)
  let res := saveShardedNest newMode jobs sched s0
  let n := jobs.length
  let crash := match res.steps.find? (·.failed) with
    | some st => ncstJ univ exts n st.st
    | none => Json.null
  let crashLast := match (res.steps.filter (·.failed)).getLast? with
    | some st => ncstJ univ exts n st.st
    | none => Json.null
  return obj [
    ("trace", Json.arr (res.steps.map fun s => Json.arr ([toJson s.k, optNatJ s.w] ++ effJ s.eff ++ [Json.bool s.failed]).toArray).toArray),
    ("refused", Json.bool res.refused),
    ("raised", Json.bool (res.refused || nAnyRaised n res.final)),
    ("allDone", Json.bool (nAllDone n res.final)),
    ("jobOk", Json.arr (jobs.map fun jb => Json.bool (jobOk newMode jb)).toArray),
    ("parallel", Json.arr (jobs.map fun jb => Json.bool (!jb.tasks.isEmpty)).toArray),
    ("nBytes", Json.arr (jobs.map fun jb => natsJ (nBytes newMode jb)).toArray),
    ("final", ncstJ univ exts n res.final),
    ("crash", crash),
    ("crashLast", crashLast)]

def handle : Handler := fun m j =>
  match m with
  | "asave.nest" => some (nest j)
  | "asave.conc" => some (conc j)
  | "asave.run" => some (run j)
  | "asave.runL" => some (runL j)
  | "asave.resolveL" => some (resolveL j)
  | "asave.parvalid" => some (parvalid j)
  | "asave.resolve" => some do
      let ls ← (← getArr j "links").mapM fun x => do
        let a ← (fromJson? x : Except String (Array String))
        return (a[0]!, a[1]!)
      return obj [("r", Json.str (destinationOf ls (← getStr j "requested")))]
  | "asave.image" => some do return obj [("r", natsJ (image (← getTensors j "tensors")))]
  | "asave.writeat" => some do
      let bs ← (j.getObjValAs? (Array Nat) "bs")
      let buf ← (j.getObjValAs? (Array Nat) "buf")
      return obj [("r", natsJ (writeAt buf.toList (← getNat j "pos") bs.toList))]
  | _ => none

end IrVerif.Drive.AtomicSave

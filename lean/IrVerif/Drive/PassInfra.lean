import IrVerif.Drive.Util
import IrVerif.Model.PassInfra
import IrVerif.Model.PassFlags
import IrVerif.Model.PassFlags2
import IrVerif.Drive.Sort
import IrVerif.Drive.Passes
import IrVerif.Drive.Inline
import IrVerif.Drive.Kernel
import IrVerif.Model.PassFlags3
import IrVerif.Model.PassKernel
import IrVerif.Model.PassKernel2
import IrVerif.Model.PassFlags4
/-! Protocol handler for the C14 models (`passinfra.*`). -/
open Lean IrVerif.Drive
namespace IrVerif.Drive.PassInfra
open IrVerif.PassInfra

/-! ### scripted passes -/

/-- the scripted world: next fresh model id, per-leaf invocation counters, event log
    (phase, leaf id, model id) newest first; phase 0 = requires, 1 = call, 2 = ensures, 3 = clone -/
structure SW where
  next : Nat
  counts : List (Nat × Nat)
  log : List (Nat × Nat × Nat)

def SW.count (w : SW) (leaf : Nat) : Nat := (w.counts.lookup leaf).getD 0
def SW.bump (w : SW) (leaf : Nat) : SW :=
  { w with counts := (leaf, w.count leaf + 1) :: w.counts.filter (fun p => p.1 != leaf) }
def SW.logE (w : SW) (ph leaf m : Nat) : SW := { w with log := (ph, leaf, m) :: w.log }

/-- behaviour of one invocation: `req`/`ens`: 0 ok, 1 raise PreconditionError/PostconditionError,
    2 raise something else; `ret`: 0 same model, 1 fresh model, 2 the model with id 0, 3 not a
    PassResult, 4 raise -/
structure Beh where
  req : Nat
  ret : Nat
  modified : Bool
  ens : Nat

def behAt (bs : List Beh) (k : Nat) : Beh :=
  if bs.isEmpty then ⟨0, 0, false, 0⟩ else bs.getD (k % bs.length) ⟨0, 0, false, 0⟩

def mkLeaf (id : Nat) (ip : Bool) (bs : List Beh) : Leaf SW where
  inPlace := ip
  requires := fun w m => ((w.logE 0 id m), (behAt bs (w.count id)).req != 0)
  call := fun w m =>
    let b := behAt bs (w.count id)
    let w := (w.logE 1 id m).bump id
    match b.ret with
    | 0 => (w, .result ⟨m, b.modified⟩)
    | 1 => ({ w with next := w.next + 1 }, .result ⟨w.next, b.modified⟩)
    | 2 => (w, .result ⟨0, b.modified⟩)
    | 3 => (w, .notResult)
    | _ => (w, .raised .other)
  ensures := fun w m => ((w.logE 2 id m), (behAt bs (w.count id - 1)).ens != 0)

def swClone (w : SW) (m : Nat) : SW × Nat := ({ (w.logE 3 0 m) with next := w.next + 1 }, w.next)

def parseBeh (j : Json) : Except String Beh := do
  return ⟨← getNat j "req", ← getNat j "ret", ← getBool j "mod", ← getNat j "ens"⟩

partial def parsePass (j : Json) : Except String (Pass SW) := do
  match (← getStr j "k") with
  | "leaf" =>
    let bs ← (← getArr j "beh").mapM parseBeh
    return .leaf (mkLeaf (← getNat j "id") (← getBool j "ip") bs)
  | "seq" => return .seq (← (← getArr j "ps").mapM parsePass)
  | "mgr" => return .mgr (← (← getArr j "ps").mapM parsePass) (← getNat j "steps") (← getBool j "es")
  | "func" => return .func (← parsePass (← j.getObjVal? "p"))
  | k => throw s!"unknown pass kind {k}"

partial def allCtorOk (p : Pass SW) : Bool :=
  ctorOk p && (match p with
    | .leaf _ => true
    | .seq ps => ps.all allCtorOk
    | .mgr ps _ _ => ps.all allCtorOk
    | .func q => allCtorOk q)

def excName : Exc → String
  | .precondition => "PreconditionError"
  | .postcondition => "PostconditionError"
  | .passError => "PassError"
  | .typeError => "TypeError"
  | .other => "other"

def runScripted (j : Json) : Except String Json := do
  let p ← parsePass (← j.getObjVal? "p")
  if !allCtorOk p then return obj [("ctor", toJson false)]
  let (w, res) := p.run swClone ⟨1, [], []⟩ 0
  let resJ := match res with
    | .ok r => Json.arr #[Json.str "ok", toJson r.model, toJson r.modified]
    | .error e => Json.arr #[Json.str "raised", Json.str (excName e)]
  let logJ := Json.arr (w.log.reverse.map (fun (a, b, c) => natsJ [a, b, c])).toArray
  return obj [("ctor", toJson true), ("res", resJ), ("log", logJ), ("inplace", toJson p.inPlace)]

/-- `mgrLoop` on its own: the round is scripted by a list of (modified, raises) pairs -/
def runMgrLoop (j : Json) : Except String Json := do
  let flags ← getArr j "rounds"
  let rounds ← flags.mapM (fun r => do return ((← getBool r "mod"), (← getBool r "raise")))
  let round : Nat → ModelId → Res Nat := fun k m =>
    match rounds[k]? with
    | none => (k + 1, .ok ⟨m, false⟩)
    | some (md, rs) => if rs then (k + 1, .error .other) else (k + 1, .ok ⟨m, md⟩)
  let out := mgrLoop round (← getBool j "es") (← getNat j "steps") 0 0 false
  let resJ := match out.2.1 with
    | .ok r => Json.arr #[Json.str "ok", toJson r.model, toJson r.modified]
    | .error e => Json.arr #[Json.str "raised", Json.str (excName e)]
  return obj [("res", resJ), ("rounds", toJson out.1),
    ("flags", Json.arr (out.2.2.map (fun (b : Bool) => toJson b)).toArray)]

/-! ### call_onnx_api -/
open CApi

def optNatJ : Option Nat → Json
  | none => Json.null
  | some n => toJson n

def getOptNat (j : Json) (k : String) : Except String (Option Nat) :=
  match j.getObjVal? k with
  | .ok Json.null => pure none
  | .ok v => do return some (← fromJson? v)
  | .error _ => pure none

def parseTensor (j : Json) : Except String (Option Tensor) :=
  match j with
  | Json.null => pure none
  | _ => do
    return some ⟨← getNat j "id", ← getNat j "nbytes", ← getNat j "shape", ← getNat j "dtype",
      ← getBool j "bad"⟩

def parseVal (j : Json) : Except String Val := do
  let c ← parseTensor ((j.getObjVal? "const").toOption.getD Json.null)
  return ⟨← getStr j "name", c, ← getOptNat j "shape", ← getOptNat j "type"⟩

def valJ (v : Val) : Json :=
  obj [("name", Json.str v.name),
       ("const", match v.const with | none => Json.null | some t => toJson t.id),
       ("shape", optNatJ v.shape), ("type", optNatJ v.type)]

def parseFault (j : Json) : Option Fault :=
  match j.getObjVal? "fault" with
  | .ok (Json.arr #[a, b]) =>
    match (fromJson? a : Except String Nat), (fromJson? b : Except String Bool) with
    | .ok a, .ok b => some ⟨a, b⟩
    | _, _ => none
  | _ => none

def primJ : Prim → Json
  | .setShape v _ => Json.arr #[Json.str "setShape", toJson v]
  | .setDtype v _ => Json.arr #[Json.str "setDtype", toJson v]
  | .appendInput v => Json.arr #[Json.str "appendInput", toJson v]
  | .clearConst v => Json.arr #[Json.str "clearConst", toJson v]
  | .popInit k => Json.arr #[Json.str "popInit", Json.str k]

def worldJ (nvals ntens : Nat) (g : G) : Json :=
  obj [("vals", Json.arr ((List.range nvals).map (fun i => valJ (g.val i))).toArray),
    ("inits", Json.arr (g.inits.map (fun (kv : String × Nat) =>
        Json.arr #[Json.str kv.1, toJson kv.2])).toArray),
    ("inputs", natsJ g.inputs),
    ("tnames", strsJ ((List.range ntens).map g.tname))]

def parseInferred (j : Json) : Except String Inferred := do
  (← getArr j "inferred").mapM (fun e => do
    return ((← getStr e "n"), (← getOptNat e "s"), (← getOptNat e "d")))

/-- one call (`call_onnx_api`, `CheckerPass`, `ShapeInferencePass`) described by `c` on graph `g` -/
def oneCall (mode : String) (c : Json) (g : G) : Except String (G × Json × Json × Json) := do
  let fault := parseFault c
  let serFail ← getBool c "ser_fail"
  let funcOk ← getBool c "func_ok"
  let ser : G → Option ProtoView := fun g => if serFail then none else serView g
  let reach : G → Nat := fun g => if serFail then 0 else serReach g
  let func : ProtoView → Option ProtoView := fun p => if funcOk then some p else none
  let st := strip fault (g.inits.map (·.2)) ⟨g, 0, false, []⟩
  let protoJ := match (if st.raised then none else ser st.g) with
    | none => Json.null
    | some p =>
      obj [("inits", Json.arr (p.inits.map (fun (kt : String × Nat) =>
              Json.arr #[Json.str kt.1, toJson kt.2])).toArray),
           ("inputs", Json.arr (p.inputs.map (fun (x : String × Option Nat × Option Nat) =>
              Json.arr #[Json.str x.1, optNatJ x.2.1, optNatJ x.2.2])).toArray)]
  let primsJ := Json.arr (st.log.reverse.map primJ).toArray
  let retJ : CallRet → Json
    | .result r => Json.arr #[Json.str "ok", toJson r.modified]
    | _ => Json.arr #[Json.str "raised"]
  match mode with
  | "checker" =>
    let (g', ret) := checkerCall fault reach ser (fun p => (func p).map (fun _ => ())) g 0
    return (g', retJ ret, protoJ, primsJ)
  | "shape" =>
    let deserOk := (c.getObjValAs? Bool "deser_ok").toOption.getD true
    let inf ← if deserOk then parseInferred c else pure []
    let ids ← getNats c "merge_ids"
    let (g', ret) := shapeInferenceCall fault reach ser func
      (fun _ => if deserOk then some inf else none) (mergeVals ids) g 0
    return (g', retJ ret, protoJ, primsJ)
  | _ =>
    let (g', out) := callOnnxApi fault reach ser func g
    let o := match out with
      | .ok _ => Json.arr #[Json.str "ok"]
      | .raised => Json.arr #[Json.str "raised"]
    return (g', o, protoJ, primsJ)

def runCApi (j : Json) : Except String Json := do
  let vals ← (← getArr j "vals").mapM parseVal
  let inits ← (← getArr j "inits").mapM (fun p => do return ((← getStr p "k"), (← getNat p "v")))
  let inputs ← getNats j "inputs"
  let tnames ← getStrs j "tnames"
  let mode ← getStr j "mode"
  let dflt : Val := ⟨"", none, none, none⟩
  let g : G := ⟨fun i => vals.getD i dflt, inits, inputs, fun t => tnames.getD t ""⟩
  -- a sequence of calls on the same model ("seq"), or the single call described at top level
  let calls := match j.getObjVal? "seq" with
    | .ok (Json.arr a) => a.toList
    | _ => [j]
  let mut cur := g
  let mut trace : Array Json := #[]
  let mut last : Json × Json × Json := (Json.null, Json.null, Json.null)
  for c in calls do
    let (g', o, protoJ, primsJ) ← oneCall mode c cur
    cur := g'
    last := (o, protoJ, primsJ)
    trace := trace.push (obj [("out", o), ("world", worldJ vals.length tnames.length g')])
  return obj [("out", last.1), ("proto", last.2.1), ("prims", last.2.2),
    ("world", worldJ vals.length tnames.length cur), ("trace", Json.arr trace)]

/-! ### concrete passes -/

def parseItem (j : Json) : Except String ClearMeta.Item := do
  return ⟨← getNat j "meta", ← getBool j "doc"⟩
def itemJ (i : ClearMeta.Item) : Json := obj [("meta", toJson i.nmeta), ("doc", toJson i.doc)]

def runClearMeta (j : Json) : Except String Json := do
  let nodes ← (← getArr j "nodes").mapM (fun n => do return ((← getNat n "g"), (← parseItem n)))
  let graphs ← (← getArr j "graphs").mapM parseItem
  let (s, md) := ClearMeta.pass ⟨nodes, graphs⟩
  return obj [("modified", toJson md),
    ("nodes", Json.arr (s.nodes.map (fun (g, i) => obj [("g", toJson g), ("meta", toJson i.nmeta), ("doc", toJson i.doc)])).toArray),
    ("graphs", Json.arr (s.graphs.map itemJ).toArray),
    ("size", toJson (ClearMeta.size s))]

def parseNatLists (j : Json) (k : String) : Except String (List (List Nat)) := do
  (← getArr j k).mapM (fun a => do let x : Array Nat ← fromJson? a; return x.toList)

def runSortFlag (j : Json) : Except String Json := do
  return obj [("r", toJson (sortFlag (← parseNatLists j "before") (← parseNatLists j "after")))]

def runInitInputs (add : Bool) (j : Json) : Except String Json := do
  let gs ← (← getArr j "graphs").mapM (fun g => do
    return (⟨← getNats g "inputs", ← getNats g "inits"⟩ : InitInputs.Gr))
  let (s, md) := if add then InitInputs.addInitializersToInputs gs
                 else InitInputs.removeInitializersFromInputs gs
  return obj [("modified", toJson md),
    ("graphs", Json.arr (s.map (fun g => natsJ g.inputs)).toArray)]

def getOptNats (j : Json) (k : String) : Except String (List (Option Nat)) := do
  (← getArr j k).mapM (fun x => match x with
    | Json.null => pure none
    | v => do return some (← fromJson? v))

def runDce (j : Json) : Except String Json := do
  let nodes ← (← getArr j "nodes").mapM (fun n => do
    return (⟨← getNat n "id", ← getOptNats n "inputs", ← getNats n "outputs"⟩ : Dce.Node))
  let s : Dce.St := ⟨nodes, ← getNats j "outs", ← getNats j "ins", ← getNats j "inits"⟩
  let (t, md) := Dce.removeUnusedNodes s
  return obj [("modified", toJson md),
    ("nodes", Json.arr (t.nodes.map (fun n => obj [("id", toJson n.id),
        ("inputs", Json.arr (n.inputs.map optNatJ).toArray), ("outputs", natsJ n.outputs)])).toArray),
    ("inits", natsJ t.inits), ("size", toJson (Dce.size t))]

/-- `PassManager([RemoveUnusedNodesPass()], steps, early_stop)(model)` on a graph without subgraphs:
    the manager model around the counting-pass instance -/
def runDceMgr (j : Json) : Except String Json := do
  let nodes ← (← getArr j "nodes").mapM (fun n => do
    return (⟨← getNat n "id", ← getOptNats n "inputs", ← getNats n "outputs"⟩ : Dce.Node))
  let s : Dce.St := ⟨nodes, ← getNats j "outs", ← getNats j "ins", ← getNats j "inits"⟩
  let p : Pass Dce.St := .mgr [.leaf (countingLeaf Dce.sites Dce.rw)] (← getNat j "steps") (← getBool j "es")
  let (t, res) := p.run (fun w m => (w, m + 1)) s 0
  let resJ := match res with
    | .ok r => Json.arr #[Json.str "ok", toJson r.model, toJson r.modified]
    | .error e => Json.arr #[Json.str "raised", Json.str (excName e)]
  return obj [("res", resJ),
    ("nodes", Json.arr (t.nodes.map (fun n => obj [("id", toJson n.id),
        ("inputs", Json.arr (n.inputs.map optNatJ).toArray), ("outputs", natsJ n.outputs)])).toArray),
    ("inits", natsJ t.inits)]

/-- the flag of `TopologicalSortPass` on C12's model of the pass -/
def runSortPass (j : Json) : Except String Json := do
  let gs ← (← getArr j "graphs").mapM IrVerif.Drive.Sort.parseGraph
  return obj [("raised", toJson (IrVerif.Sort.passEffect gs).1), ("flag", toJson (sortPassFlag gs))]

open IrVerif.PassFlags IrVerif.Passes in
/-- the `modified` flag (and count, measure before / after) of a pass on C05's model of it -/
def runFlags (j : Json) : Except String Json := do
  let m ← IrVerif.Drive.Passes.getModel (← j.getObjVal? "model")
  let pass ← getStr j "pass"
  match pass.splitOn ":" with
  | ["dce"] =>
    return obj [("flag", toJson (dceFlag m)), ("count", toJson (dceCount m)),
      ("before", toJson (dceSize m)), ("after", toJson (dceSize (dceModel m))),
      ("sorted", toJson (sortedModel m)), ("sorted_after", toJson (sortedModel (dceModel m)))]
  | ["lift", a, n] =>
    let la := a == "1"
    let lim := n.toNat?.getD 0
    return obj [("flag", toJson (liftFlag la lim m)), ("count", toJson (liftCntG la lim m.graph)),
      ("before", toJson (nodesG m.graph)), ("after", toJson (nodesG (liftConstModel la lim m).graph)),
      ("sorted", toJson (sortedModel m)), ("sorted_after", toJson (sortedModel (liftConstModel la lim m)))]
  | ["dedup", n] =>
    let lim := n.toNat?.getD 0
    return obj [("flag", toJson (dedupFlag lim m)), ("count", toJson (dedupCntG lim m.graph)),
      ("before", toJson (initsG m.graph)), ("after", toJson (initsG (dedupModel lim m).graph)),
      ("sorted", toJson (sortedModel m)), ("sorted_after", toJson (sortedModel (dedupModel lim m))),
      ("ssa", toJson (IrVerif.Sem.ssaG m.graph))]
  | _ => throw s!"unknown pass {pass}"

open IrVerif.PassFlags IrVerif.Passes IrVerif.Sem in
/-- deepening round: flag, count, measure before / after, RESULT MODEL and the flag of a second
    application, for IdentityElimination / CSE / LiftSubgraphInitializers / OutputFix on C05's models -/
def runFlags2 (j : Json) : Except String Json := do
  let m ← IrVerif.Drive.Passes.getModel (← j.getObjVal? "model")
  let pass ← getStr j "pass"
  let pack (flag : Bool) (count before after : Nat) (out : Model) (flag2 : Bool) (idem : Bool)
      (extra : List (String × Json)) : Json :=
    obj ([("flag", toJson flag), ("count", toJson count), ("before", toJson before), ("after", toJson after),
      ("model", IrVerif.Drive.Passes.modelJ out), ("flag2", toJson flag2), ("idem", toJson idem),
      ("valid", toJson (validModel m)), ("idnb", toJson (idNoBodies m)), ("sorted", toJson (sortedModel m)),
      ("sorted_after", toJson (sortedModel out))] ++ extra)
  let same (a b : Model) : Bool :=
    toString (IrVerif.Drive.Passes.modelJ a) == toString (IrVerif.Drive.Passes.modelJ b)
  match pass.splitOn ":" with
  | ["identity"] =>
    let out := ieModel m
    return pack (ieFlag m) (ieCount m) (nodesM m) (nodesM out) out (ieFlag out) (same (ieModel out) out) []
  | ["cse", n] =>
    let lim := n.toNat?.getD 0
    let out := cseModel lim m
    return pack (cseFlag lim m) (cseCount lim m) m.graph.nodes.length out.graph.nodes.length out
      (cseFlag lim out) (same (cseModel lim out) out) [("inserted", toJson (cseInserted lim m)),
        ("stalled", toJson (cseStalled lim m)), ("w_before", toJson (cseW m.graph.nodes)),
        ("w_after", toJson (cseW out.graph.nodes)),
        ("depth_before", toJson (cseDepth m)), ("depth_after", toJson (cseDepth out)),
        ("mu_before", toJson (cseMu m)), ("mu_after", toJson (cseMu out)),
        ("mu_after2", toJson (cseMu (cseModel lim out)))]
  | ["lsi"] =>
    let out := lsiModel m
    return pack (lsiFlag m) (lsiCount m) (subInits m) (subInits out) out (lsiFlag out) (same (lsiModel out) out) []
  | ["ofix"] =>
    let out := ofixModel m
    return pack (ofixFlag m) (ofixCount m) (ofixCount m) (ofixCount out) out (ofixFlag out)
      (same (ofixModel out) out) []
  | _ => throw s!"unknown pass {pass}"

open IrVerif.PassFlags in
def parseOpsetGL (j : Json) : Except String OpsetGL := do
  return ⟨← getStrs j "imports", ← getStrs j "domains"⟩

open IrVerif.PassFlags in
/-- RemoveUnusedOpsetsPass on its transcription -/
def runOpsets (j : Json) : Except String Json := do
  let main ← parseOpsetGL (← j.getObjVal? "main")
  let funcs ← (← getArr j "funcs").mapM (fun f => do return ((← getStr f "domain"), (← parseOpsetGL f)))
  let s : OpsetSt := ⟨main, funcs⟩
  let pf ← getBool j "pf"
  let r := removeUnusedOpsets pf s
  let r2 := removeUnusedOpsets pf r.1
  return obj [("modified", toJson r.2), ("main", strsJ r.1.main.imports),
    ("funcs", Json.arr (r.1.funcs.map (fun f => strsJ f.2.imports)).toArray),
    ("before", toJson (opsetSize s)), ("after", toJson (opsetSize r.1)),
    ("flag2", toJson r2.2), ("idem", toJson (decide (r2.1 = r.1)))]

open IrVerif.PassFlags in
/-- RemoveUnusedFunctionsPass on its transcription -/
def runUnusedFn (j : Json) : Except String Json := do
  let funcs ← (← getArr j "funcs").mapM (fun f => do return ((← getNat f "id"), (← getNats f "calls")))
  let s : FnSt := ⟨← getNats j "main", funcs⟩
  let r := removeUnusedFunctions s
  let r2 := removeUnusedFunctions r.1
  return obj [("modified", toJson r.2), ("funcs", natsJ (r.1.funcs.map (·.1))),
    ("flag2", toJson r2.2), ("idem", toJson (decide (r2.1 = r.1)))]

open IrVerif.PassFlags IrVerif.Inline IrVerif.Sem in
/-- second deepening round: InlinePass on C05's model of the pass - flag, counter, measure before / after, the
    hypotheses of the theorems, RESULT model and the second application -/
def runInline (j : Json) : Except String Json := do
  let model ← IrVerif.Drive.Inline.getFModel (← j.getObjVal? "model")
  let critJ ← j.getObjVal? "crit"
  let crit : OpId → Bool ← match critJ with
    | .null => pure (fun _ => true)
    | x => do
      let l ← (← x.getArr?).toList.mapM IrVerif.Drive.Inline.getOpId
      pure (fun op => l.contains op)
  let run := inlineRun crit model
  let out := inlineModel crit model
  let out2 := inlineModel crit out
  let same (a b : FModel) : Bool :=
    toString (IrVerif.Drive.Inline.fmodelJ a) == toString (IrVerif.Drive.Inline.fmodelJ b)
  return obj [("flag", toJson (inlFlag crit model)), ("count", toJson run.st.count),
    ("stuck", toJson run.st.stuck), ("raised", toJson run.st.raised), ("nodup", toJson (funcIdsNodup model)),
    ("valid", toJson (validF model)), ("runok", toJson (runOK crit model)),
    ("before", toJson (inlCalls crit model)), ("after_run", toJson (inlCalls crit run.model)),
    ("after", toJson (inlCalls crit out)), ("model", IrVerif.Drive.Inline.fmodelJ out),
    ("run_is_model", toJson (same run.model out)),
    ("flag2", toJson (inlFlag crit out)), ("idem", toJson (same out2 out)),
    ("stuck2", toJson (inlineRun crit out).st.stuck)]

/-- `[[id, class], ...]`: a partial function on ids (absent = `none`) -/
def getPairFn (j : Json) (k : String) : Except String (Nat → Option Nat) := do
  match j.getObjVal? k with
  | .error _ => return fun _ => none
  | .ok a =>
    let l ← (IrVerif.Drive.Kernel.asList (IrVerif.Drive.Kernel.asList IrVerif.Drive.Kernel.asNat)) a
    let ps := l.filterMap (fun x => match x with | [a, b] => some (a, b) | _ => none)
    return fun n => (ps.find? (fun p => p.1 = n)).map (·.2)

/-- `[id, ...]`: a set of ids -/
def getSetFn (j : Json) (k : String) : Except String (Nat → Bool) := do
  match j.getObjVal? k with
  | .error _ => return fun _ => false
  | .ok a =>
    let l ← (IrVerif.Drive.Kernel.asList IrVerif.Drive.Kernel.asNat) a
    return fun n => l.contains n

open IrVerif.Kernel IrVerif.PassKernel in
/-- second deepening round: RemoveUnusedNodes / IdentityElimination as programs over C01's kernel.  `ops` = the
    history that builds the world (C01's alphabet); answer: what the pass changed (delta of the canonical dump),
    whether it raised, the `modified` flag (wave 5 programs), the number of calls it issued, and whether replaying them gives the same world -/
def runKPass (j : Json) : Except String Json := do
  let ops ← (← getArr j "ops").mapM IrVerif.Drive.Kernel.parseAny
  let w0 := ops.foldl (fun w o => (stepAny w o).1) World.empty
  let g ← getNat j "g"
  let funcs ← getNats j "funcs"
  let fuel ← getNat j "fuel"
  let exact := (j.getObjValAs? Bool "exact").toOption.getD false
  let (s, flag) ← match (← getStr j "pass") with
    | "dce" => pure (dceModelK fuel w0 g funcs, none)
    | "ie" => pure (ieModelK exact fuel w0 g funcs, none)
    | "ofix" => pure (ofixModelK fuel w0 g funcs, none)
    | "rminit" => pure (rmInitInputsK w0 g, none)
    | "addinit" => pure (addInitInputsK w0 g, none)
    | "cse" => do
      let r := cseModelK exact (← getPairFn j "akey") w0 g
      pure (r.1, some r.2)
    | "lc" => do
      let liftAll := (j.getObjValAs? Bool "liftAll").toOption.getD false
      let r := lcModelK liftAll (← getSetFn j "big") (← getSetFn j "tnamed") fuel w0 g
      pure (r.1, some (r.2 != 0))
    | "lsi" => do
      let r := lsiModelK fuel w0 g
      pure (r.1, some (r.2 != 0))
    | "dd" => do
      let r := ddModelK (← getPairFn j "hkey") (← getPairFn j "tkey") fuel w0 g
      pure (r.1, some r.2)
    | p => throw s!"unknown kernel pass {p}"
  return obj [("d", IrVerif.Drive.Kernel.deltaJ w0 s.w), ("raised", toJson s.raised),
    ("calls", toJson s.trace.length), ("replay_same", toJson (decide (replay w0 s.trace.reverse = s.w))),
    ("late", toJson (decide (s.w.late = w0.late))), ("flag", toJson (flag : Option Bool))]

open IrVerif.PassFlags4 in
/-- wave 5: AddDefaultAttributesPass.  `table`: the schema answers for the (domain, op, version) triples that occur
    (a missing triple = SchemaError); `nodes`: the visit sequence. -/
def runAddDef (j : Json) : Except String Json := do
  let imports ← (← getArr j "imports").mapM (fun x => do
    return ((← getStr x "domain"), (← getNat x "version")))
  let tblL ← (← getArr j "table").mapM (fun x => do
    let defs ← (← getArr x "defs").mapM (fun d => do
      let dflt := (d.getObjValAs? Nat "default").toOption
      return (⟨← getStr d "name", ← getBool d "required", dflt⟩ : AttrDef))
    return ((← getStr x "domain"), (← getStr x "op"), (← getNat x "version"), defs))
  let tbl : SchemaTable := fun d op v => (tblL.find? (fun e => e.1 = d ∧ e.2.1 = op ∧ e.2.2.1 = v)).map (·.2.2.2)
  let nodes ← (← getArr j "nodes").mapM (fun x => do
    let attrs ← (← getArr x "attrs").mapM (fun a => do return ((← getStr a "k"), (← getNat a "v")))
    return (⟨← getStr x "domain", ← getStr x "op", (x.getObjValAs? Nat "version").toOption, attrs⟩ : ANode))
  let r := addDefaults tbl imports nodes
  let r2 := addDefaults tbl imports r.1
  return obj [("flag", toJson r.2), ("before", toJson (absentCount tbl imports nodes)),
    ("after", toJson (absentCount tbl imports r.1)),
    ("attrs", toJson (r.1.map (fun n => n.attrs.map (fun a => Json.arr #[toJson a.1, toJson a.2])))),
    ("flag2", toJson r2.2), ("idem", toJson (decide (r2.1 = r.1)))]

def handle : Handler := fun m j =>
  match m with
  | "passinfra.run" => some (runScripted j)
  | "passinfra.mgrloop" => some (runMgrLoop j)
  | "passinfra.capi" => some (runCApi j)
  | "passinfra.clearmeta" => some (runClearMeta j)
  | "passinfra.sortflag" => some (runSortFlag j)
  | "passinfra.rminit" => some (runInitInputs false j)
  | "passinfra.addinit" => some (runInitInputs true j)
  | "passinfra.dce" => some (runDce j)
  | "passinfra.dcemgr" => some (runDceMgr j)
  | "passinfra.sortpass" => some (runSortPass j)
  | "passinfra.flags" => some (runFlags j)
  | "passinfra.flags2" => some (runFlags2 j)
  | "passinfra.opsets" => some (runOpsets j)
  | "passinfra.unusedfn" => some (runUnusedFn j)
  | "passinfra.inline" => some (runInline j)
  | "passinfra.kpass" => some (runKPass j)
  | "passinfra.adddef" => some (runAddDef j)
  | "passinfra.sorted" => some do
    let m ← IrVerif.Drive.Passes.getModel (← j.getObjVal? "model")
    return obj [("sorted", toJson (IrVerif.PassFlags.sortedModel m))]
  | _ => none

end IrVerif.Drive.PassInfra

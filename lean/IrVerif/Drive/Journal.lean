import IrVerif.Drive.Util
import IrVerif.Drive.Kernel
import IrVerif.Model.JournalKernel
/-! Protocol handler for the journaling model (C20).

`journal.slots`  : the static slot table (key, kind, operation, attr).
`journal.ctl`    : a flat sequence of raw `__enter__` / `__exit__` calls from the pristine table;
                   answers the table (wrapper layers + base per slot), the current journal, the
                   journals' previous links, captured tables and active flags after every step,
                   and whether the `__enter__` was refused.
`journal.meta`   : the installed table entry by entry: key, class, attribute, how it is installed,
                   wrapper kind, operation, attribute, and the order-of-effects flags computed by
                   running `runImpl` on a probe configuration.
`journal.details`: the `details` string of a slot on an environment of reprs.
`journal.entry`  : the fields (name, Python type) of the entry a wrapper writes, and the instances
                   it references strongly.
`journal.kernel` : a C01-kernel history (optionally from some position on inside nested journals):
                   the model's call tree of every call, and the journaled run.
`journal.flat`   : a flat history (`runFlat`): raw enter / exit (normal or exceptional) / scripted operations,
                   plus taking a callable from the class table (`capture`) and calling it later (`callCaptured`,
                   or, for `guarded`, the checked code: `runFlatG` / `callCapturedG`); answers the control state after every item, whether the
                   word is well bracketed, the captured implementations, outcomes, entries.
`journal.run`    : a block program whose instrumented calls are scripted call trees (what the
                   original functions did in an un-journaled run); answers outcomes, the ghost
                   trace, every journal's entries, the final table and current journal.
-/
open Lean IrVerif.Drive
namespace IrVerif.Drive.Journal
open IrVerif.Journal

abbrev S := List Nat

/-- scripted call tree: slot, self, nested calls, outcome -/
inductive Step where
  | mk (slot self : Nat) (steps : List Step) (out : Outcome)

def kindStr : Kind → String
  | .init => "init" | .setter => "setter" | .method => "method" | .container => "container"

def valJ : Val → Json
  | .none => Json.null
  | .int n => toJson n
  | .ref o => obj [("ref", toJson o)]

def outJ : Outcome → Json
  | .ret v => obj [("ret", valJ v)]
  | .raise e => obj [("raise", toJson e)]

def parseVal (j : Json) : Except String Val :=
  match j with
  | .null => pure .none
  | _ => match j.getObjValAs? Nat "ref" with
    | .ok o => pure (.ref o)
    | .error _ => do return .int (← fromJson? j)

def parseOut (j : Json) : Except String Outcome :=
  match j.getObjVal? "raise" with
  | .ok e => do return .raise (← fromJson? e)
  | .error _ => do return .ret (← parseVal (← j.getObjVal? "ret"))

partial def parseStep (j : Json) : Except String Step := do
  let steps ← (← getArr j "steps").mapM parseStep
  return .mk (← getNat j "k") (← getNat j "self") steps (← parseOut (← j.getObjVal? "out"))

/-- calls to the given (slot, self, id) in order, then the outcome; results are ignored (script),
    except that a failure of a wrapper's `details` expression propagates (no IR code catches it) -/
def callsThen (cs : List (Nat × Nat × Nat)) (out : Outcome) : Prog S :=
  cs.foldr (fun c rest => .call c.1 c.2.1 (.int c.2.2) (fun o =>
    if o = .raise detailsExn then .done o else rest)) (.done out)

/-- assigns pre-order ids; `bodies[id]` is the behaviour of the original function in that call:
    append the id to the abstract IR state, make the nested calls, finish with the outcome -/
partial def build (s : Step) (bodies : Array (Prog S)) : (Nat × Nat × Nat) × Array (Prog S) :=
  match s with
  | .mk slot self steps out =>
    let id := bodies.size
    let bodies := bodies.push (.done out)
    let (cs, bodies) := steps.foldl
      (fun (acc : List (Nat × Nat × Nat) × Array (Prog S)) st =>
        let (c, b) := build st acc.2
        (acc.1 ++ [c], b)) ([], bodies)
    let body : Prog S := .get fun st => .put (st ++ [id]) (callsThen cs out)
    ((slot, self, id), bodies.set! id body)

partial def parseBlock (j : Json) (bodies : Array (Prog S)) : Except String (Block S × Array (Prog S)) := do
  let t ← getStr j "t"
  match t with
  | "op" =>
    let steps ← (← getArr j "steps").mapM parseStep
    let out ← parseOut (← j.getObjVal? "out")
    let (cs, bodies) := steps.foldl
      (fun (acc : List (Nat × Nat × Nat) × Array (Prog S)) st =>
        let (c, b) := build st acc.2
        (acc.1 ++ [c], b)) ([], bodies)
    return (.op (callsThen cs out), bodies)
  | "with" =>
    let (b, bodies) ← parseBlocks (← getArr j "body") bodies
    return (.withJ (← getNat j "j") b, bodies)
  | "try" =>
    let (b, bodies) ← parseBlocks (← getArr j "body") bodies
    return (.attempt b, bodies)
  | _ => throw s!"unknown block {t}"
where
  parseBlocks (js : List Json) (bodies : Array (Prog S)) : Except String (Block S × Array (Prog S)) :=
    match js with
    | [] => pure (.skip, bodies)
    | [x] => parseBlock x bodies
    | x :: rest => do
      let (a, bodies) ← parseBlock x bodies
      let (b, bodies) ← parseBlocks rest bodies
      return (.seq a b, bodies)

def implJ (i : Impl) : Json := obj [("layers", natsJ i.layers), ("base", toJson i.base)]

def tableJ (t : Table) : Json := Json.arr ((List.range nSlots).map (fun k => implJ (t k))).toArray

def optNatJ : Option Nat → Json
  | none => Json.null
  | some n => toJson n

def evJ : Ev → Json
  | .start k s => Json.arr #[Json.str "start", toJson k, toJson s]
  | .finish k s o => Json.arr #[Json.str "finish", toJson k, toJson s, outJ o]
  | .enter j => Json.arr #[Json.str "enter", toJson j]
  | .exit j => Json.arr #[Json.str "exit", toJson j]

def entryJ (e : Entry) : Json :=
  Json.arr #[toJson e.slot, Json.str e.operation,
    (match e.ref with | .weak o => obj [("weak", toJson o)] | .strong o => obj [("strong", toJson o)]),
    toJson e.objectId]

def ctlStateJ {σ : Type} (w : World σ) (nj : Nat) (refused : Bool) : Json :=
  obj [("table", tableJ w.table), ("current", optNatJ w.current), ("refused", toJson refused),
       ("active", Json.arr ((List.range nj).map (fun j => toJson (w.journals j).active)).toArray),
       ("previous", Json.arr ((List.range nj).map (fun j => optNatJ (w.journals j).previous)).toArray),
       ("captured", Json.arr ((List.range nj).map (fun j =>
          match (w.journals j).captured with
          | none => Json.null
          | some t => tableJ t)).toArray)]

/-- `TableActive` decided: every layer of every slot of the class table belongs to an active journal -/
def tableActiveB {σ : Type} (w : World σ) : Bool :=
  (List.range nSlots).all fun k => (w.table k).layers.all fun j => (w.journals j).active

/-- one item of a flat history (`journal.flat`): an event of `runFlat`, or taking / calling a callable -/
inductive FItem where
  | ev (e : FEv S)
  | capture (name : String) (k self : Nat)
  | callcap (name : String) (id : Nat)

def parseFlatItems : List Json → Array (Prog S) → Except String (List FItem × Array (Prog S))
  | [], bodies => pure ([], bodies)
  | j :: rest, bodies => do
    let t ← getStr j "t"
    let (item, bodies) ← (match t with
      | "enter" => do return (FItem.ev (.enter (← getNat j "j")), bodies)
      | "exit" => do return (FItem.ev (.exit (← getNat j "j") ((getBool j "exc").toOption.getD false)), bodies)
      | "op" => do
        let steps ← (← getArr j "steps").mapM parseStep
        let out ← parseOut (← j.getObjVal? "out")
        let (cs, bodies) := steps.foldl
          (fun (acc : List (Nat × Nat × Nat) × Array (Prog S)) st =>
            let (c, b) := build st acc.2
            (acc.1 ++ [c], b)) ([], bodies)
        return (FItem.ev (.op (callsThen cs out)), bodies)
      | "capture" => do return (FItem.capture (← getStr j "name") (← getNat j "k") (← getNat j "self"), bodies)
      | "callcap" => do
        let st ← parseStep (← j.getObjVal? "step")
        let (c, bodies) := build st bodies
        return (FItem.callcap (← getStr j "name") c.2.2, bodies)
      | _ => throw s!"unknown flat item {t}" : Except String (FItem × Array (Prog S)))
    let (items, bodies) ← parseFlatItems rest bodies
    return (item :: items, bodies)

def itemEv : FItem → Option (FEv S)
  | .ev e => some e
  | _ => none

def handle : Handler := fun m j =>
  match m with
  | "journal.slots" => some do
      return obj [("r", Json.arr (slots.map (fun s =>
        Json.arr #[Json.str s.key, Json.str (kindStr s.kind), Json.str s.op, Json.str s.attr])).toArray)]
  | "journal.meta" => some do
      return obj [("r", Json.arr ((List.range nSlots).map (fun k =>
        let s := slots.getD k ⟨"", .method, "", ""⟩
        let m := metaOf k
        obj [("key", Json.str s.key), ("meta_key", Json.str m.key), ("cls", Json.str m.cls),
             ("attr", Json.str m.attr), ("install", Json.str m.install.str), ("kind", Json.str (kindStr s.kind)),
             ("op", Json.str s.op), ("target", Json.str s.attr),
             ("details_none", toJson (decide (m.details = .none))),
             ("details_before", toJson (detailsBefore k)), ("record_after", toJson (recordAfter k)),
             ("returns_result", toJson (returnsResult k)), ("records_self", toJson (recordsSelf k)),
             ("guard_forwards", toJson (guardForwards k)), ("guard_returns_result", toJson (guardReturnsResult k)),
             ("guard_propagates", toJson (guardPropagates k))])).toArray),
        ("n_meta", toJson slotMeta.length)]
  | "journal.details" => some do
      let k ← getNat j "k"
      let e ← j.getObjVal? "env"
      let strMap := fun (key : String) (a : String) =>
        match (e.getObjVal? key) with
        | .ok m => (m.getObjValAs? String a).toOption.getD ""
        | .error _ => ""
      let args := (e.getObjValAs? (Array Json) "args").toOption.getD #[]
      let argField := fun (i : Nat) (f : String) => match args[i]? with
        | some a => (a.getObjValAs? String f).toOption
        | none => none
      let env : DEnv := {
        reprSelf := (e.getObjValAs? String "reprSelf").toOption.getD ""
        className := (e.getObjValAs? String "className").toOption.getD ""
        attrRepr := strMap "attrRepr"
        attrStr := strMap "attrStr"
        attrLen := fun a => match (e.getObjVal? "attrLen") with
          | .ok m => (m.getObjValAs? Nat a).toOption.getD 0
          | .error _ => 0
        argRepr := fun i => argField i "repr"
        argStr := fun i => argField i "str"
        argIsGraph := fun i => match args[i]? with
          | some a => (a.getObjValAs? Bool "isGraph").toOption.getD false
          | none => false
        argNameRepr := fun i => (argField i "nameRepr").getD "" }
      let d := detailsOf k env
      let ent := recordSlot k 5 env.className 0 [⟨"f.py", 1, "g", "x"⟩] env
      return obj [("details", match d with | some s => Json.str s | none => Json.null),
        ("fields", Json.arr (ent.fields.map (fun p => Json.arr #[Json.str p.1, Json.str p.2.tyName])).toArray),
        ("strong", natsJ (ent.fields.flatMap (fun p => p.2.strong))),
        ("core_ok", toJson (decide (ent.core k = some (mkEntry k 5))))]
  | "journal.kernel" => some do
      let fuel ← getNat j "fuel"
      let nj ← getNat j "nj"
      let opsJ ← getArr j "ops"
      let calls ← opsJ.mapM (fun o => do
        let op ← IrVerif.Drive.Kernel.parseAny o
        let sp : Spell := match o.getObjVal? "c20" with
          | .ok a => {
              newFunction := (a.getObjValAs? Nat "fn").toOption
              newAttrs := ((a.getObjValAs? (Array Nat) "attrs").toOption.getD #[]).toList
              viaNode := (a.getObjValAs? Bool "viaNode").toOption.getD false
              noSetItem := (a.getObjValAs? Bool "noSetItem").toOption.getD false }
          | .error _ => {}
        return ({ op := op, sp := sp } : KCall))
      let ops := calls.map (·.op)
      let from_ ← getNat j "from"
      let nest ← getNats j "nest"
      let pre := calls.take from_
      let post := calls.drop from_
      let kb : KBlkX := .seq (.ops pre) (nest.foldr (fun jid b => .withJ jid b) (.ops post))
      let retJ := fun (slot : Nat) (ok : Bool) (v : Val) => if ok then valJ (retFor slot v) else Json.null
      let l0J := fun (c : L0) => Json.arr #[toJson c.slot, toJson c.self, toJson c.ok, Json.arr #[], retJ c.slot c.ok c.ret]
      let l1J := fun (c : L1) => Json.arr #[toJson c.slot, toJson c.self, toJson c.ok, Json.arr (c.kids.map l0J).toArray, retJ c.slot c.ok c.ret]
      let l2J := fun (c : L2) => Json.arr #[toJson c.slot, toJson c.self, toJson c.ok, Json.arr (c.kids.map l1J).toArray, retJ c.slot c.ok c.ret]
      let rec trees (w : KW) : List KCall → List Json
        | [] => []
        | c :: rest => Json.arr ((callTreeX w c).map l2J).toArray :: trees (IrVerif.Kernel.stepAny w c.op).1 rest
      let guarded := (getBool j "guarded").toOption.getD false
      let r := if guarded then runBlockG kCfg fuel kb.toBlock (initialWorld { w := IrVerif.Kernel.World.empty })
        else runBlock kCfg fuel kb.toBlock (initialWorld { w := IrVerif.Kernel.World.empty })
      return obj [("trees", Json.arr (trees IrVerif.Kernel.World.empty calls).toArray),
        ("log", Json.arr (r.1.log.map outJ).toArray),
        ("exc", optNatJ r.2),
        ("trace", Json.arr (r.1.trace.map evJ).toArray),
        ("entries", Json.arr ((List.range nj).map (fun i =>
           Json.arr (((r.1.journals i).entries).map entryJ).toArray)).toArray),
        ("expected", Json.arr ((List.range nj).map (fun i =>
           Json.arr ((expectedFor kOwner i false r.1.trace).map entryJ).toArray)).toArray),
        ("world_eq", toJson (decide (r.1.ir.w = histWorld IrVerif.Kernel.World.empty ops))),
        ("log_eq", toJson (decide (r.1.log = histLogX IrVerif.Kernel.World.empty calls))),
        ("calls_eq", toJson (decide (r.1.trace.filter isCall = histEvsX IrVerif.Kernel.World.empty calls))),
        ("table", tableJ r.1.table),
        ("current", optNatJ r.1.current)]
  | "journal.ctl" => some do
      let nj ← getNat j "nj"
      let evs ← getArr j "evs"
      let mut w : World Unit := initialWorld ()
      let mut outs : Array Json := #[]
      for e in evs do
        let jid ← getNat e "j"
        let isEnter ← getBool e "enter"
        let mut refused := false
        if isEnter then
          match enter jid w with
          | none => refused := true
          | some w1 => w := w1
        else
          match (getNat e "fail").toOption with
          | some n => w := exitFail jid n w
          | none => w := exit jid w
        outs := outs.push (ctlStateJ w nj refused)
      return obj [("r", Json.arr outs)]
  | "journal.flat" => some do
      let fuel ← getNat j "fuel"
      let nj ← getNat j "nj"
      let guarded := (getBool j "guarded").toOption.getD false
      let ownerPairs ← getArr j "owner"
      let owners ← ownerPairs.mapM (fun p => do
        let a ← (fromJson? p : Except String (Array Nat))
        return (a[0]!, a[1]!))
      let owner : Obj → Obj := fun o => match owners.find? (·.1 == o) with
        | some p => p.2
        | none => o
      let (items, bodies) ← parseFlatItems (← getArr j "evs") #[]
      let cfg : Cfg S := {
        impl := fun _ _ arg => match arg with
          | .int n => bodies.getD n.toNat (.done (.raise 1))
          | _ => .done (.raise 1)
        owner := owner
        details := fun _ _ _ s => some s }
      let mut w : World S := initialWorld []
      let mut caps : List (String × Captured) := []
      let mut states : Array Json := #[]
      let mut capJ : Array Json := #[]
      let mut tact : Array Json := #[]
      for it in items do
        let mut refused := false
        match it with
        | .ev e =>
          match e with
          | .enter jid => refused := (w.journals jid).active
          | _ => pure ()
          w := if guarded then runFlatG cfg fuel [e] w else runFlat cfg fuel [e] w
        | .capture name k self =>
          let c := capture k self w
          caps := (name, c) :: caps
          capJ := capJ.push (implJ c.impl)
        | .callcap name id =>
          match caps.find? (·.1 == name) with
          | some (_, c) =>
            let r := if guarded then callCapturedG cfg fuel c (.int id) w else callCaptured cfg fuel c (.int id) w
            w := { r.1 with log := r.1.log ++ [r.2] }
          | none => throw s!"callcap of an unknown callable {name}"
        states := states.push (ctlStateJ w nj refused)
        tact := tact.push (toJson (tableActiveB w))
      let word := items.filterMap itemEv
      return obj [("states", Json.arr states),
        ("table_active", Json.arr tact),
        ("wb", toJson (decide (WellBracketed word))),
        ("caps", Json.arr capJ),
        ("log", Json.arr (w.log.map outJ).toArray),
        ("trace", Json.arr (w.trace.map evJ).toArray),
        ("entries", Json.arr ((List.range nj).map (fun i =>
           Json.arr (((w.journals i).entries).map entryJ).toArray)).toArray),
        ("expected", Json.arr ((List.range nj).map (fun i =>
           Json.arr ((expectedFor owner i false w.trace).map entryJ).toArray)).toArray)]
  | "journal.run" => some do
      let fuel ← getNat j "fuel"
      let nj ← getNat j "nj"
      let ownerPairs ← getArr j "owner"
      let owners ← ownerPairs.mapM (fun p => do
        let a ← (fromJson? p : Except String (Array Nat))
        return (a[0]!, a[1]!))
      let owner : Obj → Obj := fun o => match owners.find? (·.1 == o) with
        | some p => p.2
        | none => o
      let detailsFail := (getNats j "details_fail").toOption.getD []
      let detailsEffect := (getNats j "details_effect").toOption.getD []
      let (b, bodies) ← parseBlock.parseBlocks (← getArr j "block") #[]
      let cfg : Cfg S := {
        impl := fun _ _ arg => match arg with
          | .int n => bodies.getD n.toNat (.done (.raise 1))
          | _ => .done (.raise 1)
        owner := owner
        details := fun _ _ arg s => match arg with
          | .int n =>
            if detailsFail.contains n.toNat then none
            else if detailsEffect.contains n.toNat then some (s ++ [100000 + n.toNat])
            else some s
          | _ => some s }
      let guarded := (getBool j "guarded").toOption.getD false
      let runOne := fun (blk : Block S) =>
        let r := if guarded then runBlockG cfg fuel blk (initialWorld []) else runBlock cfg fuel blk (initialWorld [])
        obj [("log", Json.arr (r.1.log.map outJ).toArray),
             ("exc", optNatJ r.2),
             ("ir", natsJ r.1.ir),
             ("trace", Json.arr (r.1.trace.map evJ).toArray),
             ("entries", Json.arr ((List.range nj).map (fun i =>
                Json.arr (((r.1.journals i).entries).map entryJ).toArray)).toArray),
             ("expected", Json.arr ((List.range nj).map (fun i =>
                Json.arr ((expectedFor owner i false r.1.trace).map entryJ).toArray)).toArray),
             ("held", natsJ ((List.range nj).flatMap (fun i => heldBy (r.1.journals i)))),
             ("table", tableJ r.1.table),
             ("active", Json.arr ((List.range nj).map (fun i => toJson (r.1.journals i).active)).toArray),
             ("current", optNatJ r.1.current)]
      return obj [("journaled", runOne b), ("plain", runOne (strip b))]
  | _ => none

end IrVerif.Drive.Journal

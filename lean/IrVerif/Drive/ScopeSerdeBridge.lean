import IrVerif.Drive.Util
import IrVerif.Drive.Serde
import IrVerif.Drive.Scope
import IrVerif.Model.ScopeSerdeBridge
import IrVerif.Model.ScopeSerdeBridgeSub
import IrVerif.Model.ScopeSerdeBridgeModel
import IrVerif.Model.ScopeSerdeBridgeModel9
/-! Protocol handler for the C02 bridge (`IrVerif.Bridge`, property C03).

`{"m":"bridge.graph","x":<GraphProto in the JSON of serde.*>}` answers
  shared / sharedS / no_sub : the decidable fragments of the `_partial` bridge theorems (no nested graphs)
  shared_full / sharedS_full: the fragments of the full bridge (`sharedFull` = C02's wfGraph, `sharedSFull`)
  abs        : `absGFull x` in the JSON of scope.* (what the C03 harness's own abstraction of the same proto must
               be, up to a renaming of the opaque tokens; = `absG x` when no_sub: `absGFull_eq_absG`)
  c02 / scope: "ok" | "raised"   (`Serde.desGraph [] x`, `Scope.deserialize (absGFull x)`)
  gok        : `GOKFull` of C02's IR (null when C02 raised; = `GOK` when no_sub: `GOKFull_eq_GOK`)
  des_agree  : `coreOf (Scope.deserialize (absGFull x)) = absIRFull (Serde.desGraph [] x)`   (conclusion of
               `C03_bridge_deserialize`, evaluated; null when a side raised)
  ser_agree  : the Scope serializer on that world returns `absGFull` of what C02 serializes (conclusion of
               `C03_bridge_serialize`; null when something raised)
  norm_agree : ... and that is `absGFull (normGraph x)` (`C03_bridge_serde`)
  c02_ser    : what C02's model serializes from its IR at IR version `ver` (compared by the harness with
               to_proto (from_proto x) of the real code: C02's model on the C03 generator), null when it raised
-/
open Lean IrVerif.Drive
namespace IrVerif.Drive.ScopeSerdeBridge
open IrVerif.Bridge

def cellJ (c : Cell) : Json :=
  Json.arr #[Scope.optStrJ c.name, Scope.infoJ c.info,
    match c.tensor with
    | none => Json.null
    | some t => Scope.tensorSJ t]

def coreJ (c : Core) : Json := obj [("cells", Json.arr (c.cells.map cellJ).toArray), ("root", Scope.graphTJ c.root)]

def coreMJ (c : CoreM) : Json :=
  obj [("cells", Json.arr (c.cells.map cellJ).toArray), ("root", Scope.graphTJ c.root),
    ("funcs", Json.arr (c.funcs.map fun f => Json.arr #[Scope.fidJ f.1, Scope.graphTJ f.2]).toArray)]

def boolOptJ : Option Bool → Json
  | none => Json.null
  | some b => Json.bool b

def handle : Handler := fun m j =>
  match m with
  | "bridge.graph" => some do
    let p ← Serde.dGraph (← j.getObjVal? "x")
    let P := absGFull p
    let c02 := IrVerif.Serde.desGraph [] p
    let sc := IrVerif.Scope.deserialize P
    let c02ser : Option Json := match c02 with
      | .ok g => match IrVerif.Serde.serGraph [] (Serde.optVer j) g with
        | .ok q => some (Serde.eGraph q)
        | .error _ => none
      | .error _ => none
    let gok : Option Bool := match c02 with
      | .ok g => some (GOKFull g)
      | .error _ => none
    let desAgree : Option Bool := match c02, sc with
      | .ok g, .ok w => some ((coreJ (coreOf w)).compress == (coreJ (absIRFull g)).compress)
      | _, _ => none
    let serBoth : Option (IrVerif.Scope.GraphP × IrVerif.Proto.GraphP) := match c02, sc with
      | .ok g, .ok w =>
        match IrVerif.Serde.serGraph [] none g, IrVerif.Scope.serialize w with
        | .ok q, .ok (_, Q) => some (Q, q)
        | _, _ => none
      | _, _ => none
    let serAgree : Option Bool := serBoth.map fun (Q, q) =>
      (Scope.graphPJ Q).compress == (Scope.graphPJ (absGFull q)).compress
    let normAgree : Option Bool := serBoth.map fun (Q, _) =>
      (Scope.graphPJ Q).compress == (Scope.graphPJ (absGFull (IrVerif.Serde.normGraph p))).compress
    return obj [
      ("shared", Json.bool (shared p)), ("sharedS", Json.bool (sharedS p)),
      ("no_sub", Json.bool (noSubgraphs p)),
      ("shared_full", Json.bool (sharedFull p)), ("sharedS_full", Json.bool (sharedSFull p)),
      ("abs", Scope.graphPJ P),
      ("c02", Json.str (match c02 with | .ok _ => "ok" | .error _ => "raised")),
      ("scope", Json.str (match sc with | .ok _ => "ok" | .error _ => "raised")),
      ("gok", boolOptJ gok), ("des_agree", boolOptJ desAgree), ("ser_agree", boolOptJ serAgree),
      ("norm_agree", boolOptJ normAgree),
      ("c02_ser", match c02ser with | some q => q | none => Json.null)]
  | "bridge.model" => some do
    -- the same for a ModelProto with functions: IR version >= 10 `deserializeM` / `serializeM` (`C03_bridge_*_model`,
    -- fragment `sharedM`), below it `deserializeM9` / `serializeM9 true` (`C03_bridge_*_model9`, fragment `sharedM9`)
    let p ← Serde.dModel (← j.getObjVal? "x")
    let M := absM p
    let lt10 : Bool := decide (p.irVersion < 10)
    let c02 := IrVerif.Serde.desModel p
    let sc := if lt10 then IrVerif.Scope.deserializeM9 M else IrVerif.Scope.deserializeM M
    let c02ser : Option IrVerif.Proto.ModelP := match c02 with
      | .ok x => match IrVerif.Serde.serModel x with
        | .ok q => some q
        | .error _ => none
      | .error _ => none
    let gok : Option Bool := match c02 with
      | .ok x => some (if lt10 then GOKM9 x else GOKM x)
      | .error _ => none
    let desAgree : Option Bool := match c02, sc with
      | .ok x, .ok w => some ((coreMJ (coreOfM w)).compress == (coreMJ (absIRM x)).compress)
      | _, _ => none
    let serQ : Option IrVerif.Scope.ModelP := match sc with
      | .ok w => match (if lt10 then IrVerif.Scope.serializeM9 true w else IrVerif.Scope.serializeM w) with
        | .ok (_, Q) => some Q
        | .error _ => none
      | .error _ => none
    let serAgree : Option Bool := match serQ, c02ser with
      | some Q, some q => some ((Scope.modelPJ Q).compress == (Scope.modelPJ (absM q)).compress)
      | _, _ => none
    let normAgree : Option Bool := match serQ, c02 with
      | some Q, .ok _ => some ((Scope.modelPJ Q).compress == (Scope.modelPJ (absM (IrVerif.Serde.normModel p))).compress)
      | _, _ => none
    return obj [
      ("shared", Json.bool (if lt10 then sharedM9 p else sharedM p)),
      ("sharedS", Json.bool (if lt10 then sharedSM9 p else sharedSM p)),
      ("abs", Scope.modelPJ M),
      ("c02", Json.str (match c02 with | .ok _ => "ok" | .error _ => "raised")),
      ("scope", Json.str (match sc with | .ok _ => "ok" | .error _ => "raised")),
      ("gok", boolOptJ gok), ("des_agree", boolOptJ desAgree), ("ser_agree", boolOptJ serAgree),
      ("norm_agree", boolOptJ normAgree),
      ("c02_ser", match c02ser with | some q => Serde.eModel q | none => Json.null)]
  | _ => none

end IrVerif.Drive.ScopeSerdeBridge

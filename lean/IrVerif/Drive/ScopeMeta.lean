import IrVerif.Drive.Util
import IrVerif.Drive.Scope
import IrVerif.Model.ScopeMeta
import IrVerif.Model.ScopeFunc9
import IrVerif.Model.ScopeExt
import IrVerif.Model.ScopeEff
import IrVerif.Model.ScopeCert
/-! Protocol handler for the decoration layer `IrVerif.Model.ScopeMeta` (C03 / C17).

SS      = [[key, value]]
DevP    = {"cfg": s, "stage": s|null, "specs": [[tensor_name, tok]]}
DevS    = {"cfg": s|null, "stage": s|null, "specs": [[name|null, tok]]}
NodeDP  = {"tok": s, "doc": s|null, "meta": SS, "devs": [DevP], "g": [GraphDP]}      (NodeDS: devs = [DevS])
GraphDP = {"name": s|null, "doc": s|null, "meta": SS, "nodes": [NodeDP]}
FuncDP  = {"id": [domain,name,overload], "doc": s|null, "opsets": SS, "meta": SS, "attrs": [[name, bool, tok]],
           "attr_names": [s], "nodes": [NodeDP]}
FuncDS  = {"doc", "opsets", "meta", "attrs", "nodes"};  functions of a ModelDS: [[id, FuncDS]]
ModelDP = {"ver": int, "opt": [s|null], "opsets": SS, "meta": SS, "cfgs": [s], "graph": GraphDP, "funcs": [FuncDP]}
-/
open Lean IrVerif.Drive
namespace IrVerif.Drive.ScopeMeta
open IrVerif.Scope IrVerif.Drive.Scope

def parsePair (j : Json) : Except String (String × String) := do
  match ← arrOf j with
  | [a, b] => return (← (fromJson? a : Except String String), ← (fromJson? b : Except String String))
  | _ => throw "expected [key, value]"

def getSS (j : Json) (k : String) : Except String SS := do (← getArr j k).mapM parsePair

def ssJ (d : SS) : Json := Json.arr (d.map fun (k, v) => Json.arr #[Json.str k, Json.str v]).toArray

def parseDevP (j : Json) : Except String DevP := do
  return ⟨← getStr j "cfg", ← getOptStr (j.getObjValD "stage"), ← getSS j "specs"⟩

def devPJ (d : DevP) : Json := obj [("cfg", Json.str d.cfg), ("stage", optStrJ d.stage), ("specs", ssJ d.specs)]

def parseDevS (j : Json) : Except String DevS := do
  let specs ← (← getArr j "specs").mapM fun e => do
    match ← arrOf e with
    | [a, b] => return (← getOptStr a, ← (fromJson? b : Except String String))
    | _ => throw "spec: expected [name|null, tok]"
  return ⟨← getOptStr (j.getObjValD "cfg"), ← getOptStr (j.getObjValD "stage"), specs⟩

def devSJ (d : DevS) : Json :=
  obj [("cfg", optStrJ d.cfg), ("stage", optStrJ d.stage),
    ("specs", Json.arr (d.specs.map fun (n, t) => Json.arr #[optStrJ n, Json.str t]).toArray)]

mutual
partial def parseGraphDP (j : Json) : Except String GraphDP := do
  return .mk (← getOptStr (j.getObjValD "name")) (← getOptStr (j.getObjValD "doc")) (← getSS j "meta")
    (← (← getArr j "nodes").mapM parseNodeDP)
partial def parseNodeDP (j : Json) : Except String NodeDP := do
  return .mk (← getStr j "tok") (← getOptStr (j.getObjValD "doc")) (← getSS j "meta")
    (← (← getArr j "devs").mapM parseDevP) (← (← getArr j "g").mapM parseGraphDP)
end

mutual
partial def parseGraphDS (j : Json) : Except String GraphDS := do
  return .mk (← getOptStr (j.getObjValD "name")) (← getOptStr (j.getObjValD "doc")) (← getSS j "meta")
    (← (← getArr j "nodes").mapM parseNodeDS)
partial def parseNodeDS (j : Json) : Except String NodeDS := do
  return .mk (← getStr j "tok") (← getOptStr (j.getObjValD "doc")) (← getSS j "meta")
    (← (← getArr j "devs").mapM parseDevS) (← (← getArr j "g").mapM parseGraphDS)
end

mutual
partial def graphDPJ : GraphDP → Json
  | .mk name doc m ns =>
    obj [("name", optStrJ name), ("doc", optStrJ doc), ("meta", ssJ m), ("nodes", Json.arr (ns.map nodeDPJ).toArray)]
partial def nodeDPJ : NodeDP → Json
  | .mk tok doc m devs subs =>
    obj [("tok", Json.str tok), ("doc", optStrJ doc), ("meta", ssJ m), ("devs", Json.arr (devs.map devPJ).toArray),
      ("g", Json.arr (subs.map graphDPJ).toArray)]
end

mutual
partial def graphDSJ : GraphDS → Json
  | .mk name doc m ns =>
    obj [("name", optStrJ name), ("doc", optStrJ doc), ("meta", ssJ m), ("nodes", Json.arr (ns.map nodeDSJ).toArray)]
partial def nodeDSJ : NodeDS → Json
  | .mk tok doc m devs subs =>
    obj [("tok", Json.str tok), ("doc", optStrJ doc), ("meta", ssJ m), ("devs", Json.arr (devs.map devSJ).toArray),
      ("g", Json.arr (subs.map graphDSJ).toArray)]
end

def parseAttr (j : Json) : Except String (String × Bool × String) := do
  match ← arrOf j with
  | [a, b, c] => return (← (fromJson? a : Except String String), ← (fromJson? b : Except String Bool),
      ← (fromJson? c : Except String String))
  | _ => throw "attr: expected [name, has_value, tok]"

def attrsJ (as : List (String × Bool × String)) : Json :=
  Json.arr (as.map fun (n, b, t) => Json.arr #[Json.str n, toJson b, Json.str t]).toArray

def parseFuncDP (j : Json) : Except String FuncDP := do
  return ⟨← parseFId (j.getObjValD "id"), ← getOptStr (j.getObjValD "doc"), ← getSS j "opsets", ← getSS j "meta",
    ← (← getArr j "attrs").mapM parseAttr, ← getStrs j "attr_names", ← (← getArr j "nodes").mapM parseNodeDP⟩

def funcDPJ (f : FuncDP) : Json :=
  obj [("id", fidJ f.id), ("doc", optStrJ f.doc), ("opsets", ssJ f.opsets), ("meta", ssJ f.mprops),
    ("attrs", attrsJ f.attrProtos), ("attr_names", strsJ f.attrNames), ("nodes", Json.arr (f.nodes.map nodeDPJ).toArray)]

def parseFuncDS (j : Json) : Except String FuncDS := do
  return ⟨← getOptStr (j.getObjValD "doc"), ← getSS j "opsets", ← getSS j "meta",
    ← (← getArr j "attrs").mapM parseAttr, ← (← getArr j "nodes").mapM parseNodeDS⟩

def funcDSJ (f : FuncDS) : Json :=
  obj [("doc", optStrJ f.doc), ("opsets", ssJ f.opsets), ("meta", ssJ f.mprops), ("attrs", attrsJ f.attrs),
    ("nodes", Json.arr (f.nodes.map nodeDSJ).toArray)]

def parseModelDP (j : Json) : Except String ModelDP := do
  return ⟨← getInt j "ver", ← (← getArr j "opt").mapM getOptStr, ← getSS j "opsets", ← getSS j "meta",
    ← getStrs j "cfgs", ← parseGraphDP (j.getObjValD "graph"), ← (← getArr j "funcs").mapM parseFuncDP⟩

def modelDPJ (m : ModelDP) : Json :=
  obj [("ver", toJson m.ver), ("opt", Json.arr (m.opt.map optStrJ).toArray), ("opsets", ssJ m.opsets),
    ("meta", ssJ m.mprops), ("cfgs", strsJ m.cfgs), ("graph", graphDPJ m.graph),
    ("funcs", Json.arr (m.funcs.map funcDPJ).toArray)]

def parseModelDS (j : Json) : Except String ModelDS := do
  let fs ← (← getArr j "funcs").mapM fun e => do
    match ← arrOf e with
    | [i, f] => return ((← parseFId i), (← parseFuncDS f))
    | _ => throw "function: expected [id, FuncDS]"
  return ⟨← getInt j "ver", ← (← getArr j "opt").mapM getOptStr, ← getSS j "opsets", ← getSS j "meta",
    ← getStrs j "cfgs", ← parseGraphDS (j.getObjValD "graph"), fs⟩

def modelDSJ (m : ModelDS) : Json :=
  obj [("ver", toJson m.ver), ("opt", Json.arr (m.opt.map optStrJ).toArray), ("opsets", ssJ m.opsets),
    ("meta", ssJ m.mprops), ("cfgs", strsJ m.cfgs), ("graph", graphDSJ m.graph),
    ("funcs", Json.arr (m.funcs.map fun (i, f) => Json.arr #[fidJ i, funcDSJ f]).toArray)]

def derrJ : DErr → Json
  | .noConfiguration => Json.str "noConfiguration"
  | .noValue => Json.str "noValue"

/-! ### the extended model (`Model/ScopeExt.lean`)

VInfoE  = [name, Info, SS]
GraphE  = {"inputs":[VInfoE], "inits":[[name,data,ty,sh]], "vinfo":[VInfoE], "nodes":[{"i":[name],"o":[name],
           "devs":[DevP],"g":[GraphE]}], "outputs":[VInfoE], "quant":[[tensor_name, SS]]}
Ext     = {"vmeta":[SS] (per value), "quant":[SS|null] (per value), "devs":[[DevR]] (per node)}
DevR    = {"cfg": s|null, "stage": s|null, "specs": [[shard, tok]]},  shard = null | {"v": id} | {"f": name}
-/

def parseVInfoE (j : Json) : Except String VInfoE := do
  match ← arrOf j with
  | [n, t, m] =>
    let ms ← (← arrOf m).mapM parsePair
    return ⟨← (fromJson? n : Except String String), ← parseInfo t, ms⟩
  | _ => throw "vinfoE: expected [name, info, meta]"

def vinfoEJ (v : VInfoE) : Json := Json.arr #[Json.str v.name, infoJ v.info, ssJ v.mprops]

def parseQuantP (j : Json) : Except String QuantP := do
  match ← arrOf j with
  | [n, m] => return ⟨← (fromJson? n : Except String String), ← (← arrOf m).mapM parsePair⟩
  | _ => throw "quant: expected [tensor_name, params]"

def quantPJ (q : QuantP) : Json := Json.arr #[Json.str q.name, ssJ q.params]

mutual
partial def parseGraphE (j : Json) : Except String GraphE := do
  let ins ← (← getArr j "inputs").mapM parseVInfoE
  let its ← (← getArr j "inits").mapM parseTensorP
  let vis ← (← getArr j "vinfo").mapM parseVInfoE
  let ns ← (← getArr j "nodes").mapM parseNodeE
  let outs ← (← getArr j "outputs").mapM parseVInfoE
  let q ← (← getArr j "quant").mapM parseQuantP
  return .mk ins its vis ns outs q
partial def parseNodeE (j : Json) : Except String NodeE := do
  return .mk (← getStrs j "i") (← getStrs j "o") (← (← getArr j "devs").mapM parseDevP)
    (← (← getArr j "g").mapM parseGraphE)
end

mutual
partial def graphEJ : GraphE → Json
  | .mk ins its vis ns outs q =>
    obj [("inputs", Json.arr (ins.map vinfoEJ).toArray), ("inits", Json.arr (its.map tensorPJ).toArray),
      ("vinfo", Json.arr (vis.map vinfoEJ).toArray), ("nodes", Json.arr (ns.map nodeEJ).toArray),
      ("outputs", Json.arr (outs.map vinfoEJ).toArray), ("quant", Json.arr (q.map quantPJ).toArray)]
partial def nodeEJ : NodeE → Json
  | .mk i o devs g =>
    obj [("i", strsJ i), ("o", strsJ o), ("devs", Json.arr (devs.map devPJ).toArray),
      ("g", Json.arr (g.map graphEJ).toArray)]
end

def shardJ : ShardV → Json
  | .none => Json.null
  | .val v => obj [("v", toJson v)]
  | .fresh n => obj [("f", Json.str n)]

def devRJ (d : DevR) : Json :=
  obj [("cfg", optStrJ d.cfg), ("stage", optStrJ d.stage),
    ("specs", Json.arr (d.specs.map fun (s, t) => Json.arr #[shardJ s, Json.str t]).toArray)]

def extJ (st : Store) (x : Ext) : Json :=
  obj [("vmeta", Json.arr ((List.range st.nv).map fun i => ssJ (x.vmeta i)).toArray),
    ("quant", Json.arr ((List.range st.nv).map fun i =>
      match x.quant i with | none => Json.null | some d => ssJ d).toArray),
    ("devs", Json.arr ((List.range st.nn).map fun i => Json.arr ((x.devs i).map devRJ).toArray).toArray)]

def parseShard (j : Json) : Except String ShardV :=
  match j with
  | .null => .ok .none
  | _ =>
    match j.getObjVal? "v" with
    | .ok v => do return .val (← (fromJson? v : Except String Nat))
    | .error _ => do return .fresh (← getStr j "f")

def parseDevR (j : Json) : Except String DevR := do
  let specs ← (← getArr j "specs").mapM fun e => do
    match ← arrOf e with
    | [a, b] => return (← parseShard a, ← (fromJson? b : Except String String))
    | _ => throw "spec: expected [shard, tok]"
  return ⟨← getOptStr (j.getObjValD "cfg"), ← getOptStr (j.getObjValD "stage"), specs⟩

def parseExt (j : Json) : Except String Ext := do
  let vm ← (← getArr j "vmeta").mapM fun e => do (← arrOf e).mapM parsePair
  let qs ← (← getArr j "quant").mapM fun e =>
    match e with
    | .null => (.ok none : Except String (Option SS))
    | _ => do return some (← (← arrOf e).mapM parsePair)
  let ds ← (← getArr j "devs").mapM fun e => do (← arrOf e).mapM parseDevR
  let vma := vm.toArray
  let qsa := qs.toArray
  let dsa := ds.toArray
  return { vmeta := fun i => vma.getD i [], quant := fun i => qsa.getD i none, devs := fun i => dsa.getD i [] }

def eerrJ : EErr → Json
  | .name => Json.str "name"
  | .dev e => derrJ e

def worldEJ (w : WorldE) : List (String × Json) :=
  [("world", worldJ w.core), ("ext", extJ w.st w.ext)]

def parseFuncE (j : Json) : Except String FuncE := do
  return ⟨← parseFId (j.getObjValD "id"), ← getStrs j "inputs", ← getStrs j "outputs",
    ← (← getArr j "vinfo").mapM parseVInfoE, ← (← getArr j "nodes").mapM parseNodeE⟩

def funcEJ (f : FuncE) : Json :=
  obj [("id", fidJ f.id), ("inputs", strsJ f.inputs), ("outputs", strsJ f.outputs),
    ("vinfo", Json.arr (f.vinfo.map vinfoEJ).toArray), ("nodes", Json.arr (f.nodes.map nodeEJ).toArray)]

def parseModelE (j : Json) : Except String ModelE := do
  return ⟨← parseGraphE (j.getObjValD "p"), ← (← getArr j "funcs").mapM parseFuncE⟩

def modelEJ (m : ModelE) : Json := obj [("p", graphEJ m.graph), ("funcs", Json.arr (m.funcs.map funcEJ).toArray)]

def mworldEJ (w : MWorldE) : List (String × Json) :=
  [("world", mworldJ w.core), ("ext", extJ w.st w.ext)]

def payloadJ : Payload → Json
  | .optName n => optStrJ n
  | .info _ => Json.str "<info>"
  | .optNat n => (match n with | some k => toJson k | none => Json.null)
  | .ss m => ssJ m
  | .optSS m => (match m with | some d => ssJ d | none => Json.null)
  | .str s => Json.str s
  | .devs _ => Json.str "<devs>"

/-- an effect of `Model/ScopeEff.lean`: [kind, id, attribute, value] -/
def effectJ (e : Effect) : Json := Json.arr #[Json.str e.kind.str, toJson e.id, Json.str e.attr, payloadJ e.val]

def sitesJ (l : List WriteSite) : Json := Json.arr (l.map fun s => Json.arr #[Json.str s.kind.str, Json.str s.attr]).toArray

/-- the effect log of `serializeEff`, whether every effect is at a site of `writeSites` (hypothesis of
    `C03_pure_frame`), and whether replaying the log gives the heap `serializeE` returned (`C03_pure_sites`) -/
def effReport (ver : Option Int) (w w1 : WorldE) : List (String × Json) :=
  match serializeEff ver w with
  | .error _ => [("eff_ok", toJson false)]
  | .ok (es, _) =>
    let r := runEffects es w
    [("eff_ok", toJson true), ("effects", Json.arr (es.map effectJ).toArray),
      ("effects_at_sites", toJson (es.all fun e => writeSites.contains e.site)),
      ("replay_agrees", toJson ((List.range w.st.nt).all fun i => r.st.tens i == w1.st.tens i))]

/-- serialize `w`; when that succeeds also: reload, canonical form, second serialization -/
def serReport (w : ModelDS) : List (String × Json) :=
  match serModelD w with
  | .error e => [("ser_ok", toJson false), ("ser_err", derrJ e)]
  | .ok q =>
    let d := deserModelD q
    let again : List (String × Json) :=
      match serModelD d with
      | .error e => [("ser2_ok", toJson false), ("ser2_err", derrJ e)]
      | .ok q2 => [("ser2_ok", toJson true), ("q2", modelDPJ q2)]
    [("ser_ok", toJson true), ("q", modelDPJ q), ("reload", modelDSJ d), ("canon", modelDSJ (canonModelD w))] ++ again

def handle : Handler := fun m j =>
  match m with
  | "scope.ddeser" => some do
      let p ← parseModelDP (j.getObjValD "d")
      let w := deserModelD p
      return obj ([("world", modelDSJ w), ("wf", toJson (wfModelDB w))] ++ serReport w)
  | "scope.dser" => some do
      let w ← parseModelDS (j.getObjValD "w")
      return obj ([("wf", toJson (wfModelDB w))] ++ serReport w)
  | "scope.edeser" => some do
      -- extended model: deserialize; serialize with the IR version of the model; deserialize and serialize again
      let p ← parseGraphE (j.getObjValD "p")
      let ver : Option Int := (j.getObjValAs? Int "ver").toOption
      match deserializeE p with
      | .error e => return obj [("ok", toJson false), ("err", errJ e)]
      | .ok w =>
        let extra : List (String × Json) :=
          match serializeE ver w with
          | .error e => [("ser_ok", toJson false), ("ser_err", eerrJ e)]
          | .ok (_, q) =>
            match deserializeE q with
            | .error _ => [("ser_ok", toJson true), ("q", graphEJ q), ("deser2_ok", toJson false)]
            | .ok w2 =>
              match serializeE ver w2 with
              | .error _ => [("ser_ok", toJson true), ("q", graphEJ q), ("deser2_ok", toJson true),
                  ("ser2_ok", toJson false)]
              | .ok (_, q2) => [("ser_ok", toJson true), ("q", graphEJ q), ("deser2_ok", toJson true),
                  ("ser2_ok", toJson true), ("q2", graphEJ q2)]
        -- the certificate `ReloadableE` (decision procedure of Model/ScopeCert.lean) on what was deserialized:
        -- `deserializeE_reloadableE` proves it, so `false` here is a model / driver defect
        return obj ([("ok", toJson true), ("reloadable_ext", toJson (reloadableEB w))] ++ worldEJ w ++ extra)
  | "scope.medeser" => some do
      -- extended model with functions (IR version >= 10 format)
      let p ← parseModelE j
      let ver : Option Int := (j.getObjValAs? Int "ver").toOption
      match deserializeME p with
      | .error e => return obj [("ok", toJson false), ("err", errJ e)]
      | .ok w =>
        let extra : List (String × Json) :=
          match serializeME ver w with
          | .error e => [("ser_ok", toJson false), ("ser_err", eerrJ e)]
          | .ok (_, q) =>
            match deserializeME q with
            | .error _ => [("ser_ok", toJson true), ("q", modelEJ q), ("deser2_ok", toJson false)]
            | .ok w2 =>
              match serializeME ver w2 with
              | .error _ => [("ser_ok", toJson true), ("q", modelEJ q), ("deser2_ok", toJson true),
                  ("ser2_ok", toJson false)]
              | .ok (_, q2) => [("ser_ok", toJson true), ("q", modelEJ q), ("deser2_ok", toJson true),
                  ("ser2_ok", toJson true), ("q2", modelEJ q2)]
        return obj ([("ok", toJson true)] ++ mworldEJ w ++ extra)
  | "scope.meser" => some do
      let w0 ← parseMWorld (j.getObjValD "w")
      let x ← parseExt (j.getObjValD "ext")
      let ver : Option Int := (j.getObjValAs? Int "ver").toOption
      let w : MWorldE := ⟨w0.st, x, w0.root, w0.funcs⟩
      match serializeME ver w with
      | .error e => return obj [("ser_ok", toJson false), ("ser_err", eerrJ e)]
      | .ok (w1, p) =>
        let twice : List (String × Json) :=
          match serializeME ver w1 with
          | .error _ => [("ser2_ok", toJson false)]
          | .ok (_, p2) => [("ser2_ok", toJson true), ("p2", modelEJ p2)]
        let rt : List (String × Json) :=
          match deserializeME p with
          | .error e => [("deser_ok", toJson false), ("err", errJ e)]
          | .ok w2 => [("deser_ok", toJson true), ("world2", mworldJ w2.core), ("ext2", extJ w2.st w2.ext)]
        return obj ([("ser_ok", toJson true), ("p", modelEJ p)] ++ twice ++ rt)
  | "scope.eser" => some do
      -- extended model, IR -> proto -> IR: serialize a world built from the real IR, serialize the world left
      -- by that again, deserialize the proto
      let w0 ← parseWorld (j.getObjValD "w")
      let x ← parseExt (j.getObjValD "ext")
      let ver : Option Int := (j.getObjValAs? Int "ver").toOption
      let w : WorldE := ⟨w0.st, x, w0.root⟩
      -- hypothesis of C03_roundtrip_ext_partial (and, in its core part, of C03_roundtrip_reloadable)
      let cert : Bool := reloadableEB w
      match serializeE ver w with
      | .error e => return obj [("ser_ok", toJson false), ("ser_err", eerrJ e), ("reloadable_ext", toJson cert)]
      | .ok (w1, p) =>
        let twice : List (String × Json) :=
          match serializeE ver w1 with
          | .error _ => [("ser2_ok", toJson false)]
          | .ok (_, p2) => [("ser2_ok", toJson true), ("p2", graphEJ p2)]
        let rt : List (String × Json) :=
          match deserializeE p with
          | .error e => [("deser_ok", toJson false), ("err", errJ e)]
          | .ok w2 =>
            -- conclusion of C03_roundtrip_ext_partial: the reloaded model serializes to the same proto
            let fix : Bool := match serializeE ver w2 with
              | .ok (_, p3) => (graphEJ p3).compress == (graphEJ p).compress
              | .error _ => false
            [("deser_ok", toJson true), ("world2", worldJ w2.core), ("ext2", extJ w2.st w2.ext),
              ("reload_fixpoint", toJson fix)]
        return obj ([("ser_ok", toJson true), ("reloadable_ext", toJson cert), ("p", graphEJ p),
          ("tens_after", Json.arr ((List.range w1.st.nt).map fun i => tensorSJ (w1.st.tens i)).toArray)] ++ twice ++ rt
          ++ effReport ver w w1)
  | "scope.sites" => some do
      -- the write sites of serde.py's serialize_* functions according to `Model/ScopeEff.lean`
      return obj [("sites", sitesJ writeSites)]
  | "scope.mdeser9" => some do
      -- IR version < 10: `deserializeM9`, then serialize / deserialize / serialize again (the model does NOT
      -- claim a fix-point here: q2 is reported and compared with the real second serialization)
      let p ← parseModelP j
      let fixed := (j.getObjValAs? Bool "fixed").toOption.getD false
      match deserializeM9 p with
      | .error e => return obj [("ok", toJson false), ("err", errJ e)]
      | .ok w =>
        let extra : List (String × Json) :=
          match serializeM9 fixed w with
          | .error _ => [("ser_ok", toJson false)]
          | .ok (_, q) =>
            match deserializeM9 q with
            | .error _ => [("ser_ok", toJson true), ("q", modelPJ q), ("deser2_ok", toJson false)]
            | .ok w2 =>
              match serializeM9 fixed w2 with
              | .error _ => [("ser_ok", toJson true), ("q", modelPJ q), ("deser2_ok", toJson true),
                  ("ser2_ok", toJson false)]
              | .ok (_, q2) => [("ser_ok", toJson true), ("q", modelPJ q), ("deser2_ok", toJson true),
                  ("ser2_ok", toJson true), ("q2", modelPJ q2)]
        -- hypothesis of C17_ir9_entries_inert: the main-graph initializers are keyed by the name of their value
        let keysNamed := w.root.inits.all fun kv => (w.st.vals kv.2).name == some kv.1
        return obj ([("ok", toJson true), ("world", mworldJ w), ("init_keys_named", toJson keysNamed)] ++ extra)
  | "scope.mser9" => some do
      let w ← parseMWorld (j.getObjValD "w")
      let fixed := (j.getObjValAs? Bool "fixed").toOption.getD false
      match serializeM9 fixed w with
      | .error _ => return obj [("ser_ok", toJson false)]
      | .ok (_, p) =>
        let rt : List (String × Json) :=
          match deserializeM9 p with
          | .error e => [("deser_ok", toJson false), ("err", errJ e)]
          | .ok w2 => [("deser_ok", toJson true), ("world2", mworldJ w2)]
        return obj ([("ser_ok", toJson true), ("p", modelPJ p)] ++ rt)
  | _ => none

end IrVerif.Drive.ScopeMeta

import IrVerif.Drive.Util
import IrVerif.Drive.Pack
import IrVerif.Model.ExtLife
import IrVerif.Model.StrTensor
import IrVerif.Model.PyTensor
open Lean IrVerif.Drive
namespace IrVerif.Drive.TensorLife
open IrVerif.Pack IrVerif.TensorRepr IrVerif.Drive.Pack

/-! Protocol handler for the C04 deepening models: `extlife.*` (Model/ExtLife.lean). -/

section ExtLife
open IrVerif.ExtLife

def entryOfStr : String → Except String Entry
  | "numpy" => pure .numpy
  | "asarray" => pure .asarray
  | "tobytes" => pure .tobytes
  | "tofile" => pure .tofile
  | s => throw s!"unknown entry point {s}"

def opOfJson (j : Json) : Except String Op := do
  match ← getStr j "op" with
  | "read" => return .read (← entryOfStr (← getStr j "en")) (← getBool j "hold")
  | "release" => return .release
  | "invalidate" => return .invalidate
  | "basedir" => return .setBaseDir (← getNat j "d")
  | "drop" => return .dropHolds
  | "put" => return .put (← getNat j "d") (← getNats j "c")
  | "del" => return .del (← getNat j "d")
  | s => throw s!"unknown op {s}"

def obsJ : Obs → Json
  | .units u => obj [("units", natsJ u)]
  | .bytes b => obj [("bytes", natsJ b)]
  | .wrote b r => obj [("wrote", natsJ b), ("raised", toJson r)]
  | .raised err => obj [("raised", Json.str err)]
  | .done => Json.str "done"

/-- per call: the observation, whether the state BEFORE the call was coherent (the hypothesis of
    `C04_ext_history_agree`), whether the object was valid, and what a fresh object would answer for
    the file currently named (reads only) -/
def runTrace (e : Ext) : World → List Op → List Json
  | _, [] => []
  | w, op :: ops =>
    let r := step e w op
    let freshJ := match op with
      | .read en _ => obsJ (fresh e en (cur w))
      | _ => Json.null
    obj [("obs", obsJ r.2), ("coherent", toJson (coherent w)), ("valid", toJson w.st.valid),
         ("disturbs", toJson (op.disturbs w)), ("fresh", freshJ)] :: runTrace e r.1 ops

def extOfJson (j : Json) : Except String Ext := do
  return { dtype := ← getDType j "d", dims := ← getNats j "dims", offset := ← getOptNat j "offset",
           length := ← getOptNat j "length" }

def fsOfJson (j : Json) : Except String FS := do
  let entries ← getArr j "fs"
  entries.mapM (fun ent => do
    let d ← getNat ent "d"
    let c ← getNats ent "c"
    return (d, c))

end ExtLife

section StrTensor
open IrVerif.StrTensor

def elemsJ (vs : List Elem) : Json := Json.arr (vs.map natsJ).toArray

def getElems (j : Json) (k : String) : Except String (List Elem) := do
  let a ← getArr j k
  a.mapM (fun v => do let xs : Array Nat ← fromJson? v; pure xs.toList)

partial def srepOfJson (j : Json) : Except String SRep := do
  match ← getStr j "k" with
  | "seq" => return .seq (← getElems j "vals") (← getNats j "dims")
  | "objarr" => return .objArr (← getElems j "vals") (← getNats j "dims")
  | "proto" => return .proto (← getElems j "vals") (← getNats j "dims") (← getBool j "raw")
  | "lazy" => return .lazy (← srepOfJson (← j.getObjVal? "inner")) (← getNats j "dims")
  | k => throw s!"unknown string representation {k}"

def raisedOr {α : Type} (f : α → Json) : R α → Json
  | .ok a => f a
  | .error e => obj [("raised", Json.str e)]

def srepObs (r : SRep) : Json :=
  obj [("dtype", toJson r.dtype.code), ("shape", natsJ r.shape), ("numpy", raisedOr elemsJ r.numpy),
       ("string_data", raisedOr elemsJ r.stringData), ("nbytes", raisedOr (fun (n : Nat) => toJson n) r.nbytes),
       ("tobytes", raisedOr (fun _ => Json.str "returned") r.tobytes),
       ("tofile", raisedOr (fun _ => Json.str "returned") r.tofile),
       ("serialize", raisedOr (fun (p : SProto) =>
          obj [("dims", natsJ p.dims), ("string_data", elemsJ p.stringData), ("raw", toJson p.raw)]) (serialize r))]

def pyElemOfJson (j : Json) : Except String PyElem :=
  match j.getObjVal? "b" with
  | .ok v => do let xs : Array Nat ← fromJson? v; pure (.bytes xs.toList)
  | .error _ => do return .text (← getStr j "s")

end StrTensor

section PyTensor
open IrVerif.PyTensor

/-- a plain Python value: `null` None, `true`/`false`, `{"i": n}`, `{"f": bits}`, `{"c": [re, im]}`,
    `{"s": text}`, `{"b": [bytes]}`, an array for a list / tuple -/
partial def pyValOfJson (j : Json) : Except String PyVal :=
  match j with
  | .null => pure (.leaf .none)
  | .bool b => pure (.leaf (.bool b))
  | .arr xs => do
      let vs ← xs.toList.mapM pyValOfJson
      pure (.seq (PyList.ofList vs))
  | _ =>
    match j.getObjVal? "i" with
    | .ok v => do let i : Int ← fromJson? v; pure (.leaf (.int i))
    | .error _ =>
    match j.getObjVal? "f" with
    | .ok v => do let b : Nat ← fromJson? v; pure (.leaf (.float b))
    | .error _ =>
    match j.getObjVal? "c" with
    | .ok v => do
        let a : Array Nat ← fromJson? v
        pure (.leaf (.complex (a.getD 0 0) (a.getD 1 0)))
    | .error _ =>
    match j.getObjVal? "s" with
    | .ok v => do let s : String ← fromJson? v; pure (.leaf (.str s))
    | .error _ =>
    match j.getObjVal? "b" with
    | .ok v => do let a : Array Nat ← fromJson? v; pure (.leaf (.bytes a.toList))
    | .error _ => throw "not a python value"

def optDimsJ : Option (List Nat) → Json
  | some ds => natsJ ds
  | none => Json.null

def pyResultJ (r : PyResult) : Json :=
  match r with
  | .numeric d dims elems =>
    -- `legal`: the conclusion of C04_pytensor_agree evaluated (every element fits the item size)
    obj [("kind", Json.str "numeric"), ("d", toJson d.code), ("dims", natsJ dims), ("elems", natsJ elems),
         ("legal", toJson (elems.all (· < 256 ^ npItemBytes d) && elems.length == prod dims)),
         ("obs", IrVerif.Drive.Pack.observe (.array d dims elems) [])]
  | .str s => obj [("kind", Json.str "str"), ("obs", srepObs s)]
  | .degenerate dims => obj [("kind", Json.str "degenerate"), ("dims", optDimsJ dims)]
  | .raised e => obj [("kind", Json.str "raised"), ("exc", Json.str e)]
  | .unmodelled => obj [("kind", Json.str "unmodelled")]

end PyTensor

def handle : Handler := fun m j =>
  match m with
  | "pyt.run" => some do
      let v ← pyValOfJson (← j.getObjVal? "v")
      let dt ← match j.getObjVal? "dtype" with
        | .ok .null => pure none
        | .ok c => do
            let n : Nat ← fromJson? c
            match DType.ofCode n with
            | some d => pure (some d)
            | none => throw s!"not an element type code: {n}"
        | .error _ => pure none
      let r := IrVerif.PyTensor.pyTensor v dt
      return obj [("r", pyResultJ r), ("shape", optDimsJ (IrVerif.PyTensor.npShape v)),
                  ("nleaves", toJson (IrVerif.PyTensor.leaves v).length),
                  ("leaves_wf", toJson ((IrVerif.PyTensor.leaves v).all IrVerif.PyTensor.Leaf.wf)),
                  ("hyp_nested_float", toJson (IrVerif.PyTensor.hypNestedFloat v dt)),
                  ("hyp_int64", toJson (IrVerif.PyTensor.hypInt64 v dt)),
                  ("hyp_text", toJson (IrVerif.PyTensor.hypText v dt)),
                  ("hyp_ragged", toJson (IrVerif.PyTensor.hypRagged v dt))]
  | "pyt.cast" => some do
      -- one scalar into one element of a dtype (the conversion table on its own)
      let v ← pyValOfJson (← j.getObjVal? "v")
      let d ← getDType j "d"
      match v with
      | .leaf l =>
        match IrVerif.PyTensor.castLeaf d l with
        | .ok x => return obj [("ok", toJson x), ("real64", toJson l.isReal64)]
        | .err e => return obj [("raised", Json.str e), ("real64", toJson l.isReal64)]
        | .unmodelled => return obj [("unmodelled", toJson true), ("real64", toJson l.isReal64)]
      | _ => throw "pyt.cast: not a scalar"
  | "pyt.castmany" => some do
      -- many Python floats (binary64 bit patterns) / ints into one dtype: the exhaustive tables
      let d ← getDType j "d"
      let fs : Array Nat ← fromJson? (← j.getObjVal? "f")
      let is : Array Int ← fromJson? (← j.getObjVal? "i")
      let one (l : IrVerif.PyTensor.Leaf) : Json :=
        match IrVerif.PyTensor.castLeaf d l with
        | .ok x => toJson x
        | .err e => Json.str e
        | .unmodelled => Json.null
      return obj [("f", Json.arr (fs.map (fun b => one (.float b)))),
                  ("i", Json.arr (is.map (fun i => one (.int i))))]
  | "pyt.ctor" => some do
      -- Tensor(array, dtype=d): does _check_numpy_representation_type accept the array dtype (by name)
      let arrs : Array String ← fromJson? (← j.getObjVal? "arrs")
      return obj [("accepts", Json.arr (arrs.map (fun a =>
        Json.arr ((IrVerif.TensorRepr.DType.all.map (fun d =>
          Json.arr #[toJson d.code, toJson (IrVerif.PyTensor.ctorAccepts a d),
                     toJson ((IrVerif.TensorRepr.DType.npItemsize a).getD 0 == IrVerif.TensorRepr.npItemBytes d)])).toArray))))]
  | "pyt.dec8" => some do
      -- the value specification of the narrow float types: every pattern decoded
      let d ← getDType j "d"
      let k ← match d with
        | .float8e4m3fn => pure IrVerif.PyTensor.F8.e4m3fn | .float8e4m3fnuz => pure .e4m3fnuz
        | .float8e5m2 => pure .e5m2 | .float8e5m2fnuz => pure .e5m2fnuz
        | .float8e8m0 => pure .e8m0 | .float4e2m1 => pure .e2m1
        | _ => throw "pyt.dec8: not a narrow float type"
      let one (p : Nat) : Json :=
        match IrVerif.PyTensor.decF8 k p with
        | .zero neg => obj [("k", Json.str "zero"), ("neg", toJson neg)]
        | .fin neg m e => obj [("k", Json.str "fin"), ("neg", toJson neg), ("m", toJson m), ("e", toJson e)]
        | .inf neg => obj [("k", Json.str "inf"), ("neg", toJson neg)]
        | .nan neg => obj [("k", Json.str "nan"), ("neg", toJson neg)]
      return obj [("bits", toJson k.bits),
                  ("vals", Json.arr ((List.range (2 ^ k.bits)).map one).toArray),
                  ("roundtrip", Json.arr ((List.range (2 ^ k.bits)).map
                      (fun p => toJson (IrVerif.PyTensor.encF8 k (IrVerif.PyTensor.decF8 k p)))).toArray),
                  ("canon", Json.arr ((List.range (2 ^ k.bits)).map
                      (fun p => toJson (IrVerif.PyTensor.canonF8 k p))).toArray)]
  | "extlife.run" => some do
      let e ← extOfJson (← j.getObjVal? "ext")
      let fs ← fsOfJson j
      let d0 ← getNat j "d0"
      let ops ← (← getArr j "ops").mapM opOfJson
      let w0 := IrVerif.ExtLife.init fs d0
      return obj [("trace", Json.arr (runTrace e w0 ops).toArray),
                  ("quiet", toJson (IrVerif.ExtLife.quiet e w0 ops)),
                  ("final_coherent", toJson (IrVerif.ExtLife.coherent (IrVerif.ExtLife.run e w0 ops).1))]
  | "strt.obs" => some do
      return srepObs (← srepOfJson (← j.getObjVal? "repr"))
  | "strt.py" => some do
      let elems ← (← getArr j "elems").mapM pyElemOfJson
      match IrVerif.StrTensor.pyTensor elems (← getNats j "dims") (← getBool j "dtype_string") with
      | .str r => return obj [("kind", Json.str "str"), ("obs", srepObs r)]
      | .valueError => return obj [("kind", Json.str "valueError")]
      | .numeric => return obj [("kind", Json.str "numeric")]
  | _ => none

end IrVerif.Drive.TensorLife

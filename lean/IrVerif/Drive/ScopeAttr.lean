import IrVerif.Drive.Util
import IrVerif.Drive.Scope
import IrVerif.Model.ScopeAttr
/-! Protocol handler for the attribute layer `IrVerif.Model.ScopeAttr` (C03 / C17).

AttrP   = {"n": name, "d": doc|null, "r": ref_attr_name|null, "t": type number, "k": payload token, "ok": bool,
           "g": GraphAP|null (null = field absent), "gs": [GraphAP]}
NodeAP  = [AttrP]          GraphAP = [NodeAP]
AttrS   = {"c": "leaf", "n", "d", "t", "v": token|null} | {"c": "graph", "n", "d", "g": GraphAS}
          | {"c": "graphs", "n", "d", "gs": [GraphAS]} | {"c": "ref", "n", "d", "r": ref name, "t"}
NodeAS  = [AttrS]          GraphAS = [NodeAS]
ModelAP = {"graph": GraphAP, "funcs": [[id, [NodeAP]]]}      ModelAS = {"graph": GraphAS, "funcs": [[id, [NodeAS]]]}

`scope.adeser` {"p": ModelAP}: deserModelA, the invariants on the result, then the report of `scope.aser`.
`scope.aser`   {"w": ModelAS}: wfModelAB / normModelAB (hypotheses of C03_attr_roundtrip), serModelA, the reloaded
model, its canonical form, the second serialization; the shapes `subsOfS` / `subsOfP ∘ survivors` of every node
(alignment with `NodeP.subs` / `NodeT.subs` of the core abstraction).
-/
open Lean IrVerif.Drive
namespace IrVerif.Drive.ScopeAttr
open IrVerif.Scope IrVerif.Drive.Scope

mutual
partial def parseAttrP (j : Json) : Except String AttrP := do
  let g ← match j.getObjValD "g" with
    | Json.null => pure emptyGAP
    | x => parseGraphAP x
  let gs ← match j.getObjVal? "gs" with
    | .ok x => (← arrOf x).mapM parseGraphAP
    | .error _ => pure []
  return .mk (← getStr j "n") (← getOptStr (j.getObjValD "d")) (← getOptStr (j.getObjValD "r")) (← getNat j "t")
    (← getStr j "k") (← getBool j "ok") g gs
partial def parseNodeAP (j : Json) : Except String NodeAP := do
  return .mk (← (← arrOf j).mapM parseAttrP)
partial def parseGraphAP (j : Json) : Except String GraphAP := do
  return .mk (← (← arrOf j).mapM parseNodeAP)
end

mutual
partial def parseAttrS (j : Json) : Except String AttrS := do
  let n ← getStr j "n"
  let d ← getOptStr (j.getObjValD "d")
  match ← getStr j "c" with
  | "leaf" => return .leaf n d (← getNat j "t") (← getOptStr (j.getObjValD "v"))
  | "graph" => return .graph n d (← parseGraphAS (j.getObjValD "g"))
  | "graphs" => return .graphs n d (← (← getArr j "gs").mapM parseGraphAS)
  | "ref" => return .ref n d (← getStr j "r") (← getNat j "t")
  | c => throw s!"attribute class {c}"
partial def parseNodeAS (j : Json) : Except String NodeAS := do
  return .mk (← (← arrOf j).mapM parseAttrS)
partial def parseGraphAS (j : Json) : Except String GraphAS := do
  return .mk (← (← arrOf j).mapM parseNodeAS)
end

mutual
partial def attrPJ : AttrP → Json
  | .mk n d r ty tok ok g gs =>
    obj [("n", Json.str n), ("d", optStrJ d), ("r", optStrJ r), ("t", toJson ty), ("k", Json.str tok),
      ("ok", toJson ok), ("g", graphAPJ g), ("gs", Json.arr (gs.map graphAPJ).toArray)]
partial def nodeAPJ : NodeAP → Json
  | .mk attrs => Json.arr (attrs.map attrPJ).toArray
partial def graphAPJ : GraphAP → Json
  | .mk nodes => Json.arr (nodes.map nodeAPJ).toArray
end

mutual
partial def attrSJ : AttrS → Json
  | .leaf n d ty v => obj [("c", "leaf"), ("n", Json.str n), ("d", optStrJ d), ("t", toJson ty), ("v", optStrJ v)]
  | .graph n d g => obj [("c", "graph"), ("n", Json.str n), ("d", optStrJ d), ("g", graphASJ g)]
  | .graphs n d gs =>
    obj [("c", "graphs"), ("n", Json.str n), ("d", optStrJ d), ("gs", Json.arr (gs.map graphASJ).toArray)]
  | .ref n d r ty => obj [("c", "ref"), ("n", Json.str n), ("d", optStrJ d), ("r", Json.str r), ("t", toJson ty)]
partial def nodeASJ : NodeAS → Json
  | .mk attrs => Json.arr (attrs.map attrSJ).toArray
partial def graphASJ : GraphAS → Json
  | .mk nodes => Json.arr (nodes.map nodeASJ).toArray
end

/-- the shape of the tree of graphs as the core model sees it: per node the graphs of `subsOfP (survivors attrs)` -/
partial def shapeP : GraphAP → Json
  | .mk nodes => Json.arr (nodes.map fun n => Json.arr ((subsOfP (survivors n.attrs)).map shapeP).toArray).toArray

partial def shapeS : GraphAS → Json
  | .mk nodes => Json.arr (nodes.map fun n => Json.arr ((subsOfS n.attrs).map shapeS).toArray).toArray

def parseModelAP (j : Json) : Except String ModelAP := do
  let fs ← (← getArr j "funcs").mapM fun e => do
    match ← arrOf e with
    | [a, b] => return (⟨← parseFId a, ← (← arrOf b).mapM parseNodeAP⟩ : FuncAP)
    | _ => throw "function: expected [id, nodes]"
  return ⟨← parseGraphAP (j.getObjValD "graph"), fs⟩

def parseModelAS (j : Json) : Except String ModelAS := do
  let fs ← (← getArr j "funcs").mapM fun e => do
    match ← arrOf e with
    | [a, b] => return (← parseFId a, ← (← arrOf b).mapM parseNodeAS)
    | _ => throw "function: expected [id, nodes]"
  return ⟨← parseGraphAS (j.getObjValD "graph"), fs⟩

def modelAPJ (m : ModelAP) : Json :=
  obj [("graph", graphAPJ m.graph),
    ("funcs", Json.arr (m.funcs.map fun f => Json.arr #[fidJ f.id, Json.arr (f.nodes.map nodeAPJ).toArray]).toArray)]

def modelASJ (m : ModelAS) : Json :=
  obj [("graph", graphASJ m.graph),
    ("funcs", Json.arr (m.funcs.map fun f => Json.arr #[fidJ f.1, Json.arr (f.2.map nodeASJ).toArray]).toArray)]

def shapeMP (m : ModelAP) : Json :=
  Json.arr #[shapeP m.graph, Json.arr (m.funcs.map fun f => shapeP (.mk f.nodes)).toArray]

def shapeMS (m : ModelAS) : Json :=
  Json.arr #[shapeS m.graph, Json.arr (m.funcs.map fun f => shapeS (.mk f.2)).toArray]

def aerrJ : AErr → Json
  | .unknownType => "unknownType"
  | .sparse => "sparse"
  | .leaf => "leaf"
  | .noValue => "noValue"
  | .unsupported => "unsupported"

def serReport (w : ModelAS) : List (String × Json) :=
  [("wf", toJson (wfModelAB w)), ("norm", toJson (normModelAB w)), ("shape_w", shapeMS w)] ++
  match serModelA w with
  | .error e => [("ser_ok", toJson false), ("ser_err", aerrJ e)]
  | .ok q =>
    [("ser_ok", toJson true), ("q", modelAPJ q), ("shape_q", shapeMP q), ("canon", modelASJ (canonModelA w))] ++
    match deserModelA q with
    | .error e => [("reload_ok", toJson false), ("reload_err", aerrJ e)]
    | .ok d =>
      [("reload_ok", toJson true), ("reload", modelASJ d)] ++
      match serModelA d with
      | .error e => [("ser2_ok", toJson false), ("ser2_err", aerrJ e)]
      | .ok q2 => [("ser2_ok", toJson true), ("q2", modelAPJ q2)]

def handle : Handler := fun m j =>
  match m with
  | "scope.adeser" => some do
      let p ← parseModelAP (j.getObjValD "p")
      match deserModelA p with
      | .error e => return obj [("ok", toJson false), ("err", aerrJ e), ("shape_p", shapeMP p)]
      | .ok w => return obj ([("ok", toJson true), ("world", modelASJ w), ("shape_p", shapeMP p)] ++ serReport w)
  | "scope.aser" => some do
      let w ← parseModelAS (j.getObjValD "w")
      return obj (serReport w)
  | _ => none

end IrVerif.Drive.ScopeAttr

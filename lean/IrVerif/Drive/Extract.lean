import IrVerif.Drive.Util
import IrVerif.Model.Extract
import IrVerif.Model.Clone
/-! Protocol handler for the C18 model (`IrVerif.Extract`).

Requests carry the world: `vals` = `[[name, producer|null, graph|null, isInit], ...]` (index = value id),
`nodes` = table of nodes (index = node id), a node is `{"i": [vid|null], "o": [vid], "b": [graph]}`,
a graph is `{"g": gid, "i": [vid], "w": [vid], "o": [vid], "n": [node]}`. -/
open Lean IrVerif.Drive
namespace IrVerif.Drive.Extract
open IrVerif.Extract

def optNat (j : Json) : Except String (Option Nat) :=
  match j with
  | .null => pure none
  | _ => do let n ← j.getNat?; pure (some n)

mutual
  /-- an attribute as observed: `["ref"]` (reference attribute, any declared type), `["g", graph]`,
      `["gs", [graph, ...]]`, `["x"]` (any other type) -/
  partial def parseAttr (j : Json) : Except String AttrT := do
    match j with
    | .arr #[.str "ref"] => pure .ref
    | .arr #[.str "x"] => pure .other
    | .arr #[.str "g", g] => pure (.graph (← parseGraph g))
    | .arr #[.str "gs", .arr gs] => pure (.graphs (← gs.toList.mapM parseGraph))
    | _ => throw "bad attribute"
  /-- a node with its attribute list as the code reads it; `"b"` (already flattened bodies) is accepted for
      old requests -/
  partial def parseNodeA (j : Json) : Except String (NodeT × List AttrT) := do
    let ins ← (← getArr j "i").mapM optNat
    let outs ← getNats j "o"
    match j.getObjVal? "a" with
    | .ok (.arr as) =>
      let attrs ← as.toList.mapM parseAttr
      pure (.mk ins outs (attrBodies attrs), attrs)
    | _ =>
      let bs ← (← getArr j "b").mapM parseGraph
      pure (.mk ins outs bs, bs.map AttrT.graph)
  partial def parseNode (j : Json) : Except String NodeT := do
    pure (← parseNodeA j).1
  partial def parseGraph (j : Json) : Except String GraphT := do
    let ns ← (← getArr j "n").mapM parseNode
    pure (.mk (← getNat j "g") (← getNats j "i") (← getNats j "w") (← getNats j "o") ns)
end

def parseVal (j : Json) : Except String ValueS := do
  match j with
  | .arr #[nm, p, g, w] =>
    pure { name := (← nm.getStr?), producer := (← optNat p), graph := (← optNat g), isInit := (← w.getBool?) }
  | _ => throw "bad value"

def parseWorld (j : Json) : Except String World := do
  let vals ← (← getArr j "vals").mapM parseVal
  let nodes ← (← getArr j "nodes").mapM parseNode
  pure { vals := vals, nodes := nodes }

def parseArg (j : Json) : Except String Arg :=
  match j with
  | .str s => pure (.name s)
  | _ => do let n ← j.getNat?; pure (.obj n)

def parseKind (s : String) : Except String Kind :=
  match s with
  | "graph" => pure .graph
  | "function" => pure .function
  | "view" => pure .view
  | _ => throw "bad kind"

def parseNameMap (js : List Json) : Except String NameMap :=
  js.mapM fun j => match j with
    | .arr #[k, v] => do pure ((← k.getStr?), (← v.getNat?))
    | _ => throw "bad name map entry"

def parseTarget (j : Json) : Except String Target := do
  let t ← j.getObjVal? "target"
  pure { kind := (← parseKind (← getStr t "kind")),
         gid := (← optNat (← t.getObjVal? "gid")),
         inputs := (← getNats t "inputs"),
         inits := (← parseNameMap (← getArr t "inits")),
         nodes := (← getNats t "nodes") }

/-- sorted, duplicate-free (canonical form of a Python set of ids) -/
def canonSet (xs : List Nat) : List Nat :=
  (xs.toArray.qsort (· < ·)).toList.eraseDups

def errJ (e : Err) : Json := obj [("r", Json.str "raised"), ("kind", Json.str (reprStr e)), ("py", Json.str e.pyClass)]

mutual
  /-- the graph and every graph nested in it -/
  partial def subGraphs (g : GraphT) : List GraphT := g :: g.nodes.flatMap nodeSubs
  partial def nodeSubs (n : NodeT) : List GraphT := n.bodies.flatMap subGraphs
end

/-- the decidable hypotheses of C18_extract_eval for one successful cut -/
def hypJ (W : World) (T : Target) (v : View) : Json :=
  match v.outputs with
  | [] => Json.null
  | o :: _ =>
    match W.graphOf o with
    | none => Json.null
    | some p =>
      obj [("source", toJson (sourceOKB W p T.nodes)),
           ("bodies", toJson (T.nodes.all (bodiesOKB W p))),
           ("scope", toJson (scopeB W (T.kind == Kind.function) v.inputs v.outputs p v.nodes)),
           ("names", toJson (initNamesB W))]

/-- the structural facts of the `_source` theorems, evaluated on one successful cut: the node list is the
    last occurrences of the source's list filtered by the result (`C18_order_source`) -/
def orderOKB (T : Target) (v : View) : Bool :=
  v.nodes == (dedupLast T.nodes).filter (fun n => v.nodes.contains n)

/-! ### the view as a heap of C13's model (instance of `C18_clone_stage_C13_exact` on every generated cut)

Value `v` is the cell `v` (so the value ids of the tree are heap indices, as `RepG` asks), its two metadata
containers follow the value cells; graph / node / attribute cells are appended in post-order. -/

mutual
  /-- cells of the graph (to be placed from `off` on) and the index of its graph cell -/
  partial def heapG (nm : Nat → Option String) (view : Bool) (off : Nat) : GraphT → List Clone.Cell × Nat
    | .mk gid ins inits outs ns =>
      let (cs, idxs) := heapNs nm off ns
      let base := off + cs.length
      (cs ++ [Clone.Cell.dict {}, Clone.Cell.dict {},
              Clone.Cell.graph { name := some s!"g{gid}", inputs := ins, outputs := outs,
                                 inits := inits.map (fun v => ((nm v).getD "", v)), nodes := idxs,
                                 props := base, mstore := base + 1, view := view }], base + 2)
  partial def heapNs (nm : Nat → Option String) (off : Nat) : List NodeT → List Clone.Cell × List Nat
    | [] => ([], [])
    | n :: ns =>
      let (c1, i1) := heapN nm off n
      let (c2, i2) := heapNs nm (off + c1.length) ns
      (c1 ++ c2, i1 :: i2)
  partial def heapN (nm : Nat → Option String) (off : Nat) : NodeT → List Clone.Cell × Nat
    | .mk ins outs bs =>
      let (cs, gidxs) := heapGs nm off bs
      let base := off + cs.length
      let k := gidxs.length
      let attrCells := (List.range k).map (fun i => Clone.Cell.attr { name := s!"b{i}", v := .graph (gidxs.getD i 0) })
      (cs ++ attrCells ++ [Clone.Cell.dict {}, Clone.Cell.dict {},
         Clone.Cell.node { name := some "n", opType := "Op", inputs := ins, outputs := outs,
                           attrs := (List.range k).map (fun i => (s!"b{i}", base + i)),
                           props := base + k, mstore := base + k + 1 }], base + k + 2)
  partial def heapGs (nm : Nat → Option String) (off : Nat) : List GraphT → List Clone.Cell × List Nat
    | [] => ([], [])
    | g :: gs =>
      let (c1, i1) := heapG nm false off g
      let (c2, i2) := heapGs nm (off + c1.length) gs
      (c1 ++ c2, i1 :: i2)
end

mutual
  partial def depthT : GraphT → Nat
    | .mk _ _ _ _ ns => (ns.map depthNT).foldl max 0 + 1
  partial def depthNT : NodeT → Nat
    | .mk _ _ bs => (bs.map depthT).foldl max 0
end

/-- the verdict of C13's scope walker on the view as a heap, against `cloneGO`: "agree" when both return or
    both raise (the walker with a clear error), "n/a" where a hypothesis of `C18_clone_stage_C13_exact` fails
    (a value without a name, a re-bound node output) -/
def c13J (W : World) (v : View) : Json :=
  let t : GraphT := .mk 0 v.inputs v.inits v.outputs (v.nodes.map W.nodeD)
  let nv := W.vals.length
  let nm : Nat → Option String := fun x => if (W.val x).name == "" then none else some (W.val x).name
  let valCells := (List.range nv).map (fun x =>
    Clone.Cell.val { name := nm x, props := nv + 2 * x, mstore := nv + 2 * x + 1 })
  let dicts := (List.range (2 * nv)).map (fun _ => Clone.Cell.dict {})
  let (cs, g) := heapG nm true (3 * nv) t
  let heap := valCells ++ dicts ++ cs
  let named := (defsG t).all (fun x => x < nv && (nm x).isSome)
  if !(named && nrGB [] t) then Json.str "n/a"
  else
    let verdict := Clone.cloneVerdict (depthT t + 1) false heap g
    match cloneGO {} t, verdict with
    | .ok _, .ok _ => Json.str "agree:returns"
    | .error _, .err (.raised _) => Json.str "agree:raises"
    | .ok _, _ => Json.str "disagree:model-returns"
    | .error _, .ok _ => Json.str "disagree:model-raises"
    | .error _, _ => Json.str "disagree:walker-no-clear-error"

/-- the view `extract` hands to the clone stage (none when an earlier stage raises) -/
def preView (W : World) (T : Target) (ins outs : List Arg) : Option View :=
  let m := valueMapping W T
  match checkArgs W T m (ins ++ outs) with
  | .error _ => none
  | .ok () =>
    let I := ins.map (resolveArg m)
    let O := outs.map (resolveArg m)
    match O with
    | [] => none
    | o :: _ =>
      match W.graphOf o with
      | none => none
      | some p =>
        match findSubgraph W (T.kind == Kind.function) T.nodes I O p with
        | .error _ => none
        | .ok (nodes, inited) =>
          match viewInits W inited [] with
          | .error _ => none
          | .ok im => some { inputs := I, outputs := O, nodes := nodes, inits := im.map (·.2) }

def isOkE {α : Type} : Except Err α → Bool
  | .ok _ => true
  | .error _ => false

/-- the instance of `C18_extract_succeeds_iff` / `C18_extract_owned` for one cut that passes the argument checks
    and has a first output with a graph: the decidable hypotheses, the two sides of the equivalence, the outcome
    of the pipeline without the ownership checks -/
def iffJ (W : World) (T : Target) (ins outs : List Arg) : Json :=
  let m := valueMapping W T
  -- (under the D460 fix more calls pass the argument checks; the instance is only evaluated where the
  -- repository's current checks pass, which is where `extractOF` = `extractO`: `C18_extract_D460`)
  match checkArgs W T m (ins ++ outs) with
  | .error _ => Json.null
  | .ok () =>
    let I := ins.map (resolveArg m)
    let O := outs.map (resolveArg m)
    match O with
    | [] => Json.null
    | o :: _ =>
      match W.graphOf o with
      | none => Json.null
      | some p =>
        let fn := T.kind == Kind.function
        obj [("hyp", toJson (regionHypB W T p I O)), ("covered", toJson (coveredB W fn I O p)),
             ("needed", toJson (neededInB W fn T.nodes I O p)),
             ("plain", toJson (isOkE (extract W T ins outs))),
             -- hypothesis of C18_own_pass on the view the pipeline without ownership checks builds
             ("own", match extract W T ins outs with
                | .ok v => toJson (ownStaticB (.mk 0 v.inputs v.inits v.outputs (v.nodes.map W.nodeD)))
                | .error _ => Json.null),
             -- instance of C18_clone_stage_C13_exact on the view handed to the clone stage (returning or raising)
             ("c13", match preView W T ins outs with
                | some v => c13J W v
                | none => Json.null)]

def runJ (W : World) (T : Target) (ins outs : List Arg) (d460 : Bool := false) : Json :=
  match (if d460 then extractOF W T ins outs else extractO W T ins outs) with
  | .error e =>
    obj [("r", Json.str "raised"), ("kind", Json.str (reprStr e)), ("py", Json.str e.pyClass),
         ("iff", iffJ W T ins outs)]
  | .ok v => obj [("r", Json.str "ok"), ("inputs", natsJ v.inputs), ("outputs", natsJ v.outputs),
                  ("nodes", natsJ v.nodes), ("inits", natsJ (canonSet v.inits)),
                  ("rewired", natsJ (canonSet (rewired W v))), ("hyp", hypJ W T v),
                  ("orderOK", toJson (orderOKB T v)), ("dupNodes", toJson (!nodupB T.nodes)),
                  ("iff", iffJ W T ins outs),
                  ("nr", toJson (nrGB [] (.mk 0 v.inputs v.inits v.outputs (v.nodes.map W.nodeD))))]

def handle : Handler := fun m j =>
  match m with
  | "extract.run" => some do
      let W ← parseWorld j
      let T ← parseTarget j
      let ins ← (← getArr j "ins").mapM parseArg
      let outs ← (← getArr j "outs").mapM parseArg
      return runJ W T ins outs ((j.getObjValAs? Bool "d460").toOption.getD false)
  | "extract.runmany" => some do
      let W ← parseWorld j
      let T ← parseTarget j
      let rs ← (← getArr j "cuts").mapM fun c => do
        match c with
        | .arr #[i, o] =>
          let ins ← (← i.getArr?).toList.mapM parseArg
          let outs ← (← o.getArr?).toList.mapM parseArg
          pure (runJ W T ins outs ((j.getObjValAs? Bool "d460").toOption.getD false))
        | _ => throw "bad cut"
      return obj [("r", Json.arr rs.toArray)]
  | "extract.find" => some do
      let W ← parseWorld j
      match findSubgraph W (← getBool j "isFunction") (← getNats j "gnodes") (← getNats j "inputs")
              (← getNats j "outputs") (← getNat j "parent") with
      | .error e => return errJ e
      | .ok (ns, ws) => return obj [("r", Json.str "ok"), ("nodes", natsJ ns), ("inited", natsJ (canonSet ws))]
  | "extract.external" => some do
      let W ← parseWorld j
      let g ← parseGraph (← j.getObjVal? "graph")
      return obj [("r", natsJ (canonSet (externalValues W (← getNat j "parent") g)))]
  | "extract.mapping" => some do
      let W ← parseWorld j
      let T ← parseTarget j
      return obj [("r", Json.arr ((valueMapping W T).map (fun kv => Json.arr #[Json.str kv.1, toJson kv.2])).toArray)]
  | "extract.analyze" => some do
      let W ← parseWorld j
      let gj ← j.getObjVal? "graph"
      let g ← parseGraph gj
      -- the top-level nodes with their attribute lists: the result is computed branch by branch over the
      -- attributes (`procAttrs`), under the root identity given (`root`: the Graph, or a Function object)
      let nas ← (← getArr gj "n").mapM parseNodeA
      let root := (j.getObjValAs? Nat "root").toOption.getD g.gid
      let u := nas.foldl (fun u na => procAttrs W [root] u na.2) []
      let u := (u.toArray.qsort (fun a b => a.1 < b.1)).toList
      let u2 := analyze W g
      let u2 := (u2.toArray.qsort (fun a b => a.1 < b.1)).toList
      let bodies := g.nodes.flatMap (·.bodies)
      let all := bodies.flatMap gidsG
      let scopedOK := bodies.all (fun b => scopedGB W all [] b)
      let ptr := (bodies.flatMap subGraphs).all (backPtrB W)
      let uniq := uniqueGidsB g.nodes
      let canon := fun (u : Usages) => Json.arr (u.map (fun kv => Json.arr #[toJson kv.1, natsJ (canonSet kv.2)])).toArray
      return obj [("r", canon u), ("r2", canon u2),
                  ("hyp", toJson (scopedOK && ptr)), ("hypExact", toJson (scopedOK && ptr && uniq))]
  | "extract.resolve" => some do
      let W ← parseWorld j
      let T ← parseTarget j
      let names ← (← getArr j "names").mapM (fun x => x.getStr?)
      let m := valueMapping W T
      let cands := nameCandidates W T
      let nodeVals := T.nodes.flatMap (fun n => (W.nodeD n).ins ++ (W.nodeD n).outputs)
      let optJ := fun (o : Option Nat) => match o with | some v => toJson v | none => Json.null
      let rs := names.map fun s =>
        let cls :=
          if (T.inits.lookup s).isSome then "init"
          else if ((named W T.inputs).lookup s).isSome then "input"
          else if ((named W nodeVals).lookup s).isSome then "node" else "missing"
        let chk := match checkArg W T m (.name s) with
          | .ok () => "ok"
          | .error e => reprStr e
        Json.arr #[optJ (m.lookup s), optJ (cands.lookup s), Json.str cls, Json.str chk,
                   toJson ((cands.filter (fun kv => kv.1 == s)).map (·.2))]
      return obj [("r", Json.arr rs.toArray), ("unique", toJson (namesUniqueB W T))]
  | _ => none

end IrVerif.Drive.Extract

/-
C10 helper lemmas: `os.path.realpath` (the transcribed `_joinrealpath`, with its `seen` cache and
loop detection) computes the kernel's resolution whenever the kernel resolves the path.
-/
import IrVerif.Lemmas.PathFS
namespace IrVerif.Path

theorem jr_nil (fs : FS) (kf : Nat) (cwd : Loc) (pf : Nat) (path : Str) (seen : Seen) :
    joinReal fs kf cwd pf path [] seen = (path, true, seen) := by
  rw [joinReal]

theorem jr_skip (fs : FS) (kf : Nat) (cwd : Loc) (pf : Nat) (path : Str) (name : Str)
    (rest : List Str) (seen : Seen) (h : name = [] ∨ name = DOT) :
    joinReal fs kf cwd pf path (name :: rest) seen = joinReal fs kf cwd pf path rest seen := by
  rw [joinReal]
  simp only [h, if_true]

theorem jr_up (fs : FS) (kf : Nat) (cwd : Loc) (pf : Nat) (path : Str)
    (rest : List Str) (seen : Seen) :
    joinReal fs kf cwd pf path (DOTDOT :: rest) seen =
      joinReal fs kf cwd pf (parentPath path) rest seen := by
  rw [joinReal]
  have h1 : ¬ (DOTDOT = ([] : Str) ∨ DOTDOT = DOT) := by decide
  simp only [h1, if_false, if_true]

theorem jr_plain (fs : FS) (kf : Nat) (cwd : Loc) (pf : Nat) (path : Str) (name : Str)
    (rest : List Str) (seen : Seen) (h1 : ¬ (name = [] ∨ name = DOT)) (h2 : name ≠ DOTDOT)
    (hl : ∀ t, lstat fs kf cwd (pjoin path name) ≠ some (Node.link t)) :
    joinReal fs kf cwd pf path (name :: rest) seen =
      joinReal fs kf cwd pf (pjoin path name) rest seen := by
  rw [joinReal]
  simp only [h1, h2, if_false]

theorem jr_link_done (fs : FS) (kf : Nat) (cwd : Loc) (pf : Nat) (path : Str) (name : Str)
    (rest : List Str) (seen : Seen) (h1 : ¬ (name = [] ∨ name = DOT)) (h2 : name ≠ DOTDOT)
    (t : Str) (hl : lstat fs kf cwd (pjoin path name) = some (Node.link t)) (p : Str)
    (hs : Seen.find seen (pjoin path name) = some (some p)) :
    joinReal fs kf cwd pf path (name :: rest) seen = joinReal fs kf cwd pf p rest seen := by
  rw [joinReal]
  simp only [h1, h2, if_false, hl, hs]

theorem jr_link_fresh (fs : FS) (kf : Nat) (cwd : Loc) (pf : Nat) (path : Str) (name : Str)
    (rest : List Str) (seen : Seen) (h1 : ¬ (name = [] ∨ name = DOT)) (h2 : name ≠ DOTDOT)
    (t : Str) (hl : lstat fs kf cwd (pjoin path name) = some (Node.link t))
    (hs : Seen.find seen (pjoin path name) = none) (p1 : Str) (s1 : Seen)
    (hr : joinReal fs kf cwd pf (if isabs t then ['/'] else path)
        (splitSep (if isabs t then t.tail else t)) ((pjoin path name, none) :: seen) = (p1, true, s1)) :
    joinReal fs kf cwd (pf + 1) path (name :: rest) seen =
      joinReal fs kf cwd (pf + 1) p1 rest ((pjoin path name, some p1) :: s1) := by
  rw [joinReal]
  simp only [h1, h2, if_false, hl, hs, hr]
  simp

end IrVerif.Path

namespace IrVerif.Path

theorem find_cons (k : Str) (v : Option Str) (s : Seen) (q : Str) :
    Seen.find ((k, v) :: s) q = if k = q then some v else Seen.find s q := by
  simp [Seen.find]

/-- the result of a walk from a chain is a chain (names only, every proper prefix a directory) -/
theorem walk_chain (fs : FS) : ∀ (f : Nat) (comps : List Str) (cur l : Loc),
    walk fs f cur comps true = some l → (∀ c ∈ comps, '/' ∉ c) → Chain fs cur → Chain fs l := by
  intro f
  induction f using Nat.strongRecOn with
  | _ f ihf =>
    intro comps
    induction comps with
    | nil => intro cur l h _ hc; rw [walk_nil] at h; cases h; exact hc
    | cons c rest ih =>
      intro cur l h hns hc
      obtain ⟨hd, st⟩ := walk_cons_inv fs f cur c rest l h
      have hrd : RealDir fs cur := ⟨hc, hd⟩
      have hns' : ∀ c ∈ rest, '/' ∉ c := fun x hx => hns x (by simp [hx])
      cases st with
      | skip h1 hw => exact ih _ _ hw hns' hc
      | up h2 hw => exact ih _ _ hw hns' hrd.dropLast.1
      | plain n h1 h2 hn hnl hw =>
        have hcl : Clean c := ⟨fun e => h1 (Or.inl e), fun e => h1 (Or.inr e), h2, hns c (by simp)⟩
        exact ih _ _ hw hns' (Chain.snoc hrd hcl)
      | link t f' h1 h2 hn hf hw =>
        subst hf
        have hs : Chain fs (startLoc cur t) := by
          unfold startLoc; split
          · exact (RealDir.root fs).1
          · exact hc
        refine ihf f' (by omega) _ _ _ hw ?_ hs
        intro x hx
        rcases List.mem_append.mp hx with hx | hx
        · exact splitSep_noSep t x hx
        · exact hns' x hx

/-- the kernel walks the pieces of the target string; `_joinrealpath` first strips the leading
separator of an absolute target (posixpath.py:450-452): same walk -/
theorem walk_target_eq (fs : FS) (g : Nat) (cur : Loc) (t : Str) :
    walk fs g (startLoc cur t) (splitSep (if isabs t then t.tail else t)) true =
      walk fs g (startLoc cur t) (splitSep t) true := by
  by_cases ha : isabs t = true
  · cases t with
    | nil => simp [isabs] at ha
    | cons c r =>
      have hc : c = '/' := by simpa [isabs] using ha
      subst hc
      have := splitSep_append_sep [] r
      simp only [List.nil_append] at this
      simp only [ha, if_true, List.tail_cons, this, startLoc]
      simp only [splitSep, List.singleton_append]
      rw [walk_step_skip fs g [] [] _ true fs.get_root (Or.inl rfl)]
  · simp [ha]

def DoneOK (fs : FS) (cwd : Loc) (seen : Seen) : Prop :=
  ∀ np p, Seen.find seen np = some (some p) → ∀ cur name t, Rep cwd np (cur ++ [name]) →
    fs.get (cur ++ [name]) = some (Node.link t) →
    ∀ g l', walk fs g (startLoc cur t) (splitSep t) true = some l' → Rep cwd p l'

def ProgOK (fs : FS) (cwd : Loc) (f : Nat) (seen : Seen) : Prop :=
  ∀ np, Seen.find seen np = some none → ∀ cur name t, Rep cwd np (cur ++ [name]) →
    fs.get (cur ++ [name]) = some (Node.link t) →
    ∀ g l', walk fs g (startLoc cur t) (splitSep t) true = some l' → f ≤ g

theorem snoc_inj {α : Type} {a b : List α} {x y : α} (h : a ++ [x] = b ++ [y]) : a = b ∧ x = y := by
  have h1 := congrArg List.dropLast h
  have h2 := congrArg List.getLast? h
  simp at h1 h2
  exact ⟨h1, h2⟩

/-- **simulation**: when the kernel resolves the components (following links) to `l`,
`_joinrealpath` returns ok with a string naming `l`; cached entries stay right and no false symlink
loop is reported. -/
theorem joinReal_sim (fs : FS) (kf : Nat) (cwd : Loc) (hcwd : RealDir fs cwd) :
    ∀ (f : Nat) (comps : List Str) (cur l : Loc) (pf : Nat) (path : Str) (seen : Seen),
      walk fs f cur comps true = some l → (∀ c ∈ comps, '/' ∉ c) → Chain fs cur → f ≤ pf →
      Rep cwd path cur → DoneOK fs cwd seen → ProgOK fs cwd f seen →
      ∃ path' seen', joinReal fs kf cwd pf path comps seen = (path', true, seen') ∧
        Rep cwd path' l ∧ DoneOK fs cwd seen' ∧
        (∀ k, Seen.find seen' k = some none → Seen.find seen k = some none) := by
  intro f
  induction f using Nat.strongRecOn with
  | _ f ihf =>
    intro comps
    induction comps with
    | nil =>
      intro cur l pf path seen h _ _ _ hr hdone _
      rw [walk_nil] at h; cases h
      exact ⟨path, seen, jr_nil .., hr, hdone, fun k hk => hk⟩
    | cons c rest ih =>
      intro cur l pf path seen h hns hc hpf hr hdone hprog
      obtain ⟨hd, st⟩ := walk_cons_inv fs f cur c rest l h
      have hrd : RealDir fs cur := ⟨hc, hd⟩
      have hns' : ∀ c ∈ rest, '/' ∉ c := fun x hx => hns x (by simp [hx])
      cases st with
      | skip h1 hw =>
        rw [jr_skip _ _ _ _ _ _ _ _ h1]
        exact ih _ _ _ _ _ hw hns' hc hpf hr hdone hprog
      | up h2 hw =>
        subst h2
        rw [jr_up]
        exact ih _ _ _ _ _ hw hns' hrd.dropLast.1 hpf hr.parent hdone hprog
      | plain n h1 h2 hn hnl hw =>
        have hcl : Clean c := ⟨fun e => h1 (Or.inl e), fun e => h1 (Or.inr e), h2, hns c (by simp)⟩
        have hls := lstat_rep fs kf cwd hcwd hr hrd hcl
        rw [jr_plain _ _ _ _ _ _ _ _ h1 h2 (by
          intro t; rw [hls, hn]; intro e; exact hnl t (Option.some.inj e))]
        exact ih _ _ _ _ _ hw hns' (Chain.snoc hrd hcl) hpf (hr.push hcl) hdone hprog
      | link t f' h1 h2 hn hf hw =>
        subst hf
        obtain ⟨l1, k, hk, hw1, hw2⟩ := walk_append_inv fs f' (splitSep t) _ rest l hw
        have hcl : Clean c := ⟨fun e => h1 (Or.inl e), fun e => h1 (Or.inr e), h2, hns c (by simp)⟩
        have hls := lstat_rep fs kf cwd hcwd hr hrd hcl
        rw [hn] at hls
        have hnp : Rep cwd (pjoin path c) (cur ++ [c]) := hr.push hcl
        have hl1 : Chain fs l1 := by
          refine walk_chain fs k _ _ _ hw1 (splitSep_noSep t) ?_
          unfold startLoc; split
          · exact (RealDir.root fs).1
          · exact hc
        -- the links that are left after this one's target cover the remaining components
        have hprogW : ∀ s, ProgOK fs cwd (f' + 1) s → ProgOK fs cwd (f' - k) s := by
          intro s hs np hf cur2 name2 t2 hr2 hg2 g l' hwg
          have := hs np hf cur2 name2 t2 hr2 hg2 g l' hwg
          omega
        -- every description of this link agrees with (cur, c, t)
        have same : ∀ cur2 name2 t2, Rep cwd (pjoin path c) (cur2 ++ [name2]) →
            fs.get (cur2 ++ [name2]) = some (Node.link t2) → cur2 = cur ∧ t2 = t := by
          intro cur2 name2 t2 hr2 hg2
          have e := Rep.functional hr2 hnp
          obtain ⟨e1, e2⟩ := snoc_inj e
          subst e1; subst e2
          rw [hn] at hg2
          exact ⟨rfl, by cases hg2; rfl⟩
        cases hfind : Seen.find seen (pjoin path c) with
        | some v =>
          cases v with
          | some p =>
            rw [jr_link_done _ _ _ _ _ _ _ _ h1 h2 t hls p hfind]
            have hp : Rep cwd p l1 := hdone _ _ hfind cur c t hnp hn k l1 hw1
            exact ihf (f' - k) (by omega) rest l1 l pf p seen hw2 hns' hl1 (by omega) hp hdone (hprogW _ hprog)
          | none =>
            have := hprog _ hfind cur c t hnp hn k l1 hw1
            omega
        | none =>
          obtain ⟨pf', rfl⟩ : ∃ pf', pf = pf' + 1 := ⟨pf - 1, by omega⟩
          obtain ⟨m, hm1, hm2, hm3⟩ := exists_min_fuel
            (fun g => walk fs g (startLoc cur t) (splitSep t) true = some l1) k hw1
          have hstart : Chain fs (startLoc cur t) := by
            unfold startLoc; split
            · exact (RealDir.root fs).1
            · exact hc
          have hpath0 : Rep cwd (if isabs t then ['/'] else path) (startLoc cur t) := by
            unfold startLoc; split
            · exact Rep.root cwd
            · exact hr
          have hdone0 : DoneOK fs cwd ((pjoin path c, none) :: seen) := by
            intro np p hf
            rw [find_cons] at hf
            split at hf
            · simp at hf
            · exact hdone np p hf
          have hprog0 : ProgOK fs cwd m ((pjoin path c, none) :: seen) := by
            intro np hf cur2 name2 t2 hr2 hg2 g l' hwg
            rw [find_cons] at hf
            split at hf
            · rename_i e; subst e
              obtain ⟨e1, e2⟩ := same cur2 name2 t2 hr2 hg2
              subst e1; subst e2
              have := walk_det fs g k _ _ _ _ hwg hw1
              subst this
              exact hm3 g hwg
            · have := hprog np hf cur2 name2 t2 hr2 hg2 g l' hwg
              omega
          have hwm : walk fs m (startLoc cur t) (splitSep (if isabs t then t.tail else t)) true =
              some l1 := by rw [walk_target_eq]; exact hm1
          obtain ⟨p1, s1, hj1, hp1, hdone1, hprog1⟩ :=
            ihf m (by omega) _ _ _ pf' _ _ hwm (splitSep_noSep _) hstart (by omega) hpath0 hdone0 hprog0
          rw [jr_link_fresh _ _ _ _ _ _ _ _ h1 h2 t hls hfind p1 s1 hj1]
          have hdone2 : DoneOK fs cwd ((pjoin path c, some p1) :: s1) := by
            intro np p hf cur2 name2 t2 hr2 hg2 g l' hwg
            rw [find_cons] at hf
            split at hf
            · rename_i e; subst e
              obtain ⟨e1, e2⟩ := same cur2 name2 t2 hr2 hg2
              subst e1; subst e2
              have := walk_det fs g k _ _ _ _ hwg hw1
              subst this
              cases hf
              exact hp1
            · exact hdone1 np p hf cur2 name2 t2 hr2 hg2 g l' hwg
          have hsub : ∀ q, Seen.find ((pjoin path c, some p1) :: s1) q = some none →
              Seen.find seen q = some none := by
            intro q hq
            rw [find_cons] at hq
            split at hq
            · simp at hq
            · rename_i hne
              have := hprog1 q hq
              rw [find_cons] at this
              simpa [hne] using this
          have hprog2 : ProgOK fs cwd (f' + 1) ((pjoin path c, some p1) :: s1) := by
            intro np hf
            exact hprog np (hsub np hf)
          obtain ⟨p2, s2, hj2, hp2, hdone3, hprog3⟩ :=
            ihf (f' - k) (by omega) rest l1 l (pf' + 1) p1 _ hw2 hns' hl1 (by omega) hp1 hdone2 (hprogW _ hprog2)
          exact ⟨p2, s2, hj2, hp2, hdone3, fun q hq => hsub q (hprog3 q hq)⟩

end IrVerif.Path

namespace IrVerif.Path

theorem doneOK_nil (fs : FS) (cwd : Loc) : DoneOK fs cwd [] := by
  intro np p h; simp [Seen.find] at h

theorem progOK_nil (fs : FS) (cwd : Loc) (f : Nat) : ProgOK fs cwd f [] := by
  intro np h; simp [Seen.find] at h

theorem startLoc_chain (fs : FS) (cwd : Loc) (h : RealDir fs cwd) (p : Str) :
    Chain fs (startLoc cwd p) := by
  unfold startLoc; split
  · exact (RealDir.root fs).1
  · exact h.1

/-- **`os.path.realpath` is right on every path the kernel resolves**: if the kernel (following
symbolic links, with any ELOOP bound `f`) resolves `p` to the location `l`, the transcribed
`realpath` returns exactly the rendering "/" + "/".join(l) of that location. -/
theorem realpath_of_kresolve (fs : FS) (kf pf : Nat) (cwd : Loc) (hcwd : RealDir fs cwd) (p : Str)
    (f : Nat) (l : Loc) (h : kresolve fs f cwd p true = some l) (hpf : f ≤ pf) :
    realpath fs kf pf (render cwd) cwd p = render l ∧ Chain fs l := by
  unfold kresolve at h
  split at h
  · exact absurd h (by simp)
  · have hw : walk fs f (startLoc cwd p) (splitSep (if isabs p then p.tail else p)) true = some l := by
      rw [walk_target_eq]; exact h
    have hpath0 : Rep cwd (if isabs p then ['/'] else []) (startLoc cwd p) := by
      unfold startLoc; split
      · exact Rep.root cwd
      · exact Rep.empty cwd
    obtain ⟨p', s', hj, hr, _, _⟩ := joinReal_sim fs kf cwd hcwd f _ _ l pf _ []
      hw (splitSep_noSep _) (startLoc_chain fs cwd hcwd p) hpf hpath0 (doneOK_nil fs cwd)
      (progOK_nil fs cwd f)
    refine ⟨?_, walk_chain fs f _ _ _ h (splitSep_noSep p) (startLoc_chain fs cwd hcwd p)⟩
    unfold realpath
    simp only [hj]
    exact hr.abspath_eq hcwd.1.1

/-- the kernel resolves the rendering of a chain to that chain -/
theorem kresolve_render (fs : FS) (kf : Nat) (cwd : Loc) (l : Loc) (hl : Chain fs l) (n : Node)
    (hn : fs.get l = some n) (hnl : ∀ t, n ≠ Node.link t) :
    kresolve fs kf cwd (render l) true = some l := by
  unfold kresolve
  simp only [render_ne_nil, if_false, startLoc, isabs_render, if_true]
  rcases eq_nil_or_snoc l with rfl | ⟨l', x, rfl⟩
  · have : render [] = ['/'] := by simp [render, joinSep]
    rw [this]
    have : splitSep ['/'] = [[], []] := by decide
    rw [this, walk_step_skip fs kf [] [] _ true fs.get_root (Or.inl rfl),
      walk_step_skip fs kf [] [] _ true fs.get_root (Or.inl rfl), walk_nil]
  · rw [splitSep_render _ hl.1 (by simp), walk_step_skip fs kf [] [] _ true fs.get_root (Or.inl rfl)]
    have hrd : RealDir fs l' := by simpa using hl.realDir_dropLast
    have := walk_real_prefix fs kf l' [] [x] true (by simpa using hrd)
    simp only [List.nil_append] at this
    have hx : Clean x := hl.1 x (by simp)
    rw [this, walk_step_plain fs kf l' x [] true hrd.2 (not_special_of_clean hx).1
      (not_special_of_clean hx).2 n hn hnl, walk_nil]

theorem comps_render (l : Loc) (hl : ∀ c ∈ l, Clean c) : comps (render l) = l := by
  unfold render
  rw [comps_cons_sep, comps_joinSep l hl]

end IrVerif.Path

namespace IrVerif.Path

/-- what a successful walk (following links) from a chain ends at exists and is not a symbolic link -/
theorem walk_node (fs : FS) : ∀ (f : Nat) (comps : List Str) (cur l : Loc),
    walk fs f cur comps true = some l → (∀ c ∈ comps, '/' ∉ c) → Chain fs cur →
    (∃ n, fs.get cur = some n ∧ ∀ t, n ≠ Node.link t) →
    ∃ n, fs.get l = some n ∧ ∀ t, n ≠ Node.link t := by
  intro f
  induction f using Nat.strongRecOn with
  | _ f ihf =>
    intro comps
    induction comps with
    | nil => intro cur l h _ _ hn; rw [walk_nil] at h; cases h; exact hn
    | cons c rest ih =>
      intro cur l h hns hc _
      obtain ⟨hd, st⟩ := walk_cons_inv fs f cur c rest l h
      have hrd : RealDir fs cur := ⟨hc, hd⟩
      have hns' : ∀ c ∈ rest, '/' ∉ c := fun x hx => hns x (by simp [hx])
      cases st with
      | skip h1 hw => exact ih _ _ hw hns' hc ⟨Node.dir, hd, by intro t; simp⟩
      | up h2 hw => exact ih _ _ hw hns' hrd.dropLast.1 ⟨Node.dir, hrd.dropLast.2, by intro t; simp⟩
      | plain n h1 h2 hn hnl hw =>
        have hcl : Clean c := ⟨fun e => h1 (Or.inl e), fun e => h1 (Or.inr e), h2, hns c (by simp)⟩
        exact ih _ _ hw hns' (Chain.snoc hrd hcl) ⟨n, hn, hnl⟩
      | link t f' h1 h2 hn hf hw =>
        subst hf
        have hs : Chain fs (startLoc cur t) ∧ ∃ n, fs.get (startLoc cur t) = some n ∧ ∀ t', n ≠ Node.link t' := by
          unfold startLoc; split
          · exact ⟨(RealDir.root fs).1, Node.dir, fs.get_root, by intro t; simp⟩
          · exact ⟨hc, Node.dir, hd, by intro t; simp⟩
        refine ihf f' (by omega) _ _ _ hw ?_ hs.1 hs.2
        intro x hx
        rcases List.mem_append.mp hx with hx | hx
        · exact splitSep_noSep t x hx
        · exact hns' x hx

/-- `os.path.realpath` is idempotent on what the kernel resolves: the rendering of the location a path
resolves to is a fixed point (for every recursion bound at or above the kernel's) -/
theorem realpath_fixed_of_kresolve (fs : FS) (kf pf : Nat) (cwd : Loc) (hcwd : RealDir fs cwd) (p : Str)
    (l : Loc) (h : kresolve fs kf cwd p true = some l) (hpf : kf ≤ pf) :
    realpath fs kf pf (render cwd) cwd (render l) = render l := by
  have hchain := (realpath_of_kresolve fs kf pf cwd hcwd p kf l h hpf).2
  obtain ⟨n, hn, hnl⟩ : ∃ n, fs.get l = some n ∧ ∀ t, n ≠ Node.link t := by
    unfold kresolve at h
    split at h
    · exact absurd h (by simp)
    · refine walk_node fs kf _ _ l h (splitSep_noSep p) (startLoc_chain fs cwd hcwd p) ?_
      unfold startLoc; split
      · exact ⟨Node.dir, fs.get_root, by intro t; simp⟩
      · exact ⟨Node.dir, hcwd.2, by intro t; simp⟩
  exact (realpath_of_kresolve fs kf pf cwd hcwd (render l) kf l (kresolve_render fs kf cwd l hchain n hn hnl) hpf).1

end IrVerif.Path

/-
The bounds checks of `np.ndarray(...)` and `torch.as_strided` (`Model/Strided.lean`: `spanBounds`,
`Arr.spanOk`, `Arr.npCheck`, `Arr.torchCheck`) imply `Arr.inBounds`, the hypothesis of the strided
agreement theorems of C04: every item address `offset + Σ index_k * stride_k` of every multi-index
lies between the two extreme corners the constructors test.
-/
import IrVerif.Lemmas.Strided
namespace IrVerif.Strided
open IrVerif.Pack IrVerif.TensorRepr

/-- a multi-index of `indices (n :: ns)` is `i :: is` with `i < n` and `is` a multi-index of `ns` -/
theorem mem_indices_cons {n : Nat} {ns : List Nat} {idx : List Nat} (h : idx ∈ indices (n :: ns)) :
    ∃ i is, idx = i :: is ∧ i < n ∧ is ∈ indices ns := by
  simp only [indices, List.mem_flatMap, List.mem_range, List.mem_map] at h
  obtain ⟨i, hi, is, his, rfl⟩ := h
  exact ⟨i, is, rfl, hi, his⟩

/-- one axis: `i * st` lies between the two ends of the axis extent `st * (n - 1)` -/
theorem axis_span (st : Int) (n i : Nat) (hi : i < n) :
    (if st * ((n : Int) - 1) > 0 then (0 : Int) else st * ((n : Int) - 1)) ≤ (i : Int) * st ∧
    (i : Int) * st ≤ (if st * ((n : Int) - 1) > 0 then st * ((n : Int) - 1) else 0) := by
  have hi0 : (0 : Int) ≤ (i : Int) := Int.natCast_nonneg i
  have him : (i : Int) ≤ (n : Int) - 1 := by omega
  have hm0 : (0 : Int) ≤ (n : Int) - 1 := by omega
  rw [Int.mul_comm st]
  by_cases hst : 0 ≤ st
  · have h1 : 0 ≤ (i : Int) * st := Int.mul_nonneg hi0 hst
    have h2 : (i : Int) * st ≤ ((n : Int) - 1) * st := Int.mul_le_mul_of_nonneg_right him hst
    split <;> constructor <;> omega
  · have hst' : st ≤ 0 := by omega
    have h1 : (i : Int) * st ≤ 0 := Int.mul_nonpos_of_nonneg_of_nonpos hi0 hst'
    have h2 : ((n : Int) - 1) * st ≤ (i : Int) * st := Int.mul_le_mul_of_nonpos_right him hst'
    split <;> constructor <;> omega

/-- every item address lies between the extreme corners -/
theorem addr_span (shape : List Nat) : ∀ (strides : List Int) (p : Int) (idx : List Nat),
    strides.length = shape.length → idx ∈ indices shape →
    p + (spanBounds shape strides).1 ≤ addr strides p idx ∧
    addr strides p idx ≤ p + (spanBounds shape strides).2 := by
  induction shape with
  | nil =>
    intro strides p idx hl h
    cases strides with
    | nil => simp [indices] at h; subst h; simp [addr, spanBounds]
    | cons _ _ => simp at hl
  | cons n ns ih =>
    intro strides p idx hl h
    cases strides with
    | nil => simp at hl
    | cons st sts =>
      obtain ⟨i, is, rfl, hi, his⟩ := mem_indices_cons h
      have hl' : sts.length = ns.length := by simpa using hl
      have IH := ih sts (p + (i : Int) * st) is hl' his
      have AX := axis_span st n i hi
      simp only [addr, spanBounds]
      split at AX <;> rename_i hext
      · simp only [hext, ↓reduceIte]
        constructor <;> omega
      · simp only [hext, ↓reduceIte]
        constructor <;> omega

theorem item_length_ok (storage : List Nat) (isz : Nat) (p : Int) (h0 : 0 ≤ p)
    (h1 : p + isz ≤ storage.length) : (item storage isz p).length = isz := by
  unfold item
  have : ¬ p < 0 := by omega
  simp only [this, ↓reduceIte, List.length_take, List.length_drop]
  omega

/-- both extreme corners inside the storage: every item is -/
theorem spanOk_inBounds (a : Arr) (hs : a.strides.length = a.shape.length) (h : a.spanOk = true) :
    a.inBounds = true := by
  unfold Arr.spanOk at h
  simp only [decide_eq_true_eq] at h
  unfold Arr.inBounds
  simp only [hs, beq_self_eq_true, Bool.true_and, List.all_eq_true, beq_iff_eq]
  intro it hit
  rw [items_eq a hs] at hit
  obtain ⟨idx, hidx, rfl⟩ := List.mem_map.mp hit
  have S := addr_span a.shape a.strides a.offset idx hs hidx
  exact item_length_ok _ _ _ (by omega) (by omega)

theorem indices_zero (shape : List Nat) (h : shape.any (· == 0) = true) : indices shape = [] := by
  induction shape with
  | nil => simp at h
  | cons n ns ih =>
    simp only [List.any_cons, Bool.or_eq_true, beq_iff_eq] at h
    rcases h with h | h
    · subst h; simp [indices]
    · simp [indices, ih h]

/-- a zero-size array has no item at all -/
theorem empty_inBounds (a : Arr) (hs : a.strides.length = a.shape.length)
    (h0 : a.shape.any (· == 0) = true) : a.inBounds = true := by
  unfold Arr.inBounds
  simp [hs, items_eq a hs, indices_zero a.shape h0]

/-- without a zero dim and without a negative stride the lowest address is the offset -/
theorem spanBounds_lo (shape : List Nat) : ∀ (strides : List Int),
    shape.any (· == 0) = false → strides.all (0 ≤ ·) = true → (spanBounds shape strides).1 = 0 := by
  induction shape with
  | nil => intro strides _ _; cases strides <;> rfl
  | cons n ns ih =>
    intro strides h0 hst
    cases strides with
    | nil => rfl
    | cons st sts =>
      simp only [List.any_cons, Bool.or_eq_false_iff, beq_eq_false_iff_ne] at h0
      simp only [List.all_cons, Bool.and_eq_true, decide_eq_true_eq] at hst
      have IH := ih sts h0.2 hst.2
      have hn : (0 : Int) ≤ (n : Int) - 1 := by have := h0.1; omega
      have hext : 0 ≤ st * ((n : Int) - 1) := Int.mul_nonneg hst.1 hn
      simp only [spanBounds]
      split
      · exact IH
      · simp only [IH]; omega

/-- numpy's constructor check over a NON-EMPTY buffer implies `inBounds` -/
theorem npCheck_inBounds (a : Arr) (h : a.npCheck = true) (hne : a.storage ≠ []) : a.inBounds = true := by
  unfold Arr.npCheck at h
  simp only [Bool.and_eq_true, beq_iff_eq] at h
  obtain ⟨hs, hc⟩ := h
  have hlen : a.storage.length ≠ 0 := fun h0 => hne (List.eq_nil_of_length_eq_zero h0)
  by_cases hnil : a.shape = []
  · simp only [hnil, ↓reduceIte, decide_eq_true_eq] at hc
    apply spanOk_inBounds a hs
    have hst : a.strides = [] := List.eq_nil_of_length_eq_zero (by rw [hs, hnil]; rfl)
    unfold Arr.spanOk
    simp only [hnil, hst, spanBounds, decide_eq_true_eq]
    omega
  · simp only [hnil, ↓reduceIte, hlen, decide_eq_true_eq] at hc
    by_cases h0 : a.shape.any (· == 0) = true
    · exact empty_inBounds a hs h0
    · simp only [h0, Bool.false_eq_true, ↓reduceIte] at hc
      apply spanOk_inBounds a hs
      unfold Arr.spanOk
      simp only [decide_eq_true_eq]
      omega

/-- torch's `as_strided` check implies `inBounds` -/
theorem torchCheck_inBounds (a : Arr) (h : a.torchCheck = true) : a.inBounds = true := by
  unfold Arr.torchCheck at h
  simp only [Bool.and_eq_true, beq_iff_eq, Bool.or_eq_true, decide_eq_true_eq] at h
  obtain ⟨⟨hs, hst⟩, hc⟩ := h
  rcases hc with h0 | hc
  · exact empty_inBounds a hs h0
  · by_cases h0 : a.shape.any (· == 0) = true
    · exact empty_inBounds a hs h0
    · apply spanOk_inBounds a hs
      unfold Arr.spanOk
      have hlo := spanBounds_lo a.shape a.strides (Bool.eq_false_iff.mpr h0) hst
      simp only [decide_eq_true_eq, hlo]
      omega

end IrVerif.Strided

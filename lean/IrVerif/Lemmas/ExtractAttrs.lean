/-
C18: graph-valued attributes as the code reads them (GRAPH / GRAPHS / reference attributes), and the list of
all graphs nested in a graph.
-/
import IrVerif.Lemmas.Implicit
import IrVerif.Lemmas.ExtractHyp
namespace IrVerif.Extract

theorem procGs_append (W : World) (stack : List GId) : ∀ (a b : List GraphT) (u : Usages),
    procGs W stack u (a ++ b) = procGs W stack (procGs W stack u a) b
  | [], b, u => by simp [procGs]
  | g :: a, b, u => by
    simp only [List.cons_append, procGs]
    exact procGs_append W stack a b _

/-- reading the attribute list branch by branch (`_process_node` 58-79) is processing the flattened list of
    graphs `attrBodies` -/
theorem procAttrs_eq (W : World) (stack : List GId) : ∀ (as : List AttrT) (u : Usages),
    procAttrs W stack u as = procGs W stack u (attrBodies as)
  | [], u => by simp [procAttrs, attrBodies, procGs]
  | .ref :: as, u => by simp only [procAttrs, attrBodies]; exact procAttrs_eq W stack as u
  | .other :: as, u => by simp only [procAttrs, attrBodies]; exact procAttrs_eq W stack as u
  | .graph g :: as, u => by
    simp only [procAttrs, attrBodies, procGs]; exact procAttrs_eq W stack as _
  | .graphs gs :: as, u => by
    simp only [procAttrs, attrBodies]
    rw [procGs_append]
    exact procAttrs_eq W stack as _

/-- extractor 88-102 branch by branch collects the captured values of the flattened list of graphs -/
theorem capturedAttrs_eq (W : World) (p : GId) (ins : List (Option VId)) (outs : List VId) :
    ∀ (as : List AttrT), capturedAttrs W p as = captured W p (.mk ins outs (attrBodies as))
  | [] => by simp [capturedAttrs, attrBodies, captured]
  | .ref :: as => by
    simp only [capturedAttrs, attrBodies]; exact capturedAttrs_eq W p ins outs as
  | .other :: as => by
    simp only [capturedAttrs, attrBodies]; exact capturedAttrs_eq W p ins outs as
  | .graph g :: as => by
    simp only [capturedAttrs, attrBodies, capturedAttrs_eq W p ins outs as]
    simp [captured]
  | .graphs gs :: as => by
    simp only [capturedAttrs, attrBodies, capturedAttrs_eq W p ins outs as]
    simp [captured]

/-! ## all nested graphs -/

theorem self_mem_subsG (g : GraphT) : g ∈ subsG g := by
  cases g with
  | mk gid i w o ns => simp [subsG]

theorem mem_subsGs_of {s c : GraphT} : ∀ {bs : List GraphT}, c ∈ bs → s ∈ subsG c → s ∈ subsGs bs
  | [], h, _ => by cases h
  | b :: bs, h, hs => by
    rw [subsGs, List.mem_append]
    rcases List.mem_cons.mp h with rfl | h
    · exact Or.inl hs
    · exact Or.inr (mem_subsGs_of h hs)

theorem mem_subsNs_of {s : GraphT} {n : NodeT} : ∀ {ns : List NodeT}, n ∈ ns → s ∈ subsN n → s ∈ subsNs ns
  | [], h, _ => by cases h
  | m :: ns, h, hs => by
    rw [subsNs, List.mem_append]
    rcases List.mem_cons.mp h with rfl | h
    · exact Or.inl hs
    · exact Or.inr (mem_subsNs_of h hs)

theorem subsN_eq (n : NodeT) : subsN n = subsGs n.bodies := by
  cases n with
  | mk i o bs => simp [subsN]

theorem subsG_nodes {b s : GraphT} (h : s ∈ subsNs b.nodes) : s ∈ subsG b := by
  cases b with
  | mk gid i w o ns => simp only [subsG, GraphT.nodes_mk] at h ⊢; exact List.mem_cons_of_mem _ h

theorem mem_subsG_of_SubG {b s : GraphT} (h : SubG b s) : s ∈ subsG b := by
  induction h with
  | self => exact self_mem_subsG _
  | @deeper b c s n hn hc _ ih =>
    apply subsG_nodes
    apply mem_subsNs_of hn
    rw [subsN_eq]
    exact mem_subsGs_of hc ih

theorem inj_of_nodup_map {α : Type} (f : α → Nat) : ∀ {l : List α}, (l.map f).Nodup →
    ∀ x y, x ∈ l → y ∈ l → f x = f y → x = y
  | [], _, x, _, hx, _, _ => by cases hx
  | a :: t, h, x, y, hx, hy, e => by
    rw [List.map_cons, List.nodup_cons] at h
    by_cases hxa : x = a
    · by_cases hya : y = a
      · rw [hxa, hya]
      · have hy' : y ∈ t := (List.mem_cons.mp hy).resolve_left hya
        have : f a ∈ t.map f := List.mem_map.mpr ⟨y, hy', by rw [← e, hxa]⟩
        exact absurd this h.1
    · have hx' : x ∈ t := (List.mem_cons.mp hx).resolve_left hxa
      by_cases hya : y = a
      · have : f a ∈ t.map f := List.mem_map.mpr ⟨x, hx', by rw [e, hya]⟩
        exact absurd this h.1
      · have hy' : y ∈ t := (List.mem_cons.mp hy).resolve_left hya
        exact inj_of_nodup_map f h.2 x y hx' hy' e

/-- under `uniqueGidsB`, two graphs nested in the analysed root with the same identity are the same graph -/
theorem uniqueGids_of_B {ns : List NodeT} (h : uniqueGidsB ns = true) {n n' : NodeT} {b b' s s' : GraphT}
    (hn : n ∈ ns) (hb : b ∈ n.bodies) (hs : SubG b s)
    (hn' : n' ∈ ns) (hb' : b' ∈ n'.bodies) (hs' : SubG b' s') (e : s.gid = s'.gid) : s = s' := by
  have hm : s ∈ subsNs ns := mem_subsNs_of hn (by rw [subsN_eq]; exact mem_subsGs_of hb (mem_subsG_of_SubG hs))
  have hm' : s' ∈ subsNs ns :=
    mem_subsNs_of hn' (by rw [subsN_eq]; exact mem_subsGs_of hb' (mem_subsG_of_SubG hs'))
  exact inj_of_nodup_map GraphT.gid (nodup_of_B h) s s' hm hm' e

end IrVerif.Extract

/-
Round trip and fix-point of the decoration layer `IrVerif.Model.ScopeMeta`.
-/
import IrVerif.Model.ScopeMeta
namespace IrVerif.Scope

theorem keysNodupB_iff (l : List String) : keysNodupB l = true ↔ l.Nodup := by
  induction l with
  | nil => simp [keysNodupB]
  | cons a r ih => simp [keysNodupB, ih]

theorem fidsNodupB_iff (l : List FId) : fidsNodupB l = true ↔ l.Nodup := by
  induction l with
  | nil => simp [fidsNodupB]
  | cons a r ih => simp [fidsNodupB, ih]

/-! ### dicts -/

theorem ssSet_keys (d : SS) (k v : String) :
    (ssSet d k v).map (·.1) = if k ∈ d.map (·.1) then d.map (·.1) else d.map (·.1) ++ [k] := by
  induction d with
  | nil => simp [ssSet]
  | cons e r ih =>
    obtain ⟨k', v'⟩ := e
    by_cases h : k' = k
    · subst h
      simp [ssSet]
    · have h' : ¬ k = k' := fun e => h e.symm
      simp only [ssSet, h, if_false, List.map_cons, ih, List.mem_cons, h', false_or]
      split <;> simp

theorem ssSet_fresh (d : SS) (k v : String) (h : k ∉ d.map (·.1)) : ssSet d k v = d ++ [(k, v)] := by
  induction d with
  | nil => rfl
  | cons e r ih =>
    obtain ⟨k', v'⟩ := e
    simp only [List.map_cons, List.mem_cons, not_or] at h
    have hne : ¬ k' = k := fun e => h.1 e.symm
    simp [ssSet, hne, ih h.2]

theorem ssSet_keys_nodup (d : SS) (k v : String) (h : (d.map (·.1)).Nodup) :
    ((ssSet d k v).map (·.1)).Nodup := by
  rw [ssSet_keys]
  split
  · exact h
  · rename_i hk
    rw [List.nodup_append]
    exact ⟨h, by simp, fun a ha b hb e => by simp at hb; subst hb; subst e; exact hk ha⟩

theorem ssFold_keys_nodup : ∀ (l d : SS), (d.map (·.1)).Nodup →
    ((l.foldl (fun d e => ssSet d e.1 e.2) d).map (·.1)).Nodup
  | [], _, h => h
  | e :: l, d, h => ssFold_keys_nodup l _ (ssSet_keys_nodup d e.1 e.2 h)

theorem ssFold_fresh : ∀ (l d : SS), ((d ++ l).map (·.1)).Nodup →
    l.foldl (fun d e => ssSet d e.1 e.2) d = d ++ l
  | [], d, _ => by simp
  | e :: l, d, h => by
    have hk : e.1 ∉ d.map (·.1) := by
      intro hm
      simp only [List.map_append, List.map_cons] at h
      rw [List.nodup_append] at h
      exact h.2.2 _ hm _ (by simp) rfl
    simp only [List.foldl_cons]
    rw [ssSet_fresh d e.1 e.2 hk, ssFold_fresh l (d ++ [(e.1, e.2)]) (by simpa using h)]
    simp

theorem ssOfEntries_nodup (es : SS) : ((ssOfEntries es).map (·.1)).Nodup :=
  ssFold_keys_nodup es [] (by simp)

theorem ssOfEntries_of_nodup (l : SS) (h : (l.map (·.1)).Nodup) : ssOfEntries l = l := by
  simpa [ssOfEntries] using ssFold_fresh l [] (by simpa using h)

/-- reading what was read changes nothing (opset imports: written in dict order) -/
theorem ssOfEntries_idem (es : SS) : ssOfEntries (ssOfEntries es) = ssOfEntries es :=
  ssOfEntries_of_nodup _ (ssOfEntries_nodup es)

theorem ssLe_trans (a b c : String × String) : ssLe a b = true → ssLe b c = true → ssLe a c = true := by
  simp only [ssLe, decide_eq_true_eq]
  exact String.le_trans

theorem ssLe_total (a b : String × String) : (ssLe a b || ssLe b a) = true := by
  simp only [ssLe, Bool.or_eq_true, decide_eq_true_eq]
  exact String.le_total _ _

theorem ssSorted_perm (d : SS) : (ssSorted d).Perm d := List.mergeSort_perm d ssLe

theorem ssSorted_nodup (d : SS) (h : (d.map (·.1)).Nodup) : ((ssSorted d).map (·.1)).Nodup :=
  ((ssSorted_perm d).map (·.1)).nodup_iff.mpr h

theorem ssSorted_idem (d : SS) : ssSorted (ssSorted d) = ssSorted d :=
  List.mergeSort_of_pairwise (List.pairwise_mergeSort ssLe_trans ssLe_total d)

/-- metadata written sorted by key is read back as it was written -/
theorem ss_rt (d : SS) (h : (d.map (·.1)).Nodup) : ssOfEntries (ssSorted d) = ssSorted d :=
  ssOfEntries_of_nodup _ (ssSorted_nodup d h)

theorem ss_fix (d : SS) (h : (d.map (·.1)).Nodup) : ssSorted (ssOfEntries (ssSorted d)) = ssSorted d := by
  rw [ss_rt d h, ssSorted_idem]

theorem optOut_idem (o : Option String) : optOut (optOut o) = optOut o := by
  cases o with
  | none => rfl
  | some s =>
    by_cases h : s = ""
    · simp [optOut, h]
    · simp [optOut, h]

/-! ### device configurations -/

theorem serSpecs_rt : ∀ (sp : List (Option String × String)) (ps : List (String × String)),
    serSpecs sp = .ok ps → ps.map (fun s => (nonEmpty s.1, s.2)) = sp
  | [], ps, h => by
    simp only [serSpecs, Except.ok.injEq] at h
    subst h; rfl
  | (none, _) :: _, ps, h => by simp [serSpecs] at h
  | (some n, t) :: r, ps, h => by
    simp only [serSpecs] at h
    split at h
    · simp at h
    · rename_i hn
      split at h
      · simp at h
      · rename_i r' hr
        simp only [Except.ok.injEq] at h
        subst h
        have ih := serSpecs_rt r r' hr
        simp only [List.map_cons, ih]
        simp [nonEmpty, hn]

theorem serDev_rt (d : DevS) (p : DevP) (h : serDev d = .ok p) : deserDev p = d := by
  obtain ⟨cfg, stage, specs⟩ := d
  simp only [serDev] at h
  split at h
  · simp at h
  · rename_i c
    split at h
    · simp at h
    · rename_i hne
      split at h
      · simp at h
      · rename_i sp hsp
        simp only [Except.ok.injEq] at h
        subst h
        have ih := serSpecs_rt specs sp hsp
        simp only [deserDev, ih]
        simp [nonEmpty, hne]

theorem serDevs_rt : ∀ (ds : List DevS) (ps : List DevP), serDevs ds = .ok ps → ps.map deserDev = ds
  | [], ps, h => by
    simp only [serDevs, Except.ok.injEq] at h
    subst h; rfl
  | d :: r, ps, h => by
    simp only [serDevs] at h
    split at h
    · simp at h
    · rename_i p hp
      split at h
      · simp at h
      · rename_i ps' hr
        simp only [Except.ok.injEq] at h
        subst h
        simp [serDev_rt d p hp, serDevs_rt r ps' hr]

theorem serDevsGated_rt (ver : Int) (ds : List DevS) (ps : List DevP) (h : serDevsGated ver ds = .ok ps) :
    ps.map deserDev = (if ver < 11 then [] else ds) ∧ serDevsGated ver (ps.map deserDev) = .ok ps := by
  simp only [serDevsGated] at h
  split at h
  · rename_i hv
    simp only [Except.ok.injEq] at h
    subst h
    simp [serDevsGated, hv]
  · rename_i hv
    have := serDevs_rt ds ps h
    simp only [hv, if_false, this, serDevsGated]
    exact ⟨trivial, h⟩

/-! ### the trees -/

mutual
theorem rtGraphD (ver : Int) : ∀ (W : GraphDS) (Q : GraphDP), wfGraphDB W = true → serGraphD ver W = .ok Q →
    deserGraphD Q = canonGraphD ver W ∧ serGraphD ver (deserGraphD Q) = .ok Q
  | .mk name doc m ns, Q, hw, h => by
    simp only [serGraphD] at h
    split at h
    · simp at h
    · rename_i ns' hn
      simp only [Except.ok.injEq] at h
      subst h
      simp only [wfGraphDB, Bool.and_eq_true] at hw
      obtain ⟨r1, r2⟩ := rtNodesD ver ns ns' hw.2 hn
      have hk := (keysNodupB_iff _).mp hw.1
      exact ⟨by simp only [deserGraphD, canonGraphD, r1, ss_rt m hk],
        by simp only [deserGraphD, serGraphD, r2, optOut_idem, ss_fix m hk]⟩
theorem rtNodesD (ver : Int) : ∀ (W : List NodeDS) (Q : List NodeDP), wfNodesDB W = true →
    serNodesD ver W = .ok Q → deserNodesD Q = canonNodesD ver W ∧ serNodesD ver (deserNodesD Q) = .ok Q
  | [], Q, _, h => by
    simp only [serNodesD, Except.ok.injEq] at h
    subst h
    exact ⟨rfl, rfl⟩
  | n :: ns, Q, hw, h => by
    simp only [serNodesD] at h
    split at h
    · simp at h
    · rename_i p hp
      split at h
      · simp at h
      · rename_i ps hps
        simp only [Except.ok.injEq] at h
        subst h
        simp only [wfNodesDB, Bool.and_eq_true] at hw
        obtain ⟨a1, a2⟩ := rtNodeD ver n p hw.1 hp
        obtain ⟨b1, b2⟩ := rtNodesD ver ns ps hw.2 hps
        exact ⟨by simp only [deserNodesD, canonNodesD, a1, b1], by simp only [deserNodesD, serNodesD, a2, b2]⟩
theorem rtNodeD (ver : Int) : ∀ (W : NodeDS) (Q : NodeDP), wfNodeDB W = true → serNodeD ver W = .ok Q →
    deserNodeD Q = canonNodeD ver W ∧ serNodeD ver (deserNodeD Q) = .ok Q
  | .mk tok doc m devs subs, Q, hw, h => by
    simp only [serNodeD] at h
    split at h
    · simp at h
    · rename_i gs hg
      split at h
      · simp at h
      · rename_i ds hd
        simp only [Except.ok.injEq] at h
        subst h
        simp only [wfNodeDB, Bool.and_eq_true] at hw
        obtain ⟨a1, a2⟩ := rtGraphsD ver subs gs hw.2 hg
        obtain ⟨b1, b2⟩ := serDevsGated_rt ver devs ds hd
        have hk := (keysNodupB_iff _).mp hw.1
        exact ⟨by simp only [deserNodeD, canonNodeD, a1, b1, ss_rt m hk],
          by simp only [deserNodeD, serNodeD, a2, b2, optOut_idem, ss_fix m hk]⟩
theorem rtGraphsD (ver : Int) : ∀ (W : List GraphDS) (Q : List GraphDP), wfGraphsDB W = true →
    serGraphsD ver W = .ok Q → deserGraphsD Q = canonGraphsD ver W ∧ serGraphsD ver (deserGraphsD Q) = .ok Q
  | [], Q, _, h => by
    simp only [serGraphsD, Except.ok.injEq] at h
    subst h
    exact ⟨rfl, rfl⟩
  | g :: gs, Q, hw, h => by
    simp only [serGraphsD] at h
    split at h
    · simp at h
    · rename_i p hp
      split at h
      · simp at h
      · rename_i ps hps
        simp only [Except.ok.injEq] at h
        subst h
        simp only [wfGraphsDB, Bool.and_eq_true] at hw
        obtain ⟨a1, a2⟩ := rtGraphD ver g p hw.1 hp
        obtain ⟨b1, b2⟩ := rtGraphsD ver gs ps hw.2 hps
        exact ⟨by simp only [deserGraphsD, canonGraphsD, a1, b1], by simp only [deserGraphsD, serGraphsD, a2, b2]⟩
end

/-! what deserialization builds satisfies the representation invariant -/
mutual
theorem wfDeserGraphD : ∀ (X : GraphDP), wfGraphDB (deserGraphD X) = true
  | .mk _ _ m ns => by
    simp only [deserGraphD, wfGraphDB, Bool.and_eq_true]
    exact ⟨(keysNodupB_iff _).mpr (ssOfEntries_nodup m), wfDeserNodesD ns⟩
theorem wfDeserNodesD : ∀ (X : List NodeDP), wfNodesDB (deserNodesD X) = true
  | [] => rfl
  | n :: ns => by
    simp only [deserNodesD, wfNodesDB, Bool.and_eq_true]
    exact ⟨wfDeserNodeD n, wfDeserNodesD ns⟩
theorem wfDeserNodeD : ∀ (X : NodeDP), wfNodeDB (deserNodeD X) = true
  | .mk _ _ m _ subs => by
    simp only [deserNodeD, wfNodeDB, Bool.and_eq_true]
    exact ⟨(keysNodupB_iff _).mpr (ssOfEntries_nodup m), wfDeserGraphsD subs⟩
theorem wfDeserGraphsD : ∀ (X : List GraphDP), wfGraphsDB (deserGraphsD X) = true
  | [] => rfl
  | g :: gs => by
    simp only [deserGraphsD, wfGraphsDB, Bool.and_eq_true]
    exact ⟨wfDeserGraphD g, wfDeserGraphsD gs⟩
end

/-! ### function attributes -/

abbrev AttrE := String × Bool × String

theorem attrSet_keys (d : List AttrE) (a : AttrE) :
    (attrSet d a).map (·.1) = if a.1 ∈ d.map (·.1) then d.map (·.1) else d.map (·.1) ++ [a.1] := by
  induction d with
  | nil => simp [attrSet]
  | cons e r ih =>
    by_cases h : e.1 = a.1
    · simp [attrSet, h]
    · have h' : ¬ a.1 = e.1 := fun e => h e.symm
      simp only [attrSet, h, if_false, List.map_cons, ih, List.mem_cons, h', false_or]
      split <;> simp

theorem attrSet_fresh (d : List AttrE) (a : AttrE) (h : a.1 ∉ d.map (·.1)) : attrSet d a = d ++ [a] := by
  induction d with
  | nil => rfl
  | cons e r ih =>
    simp only [List.map_cons, List.mem_cons, not_or] at h
    have hne : ¬ e.1 = a.1 := fun e => h.1 e.symm
    simp [attrSet, hne, ih h.2]

theorem attrSet_keys_nodup (d : List AttrE) (a : AttrE) (h : (d.map (·.1)).Nodup) :
    ((attrSet d a).map (·.1)).Nodup := by
  rw [attrSet_keys]
  split
  · exact h
  · rename_i hk
    rw [List.nodup_append]
    exact ⟨h, by simp, fun x hx b hb e => by simp at hb; subst hb; subst e; exact hk hx⟩

theorem attrFold_keys_nodup : ∀ (l d : List AttrE), (d.map (·.1)).Nodup → ((l.foldl attrSet d).map (·.1)).Nodup
  | [], _, h => h
  | e :: l, d, h => attrFold_keys_nodup l _ (attrSet_keys_nodup d e h)

theorem attrFold_fresh : ∀ (l d : List AttrE), ((d ++ l).map (·.1)).Nodup → l.foldl attrSet d = d ++ l
  | [], d, _ => by simp
  | e :: l, d, h => by
    have hk : e.1 ∉ d.map (·.1) := by
      intro hm
      simp only [List.map_append, List.map_cons] at h
      rw [List.nodup_append] at h
      exact h.2.2 _ hm _ (by simp) rfl
    simp only [List.foldl_cons]
    rw [attrSet_fresh d e hk, attrFold_fresh l (d ++ [e]) (by simpa using h)]
    simp

theorem attrDict_nodup (l : List AttrE) : ((attrDict l).map (·.1)).Nodup := attrFold_keys_nodup l [] (by simp)

theorem attrDict_of_nodup (l : List AttrE) (h : (l.map (·.1)).Nodup) : attrDict l = l := by
  simpa [attrDict] using attrFold_fresh l [] (by simpa using h)

/-- the attributes after a round trip: the valued ones, then the valueless ones reduced to their name -/
def canonAttrs (l : List AttrE) : List AttrE :=
  l.filter (·.2.1) ++ (l.filter fun a => !a.2.1).map (fun a => (a.1, false, ""))

theorem canonAttrs_keys_perm (l : List AttrE) : ((canonAttrs l).map (·.1)).Perm (l.map (·.1)) := by
  have h := (List.filter_append_perm (fun a : AttrE => a.2.1) l).map (·.1)
  simpa [canonAttrs, List.map_append, List.map_map, Function.comp_def] using h

theorem canonAttrs_filter_valued (l : List AttrE) : (canonAttrs l).filter (·.2.1) = l.filter (·.2.1) := by
  simp [canonAttrs, List.filter_append, List.filter_filter, List.filter_map, Function.comp_def]

theorem canonAttrs_filter_valueless (l : List AttrE) :
    ((canonAttrs l).filter fun a => !a.2.1).map (·.1) = (l.filter fun a => !a.2.1).map (·.1) := by
  have h1 : (l.filter (·.2.1)).filter (fun a => !a.2.1) = [] := by
    rw [List.filter_filter]
    simp
  simp [canonAttrs, List.filter_append, h1, List.filter_map, Function.comp_def, List.map_map]

/-! ### functions -/

theorem rtFuncD (ver : Int) (id : FId) (f : FuncDS) (p : FuncDP) (hw : wfFuncDB f = true)
    (h : serFuncD ver id f = .ok p) :
    p.id = id ∧ deserFuncD p = canonFuncD ver f ∧ serFuncD ver id (deserFuncD p) = .ok p := by
  simp only [serFuncD] at h
  split at h
  · simp at h
  · rename_i ns hn
    simp only [Except.ok.injEq] at h
    subst h
    simp only [wfFuncDB, Bool.and_eq_true] at hw
    obtain ⟨⟨⟨w1, w2⟩, w3⟩, w4⟩ := hw
    have k1 := (keysNodupB_iff _).mp w1
    have k2 := (keysNodupB_iff _).mp w2
    have k3 := (keysNodupB_iff _).mp w3
    obtain ⟨r1, r2⟩ := rtNodesD ver f.nodes ns w4 hn
    have ha : attrDict (f.attrs.filter (·.2.1) ++ ((f.attrs.filter fun a => !a.2.1).map (·.1)).map fun n => (n, false, ""))
        = canonAttrs f.attrs := by
      have e : (f.attrs.filter (·.2.1) ++ ((f.attrs.filter fun a => !a.2.1).map (·.1)).map fun n => (n, false, ""))
          = canonAttrs f.attrs := by simp [canonAttrs, List.map_map, Function.comp_def]
      rw [e]
      exact attrDict_of_nodup _ ((canonAttrs_keys_perm f.attrs).nodup_iff.mpr k3)
    have hd : deserFuncD ⟨id, optOut f.doc, f.opsets, ssSorted f.mprops, f.attrs.filter (·.2.1),
        (f.attrs.filter fun a => !a.2.1).map (·.1), ns⟩ = canonFuncD ver f := by
      simp only [deserFuncD, canonFuncD, ha, r1, ss_rt f.mprops k2, ssOfEntries_of_nodup f.opsets k1, canonAttrs]
    refine ⟨rfl, hd, ?_⟩
    rw [hd]
    have hn' : serNodesD ver (canonNodesD ver f.nodes) = .ok ns := by rw [← r1]; exact r2
    simp only [serFuncD, canonFuncD, hn', optOut_idem, ssSorted_idem]
    have e1 := canonAttrs_filter_valued f.attrs
    have e2 := canonAttrs_filter_valueless f.attrs
    simp only [canonAttrs] at e1 e2
    rw [e1, e2]

theorem fdInsert_fresh (d : List (FId × FuncDS)) (k : FId) (f : FuncDS) (h : k ∉ d.map (·.1)) :
    fdInsert d k f = d ++ [(k, f)] := by
  induction d with
  | nil => rfl
  | cons e r ih =>
    obtain ⟨k', f'⟩ := e
    simp only [List.map_cons, List.mem_cons, not_or] at h
    have hne : ¬ k' = k := fun e => h.1 e.symm
    simp [fdInsert, hne, ih h.2]

theorem fdInsert_keys (d : List (FId × FuncDS)) (k : FId) (f : FuncDS) :
    (fdInsert d k f).map (·.1) = if k ∈ d.map (·.1) then d.map (·.1) else d.map (·.1) ++ [k] := by
  induction d with
  | nil => simp [fdInsert]
  | cons e r ih =>
    obtain ⟨k', f'⟩ := e
    by_cases h : k' = k
    · subst h
      simp [fdInsert]
    · have h' : ¬ k = k' := fun e => h e.symm
      simp only [fdInsert, h, if_false, List.map_cons, ih, List.mem_cons, h', false_or]
      split <;> simp

theorem fdInsert_keys_nodup (d : List (FId × FuncDS)) (k : FId) (f : FuncDS) (h : (d.map (·.1)).Nodup) :
    ((fdInsert d k f).map (·.1)).Nodup := by
  rw [fdInsert_keys]
  split
  · exact h
  · rename_i hk
    rw [List.nodup_append]
    exact ⟨h, by simp, fun a ha b hb e => by simp at hb; subst hb; subst e; exact hk ha⟩

theorem deserFuncsD_keys_nodup : ∀ (fs : List FuncDP) (d : List (FId × FuncDS)), (d.map (·.1)).Nodup →
    ((deserFuncsD d fs).map (·.1)).Nodup
  | [], _, h => h
  | f :: fs, d, h => deserFuncsD_keys_nodup fs _ (fdInsert_keys_nodup d f.id _ h)

theorem fdInsert_wf (d : List (FId × FuncDS)) (k : FId) (f : FuncDS) (hd : ∀ e ∈ d, wfFuncDB e.2 = true)
    (hf : wfFuncDB f = true) : ∀ e ∈ fdInsert d k f, wfFuncDB e.2 = true := by
  induction d with
  | nil => intro e he; simp only [fdInsert, List.mem_singleton] at he; subst he; exact hf
  | cons a r ih =>
    obtain ⟨k', f'⟩ := a
    intro e he
    simp only [fdInsert] at he
    split at he
    · simp only [List.mem_cons] at he
      rcases he with rfl | he
      · exact hf
      · exact hd e (by simp [he])
    · simp only [List.mem_cons] at he
      rcases he with rfl | he
      · exact hd _ (by simp)
      · exact ih (fun e he => hd e (by simp [he])) e he

theorem wfDeserFuncD (f : FuncDP) : wfFuncDB (deserFuncD f) = true := by
  simp only [wfFuncDB, deserFuncD, Bool.and_eq_true]
  exact ⟨⟨⟨(keysNodupB_iff _).mpr (ssOfEntries_nodup _), (keysNodupB_iff _).mpr (ssOfEntries_nodup _)⟩,
    (keysNodupB_iff _).mpr (attrDict_nodup _)⟩, wfDeserNodesD f.nodes⟩

theorem deserFuncsD_wf : ∀ (fs : List FuncDP) (d : List (FId × FuncDS)), (∀ e ∈ d, wfFuncDB e.2 = true) →
    ∀ e ∈ deserFuncsD d fs, wfFuncDB e.2 = true
  | [], _, h => h
  | f :: fs, d, h => deserFuncsD_wf fs _ (fdInsert_wf d f.id _ h (wfDeserFuncD f))

theorem rtFuncsD (ver : Int) : ∀ (fs : List (FId × FuncDS)) (ps : List FuncDP) (d : List (FId × FuncDS)),
    (∀ f ∈ fs, wfFuncDB f.2 = true) → ((d ++ fs).map (·.1)).Nodup → serFuncsD ver fs = .ok ps →
    deserFuncsD d ps = d ++ fs.map (fun f => (f.1, canonFuncD ver f.2)) ∧
    serFuncsD ver (fs.map fun f => (f.1, canonFuncD ver f.2)) = .ok ps
  | [], ps, d, _, _, h => by
    simp only [serFuncsD, Except.ok.injEq] at h
    subst h
    simp [deserFuncsD, serFuncsD]
  | f :: fs, ps, d, hw, hk, h => by
    simp only [serFuncsD] at h
    split at h
    · simp at h
    · rename_i p hp
      split at h
      · simp at h
      · rename_i ps' hps
        simp only [Except.ok.injEq] at h
        subst h
        obtain ⟨i1, i2, i3⟩ := rtFuncD ver f.1 f.2 p (hw f (by simp)) hp
        have hfresh : f.1 ∉ d.map (·.1) := by
          intro hm
          simp only [List.map_append, List.map_cons] at hk
          rw [List.nodup_append] at hk
          exact hk.2.2 _ hm _ (by simp) rfl
        obtain ⟨a1, a2⟩ := rtFuncsD ver fs ps' (d ++ [(f.1, canonFuncD ver f.2)])
          (fun g hg => hw g (by simp [hg])) (by simpa using hk) hps
        refine ⟨?_, ?_⟩
        · simp only [deserFuncsD, i1, i2]
          rw [fdInsert_fresh d f.1 _ hfresh, a1]
          simp
        · simp only [List.map_cons, serFuncsD, a2]
          rw [← i2, i3]

/-! ### the model -/

theorem rtModelD (W : ModelDS) (Q : ModelDP) (hw : wfModelDB W = true) (h : serModelD W = .ok Q) :
    deserModelD Q = canonModelD W ∧ serModelD (deserModelD Q) = .ok Q := by
  simp only [serModelD] at h
  split at h
  · simp at h
  · rename_i g hg
    split at h
    · simp at h
    · rename_i fs hfs
      simp only [Except.ok.injEq] at h
      subst h
      simp only [wfModelDB, Bool.and_eq_true, List.all_eq_true] at hw
      obtain ⟨⟨⟨⟨w1, w2⟩, w3⟩, w4⟩, w5⟩ := hw
      have k1 := (keysNodupB_iff _).mp w1
      have k2 := (keysNodupB_iff _).mp w2
      have k4 := (fidsNodupB_iff _).mp w4
      obtain ⟨g1, g2⟩ := rtGraphD W.ver W.graph g w3 hg
      obtain ⟨f1, f2⟩ := rtFuncsD W.ver W.funcs fs [] w5 (by simpa using k4) hfs
      simp only [List.nil_append] at f1
      have hd : deserModelD ⟨W.ver, W.opt.map optOut, W.opsets, ssSorted W.mprops,
          if W.ver < 11 then [] else W.cfgs, g, fs⟩ = canonModelD W := by
        simp only [deserModelD, canonModelD, g1, f1, ss_rt W.mprops k2, ssOfEntries_of_nodup W.opsets k1]
      refine ⟨hd, ?_⟩
      rw [hd]
      have hg' : serGraphD W.ver (canonGraphD W.ver W.graph) = .ok g := by rw [← g1]; exact g2
      simp only [serModelD, canonModelD, hg', f2, ssSorted_idem, List.map_map]
      have e1 : (optOut ∘ optOut) = optOut := funext fun o => optOut_idem o
      rw [e1]
      split <;> simp_all

theorem wfDeserModelD (X : ModelDP) : wfModelDB (deserModelD X) = true := by
  simp only [wfModelDB, deserModelD, Bool.and_eq_true, List.all_eq_true]
  exact ⟨⟨⟨⟨(keysNodupB_iff _).mpr (ssOfEntries_nodup _), (keysNodupB_iff _).mpr (ssOfEntries_nodup _)⟩,
    wfDeserGraphD X.graph⟩, (fidsNodupB_iff _).mpr (deserFuncsD_keys_nodup X.funcs [] (by simp))⟩,
    deserFuncsD_wf X.funcs [] (by simp)⟩

/-! ### the functions dict of the decorations follows the functions dict of the core -/

/-- the keys of `{f.identifier(): f for f in fs}`, as a function of the identifiers alone -/
def keyFold (d : List FId) : List FId → List FId
  | [] => d
  | k :: ks => keyFold (if k ∈ d then d else d ++ [k]) ks

theorem deserFuncsD_keys : ∀ (fs : List FuncDP) (d : List (FId × FuncDS)),
    (deserFuncsD d fs).map (·.1) = keyFold (d.map (·.1)) (fs.map (·.id))
  | [], _ => rfl
  | f :: fs, d => by
    simp only [deserFuncsD, List.map_cons, keyFold]
    rw [deserFuncsD_keys fs, fdInsert_keys]

theorem fdictInsert_keys' (d : List (FId × GraphT)) (k : FId) (g : GraphT) :
    (fdictInsert d k g).map (·.1) = if k ∈ d.map (·.1) then d.map (·.1) else d.map (·.1) ++ [k] := by
  induction d with
  | nil => simp [fdictInsert]
  | cons e r ih =>
    obtain ⟨k', g'⟩ := e
    by_cases h : k' = k
    · subst h
      simp [fdictInsert]
    · have h' : ¬ k = k' := fun e => h e.symm
      simp only [fdictInsert, h, if_false, List.map_cons, ih, List.mem_cons, h', false_or]
      split <;> simp

theorem deserFuncs_keys : ∀ (fs : List FuncP) (st : Store) (d : List (FId × GraphT)) (st' : Store)
    (d' : List (FId × GraphT)), deserFuncs st d fs = .ok (st', d') →
    d'.map (·.1) = keyFold (d.map (·.1)) (fs.map (·.id))
  | [], _, _, _, _, h => by
    simp only [deserFuncs, Except.ok.injEq, Prod.mk.injEq] at h
    rw [← h.2]; rfl
  | f :: fs, st, d, st', d', h => by
    simp only [deserFuncs] at h
    split at h
    · simp at h
    · rename_i st1 g _
      simp only [List.map_cons, keyFold]
      rw [deserFuncs_keys fs st1 _ st' d' h, fdictInsert_keys']

end IrVerif.Scope

/-
Lemmas about `Model/ScopeEff.lean`: what an effect at one of serde.py's write sites can change, that replaying the
log of the serializer gives the heap `serializeE` returns, and that every logged write is justified by an
initializer (the extended-model version of `serGraph_writes`).
-/
import IrVerif.Model.ScopeEff
import IrVerif.Lemmas.ScopeIdem
namespace IrVerif.Scope

theorem mem_writeSites (e : Effect) (h : e.site ∈ writeSites) : e.kind = .tensor ∧ e.attr = "name" := by
  simp only [writeSites, List.mem_singleton, Effect.site, WriteSite.mk.injEq] at h
  exact h

/-- an effect at a write site of serde.py is a tensor-name write or nothing at all -/
theorem apply_of_site (e : Effect) (w : WorldE) (h : e.site ∈ writeSites) :
    e.apply w = w ∨ ∃ n, e.apply w = { w with st := w.st.setTensorName e.id n } := by
  obtain ⟨hk, ha⟩ := mem_writeSites e h
  obtain ⟨k, i, a, v⟩ := e
  simp only at hk ha
  subst hk; subst ha
  cases v with
  | optName n => exact .inr ⟨n, rfl⟩
  | info _ => exact .inl rfl
  | optNat _ => exact .inl rfl
  | ss _ => exact .inl rfl
  | optSS _ => exact .inl rfl
  | str _ => exact .inl rfl
  | devs _ => exact .inl rfl

/-- the frame of one step -/
structure SameButTensorNames (w w' : WorldE) : Prop where
  root : w'.root = w.root
  ext : w'.ext = w.ext
  vals : w'.st.vals = w.st.vals
  nv : w'.st.nv = w.st.nv
  nt : w'.st.nt = w.st.nt
  nn : w'.st.nn = w.st.nn
  ng : w'.st.ng = w.st.ng
  payload : ∀ t, (w'.st.tens t).data = (w.st.tens t).data ∧ (w'.st.tens t).ty = (w.st.tens t).ty ∧
    (w'.st.tens t).sh = (w.st.tens t).sh

theorem SameButTensorNames.refl (w : WorldE) : SameButTensorNames w w :=
  ⟨rfl, rfl, rfl, rfl, rfl, rfl, rfl, fun _ => ⟨rfl, rfl, rfl⟩⟩

theorem SameButTensorNames.trans {a b c : WorldE} (h1 : SameButTensorNames a b) (h2 : SameButTensorNames b c) :
    SameButTensorNames a c :=
  ⟨h2.root.trans h1.root, h2.ext.trans h1.ext, h2.vals.trans h1.vals, h2.nv.trans h1.nv, h2.nt.trans h1.nt,
    h2.nn.trans h1.nn, h2.ng.trans h1.ng, fun t => by
      obtain ⟨a1, a2, a3⟩ := h1.payload t
      obtain ⟨b1, b2, b3⟩ := h2.payload t
      exact ⟨b1.trans a1, b2.trans a2, b3.trans a3⟩⟩

theorem apply_frame (e : Effect) (w : WorldE) (h : e.site ∈ writeSites) :
    SameButTensorNames w (e.apply w) ∧ ∀ t, t ≠ e.id → (e.apply w).st.tens t = w.st.tens t := by
  rcases apply_of_site e w h with he | ⟨n, he⟩
  · rw [he]; exact ⟨SameButTensorNames.refl w, fun _ _ => rfl⟩
  · rw [he]
    refine ⟨⟨rfl, rfl, rfl, rfl, rfl, rfl, rfl, fun t => ?_⟩, fun t ht => ?_⟩
    · simp only [Store.setTensorName]
      split <;> simp
    · simp only [Store.setTensorName, if_neg ht]

theorem runEffects_frame : ∀ (es : List Effect) (w : WorldE), (∀ e ∈ es, e.site ∈ writeSites) →
    SameButTensorNames w (runEffects es w) ∧
      ∀ t, (∀ e ∈ es, e.id ≠ t) → (runEffects es w).st.tens t = w.st.tens t
  | [], w, _ => ⟨SameButTensorNames.refl w, fun _ _ => rfl⟩
  | e :: es, w, h => by
    obtain ⟨f1, g1⟩ := apply_frame e w (h e (by simp))
    obtain ⟨f2, g2⟩ := runEffects_frame es (e.apply w) (fun x hx => h x (by simp [hx]))
    refine ⟨f1.trans f2, fun t ht => ?_⟩
    show (runEffects es (e.apply w)).st.tens t = w.st.tens t
    rw [g2 t (fun x hx => ht x (by simp [hx])), g1 t (fun he => ht e (by simp) he.symm)]

/-- replaying the log of name writes = `Store.writes` -/
theorem runEffects_nameWrites : ∀ (ws : Writes) (st : Store) (x : Ext) (g : GraphT),
    runEffects (ws.map nameWrite) ⟨st, x, g⟩ = ⟨st.writes ws, x, g⟩
  | [], st, x, g => by
    simp [runEffects, Store.writes, applyWrites]
  | (t, n) :: ws, st, x, g => by
    have h1 : (nameWrite (t, n)).apply ⟨st, x, g⟩ = ⟨st.setTensorName t n, x, g⟩ := rfl
    show runEffects (ws.map nameWrite) ((nameWrite (t, n)).apply ⟨st, x, g⟩) = _
    rw [h1, runEffects_nameWrites ws]
    simp [Store.writes, applyWrites, Store.setTensorName]

/-! ### every logged write is justified (extended serializer) -/

/-- a write `(t, n)` is justified by an initializer value whose tensor is `t` and whose name is `n` -/
def JustifiedW (vals : Nat → ValueS) (is : List (Name × Nat)) (w : Nat × Option Name) : Prop :=
  ∃ kv ∈ is, (vals kv.2).const = some w.1 ∧ (vals kv.2).name = w.2

theorem JustifiedW.mono {vals : Nat → ValueS} {is js : List (Name × Nat)} {w : Nat × Option Name}
    (h : JustifiedW vals is w) (hsub : ∀ x ∈ is, x ∈ js) : JustifiedW vals js w := by
  obtain ⟨kv, hkv, h⟩ := h
  exact ⟨kv, hsub kv hkv, h⟩

theorem serInitsE_writes (vals : Nat → ValueS) (x : Ext) (td : TData) (inames : List (Option Name))
    (is : List (Name × Nat)) :
    ∀ w ∈ (serInitsE vals x td inames is).2.2, JustifiedW vals is w := by
  induction is with
  | nil => simp [serInitsE]
  | cons kv is ih =>
    obtain ⟨k, v⟩ := kv
    intro w hw
    simp only [serInitsE] at hw
    split at hw
    · obtain ⟨kv', hkv, h⟩ := ih w hw
      exact ⟨kv', by simp [hkv], h⟩
    · rename_i t ht
      simp only [List.mem_cons] at hw
      rcases hw with rfl | hw
      · exact ⟨(k, v), by simp, by simp [ht]⟩
      · obtain ⟨kv', hkv, h⟩ := ih w hw
        exact ⟨kv', by simp [hkv], h⟩

mutual
theorem serGraphE_writes (vals : Nat → ValueS) (x : Ext) (td : TData) (ver : Option Int) :
    ∀ (g : GraphT) (p : GraphE) (ws : Writes), serGraphE vals x td ver g = .ok (p, ws) →
      ∀ w ∈ ws, JustifiedW vals (allInitsG g) w
  | .mk id inputs inits nodes outputs, p, ws, h => by
    simp only [serGraphE] at h
    split at h
    · simp at h
    · split at h
      · simp at h
      · split at h
        · simp at h
        · split at h
          · simp at h
          · rename_i nps qNodes vis2 ws2 hn
            split at h
            · simp at h
            · split at h
              · simp at h
              · simp only [Except.ok.injEq, Prod.mk.injEq] at h
                obtain ⟨_, rfl⟩ := h
                intro w hw
                simp only [List.mem_append] at hw
                rcases hw with hw | hw
                · exact (serInitsE_writes vals x td _ inits w hw).mono
                    (fun y hy => by simp only [allInitsG, List.mem_append]; exact .inl hy)
                · exact (serNodesE_writes vals x td ver true outputs nodes _ _ _ _ hn w hw).mono
                    (fun y hy => by simp only [allInitsG, List.mem_append]; exact .inr hy)
theorem serNodesE_writes (vals : Nat → ValueS) (x : Ext) (td : TData) (ver : Option Int) (annot : Bool)
    (gouts : List Nat) :
    ∀ (ns : List NodeT) (nps : List NodeE) (qs : List QuantP) (vis : List VInfoE) (ws : Writes),
      serNodesE vals x td ver annot gouts ns = .ok (nps, qs, vis, ws) → ∀ w ∈ ws, JustifiedW vals (allInitsNs ns) w
  | [], nps, qs, vis, ws, h => by
    simp only [serNodesE, Except.ok.injEq, Prod.mk.injEq] at h
    obtain ⟨_, _, _, rfl⟩ := h
    simp
  | n :: ns, nps, qs, vis, ws, h => by
    simp only [serNodesE] at h
    split at h
    · simp at h
    · rename_i np q vi ws1 h1
      split at h
      · simp at h
      · rename_i nps' qs' vis' ws2 h2
        simp only [Except.ok.injEq, Prod.mk.injEq] at h
        obtain ⟨_, _, _, rfl⟩ := h
        intro w hw
        simp only [List.mem_append] at hw
        rcases hw with hw | hw
        · exact (serNodeE_writes vals x td ver annot gouts n _ _ _ _ h1 w hw).mono
            (fun y hy => by simp only [allInitsNs, List.mem_append]; exact .inl hy)
        · exact (serNodesE_writes vals x td ver annot gouts ns _ _ _ _ h2 w hw).mono
            (fun y hy => by simp only [allInitsNs, List.mem_append]; exact .inr hy)
theorem serNodeE_writes (vals : Nat → ValueS) (x : Ext) (td : TData) (ver : Option Int) (annot : Bool)
    (gouts : List Nat) :
    ∀ (n : NodeT) (np : NodeE) (q : List QuantP) (vi : List VInfoE) (ws : Writes),
      serNodeE vals x td ver annot gouts n = .ok (np, q, vi, ws) → ∀ w ∈ ws, JustifiedW vals (allInitsN n) w
  | .mk id gr inputs outputs subs, np, q, vi, ws, h => by
    simp only [serNodeE] at h
    split at h
    · simp at h
    · split at h
      · simp at h
      · split at h
        · simp at h
        · rename_i gps ws' hs
          split at h
          · simp at h
          · split at h
            · simp at h
            · simp only [Except.ok.injEq, Prod.mk.injEq] at h
              obtain ⟨_, _, _, rfl⟩ := h
              intro w hw
              exact (serSubsE_writes vals x td ver subs _ _ hs w hw).mono (fun y hy => by simpa only [allInitsN] using hy)
theorem serSubsE_writes (vals : Nat → ValueS) (x : Ext) (td : TData) (ver : Option Int) :
    ∀ (gs : List GraphT) (gps : List GraphE) (ws : Writes),
      serSubsE vals x td ver gs = .ok (gps, ws) → ∀ w ∈ ws, JustifiedW vals (allInitsGs gs) w
  | [], gps, ws, h => by
    simp only [serSubsE, Except.ok.injEq, Prod.mk.injEq] at h
    obtain ⟨_, rfl⟩ := h
    simp
  | g :: gs, gps, ws, h => by
    simp only [serSubsE] at h
    split at h
    · simp at h
    · rename_i gp ws1 h1
      split at h
      · simp at h
      · rename_i gps' ws2 h2
        simp only [Except.ok.injEq, Prod.mk.injEq] at h
        obtain ⟨_, rfl⟩ := h
        intro w hw
        simp only [List.mem_append] at hw
        rcases hw with hw | hw
        · exact (serGraphE_writes vals x td ver g _ _ h1 w hw).mono
            (fun y hy => by simp only [allInitsGs, List.mem_append]; exact .inl hy)
        · exact (serSubsE_writes vals x td ver gs _ _ h2 w hw).mono
            (fun y hy => by simp only [allInitsGs, List.mem_append]; exact .inr hy)
end

end IrVerif.Scope

/-
C16: the model printer `pp` (minimal parentheses) produces a sentence of the grammar whose
derivation denotes `norm e`; hence `parseTokens (pp e) = some (norm e)`.
-/
import IrVerif.Lemmas.SymExprParse
namespace IrVerif.SymExpr

def PExpr (ts : List Tok) (e : Expr) : Prop := ∃ d : D .expr, d.flatten = ts ∧ (d.sem : Expr) = e
def PTerm (ts : List Tok) (e : Expr) : Prop := ∃ d : D .term, d.flatten = ts ∧ (d.sem : Expr) = e
def PUnary (ts : List Tok) (e : Expr) : Prop := ∃ d : D .unary, d.flatten = ts ∧ (d.sem : Expr) = e
def PPower (ts : List Tok) (e : Expr) : Prop := ∃ d : D .power, d.flatten = ts ∧ (d.sem : Expr) = e
def PPrim (ts : List Tok) (e : Expr) : Prop := ∃ d : D .primary, d.flatten = ts ∧ (d.sem : Expr) = e

/-- `ts` derives from the nonterminal of binding level `k` and denotes `e` -/
def P : Nat → List Tok → Expr → Prop
  | 0 => PExpr
  | 1 => PTerm
  | 2 => PUnary
  | 3 => PPower
  | _ => PPrim

theorem PPrim.toPower {ts e} : PPrim ts e → PPower ts e
  | ⟨d, h1, h2⟩ => ⟨.prim d, by simp [D.flatten, h1], by simp only [D.sem, h2]⟩
theorem PPower.toUnary {ts e} : PPower ts e → PUnary ts e
  | ⟨d, h1, h2⟩ => ⟨.upow d, by simp [D.flatten, h1], by simp only [D.sem, h2]⟩
theorem PUnary.toTerm {ts e} : PUnary ts e → PTerm ts e
  | ⟨d, h1, h2⟩ => ⟨.term d .ttNil, by simp [D.flatten, h1], by simp only [D.sem, h2]⟩
theorem PTerm.toExpr {ts e} : PTerm ts e → PExpr ts e
  | ⟨d, h1, h2⟩ => ⟨.expr d .etNil, by simp [D.flatten, h1], by simp only [D.sem, h2]⟩
theorem PExpr.paren {ts e} : PExpr ts e → PPrim (paren ts) e
  | ⟨d, h1, h2⟩ => ⟨.paren d, by simp [D.flatten, h1, SymExpr.paren], by simp only [D.sem, h2]⟩

theorem P.down {k j : Nat} {ts e} (h : P k ts e) (hjk : j ≤ k) : P j ts e := by
  have h4 : ∀ {k}, 4 ≤ k → P k ts e → PPrim ts e := by
    intro k hk h
    match k, hk with
    | k + 4, _ => exact h
  have toPrim : 4 ≤ k → PPrim ts e := fun hk => h4 hk h
  match j, k, hjk, h with
  | 0, 0, _, h => exact h
  | 0, 1, _, h => exact PTerm.toExpr h
  | 0, 2, _, h => exact (PUnary.toTerm h).toExpr
  | 0, 3, _, h => exact ((PPower.toUnary h).toTerm).toExpr
  | 0, k + 4, _, h => exact (((PPrim.toPower h).toUnary).toTerm).toExpr
  | 1, 1, _, h => exact h
  | 1, 2, _, h => exact PUnary.toTerm h
  | 1, 3, _, h => exact (PPower.toUnary h).toTerm
  | 1, k + 4, _, h => exact ((PPrim.toPower h).toUnary).toTerm
  | 2, 2, _, h => exact h
  | 2, 3, _, h => exact PPower.toUnary h
  | 2, k + 4, _, h => exact (PPrim.toPower h).toUnary
  | 3, 3, _, h => exact h
  | 3, k + 4, _, h => exact PPrim.toPower h
  | j + 4, k + 4, _, h => exact h

/-- `wrap`: parenthesise when the operand binds looser than the position requires -/
theorem P.wrap {a : Expr} {ts : List Tok} {e : Expr} (k : Nat) (h : P (level a) ts e) :
    P k (wrap k a ts) e := by
  unfold SymExpr.wrap
  by_cases hk : k ≤ level a
  · simp only [hk, if_true]
    exact h.down hk
  · simp only [hk, if_false]
    have h0 : PExpr ts e := P.down (j := 0) h (Nat.zero_le _)
    have h4 : P (k + 4) (paren ts) e := h0.paren
    exact P.down h4 (by omega)


/-! ### appending one more operand to an iteration (left-associativity) -/

def etSnoc : D .exprTail → AddOp → D .term → D .exprTail
  | .etNil, o, t => .etCons o t .etNil
  | .etCons o' t' tl, o, t => .etCons o' t' (etSnoc tl o t)

theorem etSnoc_flatten : (tl : D .exprTail) → (o : AddOp) → (t : D .term) →
    (etSnoc tl o t).flatten = tl.flatten ++ o.tok :: t.flatten
  | .etNil, o, t => by simp [etSnoc, D.flatten]
  | .etCons o' t' tl, o, t => by simp [etSnoc, D.flatten, etSnoc_flatten tl o t]

theorem etSnoc_sem : (tl : D .exprTail) → (o : AddOp) → (t : D .term) → (acc : Expr) →
    ((etSnoc tl o t).sem : Expr → Expr) acc = .bin o.bin ((tl.sem : Expr → Expr) acc) (t.sem : Expr)
  | .etNil, o, t, acc => by simp [etSnoc, D.sem]
  | .etCons o' t' tl, o, t, acc => by simp [etSnoc, D.sem, etSnoc_sem tl o t]

def ttSnoc : D .termTail → MulOp → D .unary → D .termTail
  | .ttNil, o, u => .ttCons o u .ttNil
  | .ttCons o' u' tl, o, u => .ttCons o' u' (ttSnoc tl o u)

theorem ttSnoc_flatten : (tl : D .termTail) → (o : MulOp) → (u : D .unary) →
    (ttSnoc tl o u).flatten = tl.flatten ++ o.tok :: u.flatten
  | .ttNil, o, u => by simp [ttSnoc, D.flatten]
  | .ttCons o' u' tl, o, u => by simp [ttSnoc, D.flatten, ttSnoc_flatten tl o u]

theorem ttSnoc_sem : (tl : D .termTail) → (o : MulOp) → (u : D .unary) → (acc : Expr) →
    ((ttSnoc tl o u).sem : Expr → Expr) acc = .bin o.bin ((tl.sem : Expr → Expr) acc) (u.sem : Expr)
  | .ttNil, o, u, acc => by simp [ttSnoc, D.sem]
  | .ttCons o' u' tl, o, u, acc => by simp [ttSnoc, D.sem, ttSnoc_sem tl o u]

theorem PExpr.addOp {l r a b} (o : AddOp) : PExpr l a → PTerm r b →
    PExpr (l ++ o.tok :: r) (.bin o.bin a b)
  | ⟨.expr t tl, h1, h2⟩, ⟨dr, h3, h4⟩ =>
    ⟨.expr t (etSnoc tl o dr), by
      simp only [D.flatten] at h1
      simp [D.flatten, etSnoc_flatten, ← h1, h3], by
      simp only [D.sem] at h2
      simp only [D.sem, etSnoc_sem, h2, h4]⟩

theorem PTerm.mulOp {l r a b} (o : MulOp) : PTerm l a → PUnary r b →
    PTerm (l ++ o.tok :: r) (.bin o.bin a b)
  | ⟨.term u tl, h1, h2⟩, ⟨dr, h3, h4⟩ =>
    ⟨.term u (ttSnoc tl o dr), by
      simp only [D.flatten] at h1
      simp [D.flatten, ttSnoc_flatten, ← h1, h3], by
      simp only [D.sem] at h2
      simp only [D.sem, ttSnoc_sem, h2, h4]⟩

theorem PUnary.neg {ts a} : PUnary ts a → PUnary (.op .minus :: ts) (.un .neg a)
  | ⟨d, h1, h2⟩ => ⟨.neg d, by simp [D.flatten, h1], by simp only [D.sem, h2]⟩

theorem PPrim.pow {l r a b} : PPrim l a → PUnary r b → PPower (l ++ .op .dstar :: r) (.bin .pow a b)
  | ⟨dl, h1, h2⟩, ⟨dr, h3, h4⟩ => ⟨.pow dl dr, by simp [D.flatten, h1, h3], by simp only [D.sem, h2, h4]⟩

theorem PExpr.call1 {ts a} (f : Fn1) : PExpr ts a → PPrim (call f.name ts) (.un f.un a)
  | ⟨d, h1, h2⟩ => ⟨.call1 f d, by simp [D.flatten, h1, call], by simp only [D.sem, h2]⟩

theorem PExpr.callN2 {l r a b} (f : FnN) : PExpr l a → PExpr r b →
    PPrim (call f.name (l ++ .comma :: r)) (.bin f.bin a b)
  | ⟨dl, h1, h2⟩, ⟨dr, h3, h4⟩ =>
    ⟨.callN f (.argsCons dl (.atCons dr .atNil)), by simp [D.flatten, h1, h3, call], by
      simp [D.sem, FnN.apply, h2, h4]⟩

theorem PPrim.callN0 (f : FnN) : PPrim (call f.name []) (.inf f.emptyNeg) :=
  ⟨.callN f .argsNil, by simp [D.flatten, call], by simp [D.sem, FnN.apply]⟩

/-- the printer's output derives from the nonterminal of the expression's level and denotes
    the normalised expression -/
theorem pp_derives (e : Expr) : P (level e) (pp e) (norm e) := by
  induction e with
  | num n =>
    by_cases hn : n < 0
    · simp only [level, pp, norm, hn, if_true]
      exact PUnary.neg ((PPrim.toPower ⟨.num n.natAbs, rfl, rfl⟩).toUnary)
    · simp only [level, pp, norm, hn, if_false]
      have : ((n.natAbs : Nat) : Int) = n := Int.natAbs_of_nonneg (by omega)
      exact ⟨.num n.natAbs, rfl, by simp [D.sem, this]⟩
  | sym s => exact ⟨.ident s, rfl, rfl⟩
  | inf b =>
    cases b
    · exact PPrim.callN0 .min
    · exact PPrim.callN0 .max
  | un o a ih =>
    have ih0 : PExpr (pp a) (norm a) := P.down (j := 0) ih (Nat.zero_le _)
    cases o with
    | neg => exact PUnary.neg (P.wrap 2 ih)
    | floor => exact PExpr.call1 .floor ih0
    | ceil => exact PExpr.call1 .ceiling ih0
    | abs => exact PExpr.call1 .abs ih0
    | sign => exact PExpr.call1 .sign ih0
    | sqrt => exact PExpr.call1 .sqrt ih0
    | trunc =>
      have hs : PTerm (call "sign" (pp a)) (.un .sign (norm a)) :=
        (((PExpr.call1 .sign ih0).toPower).toUnary).toTerm
      have ha : PExpr (call "Abs" (pp a)) (.un .abs (norm a)) :=
        (((((PExpr.call1 .abs ih0).toPower).toUnary).toTerm)).toExpr
      have hf : PUnary (call "floor" (call "Abs" (pp a))) (.un .floor (.un .abs (norm a))) :=
        ((PExpr.call1 .floor ha).toPower).toUnary
      exact PTerm.mulOp .star hs hf
  | bin o a b iha ihb =>
    have iha0 : PExpr (pp a) (norm a) := P.down (j := 0) iha (Nat.zero_le _)
    have ihb0 : PExpr (pp b) (norm b) := P.down (j := 0) ihb (Nat.zero_le _)
    cases o with
    | add => exact PExpr.addOp .plus (P.wrap 0 iha) (P.wrap 1 ihb)
    | sub => exact PExpr.addOp .minus (P.wrap 0 iha) (P.wrap 1 ihb)
    | mul => exact PTerm.mulOp .star (P.wrap 1 iha) (P.wrap 2 ihb)
    | div => exact PTerm.mulOp .slash (P.wrap 1 iha) (P.wrap 2 ihb)
    | fdiv => exact PTerm.mulOp .dslash (P.wrap 1 iha) (P.wrap 2 ihb)
    | mod => exact PTerm.mulOp .percent (P.wrap 1 iha) (P.wrap 2 ihb)
    | pow => exact PPrim.pow (P.wrap 4 iha) (P.wrap 2 ihb)
    | max => exact PExpr.callN2 .max iha0 ihb0
    | min => exact PExpr.callN2 .min iha0 ihb0

theorem parseTokens_pp (e : Expr) : parseTokens (pp e) = some (norm e) := by
  obtain ⟨d, h1, h2⟩ : PExpr (pp e) (norm e) := P.down (j := 0) (pp_derives e) (Nat.zero_le _)
  rw [← h1, ← h2]
  exact parseTokens_complete d

end IrVerif.SymExpr

/-
Kernel, stage 1: output / producer primitives and object allocation preserve the invariant.
-/
import IrVerif.Lemmas.KernelUse
namespace IrVerif.Kernel

/-! ### attachOutput -/

theorem attachOutput_I_use (w : World) (n v : Nat) (h : I_use w) : I_use (attachOutput w n v) := by
  apply I_use_congr _ _ h <;> unfold attachOutput <;> frame_tac

theorem attachOutput_I_prod (w : World) (n v : Nat) (h : I_prod w) : I_prod (attachOutput w n v) := by
  obtain ⟨h1, h2⟩ := h
  unfold attachOutput
  simp only []
  split
  · rename_i hg
    obtain ⟨hp, -, -⟩ := hg
    have hnot : ∀ (m i : Nat), (w.node m).outputs[i]? ≠ some v := by
      intro m i hc
      have := (h1 m i v).1 hc
      simp [hp] at this
    unfold I_prod
    simp
    constructor
    · intro m i u
      by_cases hm : m = n <;> by_cases hu : u = v <;> simp [hm, hu, List.getElem?_append]
      · have := hnot n i
        grind
      · rw [← h1]
        have : ∀ j, (w.node n).outputs.length ≤ j → (w.node n).outputs[j]? ≠ some u := by
          intro j hj; simp [List.getElem?_eq_none hj]
        grind
      · have := hnot m i
        grind
      · exact h1 m i u
    · intro u m
      by_cases hu : u = v <;> simp [hu]
      · intro _; exact ⟨_, rfl⟩
      · exact h2 u m
  · exact ⟨h1, h2⟩

theorem attachOutput_I_root (w : World) (n v : Nat) (h : I_root w) : I_root (attachOutput w n v) := by
  unfold attachOutput
  simp only []
  split
  · rename_i hg
    unfold I_root at *
    intro u
    simp
    split
    · subst_vars; simp [hg]
    · exact h u
  · exact h

/-! ### allocation -/

theorem fresh_val_unused (w : World) (h : I_use w) (v : Nat) (hv : w.vals.length ≤ v) :
    ∀ (n i : Nat), (w.node n).inputs[i]? ≠ some (some v) := by
  intro n i hc
  have := (h.1 v n i).2 hc
  simp [w.val_fresh v hv] at this

theorem fresh_val_not_output (w : World) (h : I_prod w) (v : Nat) (hv : w.vals.length ≤ v) :
    ∀ (n i : Nat), (w.node n).outputs[i]? ≠ some v := by
  intro n i hc
  have := (h.1 n i v).1 hc
  simp [w.val_fresh v hv] at this

/-- a fresh id may be given any record that has no uses, no producer and no ownership flags -/
theorem allocVal_I_use (w : World) (x : ValueS) (hx : x.uses = []) (h : I_use w) :
    I_use (allocVal w x).1 := by
  have hf := fresh_val_unused w h w.vals.length (Nat.le_refl _)
  obtain ⟨h1, h2⟩ := h
  unfold allocVal I_use
  simp
  constructor
  · intro v n i
    split
    · subst_vars; simp [hx]; exact hf n i
    · exact h1 v n i
  · intro v; split
    · simp [hx]
    · exact h2 v

theorem allocVal_I_prod (w : World) (x : ValueS) (hx : x.producer = none) (h : I_prod w) :
    I_prod (allocVal w x).1 := by
  have hf := fresh_val_not_output w h w.vals.length (Nat.le_refl _)
  obtain ⟨h1, h2⟩ := h
  unfold allocVal I_prod
  simp
  constructor
  · intro n i v
    split
    · subst_vars; simp [hx]; exact hf n i
    · exact h1 n i v
  · intro v n; split
    · simp [hx]
    · exact h2 v n

theorem allocVal_I_root (w : World) (x : ValueS) (hx : x.producer = none) (h : I_root w) :
    I_root (allocVal w x).1 := by
  unfold allocVal I_root at *
  simp
  intro v; split
  · simp [hx]
  · exact h v

theorem addOutput_I_use (w : World) (n : Nat) (h : I_use w) : I_use (addOutput w n) :=
  attachOutput_I_use _ _ _ (allocVal_I_use w {} rfl h)
theorem addOutput_I_prod (w : World) (n : Nat) (h : I_prod w) : I_prod (addOutput w n) :=
  attachOutput_I_prod _ _ _ (allocVal_I_prod w {} rfl h)
theorem addOutput_I_root (w : World) (n : Nat) (h : I_root w) : I_root (addOutput w n) :=
  attachOutput_I_root _ _ _ (allocVal_I_root w {} rfl h)

/-! ### detachLast -/

theorem detachLast_I_use (w : World) (n : Nat) (h : I_use w) : I_use (detachLast w n) := by
  apply I_use_congr _ _ h <;> unfold detachLast <;> frame_tac

theorem detachLast_I_root (w : World) (n : Nat) (h : I_root w) : I_root (detachLast w n) := by
  unfold detachLast
  split
  · exact h
  · split
    · unfold I_root at *
      intro u; simp
      split
      · simp
      · exact h u
    · exact h

theorem detachLast_I_prod (w : World) (n : Nat) (h : I_prod w) : I_prod (detachLast w n) := by
  obtain ⟨h1, h2⟩ := h
  unfold detachLast
  split
  · exact ⟨h1, h2⟩
  · rename_i v hlast
    split
    · have hlen : 0 < (w.node n).outputs.length := by
        cases hl : (w.node n).outputs <;> simp_all
      have hv : (w.node n).outputs[(w.node n).outputs.length - 1]? = some v := by
        rw [List.getLast?_eq_getElem?] at hlast; exact hlast
      have hvp := (h1 n _ v).1 hv
      unfold I_prod
      simp
      constructor
      · intro m i u
        by_cases hm : m = n <;> by_cases hu : u = v <;> simp [hm, hu, List.getElem?_dropLast]
        · intro hi hc
          have := (h1 n i v).1 hc
          grind
        · rw [← h1]
          simp only [and_iff_right_iff_imp]
          intro hc
          by_cases hi : i < (w.node n).outputs.length - 1
          · exact hi
          · have hi2 : i < (w.node n).outputs.length := by
              have := List.getElem?_eq_some_iff.1 hc; grind
            have : i = (w.node n).outputs.length - 1 := by omega
            subst this; simp_all
        · intro hc
          have := (h1 m i v).1 hc
          grind
        · exact h1 m i u
      · intro u m
        by_cases hu : u = v <;> simp [hu]
        exact h2 u m
    · exact ⟨h1, h2⟩

/-! ### a new node with empty slots -/

theorem allocNode_I_use (w : World) (k : Nat) (name : Option String) (opType : String) (h : I_use w) :
    I_use (w.setNode w.nodes.length
      { inputs := List.replicate k none, name := name, opType := opType }) := by
  have hfresh := w.node_fresh w.nodes.length (Nat.le_refl _)
  obtain ⟨h1, h2⟩ := h
  unfold I_use
  simp
  refine ⟨?_, h2⟩
  intro v m i
  rw [h1]
  split
  · subst_vars; simp [hfresh, List.getElem?_replicate]
  · rfl

theorem allocNode_I_prod (w : World) (k : Nat) (name : Option String) (opType : String) (h : I_prod w) :
    I_prod (w.setNode w.nodes.length
      { inputs := List.replicate k none, name := name, opType := opType }) := by
  have hfresh := w.node_fresh w.nodes.length (Nat.le_refl _)
  apply I_prod_congr _ _ h
  · intro v; simp
  · intro m; simp; split
    · subst_vars; simp [hfresh]
    · rfl

end IrVerif.Kernel

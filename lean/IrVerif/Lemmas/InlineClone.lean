/-
Lemmas/InlineClone.lean — the Cloner as used by the inliner: evaluating the cloned body of a function
in the caller's environment simulates evaluating the body in the function's own environment
(`SimT`: the function's environment is the caller's environment read through the value map).
-/
import IrVerif.Lemmas.InlineSem
namespace IrVerif.Inline
open IrVerif.Sem IrVerif.Passes
variable {Val : Type}

/-! ## association lists, fresh ids -/

theorem lookup_zip_not_mem {β : Type} : ∀ (vs : List VId) (ws : List β) (v : VId), v ∉ vs →
    (vs.zip ws).lookup v = none
  | [], _, _, _ => by simp
  | a :: vs, [], v, _ => by simp
  | a :: vs, b :: ws, v, h => by
    simp only [List.mem_cons, not_or] at h
    have : (v == a) = false := by simpa using h.1
    simp only [List.zip_cons_cons, List.lookup_cons, this]
    exact lookup_zip_not_mem vs ws v h.2

theorem lookup_zip_mem {β : Type} : ∀ (vs : List VId) (ws : List β) (v : VId), v ∈ vs → vs.length ≤ ws.length →
    (vs.zip ws).lookup v = ws[vs.idxOf v]?
  | [], _, _, h, _ => by simp at h
  | a :: vs, [], v, _, hl => by simp at hl
  | a :: vs, b :: ws, v, h, hl => by
    simp only [List.zip_cons_cons, List.lookup_cons, List.idxOf_cons]
    by_cases hva : v = a
    · subst hva; simp
    · have h1 : (v == a) = false := by simpa using hva
      have h2 : (a == v) = false := by simpa using (fun h' : a = v => hva h'.symm)
      simp only [h1, h2, cond_false, List.getElem?_cons_succ]
      refine lookup_zip_mem vs ws v ?_ (by simpa using hl)
      rcases List.mem_cons.1 h with h | h
      · exact absurd h hva
      · exact h

theorem mem_freshIds {next n w : Nat} : w ∈ freshIds next n ↔ next ≤ w ∧ w < next + n := by
  simp [freshIds, List.mem_range'_1]

@[simp] theorem length_freshIds (next n : Nat) : (freshIds next n).length = n := by simp [freshIds]

theorem idxOf_freshIds : ∀ (n next i : Nat), i < n → (freshIds next n).idxOf (next + i) = i
  | 0, _, _, h => by omega
  | n + 1, next, i, h => by
    simp only [freshIds, List.range'_succ, List.idxOf_cons]
    cases i with
    | zero => simp
    | succ j =>
      have : (next == next + (j + 1)) = false := by simp
      simp only [this, cond_false]
      have := idxOf_freshIds n (next + 1) j (by omega)
      simp only [freshIds] at this
      rw [show next + (j + 1) = next + 1 + j by omega, this]

theorem getElem?_freshIds {next n i : Nat} (h : i < n) : (freshIds next n)[i]? = some (next + i) := by
  simp [freshIds, h]

theorem bind_fresh (ρ : Env Val) (next n : Nat) (rs : List (Option Val)) {i : Nat} (h : i < n) :
    ρ.bind (freshIds next n) rs (next + i) = (rs[i]?).join := by
  rw [Env.bind_of_mem _ _ (mem_freshIds.2 ⟨by omega, by omega⟩), idxOf_freshIds n next i h]

theorem mapV_fresh_mem {vs : List VId} {v : VId} (hv : v ∈ vs) (next : Nat) (vm : VMap) :
    mapV (vs.zip ((freshIds next vs.length).map some) ++ vm) v = some (next + vs.idxOf v) := by
  have hi : vs.idxOf v < vs.length := List.idxOf_lt_length_of_mem hv
  simp only [mapV, List.lookup_append]
  rw [lookup_zip_mem vs _ v hv (by simp)]
  simp [getElem?_freshIds hi]

theorem mapV_fresh_not_mem {vs : List VId} {v : VId} (hv : v ∉ vs) (next : Nat) (vm : VMap) :
    mapV (vs.zip ((freshIds next vs.length).map some) ++ vm) v = mapV vm v := by
  simp only [mapV, List.lookup_append]
  rw [lookup_zip_not_mem vs _ v hv]
  simp

/-! ## the simulation relation -/

/-- the function's environment is the caller's environment read through the value map -/
def SimT (vm : VMap) (ρf ρ : Env Val) : Prop := ∀ v, ρf v = (mapV vm v).bind ρ

/-- every value the map points to is below `n` -/
def VLt (vm : VMap) (n : Nat) : Prop := ∀ v w, mapV vm v = some w → w < n

/-- every value the map points to satisfies `Q` or is at least `lo` -/
def VFrom (Q : VId → Prop) (lo : Nat) (vm : VMap) : Prop := ∀ v w, mapV vm v = some w → Q w ∨ lo ≤ w

theorem VFrom.fresh {Q : VId → Prop} {lo : Nat} {vm : VMap} (h : VFrom Q lo vm) (vs : List VId) {n1 : Nat}
    (hn : lo ≤ n1) : VFrom Q lo (vs.zip ((freshIds n1 vs.length).map some) ++ vm) := by
  intro v w hw
  by_cases hv : v ∈ vs
  · rw [mapV_fresh_mem hv] at hw
    simp only [Option.some.injEq] at hw
    rw [← hw]
    exact Or.inr (Nat.le_trans hn (Nat.le_add_right _ _))
  · rw [mapV_fresh_not_mem hv] at hw
    exact h v w hw

theorem SimT.bind {vm : VMap} {ρf ρ : Env Val} (h : SimT vm ρf ρ) (vs : List VId) (next : Nat)
    (rs : List (Option Val)) (hfresh : ∀ v w, mapV vm v = some w → w ∉ freshIds next vs.length) :
    SimT (vs.zip ((freshIds next vs.length).map some) ++ vm) (ρf.bind vs rs)
      (ρ.bind (freshIds next vs.length) rs) := by
  intro v
  by_cases hv : v ∈ vs
  · rw [mapV_fresh_mem hv, Env.bind_of_mem _ _ hv]
    simp only [Option.bind]
    rw [bind_fresh _ _ _ _ (List.idxOf_lt_length_of_mem hv)]
  · rw [mapV_fresh_not_mem hv, Env.bind_of_not_mem _ _ hv, h v]
    cases hm : mapV vm v with
    | none => rfl
    | some w =>
      simp only [Option.bind]
      exact (Env.bind_of_not_mem _ _ (hfresh v w hm)).symm

theorem VLt.fresh {vm : VMap} {n0 : Nat} (h : VLt vm n0) (vs : List VId) {n1 : Nat} (hn : n0 ≤ n1) :
    VLt (vs.zip ((freshIds n1 vs.length).map some) ++ vm) (n1 + vs.length) := by
  intro v w hw
  by_cases hv : v ∈ vs
  · rw [mapV_fresh_mem hv] at hw
    have h1 := List.idxOf_lt_length_of_mem hv
    simp only [Option.some.injEq] at hw
    rw [← hw]
    exact Nat.add_lt_add_left h1 _
  · rw [mapV_fresh_not_mem hv] at hw
    have h1 : w < n0 := h v w hw
    exact Nat.lt_of_lt_of_le h1 (Nat.le_trans hn (Nat.le_add_right _ _))

theorem SimT.args {vm : VMap} {ρf ρ : Env Val} (h : SimT vm ρf ρ) (ins : List (Option VId)) :
    evalArgs ρ (ins.map (fun o => o.bind (mapV vm))) = evalArgs ρf ins := by
  unfold evalArgs
  rw [List.map_map]
  apply List.map_congr_left
  intro o _
  cases o with
  | none => rfl
  | some v => simp only [Function.comp, Option.bind]; exact (h v).symm


theorem mapV_isSome_fresh {vs : List VId} (next : Nat) (vm : VMap) (v : VId)
    (h : (mapV vm v).isSome = true ∨ v ∈ vs) :
    (mapV (vs.zip ((freshIds next vs.length).map some) ++ vm) v).isSome = true := by
  by_cases hv : v ∈ vs
  · rw [mapV_fresh_mem hv]; rfl
  · rw [mapV_fresh_not_mem hv]
    rcases h with h | h
    · exact h
    · exact absurd h hv

theorem not_mem_freshIds_of_lt {w next n : Nat} (h : w < next) : w ∉ freshIds next n := by
  intro hm
  have := (mem_freshIds.1 hm).1
  exact absurd h (Nat.not_lt.2 this)

/-! ## the simulation -/

section
variable (I : Interp Val) (Φ : FEnv Val) (α α' : List (String × AttrData)) (am : List (String × FAttr))

/-- what the simulation needs of the attribute map: resolving a cloned attribute list in the caller's
    binding is resolving the original list in the binding of the call -/
def AttrSim : Prop := ∀ attrs : List (String × FAttr),
  resolveAttrs α (attrs.filterMap (cloneAttr am)) = resolveAttrs α' attrs

mutual
theorem cloneG_sim (hA : AttrSim α α' am) : ∀ (b : FGraph) (vm : VMap) (next : Nat) (ρf ρ : Env Val),
    SimT vm ρf ρ → VLt vm next → opsAllG (fun op => !isStochasticOp op) b = true → subInitsOKG b = true →
    closedG (eraseG b) = true →
    evalGF I Φ α (cloneG am vm next b).1 ρ = evalGF I Φ α' b ρf ∧ next ≤ (cloneG am vm next b).2
  | .mk inputs outputs inits nodes, vm, next, ρf, ρ, hsim, hlt, hst, hsi, hcl => by
    simp only [opsAllG] at hst
    simp only [subInitsOKG, Bool.and_eq_true, disj_iff] at hsi
    simp only [eraseG, closedG, Bool.and_eq_true, List.all_eq_true] at hcl
    -- the two binding steps
    have hlen : (inits.map Prod.fst).length = inits.length := by simp
    have hsim1 : SimT ((inits.map Prod.fst).zip ((freshIds (next + inputs.length) inits.length).map some) ++ vm)
        (ρf.bind (inits.map Prod.fst) (inits.map (fun p => some (I.tv p.2))))
        (ρ.bind (freshIds (next + inputs.length) inits.length) (inits.map (fun p => some (I.tv p.2)))) := by
      have := hsim.bind (inits.map Prod.fst) (next + inputs.length) (inits.map (fun p => some (I.tv p.2)))
        (fun v w hw => not_mem_freshIds_of_lt (Nat.lt_of_lt_of_le (hlt v w hw) (Nat.le_add_right _ _)))
      rw [hlen] at this
      exact this
    have hlt1 : ∀ v w, mapV ((inits.map Prod.fst).zip ((freshIds (next + inputs.length) inits.length).map some) ++ vm) v
        = some w → w ∉ freshIds next inputs.length := by
      intro v w hw hm
      have hm' := (mem_freshIds.1 hm).2
      by_cases hv : v ∈ inits.map Prod.fst
      · have := mapV_fresh_mem hv (next + inputs.length) vm
        rw [hlen] at this
        rw [this] at hw
        simp only [Option.some.injEq] at hw
        rw [← hw] at hm'
        exact absurd hm' (by simp [Nat.add_assoc])
      · have := mapV_fresh_not_mem hv (next + inputs.length) vm
        rw [hlen] at this
        rw [this] at hw
        exact not_mem_freshIds_of_lt (hlt v w hw) hm
    have hsim2 := fun xs : List Val => hsim1.bind inputs next (xs.map some) hlt1
    have hvlt2 : VLt (inputs.zip ((freshIds next inputs.length).map some) ++
        ((inits.map Prod.fst).zip ((freshIds (next + inputs.length) inits.length).map some) ++ vm))
        (next + inputs.length + inits.length) := by
      intro v w hw
      by_cases hv : v ∈ inputs
      · rw [mapV_fresh_mem hv] at hw
        have h1 := List.idxOf_lt_length_of_mem hv
        simp only [Option.some.injEq] at hw
        rw [← hw]
        exact Nat.lt_of_lt_of_le (Nat.add_lt_add_left h1 _) (Nat.le_add_right _ _)
      · rw [mapV_fresh_not_mem hv] at hw
        have := (hlt.fresh (inits.map Prod.fst) (Nat.le_add_right next inputs.length)) v w
        rw [hlen] at this
        exact this hw
    refine ⟨?_, ?_⟩
    · funext xs
      have key := cloneNodes_sim hA (fun _ => True) 0 nodes _ (next + inputs.length + inits.length) _ _ (hsim2 xs) hvlt2
        (fun _ _ _ => Or.inl trivial) (Nat.zero_le _) hst hsi.2 hcl.2
      simp only [cloneG, evalGF, bindInits]
      have hz1 : ((freshIds (next + inputs.length) inits.length).zip (inits.map Prod.snd)).map Prod.fst =
          freshIds (next + inputs.length) inits.length := List.map_fst_zip (by simp)
      have hz2 : ((freshIds (next + inputs.length) inits.length).zip (inits.map Prod.snd)).map
          (fun p => some (I.tv p.2)) = inits.map (fun p => some (I.tv p.2)) := by
        have : ((freshIds (next + inputs.length) inits.length).zip (inits.map Prod.snd)).map Prod.snd =
            inits.map Prod.snd := List.map_snd_zip (by simp)
        have h2 : (fun p : VId × Tensor => some (I.tv p.2)) = (fun t => some (I.tv t)) ∘ Prod.snd := rfl
        rw [h2, ← List.map_map, this, List.map_map]
      have hf1 : inputs.filter (fun v => !(inits.map Prod.fst).contains v) = inputs := by
        rw [List.filter_eq_self]
        intro v hv
        simpa using hsi.1 v hv
      have hf2 : (freshIds next inputs.length).filter
          (fun v => !(freshIds (next + inputs.length) inits.length).contains v) = freshIds next inputs.length := by
        rw [List.filter_eq_self]
        intro v hv
        have h1 := (mem_freshIds.1 hv).2
        simp only [Bool.not_eq_true', List.contains_eq_mem, decide_eq_false_iff_not]
        intro h2
        exact absurd (mem_freshIds.1 h2).1 (Nat.not_le.2 h1)
      rw [hz1, hz2, hf1, hf2, List.map_map]
      apply List.map_congr_left
      intro v hv
      simp only [Function.comp]
      have hs := key.1 v
      have hsome := key.2.2.2.2.1 v
      have hpre := hcl.1 v hv
      simp only [List.contains_eq_mem, decide_eq_true_eq, List.mem_append] at hpre
      specialize hsome (by
        rcases hpre with (h | h) | h
        · exact Or.inl (mapV_isSome_fresh _ _ v (Or.inr h))
        · left
          refine mapV_isSome_fresh _ _ v (Or.inl ?_)
          have := mapV_isSome_fresh (vs := inits.map Prod.fst) (next + inputs.length) vm v (Or.inr h)
          rw [hlen] at this
          exact this
        · exact Or.inr h)
      obtain ⟨w, hw⟩ := Option.isSome_iff_exists.1 hsome
      rw [hs, hw]
      rfl
    · have key := cloneNodes_sim hA (fun _ => True) 0 nodes _ (next + inputs.length + inits.length) _ _ (hsim2 []) hvlt2
        (fun _ _ _ => Or.inl trivial) (Nat.zero_le _) hst hsi.2 hcl.2
      simp only [cloneG]
      exact Nat.le_trans (Nat.le_trans (Nat.le_add_right _ _) (Nat.le_add_right _ _)) key.2.2.1
theorem cloneNodes_sim (hA : AttrSim α α' am) (Q : VId → Prop) (lo : Nat) :
    ∀ (ns : List FNode) (vm : VMap) (next : Nat) (ρf ρ : Env Val),
    SimT vm ρf ρ → VLt vm next → VFrom Q lo vm → lo ≤ next → opsAllNodes (fun op => !isStochasticOp op) ns = true →
    subInitsOKNodes ns = true → closedNodes (eraseNodes ns) = true →
    SimT (cloneNodes am vm next ns).2.1 (evalNodesF I Φ α' ns ρf) (evalNodesF I Φ α (cloneNodes am vm next ns).1 ρ) ∧
    VLt (cloneNodes am vm next ns).2.1 (cloneNodes am vm next ns).2.2 ∧
    next ≤ (cloneNodes am vm next ns).2.2 ∧
    (∀ w, w < next → evalNodesF I Φ α (cloneNodes am vm next ns).1 ρ w = ρ w) ∧
    (∀ v, ((mapV vm v).isSome = true ∨ v ∈ outsTop (eraseNodes ns)) →
      (mapV (cloneNodes am vm next ns).2.1 v).isSome = true) ∧
    VFrom Q lo (cloneNodes am vm next ns).2.1
  | [], vm, next, ρf, ρ, hsim, hlt, hvf, _, _, _, _ => by
    simp only [cloneNodes, evalNodesF, eraseNodes_nil, outsTop, List.not_mem_nil, or_false]
    exact ⟨hsim, hlt, Nat.le_refl _, fun _ _ => trivial, fun _ h => h, hvf⟩
  | n :: ns, vm, next, ρf, ρ, hsim, hlt, hvf, hlo, hst, hsi, hcl => by
    simp only [opsAllNodes, Bool.and_eq_true] at hst
    simp only [subInitsOKNodes, Bool.and_eq_true] at hsi
    simp only [eraseNodes_cons, closedNodes, Bool.and_eq_true] at hcl
    obtain ⟨h1, h2, h3, h4, h5, h6⟩ := cloneN_sim hA Q lo n vm next ρf ρ hsim hlt hvf hlo hst.1 hsi.1 hcl.1
    obtain ⟨k1, k2, k3, k4, k5, k6⟩ := cloneNodes_sim hA Q lo ns _ _ _ _ h1 h2 h6 (Nat.le_trans hlo h3) hst.2 hsi.2 hcl.2
    simp only [cloneNodes, evalNodesF]
    refine ⟨k1, k2, Nat.le_trans h3 k3, ?_, ?_, k6⟩
    · intro w hw
      rw [k4 w (Nat.lt_of_lt_of_le hw h3), h4 w hw]
    · intro v hv
      refine k5 v ?_
      simp only [eraseNodes_cons, outsTop, List.mem_append] at hv
      rcases hv with hv | hv | hv
      · exact Or.inl (h5 v (Or.inl hv))
      · exact Or.inl (h5 v (Or.inr hv))
      · exact Or.inr hv
theorem cloneN_sim (hA : AttrSim α α' am) (Q : VId → Prop) (lo : Nat) :
    ∀ (n : FNode) (vm : VMap) (next : Nat) (ρf ρ : Env Val),
    SimT vm ρf ρ → VLt vm next → VFrom Q lo vm → lo ≤ next → opsAllN (fun op => !isStochasticOp op) n = true →
    subInitsOKN n = true → closedN (eraseN n) = true →
    SimT (cloneN am vm next n).2.1 (evalNF I Φ α' n ρf) (evalNF I Φ α (cloneN am vm next n).1 ρ) ∧
    VLt (cloneN am vm next n).2.1 (cloneN am vm next n).2.2 ∧
    next ≤ (cloneN am vm next n).2.2 ∧
    (∀ w, w < next → evalNF I Φ α (cloneN am vm next n).1 ρ w = ρ w) ∧
    (∀ v, ((mapV vm v).isSome = true ∨ v ∈ (eraseN n).outs) → (mapV (cloneN am vm next n).2.1 v).isSome = true) ∧
    VFrom Q lo (cloneN am vm next n).2.1
  | .mk op attrs ins outs bodies, vm, next, ρf, ρ, hsim, hlt, hvf, hlo, hst, hsi, hcl => by
    simp only [opsAllN, Bool.and_eq_true, Bool.not_eq_true'] at hst
    simp only [subInitsOKN] at hsi
    simp only [eraseN, closedN] at hcl
    obtain ⟨hb, hnb⟩ := cloneBodies_sim hA bodies vm next ρf ρ hsim hlt hst.2 hsi hcl
    simp only [cloneN, evalNF, eraseN, Node.outs]
    rw [hA attrs, hsim.args ins, hb]
    have hres : nodeResultsF I op (resolveAttrs α' attrs) (freshIds (cloneBodies am vm next bodies).2 outs.length)
        (evalBodiesF I Φ α' bodies ρf) (trimV (evalArgs ρf ins)) =
        nodeResultsF I op (resolveAttrs α' attrs) outs (evalBodiesF I Φ α' bodies ρf) (trimV (evalArgs ρf ins)) :=
      nodeResultsF_outs I hst.1 _ _ _ _ _
    rw [hres]
    refine ⟨?_, ?_, ?_, ?_, ?_, hvf.fresh outs (Nat.le_trans hlo hnb)⟩
    · exact hsim.bind outs _ _ (fun v w hw => not_mem_freshIds_of_lt (Nat.lt_of_lt_of_le (hlt v w hw) hnb))
    · exact hlt.fresh outs hnb
    · exact Nat.le_trans hnb (Nat.le_add_right _ _)
    · intro w hw
      exact Env.bind_of_not_mem _ _ (not_mem_freshIds_of_lt (Nat.lt_of_lt_of_le hw hnb))
    · intro v hv
      exact mapV_isSome_fresh _ _ v hv
theorem cloneBodies_sim (hA : AttrSim α α' am) : ∀ (bs : List FGraph) (vm : VMap) (next : Nat) (ρf ρ : Env Val),
    SimT vm ρf ρ → VLt vm next → opsAllBodies (fun op => !isStochasticOp op) bs = true →
    subInitsOKBodies bs = true → closedBodies (eraseBodies bs) = true →
    evalBodiesF I Φ α (cloneBodies am vm next bs).1 ρ = evalBodiesF I Φ α' bs ρf ∧
    next ≤ (cloneBodies am vm next bs).2
  | [], _, _, _, _, _, _, _, _, _ => by simp [cloneBodies, evalBodiesF]
  | b :: bs, vm, next, ρf, ρ, hsim, hlt, hst, hsi, hcl => by
    simp only [opsAllBodies, Bool.and_eq_true] at hst
    simp only [subInitsOKBodies, Bool.and_eq_true] at hsi
    simp only [eraseBodies_cons, closedBodies, Bool.and_eq_true] at hcl
    obtain ⟨h1, h2⟩ := cloneG_sim hA b vm next ρf ρ hsim hlt hst.1 hsi.1 hcl.1
    have hlt' : VLt vm (cloneG am vm next b).2 := fun v w hw => Nat.lt_of_lt_of_le (hlt v w hw) h2
    obtain ⟨k1, k2⟩ := cloneBodies_sim hA bs vm _ ρf ρ hsim hlt' hst.2 hsi.2 hcl.2
    simp only [cloneBodies, evalBodiesF]
    exact ⟨by rw [h1, k1], Nat.le_trans h2 k2⟩
end

end

end IrVerif.Inline

import IrVerif.Lemmas.SerdeOutdupSub
/-! C02 deepening, E8 (D320): IR version < 10 models in which a value of the main graph is named like the
experimental entry `domain::name/value` of a function value.  `serialize_model_into` does not write the
function's entry then (reserved names, serde.py:1593-1615).  The reserved names of the deserialized graph
(`reservedNames`, on the IR) are those of the proto (`reservedP`); `model_rt9` is `model_rt` without the
hypothesis that no value of the main graph has a name of the experimental form. -/
namespace IrVerif.Serde
open IrVerif.Proto

/-! ### the names a serialized node carries -/

def inName (scopes : Scopes) : Option Ref → String
  | none => ""
  | some r => refName scopes r

def outName (scopes : Scopes) : Option Nat → String
  | none => ""
  | some j => refName scopes ⟨0, j⟩

theorem serNode_io (scopes : Scopes) (ver : Option Int) : ∀ (x : IRNode) (y : NodeP),
    serNode scopes ver x = .ok y →
    y.inputs = x.inputs.map (inName scopes) ∧
      y.outputs = trimTrailingEmpty (x.outputs.map (outName scopes))
  | .mk domain opType overload name doc inputs outputs attrs mprops devcfgs, y, h => by
    have hI : inputs.map (fun x => match x with | none => "" | some r => refName scopes r)
        = inputs.map (inName scopes) := by
      apply List.map_congr_left
      intro o _
      cases o <;> rfl
    have hO : outputs.map (fun x => match x with | none => "" | some j => refName scopes ⟨0, j⟩)
        = outputs.map (outName scopes) := by
      apply List.map_congr_left
      intro o _
      cases o <;> rfl
    simp only [serNode] at h
    obtain ⟨as, _, h⟩ := bind_eq_ok h
    split at h
    · simp only [bind, Except.bind, Except.ok.injEq] at h
      subst h
      exact ⟨hI, congrArg trimTrailingEmpty hO⟩
    · obtain ⟨dcs, _, h⟩ := bind_eq_ok h
      simp only [Except.ok.injEq] at h
      subst h
      exact ⟨hI, congrArg trimTrailingEmpty hO⟩

/-- the non-empty names of the inputs and outputs of an IR node / a proto node -/
def irNodeNames (scopes : Scopes) (n : IRNode) : List String :=
  ((n.inputs.filterMap fun r => r.map (refName scopes)) ++
    (n.outputs.filterMap fun j => j.map fun i => refName scopes ⟨0, i⟩))

theorem mem_filterMap_inName {scopes : Scopes} {l : List (Option Ref)} {s : String} (hs : s ≠ "") :
    s ∈ l.filterMap (fun r => r.map (refName scopes)) ↔ s ∈ l.map (inName scopes) := by
  simp only [List.mem_filterMap, List.mem_map]
  constructor
  · rintro ⟨o, ho, h⟩
    cases o with
    | none => simp at h
    | some r => exact ⟨some r, ho, by simpa [inName] using h⟩
  · rintro ⟨o, ho, h⟩
    cases o with
    | none => exact absurd h.symm hs
    | some r => exact ⟨some r, ho, by simpa [inName] using h⟩

theorem mem_filterMap_outName {scopes : Scopes} {l : List (Option Nat)} {s : String} (hs : s ≠ "") :
    s ∈ l.filterMap (fun j => j.map fun i => refName scopes ⟨0, i⟩) ↔ s ∈ l.map (outName scopes) := by
  simp only [List.mem_filterMap, List.mem_map]
  constructor
  · rintro ⟨o, ho, h⟩
    cases o with
    | none => simp at h
    | some r => exact ⟨some r, ho, by simpa [outName] using h⟩
  · rintro ⟨o, ho, h⟩
    cases o with
    | none => exact absurd h.symm hs
    | some r => exact ⟨some r, ho, by simpa [outName] using h⟩

theorem mem_trim {l : List String} {s : String} (hs : s ≠ "") : s ∈ trimTrailingEmpty l ↔ s ∈ l := by
  have h := trim_filter l
  have a : s ∈ (trimTrailingEmpty l).filter (· ≠ "") ↔ s ∈ trimTrailingEmpty l := by
    simp [List.mem_filter, hs]
  have b : s ∈ l.filter (· ≠ "") ↔ s ∈ l := by simp [List.mem_filter, hs]
  rw [← a, h, b]

theorem serNodes_names (scopes : Scopes) (ver : Option Int) : ∀ (xs : List IRNode) (ys : List NodeP),
    serNodes scopes ver xs = .ok ys → ∀ s, s ≠ "" →
    (s ∈ xs.flatMap (irNodeNames scopes) ↔ s ∈ ys.flatMap (fun n => n.inputs ++ n.outputs))
  | [], ys, h, s, _ => by
    simp only [serNodes, Except.ok.injEq] at h
    subst h
    simp
  | x :: xs, ys, h, s, hs => by
    simp only [serNodes] at h
    obtain ⟨y, hy, h⟩ := bind_eq_ok h
    obtain ⟨ys', hys, h⟩ := bind_eq_ok h
    simp only [Except.ok.injEq] at h
    subst h
    obtain ⟨hi, ho⟩ := serNode_io scopes ver x y hy
    have ih := serNodes_names scopes ver xs ys' hys s hs
    simp only [List.flatMap_cons, List.mem_append, ih, irNodeNames, hi, ho,
      mem_filterMap_inName hs, mem_filterMap_outName hs, mem_trim hs]

theorem mem_dedupNat {l : List Nat} {a : Nat} : a ∈ dedupNat l ↔ a ∈ l := by
  induction l with
  | nil => simp [dedupNat]
  | cons x xs ih =>
    simp only [dedupNat, List.mem_cons, List.mem_filter, ih]
    by_cases h : a = x <;> simp [h]

theorem normNodes_names : ∀ (nodes : List NodeP) (s : String), s ≠ "" →
    (s ∈ (normNodes nodes).flatMap (fun n => n.inputs ++ n.outputs) ↔
      s ∈ nodes.flatMap (fun n => n.inputs ++ n.outputs))
  | [], _, _ => by simp [normNodes]
  | n :: ns, s, hs => by
    have ih := normNodes_names ns s hs
    have hi : (normNode n).inputs = n.inputs := by cases n; rfl
    simp only [normNodes, List.flatMap_cons, List.mem_append, ih, hi, normNode_outputs, mem_trim hs]

/-- the reserved names of a deserialized well-formed graph are those of the proto -/
theorem desGraph_reserved : ∀ (g : GraphP) (x : IRGraph), wfGraph [] g = true → desGraph [] g = .ok x →
    ∀ s, s ∈ reservedNames x ↔ s ∈ reservedP g
  | .mk name doc nodes inits inputs outputs vis quant md, x, h, hd, s => by
    obtain ⟨hw, hwn⟩ := graphWF_of_wf [] name doc nodes inits inputs outputs vis quant md h
    obtain ⟨xs, n1, n2, _⟩ := nodes_rt [] vis quant none nodes
      (tblPre inits inputs vis quant (nodeOutNames nodes)) (by rw [tableNames_tblPre]; exact hwn) (Or.inl rfl)
    obtain ⟨idxs, c1, c2⟩ := graph_des_closed [] name doc nodes inits inputs outputs vis quant md hw.to0
      hw.consOut xs n1
    rw [c1] at hd
    simp only [Except.ok.injEq] at hd
    subst hd
    have hNF : tableNames (tblFinal inits inputs outputs vis quant (nodeOutNames nodes))
        = scopeNames (inputs.map (·.name)) (inits.map (·.name)) (nodeOutNames nodes) := tableNames_tblFinal
    rw [tableNames_tblPre] at n2
    simp only [reservedNames, reservedP, hNF, List.mem_append, List.mem_filter, decide_eq_true_eq]
    by_cases hs : s = ""
    · simp [hs]
    have hnodes := serNodes_names [scopeNames (inputs.map (·.name)) (inits.map (·.name)) (nodeOutNames nodes)]
      none xs (normNodes nodes) n2 s hs
    rw [normNodes_names nodes s hs] at hnodes
    -- initializers
    have hinit : s ∈ (dedupNat idxs).map (fun i =>
          ((tblFinal inits inputs outputs vis quant (nodeOutNames nodes)).getD i (IRValue.blank "")).name)
        ↔ s ∈ inits.map (·.name) := by
      simp only [List.mem_map, mem_dedupNat]
      have hidx : ∀ i, i ∈ idxs ↔ ∃ p ∈ inits, lookupLast (inputs.map (·.name)
          ++ (inits.map (·.name)).filter (fun n => !(inputs.map (·.name)).contains n)) p.name = some i := by
        intro i
        have : some i ∈ idxs.map some ↔ i ∈ idxs := by simp
        rw [← this, c2]
        simp only [List.mem_map]
      have hname : ∀ (p : TensorP) (i : Nat), lookupLast (inputs.map (·.name)
          ++ (inits.map (·.name)).filter (fun n => !(inputs.map (·.name)).contains n)) p.name = some i →
          ((tblFinal inits inputs outputs vis quant (nodeOutNames nodes)).getD i (IRValue.blank "")).name
            = p.name := by
        intro p i hl
        have hlt := lookupLast_lt hl
        have hget := lookupLast_getElem hl
        have hlen : i < (tblFinal inits inputs outputs vis quant (nodeOutNames nodes)).length := by
          have : (tableNames (tblFinal inits inputs outputs vis quant (nodeOutNames nodes))).length
              = (tblFinal inits inputs outputs vis quant (nodeOutNames nodes)).length := by
            simp [tableNames]
          rw [← this, hNF]
          simp only [scopeNames, List.length_append]
          simp only [List.length_append] at hlt
          omega
        rw [getD_name _ _ hlen, hNF]
        simp only [scopeNames, List.getD]
        rw [List.getElem?_append_left hlt, hget]
        rfl
      constructor
      · rintro ⟨i, hi, rfl⟩
        obtain ⟨p, hp, hl⟩ := (hidx i).1 hi
        exact ⟨p, hp, (hname p i hl).symm⟩
      · rintro ⟨p, hp, rfl⟩
        have hmem : p.name ∈ inputs.map (·.name)
            ++ (inits.map (·.name)).filter (fun n => !(inputs.map (·.name)).contains n) := by
          by_cases hin : p.name ∈ inputs.map (·.name)
          · exact List.mem_append_left _ hin
          · exact List.mem_append_right _ (List.mem_filter.2 ⟨List.mem_map_of_mem hp, by simpa using hin⟩)
        obtain ⟨i, hl⟩ := lookupLast_exists hmem
        exact ⟨i, (hidx i).2 ⟨p, hp, hl⟩, hname p i hl⟩
    constructor
    · rintro (⟨h1, _⟩ | ⟨h1, _⟩)
      · exact Or.inl ⟨hnodes.1 h1, hs⟩
      · exact Or.inr ⟨hinit.1 h1, hs⟩
    · rintro (⟨h1, _⟩ | ⟨h1, _⟩)
      · exact Or.inl ⟨hnodes.2 h1, hs⟩
      · exact Or.inr ⟨hinit.2 h1, hs⟩

theorem serExperimentalR_congr {R R' : List String} (h : ∀ s, s ∈ R ↔ s ∈ R') (f : IRFunction) :
    serExperimentalR R f = serExperimentalR R' f := by
  have hc : ∀ s, R.contains s = R'.contains s := by
    intro s
    have := h s
    by_cases h1 : s ∈ R
    · simp [h1, this.1 h1]
    · have h2 : s ∉ R' := fun hm => h1 (this.2 hm)
      simp [h1, h2]
  simp only [serExperimentalR, expEmitR, hc]

theorem reservedNames_setOpsets (g : IRGraph) (ops : List OpsetP) :
    reservedNames (g.setOpsets ops) = reservedNames g := by
  cases g; rfl

/-- `model_rt` below IR version 10 without "no value of the main graph has a name of the experimental form" -/
theorem model_rt9 (m : ModelP) (h : wfModel9 m = true) :
    ∃ x, desModel m = .ok x ∧ serModel x = .ok (normModel9 m) := by
  simp only [wfModel9, Bool.and_eq_true] at h
  obtain ⟨⟨⟨⟨⟨hg, hf⟩, _hmeta⟩, hops⟩, hkeys⟩, hdev⟩ := h
  have hgate : verAllows (some m.irVersion) = true ∨ graphHasDevCfg m.graph = false := by
    rcases Bool.or_eq_true_iff.1 hdev with h1 | h1
    · exact Or.inl (by simpa [verAllows] using h1)
    · simp only [Bool.and_eq_true, Bool.not_eq_true'] at h1
      exact Or.inr h1.1.2
  obtain ⟨g, g1, g2⟩ := graph_rt [] (some m.irVersion) m.graph hg hgate
  have hV : m.graph.valueInfo.all wfVI = true := by
    cases hmg : m.graph with
    | mk name doc nodes inits inputs outputs vis quant md =>
      rw [hmg] at hg
      exact (graphWF_of_wf [] name doc nodes inits inputs outputs vis quant md hg).1.wfVis
  have hfgate : 11 ≤ m.irVersion ∨ m.functions.all (fun f => !nodesHaveDevCfg f.nodes) = true := by
    rcases Bool.or_eq_true_iff.1 hdev with h1 | h1
    · exact Or.inl (by simpa using h1)
    · simp only [Bool.and_eq_true] at h1
      exact Or.inr h1.2
  obtain ⟨fs, f1, f2, f3, f4⟩ := functions_rt m.irVersion m.functions hf hfgate
  have hdict : functionDict [] fs = fs := by
    rw [functionDict_append fs [] (by simpa [f3] using nodupKeys_iff.1 hkeys)]; simp
  have hopset : opsetDict m.opsetImport = m.opsetImport := dictByKey_nodup _ _ (nodupStr_iff.1 hops)
  have hcfg : (if m.irVersion < 11 then [] else (m.configuration.map desModelCfg).map serModelCfg)
      = m.configuration := by
    split
    · rename_i hlt
      rcases Bool.or_eq_true_iff.1 hdev with h1 | h1
      · simp at h1; omega
      · simp only [Bool.and_eq_true, List.isEmpty_iff] at h1
        exact h1.1.1.symm
    · simp only [List.map_map]
      have : (serModelCfg ∘ desModelCfg) = id := by funext c; cases c; rfl
      rw [this, List.map_id]
  have hgops : ∀ g : IRGraph, (g.setOpsets (opsetDict m.opsetImport)).opsets = m.opsetImport := by
    intro g; cases g; simp [IRGraph.opsets, IRGraph.setOpsets, hopset]
  by_cases hc : m.irVersion ≥ 10
  · have hlt : ¬ m.irVersion < 10 := by omega
    refine ⟨{ graph := g.setOpsets (opsetDict m.opsetImport),
              irVersion := m.irVersion, producerName := m.producerName,
              producerVersion := m.producerVersion, domain := m.domain, modelVersion := m.modelVersion,
              doc := m.doc, functions := fs, mprops := dictOfEntries m.metadata,
              configs := m.configuration.map desModelCfg }, ?_, ?_⟩
    · simp only [desModel, g1, f1, hdict, hlt, if_false, bind, Except.bind]
    · simp only [serModel, serGraph_opsets, g2, f2, hgops, hcfg, hc, if_true, bind, Except.bind, normModel9,
        normEntries]
  · have hlt : m.irVersion < 10 := by omega
    have hvis : ∀ f ∈ m.functions, f.valueInfo = [] := by
      intro f hfm
      have := List.all_eq_true.1 hf f hfm
      simp only [wfFunction, Bool.and_eq_true, Bool.or_eq_true, decide_eq_true_eq,
        List.isEmpty_iff] at this
      rcases this.2 with h10 | h10
      · omega
      · exact h10
    obtain ⟨fs', e1, e2, e3⟩ := fns_experimentalR m.irVersion m.graph.valueInfo hV m.functions fs hf hvis f4
    have eR : fs'.flatMap (serExperimentalR (reservedNames (g.setOpsets (opsetDict m.opsetImport))))
        = fs'.flatMap (serExperimentalR (reservedP m.graph)) := by
      apply flatMap_congr'
      intro f _
      rw [reservedNames_setOpsets]
      exact serExperimentalR_congr (desGraph_reserved m.graph g hg g1) f
    refine ⟨{ graph := g.setOpsets (opsetDict m.opsetImport),
              irVersion := m.irVersion, producerName := m.producerName,
              producerVersion := m.producerVersion, domain := m.domain, modelVersion := m.modelVersion,
              doc := m.doc, functions := fs', mprops := dictOfEntries m.metadata,
              configs := m.configuration.map desModelCfg }, ?_, ?_⟩
    · simp only [desModel, g1, f1, hdict, hlt, if_true, e1, bind, Except.bind]
    · simp only [serModel, serGraph_opsets, g2, e2 hlt, hgops, hcfg, hc, if_false, bind, Except.bind,
        normModel9, normEntries, eR, e3, decide_false]

/-! ### `wfModel -> wfModel9`, and there `normModel9 = normModel` -/

theorem wfNodes_names {names : List String} : ∀ {nodes : List NodeP}, wfNodes [names] nodes = true →
    ∀ s ∈ nodes.flatMap (fun n => n.inputs ++ n.outputs), s ≠ "" → s ∈ names
  | [], _, s, hs, _ => by simp at hs
  | n :: ns, h, s, hs, hne => by
    simp only [wfNodes, Bool.and_eq_true] at h
    simp only [List.flatMap_cons, List.mem_append] at hs
    rcases hs with hs | hs
    · cases n with
      | mk inputs outputs name opType domain overload doc attrs metadata devcfgs =>
        simp only [wfNode, Bool.and_eq_true, List.all_eq_true, Bool.or_eq_true, List.headD_cons] at h
        obtain ⟨⟨⟨⟨⟨⟨hin, hout⟩, _⟩, _⟩, _⟩, _⟩, _⟩ := h
        simp only [NodeP.inputs, NodeP.outputs] at hs
        have hse : s.isEmpty = false := by simpa [String.isEmpty_iff] using hne
        rcases hs with hs | hs
        · rcases hin s hs with h0 | h0
          · rw [hse] at h0; cases h0
          · simp only [resolve] at h0
            cases hl : lookupLast names s with
            | some i => exact lookupLast_mem hl
            | none => simp [hl] at h0
        · rcases hout s hs with h0 | h0
          · rw [hse] at h0; cases h0
          · simpa using h0
    · exact wfNodes_names h.2 s hs hne

theorem reservedP_subset : ∀ (g : GraphP), wfGraph [] g = true → ∀ r ∈ reservedP g,
    r ∈ scopeNames (g.inputs.map (·.name)) (g.initializers.map (·.name)) (nodeOutNames g.nodes)
  | .mk name doc nodes inits inputs outputs vis quant md, h, r, hr => by
    obtain ⟨_, hwn⟩ := graphWF_of_wf [] name doc nodes inits inputs outputs vis quant md h
    simp only [reservedP, List.mem_append, List.mem_filter, decide_eq_true_eq] at hr
    simp only [GraphP.inputs, GraphP.initializers, GraphP.nodes]
    rcases hr with ⟨h1, hne⟩ | ⟨h1, _⟩
    · exact wfNodes_names hwn r h1 hne
    · by_cases hin : r ∈ inputs.map (·.name)
      · exact mem_scopeNames.2 (Or.inl hin)
      · exact mem_scopeNames.2 (Or.inr (Or.inl ⟨h1, hin⟩))

theorem experimentalVIsR_eq (R : List String) (hR : ∀ r ∈ R, parseExperimentalName r = none)
    (V : List ValueInfoP) (f : FunctionP) : experimentalVIsR R V f = experimentalVIs V f := by
  unfold experimentalVIsR experimentalVIs
  split
  · rfl
  · apply filterMap_congr'
    intro vn _
    split
    · rename_i hc
      have hp := hR _ (by simpa using hc)
      -- an entry found for `vn` would carry exactly that reserved name
      unfold expEntry
      cases hf : findLast? (fun e => parseExperimentalName e.name = some (f.domain, f.name, vn)) V with
      | none => rfl
      | some e =>
        have he := (findLast?_mem hf).2
        have he' : parseExperimentalName e.name = some (f.domain, f.name, vn) := by simpa using he
        rw [parseExperimentalName_spec he', hp] at he'
        cases he'
    · rfl

theorem wfModel9_of_wf (m : ModelP) (h : wfModel m = true) :
    wfModel9 m = true ∧ normModel9 m = normModel m := by
  have h0 := h
  simp only [wfModel, Bool.and_eq_true] at h
  obtain ⟨⟨⟨⟨⟨⟨hg, hf⟩, hmeta⟩, hops⟩, hkeys⟩, hdev⟩, hexp⟩ := h
  refine ⟨by simp only [wfModel9, Bool.and_eq_true]; exact ⟨⟨⟨⟨⟨hg, hf⟩, hmeta⟩, hops⟩, hkeys⟩, hdev⟩, ?_⟩
  by_cases hc : m.irVersion ≥ 10
  · simp only [normModel9, normModel, hc, if_true]
  · have hR : ∀ r ∈ reservedP m.graph, parseExperimentalName r = none := by
      intro r hr
      have hsub := reservedP_subset m.graph hg r hr
      simp only [Bool.or_eq_true, decide_eq_true_eq] at hexp
      rcases hexp with h10 | hall
      · exact absurd h10 hc
      · have := List.all_eq_true.1 hall r hsub
        simpa using this
    have : m.functions.flatMap (experimentalVIsR (reservedP m.graph) m.graph.valueInfo)
        = m.functions.flatMap (experimentalVIs m.graph.valueInfo) := by
      apply flatMap_congr'
      intro f _
      exact experimentalVIsR_eq _ hR _ f
    simp only [normModel9, normModel, hc, if_false, this]

theorem model_rt9W (m : ModelP) (h : wfModel9W m = true) :
    ∃ x, desModel m = .ok x ∧ serModel x = .ok (normModel9W m) := by
  simp only [wfModel9W, Bool.and_eq_true, Bool.or_eq_true, decide_eq_true_eq] at h
  obtain ⟨x, h1, h2⟩ := model_rt9 (foldModel m) h.1
  rw [desModel_fold m h.2] at h1
  exact ⟨x, h1, h2⟩

theorem outdupGraph_output_names (g : GraphP) :
    (outdupGraph g).outputs.map (·.name) = g.outputs.map (·.name) := by
  cases g
  simp only [outdupGraph, GraphP.outputs, List.map_map]
  apply List.map_congr_left
  intro vo _
  exact outdupVI_name _ _ vo

theorem foldGraph_outputs (g : GraphP) : (foldGraph g).outputs = g.outputs := by
  cases g; rfl

theorem foldTensor_name (t : TensorP) : (foldTensor t).name = t.name := by
  unfold foldTensor; split <;> rfl

/-- what `outdup ∘ fold` keeps of a graph: output names, initializer names, node output names, inputs -/
theorem outdup_fold_fields (g : GraphP) :
    (outdupGraph (foldGraph g)).outputs.map (·.name) = g.outputs.map (·.name) ∧
    (outdupGraph (foldGraph g)).initializers.map (·.name) = g.initializers.map (·.name) ∧
    nodeOutNames (outdupGraph (foldGraph g)).nodes = nodeOutNames g.nodes ∧
    (outdupGraph (foldGraph g)).inputs = g.inputs := by
  refine ⟨by rw [outdupGraph_output_names, foldGraph_outputs], ?_, ?_, ?_⟩
  · cases g
    simp only [foldGraph, outdupGraph, GraphP.initializers, List.map_map]
    apply List.map_congr_left
    intro t _
    exact foldTensor_name t
  · cases g
    simp only [foldGraph, outdupGraph, GraphP.nodes, nodeOutNames_outdupNodes, nodeOutNames_foldNodes]
  · cases g; rfl

theorem model_rt9D (m : ModelP) (h : wfModel9D m = true) :
    ∃ x, desModel m = .ok x ∧ serModel x = .ok (normModel9D m) := by
  simp only [wfModel9D, Bool.and_eq_true, Bool.or_eq_true, decide_eq_true_eq] at h
  obtain ⟨h9, hplain⟩ := h
  obtain ⟨x, h1, h2⟩ := model_rt9 (canonDModel m) h9
  refine ⟨x, ?_, h2⟩
  rw [← h1]
  have h9' := h9
  simp only [wfModel9, Bool.and_eq_true, canonDModel, mergeModel] at h9'
  obtain ⟨⟨⟨⟨⟨hg, hf⟩, _⟩, _⟩, _⟩, _⟩ := h9'
  obtain ⟨f1, f2, f3, _⟩ := outdup_fold_fields m.graph
  unfold canonDModel
  rw [desModel_merge' (outdupModel (foldModel m)) hg hf (by
        rcases hplain with h10 | hp
        · exact Or.inl h10
        · right
          intro n hn hd
          simp only [outdupModel, foldModel] at hn hd
          rw [f1] at hn
          rw [f2, f3] at hd
          obtain ⟨vo, hvo, rfl⟩ := List.mem_map.1 hn
          have := List.all_eq_true.1 hp.2 vo hvo
          have hc : (m.graph.initializers.map (·.name) ++ nodeOutNames m.graph.nodes).contains vo.name = true := by
            simpa using hd
          rw [hc] at this
          simpa using this),
    desModel_outdup' (foldModel m) hg hf]
  symm
  apply desModel_fold
  rcases hplain with h10 | hp
  · exact Or.inl h10
  · exact Or.inr hp.1

/-- the third widened domain is contained -/
theorem wfModel9D_of_wfD (m : ModelP) (h : wfModelD m = true) :
    wfModel9D m = true ∧ normModel9D m = normModelD m := by
  obtain ⟨h1, h2⟩ := wfModel9_of_wf (canonDModel m) h
  refine ⟨?_, h2⟩
  simp only [wfModel9D, h1, Bool.true_and, Bool.or_eq_true, decide_eq_true_eq, Bool.and_eq_true]
  by_cases hc : m.irVersion ≥ 10
  · exact Or.inl hc
  right
  have hw := h
  simp only [wfModelD, wfModel, Bool.and_eq_true, Bool.or_eq_true, decide_eq_true_eq] at hw
  have hexp := hw.2
  have hir : (canonDModel m).irVersion = m.irVersion := rfl
  rw [hir] at hexp
  have hall := hexp.resolve_left hc
  obtain ⟨f1, f2, f3, f4⟩ := outdup_fold_fields m.graph
  obtain ⟨e1, e2, e3, _⟩ := mergeGraph_fields (outdupGraph (foldGraph m.graph))
  have hscope : ∀ n ∈ scopeNames (m.graph.inputs.map (·.name)) (m.graph.initializers.map (·.name))
      (nodeOutNames m.graph.nodes), parseExperimentalName n = none := by
    intro n hn
    have : (canonDModel m).graph = mergeGraph (outdupGraph (foldGraph m.graph)) := rfl
    rw [this, e1, e2, e3, f4, f2, f3] at hall
    have := List.all_eq_true.1 hall n hn
    simpa using this
  constructor
  · simp only [inputsPlain, List.all_eq_true]
    intro vi hvi
    have := hscope vi.name (mem_scopeNames.2 (Or.inl (List.mem_map_of_mem hvi)))
    simp [this]
  · simp only [outputsPlain, List.all_eq_true, Bool.or_eq_true, Bool.not_eq_true']
    intro vo _
    by_cases hd : vo.name ∈ m.graph.initializers.map (·.name) ++ nodeOutNames m.graph.nodes
    · right
      have hs : vo.name ∈ scopeNames (m.graph.inputs.map (·.name)) (m.graph.initializers.map (·.name))
          (nodeOutNames m.graph.nodes) := by
        by_cases hi : vo.name ∈ m.graph.inputs.map (·.name)
        · exact mem_scopeNames.2 (Or.inl hi)
        · rcases List.mem_append.1 hd with hd | hd
          · exact mem_scopeNames.2 (Or.inr (Or.inl ⟨hd, hi⟩))
          · exact mem_scopeNames.2 (Or.inr (Or.inr hd))
      simp [hscope _ hs]
    · left
      simpa using hd

end IrVerif.Serde

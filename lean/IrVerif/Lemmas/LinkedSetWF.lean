/-
Top-level vocabulary shared by Props/C11 and the recursive-iterator development: `WF`,
`Cursor.Valid`, the executable abstraction `abs`, and the "next() takes the head of rest" fact at
the `Inv` level.
-/
import IrVerif.Lemmas.LinkedSetSim
import IrVerif.Lemmas.LinkedSetSpec
import IrVerif.Lemmas.LinkedSetFrozen
namespace IrVerif.LinkedSet

/-- The representation invariant: there is a list `bs` of live boxes such that `Inv s bs` — the
live boxes form one prev/next cycle through the root, the dict maps exactly the stored values to
their boxes, `_length` is their number, every box is owned by this list, and every erased box's
stored pointers lead to the root, a live box or a box erased strictly later. -/
def WF (s : LSet) : Prop := ∃ bs, Inv s bs

/-- a cursor refers to an existing box (true of `notStarted`, `done` and of every cursor a
`next()` returns) -/
def Cursor.Valid (s : LSet) (c : Cursor) : Prop := c.pos < size s

/-- abstraction to the list-with-gaps machine, using only executable functions of the model -/
def abs (s : LSet) (d : Dir) (c : Cursor) : Spec.St := ⟨toList s, d, absCur s d c⟩

theorem abs_eq {s : LSet} {bs : List Nat} (h : Inv s bs) (d : Dir) (c : Cursor) :
    abs s d c = absSt s bs d c := by
  simp only [abs, absSt, h.toList_eq, h.absCur_eq]

theorem acur_inRange {s : LSet} {bs : List Nat} (h : Inv s bs) (d : Dir) (c : Cursor)
    (hc : c.pos < size s) : (acur s bs d c).InRange (bs.map (vl s)) := by
  by_cases hd : c = .done
  · subst hd; rw [acur_done]; trivial
  · obtain ⟨hn, hi⟩ := h.acur_index d hd hc
    have hF : ∀ t, posF bs t ≤ bs.length := fun t => List.idxOf_le_length
    have hR : ∀ t, IsNode bs t → posR bs t ≤ bs.length := by
      intro t ht
      unfold posR
      rcases ht with rfl | ht
      · simp
      · have h0 : t ≠ 0 := by rintro rfl; exact h.zero_notin ht
        have := List.idxOf_lt_length_of_mem ht
        simp only [h0, if_false]; omega
    cases d with
    | fwd =>
      simp only at hi
      rcases hi with hi | hi <;> rw [hi] <;> simp only [Spec.ACur.InRange, List.length_map] <;> exact hF _
    | rev =>
      simp only at hi
      rcases hi with hi | hi <;> rw [hi] <;> simp only [Spec.ACur.InRange, List.length_map] <;>
        exact hR _ hn

/-- a `next()` yields the first element of what the generator had left and leaves the rest -/
theorem Inv.next_rest {s : LSet} {bs : List Nat} (h : Inv s bs) (d : Dir) (c : Cursor)
    (hp : c.pos < size s) :
    rest s d c = match (iterNext s d c).2 with
      | .yield v => v :: rest s d (iterNext s d c).1
      | _ => [] := by
  have hn := h.next_eq d c hp
  simp only at hn
  obtain ⟨n1, n2, n3⟩ := hn
  have hr := Spec.rest_next (bs.map (vl s)) d (acur s bs d c) (acur_inRange h d c hp)
  rw [(h.rest_eq d c hp).1, hr]
  cases hv : (Spec.next (bs.map (vl s)) d (acur s bs d c)).2 with
  | none => rw [hv] at n3; simp only at n3; simp only [n3]
  | some v =>
    rw [hv] at n3
    simp only at n3
    simp only [n3]
    rw [(h.rest_eq d _ n2).1, n1]

/-- an operation that raises has written nothing -/
theorem apply_raised_unchanged {s : LSet} (h : WF s) (op : Op) (hf : (apply s op).2 = false) :
    (apply s op).1 = s := by
  obtain ⟨bs, hi⟩ := h
  have hp : Cursor.notStarted.pos < size s := by simpa [Cursor.pos] using hi.size_pos
  cases op with
  | append v =>
    obtain ⟨_, ho, _⟩ := sim_append hi v .fwd .notStarted hp
    simp only [apply] at hf; rw [ho] at hf; cases hf
  | extend vs =>
    obtain ⟨_, ho, _⟩ := sim_extend .fwd .notStarted vs hi hp
    simp only [apply] at hf; rw [ho] at hf; cases hf
  | insertAfter a vs =>
    simp only [apply, insertAfter] at hf ⊢
    cases hl : lookup s a with
    | none => rfl
    | some b =>
      rw [hl] at hf
      simp only at hf
      obtain ⟨hb, hv⟩ := hi.lookup_spec hl
      have hr : AncRel s bs b (some a) := Or.inr ⟨hb, by simp [vl, hv]⟩
      obtain ⟨_, ho, _⟩ := sim_insertManyAfter .fwd .notStarted vs hi hr hp
      rw [ho] at hf; cases hf
  | insertBefore a vs =>
    simp only [apply, insertBefore] at hf ⊢
    cases hl : lookup s a with
    | none => rfl
    | some b =>
      rw [hl] at hf
      simp only at hf
      obtain ⟨hb, hv⟩ := hi.lookup_spec hl
      obtain ⟨l1, l2, rfl⟩ := List.append_of_mem hb
      obtain ⟨_, ho, _⟩ := sim_insertManyAfter .fwd .notStarted vs hi (AncRel.pred hi) hp
      rw [ho] at hf; cases hf
  | remove v =>
    simp only [apply] at hf ⊢
    by_cases hm : ∃ n ∈ bs, val s n = some v
    · obtain ⟨n, hn, hvn⟩ := hm
      rw [hi.remove_eq hn hvn] at hf; cases hf
    · rw [hi.remove_absent (fun b hb hv => hm ⟨b, hb, hv⟩)]

/-- an operation adds only values it touches -/
theorem mem_toList_apply {s : LSet} (h : WF s) (op : Op) {v : Nat}
    (hv : v ∈ toList (apply s op).1) : v ∈ touched op ∨ v ∈ toList s := by
  obtain ⟨bs, hi⟩ := h
  have hp : Cursor.notStarted.pos < size s := by simpa [Cursor.pos] using hi.size_pos
  obtain ⟨bs', hi', hs, _, _⟩ := sim_apply hi op .fwd .notStarted hp
  have ok : (absSt s bs .fwd .notStarted).OK := ⟨hi.vals_nodup, acur_inRange hi .fwd .notStarted hp⟩
  obtain ⟨_, u⟩ := Spec.apply_spec ok op
  rw [← hs] at u
  have r1 : (absSt (apply s op).1 bs' .fwd .notStarted).rest = toList (apply s op).1 := by
    rw [hi'.toList_eq]; simp [Spec.St.rest, absSt, acur, Cursor.pos, posR, Spec.rest]
  have r2 : (absSt s bs .fwd .notStarted).rest = toList s := by
    rw [hi.toList_eq]; simp [Spec.St.rest, absSt, acur, Cursor.pos, posR, Spec.rest]
  rw [r1, r2] at u
  by_cases ht : v ∈ touched op
  · exact Or.inl ht
  · right
    have : v ∈ untouched (touched op) (toList (apply s op).1) := by
      simp only [untouched, List.mem_filter]; exact ⟨hv, by simpa using ht⟩
    rw [u] at this
    simp only [untouched, List.mem_filter] at this
    exact this.1

/-- a generator parked on a live box still yields exactly the values after (before) that box -/
theorem Inv.rest_at_live {s : LSet} {l1 l2 : List Nat} {b : Nat} (h : Inv s (l1 ++ b :: l2)) :
    rest s .fwd (.at b) = l2.map (vl s) ∧ rest s .rev (.at b) = l1.reverse.map (vl s) := by
  have hlen := h.length_le
  constructor
  · have hl := h.hopLinks .fwd
    have hl' : HopLinks s .fwd (b :: l2 ++ [0]) := by
      apply HopLinks_suffix (0 :: l1)
      simpa [seqD] using hl
    have := drain_links h .fwd l2 (.at b) (size s + 1) (by simp) (by simpa [Cursor.pos] using hl')
      (fun y hy => by simp [hy]) (by simp at hlen; omega)
    simp [rest, this]
  · have hl := h.hopLinks .rev
    have hl' : HopLinks s .rev (b :: l1.reverse ++ [0]) := by
      apply HopLinks_suffix (0 :: l2.reverse)
      simpa [seqD] using hl
    have := drain_links h .rev l1.reverse (.at b) (size s + 1) (by simp) (by simpa [Cursor.pos] using hl')
      (fun y hy => by simp at hy; simp [hy]) (by simp at hlen ⊢; omega)
    simp [rest, this]

/-- the value of the box a generator is parked on is not among what it still yields -/
theorem Inv.current_not_in_rest {s : LSet} {bs : List Nat} (h : Inv s bs) (d : Dir) {b x : Nat}
    (hb : val s b = some x) : x ∉ rest s d (.at b) := by
  have hbm : b ∈ bs := (h.isSome_iff b).1 (by simp [hb])
  obtain ⟨l1, l2, rfl⟩ := List.append_of_mem hbm
  have hx : vl s b = x := by simp [vl, hb]
  have hnd := h.vals_nodup
  rw [List.map_append, List.map_cons, hx] at hnd
  obtain ⟨r1, r2⟩ := h.rest_at_live
  cases d with
  | fwd => rw [r1]; intro hm; have := List.nodup_append.1 hnd; grind
  | rev => rw [r2]; intro hm; rw [List.map_reverse] at hm; have := List.nodup_append.1 hnd; grind

end IrVerif.LinkedSet

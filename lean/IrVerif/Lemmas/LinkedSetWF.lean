/-
Top-level vocabulary shared by Props/C11 and the recursive-iterator development: `WF`,
`Cursor.Valid`, the executable abstraction `abs`, and the "next() takes the head of rest" fact at
the `Inv` level.
-/
import IrVerif.Lemmas.LinkedSetSim
import IrVerif.Lemmas.LinkedSetSpec
import IrVerif.Lemmas.LinkedSetFrozen
namespace IrVerif.LinkedSet

/-- The representation invariant: there is a list `bs` of live boxes such that `Inv s bs` — the
live boxes form one prev/next cycle through the root, the dict maps exactly the stored values to
their boxes, `_length` is their number, every box is owned by this list, and every erased box's
stored pointers lead to the root, a live box or a box erased strictly later. -/
def WF (s : LSet) : Prop := ∃ bs, Inv s bs

/-- a cursor refers to an existing box (true of `notStarted`, `done` and of every cursor a
`next()` returns) -/
def Cursor.Valid (s : LSet) (c : Cursor) : Prop := c.pos < size s

/-- abstraction to the list-with-gaps machine, using only executable functions of the model -/
def abs (s : LSet) (d : Dir) (c : Cursor) : Spec.St := ⟨toList s, d, absCur s d c⟩

theorem abs_eq {s : LSet} {bs : List Nat} (h : Inv s bs) (d : Dir) (c : Cursor) :
    abs s d c = absSt s bs d c := by
  simp only [abs, absSt, h.toList_eq, h.absCur_eq]

theorem acur_inRange {s : LSet} {bs : List Nat} (h : Inv s bs) (d : Dir) (c : Cursor)
    (hc : c.pos < size s) : (acur s bs d c).InRange (bs.map (vl s)) := by
  by_cases hd : c = .done
  · subst hd; rw [acur_done]; trivial
  · obtain ⟨hn, hi⟩ := h.acur_index d hd hc
    have hF : ∀ t, posF bs t ≤ bs.length := fun t => List.idxOf_le_length
    have hR : ∀ t, IsNode bs t → posR bs t ≤ bs.length := by
      intro t ht
      unfold posR
      rcases ht with rfl | ht
      · simp
      · have h0 : t ≠ 0 := by rintro rfl; exact h.zero_notin ht
        have := List.idxOf_lt_length_of_mem ht
        simp only [h0, if_false]; omega
    cases d with
    | fwd =>
      simp only at hi
      rcases hi with hi | hi <;> rw [hi] <;> simp only [Spec.ACur.InRange, List.length_map] <;> exact hF _
    | rev =>
      simp only at hi
      rcases hi with hi | hi <;> rw [hi] <;> simp only [Spec.ACur.InRange, List.length_map] <;>
        exact hR _ hn

/-- a `next()` yields the first element of what the generator had left and leaves the rest -/
theorem Inv.next_rest {s : LSet} {bs : List Nat} (h : Inv s bs) (d : Dir) (c : Cursor)
    (hp : c.pos < size s) :
    rest s d c = match (iterNext s d c).2 with
      | .yield v => v :: rest s d (iterNext s d c).1
      | _ => [] := by
  have hn := h.next_eq d c hp
  simp only at hn
  obtain ⟨n1, n2, n3⟩ := hn
  have hr := Spec.rest_next (bs.map (vl s)) d (acur s bs d c) (acur_inRange h d c hp)
  rw [(h.rest_eq d c hp).1, hr]
  cases hv : (Spec.next (bs.map (vl s)) d (acur s bs d c)).2 with
  | none => rw [hv] at n3; simp only at n3; simp only [n3]
  | some v =>
    rw [hv] at n3
    simp only at n3
    simp only [n3]
    rw [(h.rest_eq d _ n2).1, n1]

end IrVerif.LinkedSet

/-
C15 part B+: node names for an arbitrary name generator (`runTrX gen`), the analogue of `Lemmas/NamesNodes.lean`.
-/
import IrVerif.Lemmas.NamesGenScope
namespace IrVerif.Names

variable {gen : NameGen}

/-! ### once raised, nothing happens any more -/

theorem processValueX_raised {st : FixStX} (h : st.raised = true) (v : Nat) : processValueX gen st v = st := by
  unfold processValueX; simp [h]

theorem processValuesX_raised {st : FixStX} (h : st.raised = true) : ∀ vs, processValuesX gen st vs = st
  | [] => rfl
  | v :: vs => by
    have : processValuesX gen st (v :: vs) = processValuesX gen (processValueX gen st v) vs := by simp [processValuesX]
    rw [this, processValueX_raised h, processValuesX_raised h vs]

theorem fixNodeNameX_raised {st : FixStX} (h : st.raised = true) (n : Nat) : fixNodeNameX gen st n = st := by
  unfold fixNodeNameX; simp [h]

theorem enterGraphX_raised {st : FixStX} (h : st.raised = true) (g : Nat) (isG : Bool) (ins outs bouts : List Nat) :
    enterGraphX gen st g isG ins outs bouts = st := by
  unfold enterGraphX; simp [h]

theorem exitGraphX_raised {st : FixStX} (h : st.raised = true) : exitGraphX st = st := by
  unfold exitGraphX; simp [h]

theorem runTrX_raised : ∀ (t : Tr) {st : FixStX}, st.raised = true → runTrX gen t st = st := by
  intro t
  induction t with
  | nil => intro st _; rfl
  | node n ins outs subs rest ihs ihr =>
    intro st h
    simp only [runTrX, visitNodeX]
    rw [fixNodeNameX_raised h, processValuesX_raised h, ihs h, ihr h]
  | graph g isG ins outs body rest ihb ihr =>
    intro st h
    simp only [runTrX]
    rw [enterGraphX_raised h, enterGraphX_raised h, ihb h, exitGraphX_raised h, exitGraphX_raised h, ihr h]

theorem raisedX_of {f : FixStX → FixStX} (hf : ∀ st, st.raised = true → f st = st) {st : FixStX}
    (h : (f st).raised = false) : st.raised = false := by
  cases hr : st.raised with
  | false => rfl
  | true => rw [hf st hr, hr] at h; cases h

/-! ### value steps do not touch node names -/

/-- the node-side fields -/
structure NEqX (st st' : FixStX) : Prop where
  nname : st'.nname = st.nname
  nstack : st'.nstack = st.nstack
  ncnt : st'.ncnt = st.ncnt
  resN : st'.resN = st.resN

theorem NEqX.refl (st : FixStX) : NEqX st st := ⟨rfl, rfl, rfl, rfl⟩
theorem NEqX.trans {a b c : FixStX} (h1 : NEqX a b) (h2 : NEqX b c) : NEqX a c :=
  ⟨h2.nname.trans h1.nname, h2.nstack.trans h1.nstack, h2.ncnt.trans h1.ncnt, h2.resN.trans h1.resN⟩

theorem setNameT_nname (w : TWorld) (v : Nat) (new : String) : (w.setNameT v new).1.nname = w.nname := by
  unfold TWorld.setNameT
  repeat' split
  all_goals first | rfl | exact setName_nname _ _ _

theorem renameToX_NEq (st : FixStX) (v : Nat) (p : String) : NEqX st (renameToX st v p) := by
  unfold renameToX
  dsimp only
  split <;> exact ⟨setNameT_nname _ _ _, rfl, rfl, rfl⟩

theorem processValueX_NEq (st : FixStX) (v : Nat) : NEqX st (processValueX gen st v) := by
  unfold processValueX
  split
  · exact NEqX.refl _
  · split
    · exact NEqX.refl _
    · split
      · exact renameToX_NEq _ _ _
      · dsimp only
        split
        · exact ⟨rfl, rfl, rfl, rfl⟩
        · exact renameToX_NEq _ _ _

theorem processValuesX_NEq : ∀ (vs : List Nat) (st : FixStX), NEqX st (processValuesX gen st vs)
  | [], st => NEqX.refl st
  | v :: vs, st => by
    have : processValuesX gen st (v :: vs) = processValuesX gen (processValueX gen st v) vs := by simp [processValuesX]
    rw [this]
    exact (processValueX_NEq st v).trans (processValuesX_NEq vs _)

theorem enterGraphX_nodes {st : FixStX} (h : st.raised = false) (g : Nat) (isG : Bool) (ins outs bouts : List Nat) :
    (enterGraphX gen st g isG ins outs bouts).nname = st.nname ∧ (enterGraphX gen st g isG ins outs bouts).nstack = [] :: st.nstack
    ∧ (enterGraphX gen st g isG ins outs bouts).ncnt = st.ncnt ∧ (enterGraphX gen st g isG ins outs bouts).resN = st.resN := by
  rw [enterGraphX_eq h]
  have e1 := processValuesX_NEq (gen := gen) ins (pushScopeX st)
  have e2 := processValuesX_NEq (gen := gen) outs (processValuesX gen (pushScopeX st) ins)
  cases isG with
  | false =>
    simp only [Bool.false_eq_true, if_false]
    have e := (e1.trans e2).trans (processValuesX_NEq (gen := gen) bouts _)
    exact ⟨e.nname, e.nstack, e.ncnt, e.resN⟩
  | true =>
    simp only [if_true]
    have e := ((e1.trans e2).trans (processValuesX_NEq (gen := gen) (((processValuesX gen (processValuesX gen (pushScopeX st) ins) outs).dicts g).map (·.2))
      (processValuesX gen (processValuesX gen (pushScopeX st) ins) outs))).trans (processValuesX_NEq (gen := gen) bouts _)
    exact ⟨e.nname, e.nstack, e.ncnt, e.resN⟩

/-- postcondition for the nodes of one graph -/
structure NScopeOKX (c : NCfg) (st : FixStX) (N : List Nat) : Prop where
  inj : ∀ a ∈ N, ∀ b ∈ N, a ≠ b → st.nname a ≠ st.nname b
  named : ∀ n ∈ N, truthy (st.nname n) = true
  kept : ∀ n ∈ N, truthy (c.orign n) = true → (∀ m ∈ N, m ≠ n → c.orign m ≠ c.orign n) → st.nname n = c.orign n
  /-- `N` is in visiting order: the first holder of a name keeps it -/
  first : FirstB c.orign st.nname N

structure NGoodX (c : NCfg) (st : FixStX) (N : List Nat) : Prop extends NScopeOKX c st N where
  top_iff : ∀ s, s ∈ topOf st.nstack ↔ ∃ n ∈ N, st.nname n = some s
  gen : ∀ n ∈ N, st.nname n = c.orign n ∨ ∃ s, st.nname n = some s ∧ s ∉ c.resN

theorem NScopeOKX.of_eq {c : NCfg} {st st' : FixStX} {N : List Nat} (h : NScopeOKX c st N)
    (e : ∀ n ∈ N, st'.nname n = st.nname n) : NScopeOKX c st' N :=
  ⟨fun a ha b hb hab => by rw [e a ha, e b hb]; exact h.inj a ha b hb hab,
   fun n hn => by rw [e n hn]; exact h.named n hn,
   fun n hn h1 h2 => by rw [e n hn]; exact h.kept n hn h1 h2,
   h.first.fin_eq e⟩

theorem NGoodX.of_eq {c : NCfg} {st st' : FixStX} {N : List Nat} (h : NGoodX c st N)
    (e : ∀ n ∈ N, st'.nname n = st.nname n) (et : topOf st'.nstack = topOf st.nstack) : NGoodX c st' N :=
  { toNScopeOKX := h.toNScopeOKX.of_eq e
    top_iff := fun s => by
      rw [et, h.top_iff s]
      constructor
      · rintro ⟨n, hn, hs⟩; exact ⟨n, hn, by rw [e n hn]; exact hs⟩
      · rintro ⟨n, hn, hs⟩; exact ⟨n, hn, by rw [← e n hn]; exact hs⟩
    gen := fun n hn => by rw [e n hn]; exact h.gen n hn }

/-- what `_assign_node_name` / `_fix_duplicate_node_name` do with a generator that never answers the empty string -/
theorem fixNodeNameX_spec (hgen : gen.NonEmpty) {st : FixStX} (h : st.raised = false) (n : Nat) :
    ∃ f, (fixNodeNameX gen st n).nname = upd st.nname n (some f) ∧ f ≠ "" ∧ f ∉ topOf st.nstack
      ∧ (fixNodeNameX gen st n).nstack = (f :: topOf st.nstack) :: st.nstack.tail
      ∧ (st.nname n = some f ∨ f ∉ st.resN)
      ∧ (∀ s, st.nname n = some s → s ≠ "" → s ∉ topOf st.nstack → f = s)
      ∧ (fixNodeNameX gen st n).resN = st.resN := by
  have hfu : ∀ c, (findUnique (gen.n n (st.nname n)) (topOf st.nstack) st.resN c).1 ≠ "" := by
    intro c
    obtain ⟨_, _, hf3⟩ := findUnique_spec (gen.n n (st.nname n)) (topOf st.nstack) st.resN c
    rcases hf3 with ⟨e, _⟩ | ⟨k, _, e, _⟩
    · rw [e]; exact (hgen n (st.nname n)).2
    · simp [e, sufName_ne_empty]
  unfold fixNodeNameX
  rw [if_neg (by simp [h])]
  dsimp only
  by_cases ht : truthy (st.nname n) = true
  · obtain ⟨s, hs, hsne⟩ := truthy_iff.mp ht
    simp only [ht, Bool.not_true, Bool.false_eq_true, if_false]
    have hgd : (st.nname n).getD "" = s := by rw [hs]; rfl
    rw [hgd]
    by_cases htop : s ∈ topOf st.nstack
    · have : (topOf st.nstack).contains s = true := by simpa using htop
      simp only [this, Bool.not_true, Bool.false_eq_true, if_false]
      obtain ⟨hf1, hf2, _⟩ := findUnique_spec (gen.n n (st.nname n)) (topOf st.nstack) st.resN (st.ncnt (gen.n n (st.nname n)))
      refine ⟨_, rfl, hfu _, hf1, pushTop_eq _ _, Or.inr hf2, ?_, trivial⟩
      intro s' hs' _ hnot; rw [hs] at hs'; cases hs'; exact absurd htop hnot
    · have : (topOf st.nstack).contains s = false := by simpa using htop
      simp only [this, Bool.not_false, if_true]
      refine ⟨s, ?_, hsne, htop, pushTop_eq _ _, Or.inl hs, fun s' hs' _ _ => by rw [hs] at hs'; exact Option.some.inj hs', trivial⟩
      show st.nname = upd st.nname n (some s)
      rw [← hs, upd_same]
  · have ht' : truthy (st.nname n) = false := by simpa using ht
    simp only [ht', Bool.not_false, if_true]
    obtain ⟨hf1, hf2, _⟩ := findUnique_spec (gen.n n (st.nname n)) (topOf st.nstack) st.resN (st.ncnt (gen.n n (st.nname n)))
    refine ⟨_, rfl, hfu _, hf1, pushTop_eq _ _, Or.inr hf2, ?_, trivial⟩
    intro s hs hsne _
    exact absurd (truthy_iff.mpr ⟨s, hs, hsne⟩) ht

/-- visiting one more node of the current graph -/
theorem fixNodeNameX_NGood (hgen : gen.NonEmpty) {c : NCfg} {st : FixStX} (h : st.raised = false) {N : List Nat} (good : NGoodX c st N)
    (hres : st.resN = c.resN) {n : Nat} (hn : n ∉ N) (horig : st.nname n = c.orign n)
    (hcol : ∀ s, c.orign n = some s → s ≠ "" → s ∈ c.resN) :
    NGoodX c (fixNodeNameX gen st n) (N ++ [n]) ∧ (∀ m, m ≠ n → (fixNodeNameX gen st n).nname m = st.nname m) := by
  obtain ⟨f, hname, hfne, hftop, hstk, hfres, hfkeep, _⟩ := fixNodeNameX_spec hgen h n
  have hoth : ∀ m, m ≠ n → (fixNodeNameX gen st n).nname m = st.nname m := fun m hm => by rw [hname, upd_ne _ _ hm]
  have hself : (fixNodeNameX gen st n).nname n = some f := by rw [hname]; simp
  have hothN : ∀ m ∈ N, (fixNodeNameX gen st n).nname m = st.nname m := fun m hm => hoth m (fun e => hn (e ▸ hm))
  have htop : topOf (fixNodeNameX gen st n).nstack = f :: topOf st.nstack := by rw [hstk]; rfl
  have hnew : truthy (c.orign n) = true → (∀ m ∈ N, c.orign m ≠ c.orign n) → (fixNodeNameX gen st n).nname n = c.orign n := by
    intro h1 h2
    obtain ⟨s, hs, hsne⟩ := truthy_iff.mp h1
    have hs' : st.nname n = some s := horig.trans hs
    have hnot : s ∉ topOf st.nstack := by
      intro hin
      obtain ⟨m, hm, hms⟩ := (good.top_iff s).mp hin
      rcases good.gen m hm with g | ⟨s', e1, e2⟩
      · exact h2 m hm (by rw [← g, hms, hs])
      · rw [hms] at e1; cases e1; exact e2 (hcol s hs hsne)
    rw [hself, hfkeep s hs' hsne hnot, hs]
  refine ⟨{ inj := ?_, named := ?_, kept := ?_, first := (good.first.fin_eq hothN).snoc hn hnew, top_iff := ?_, gen := ?_ }, hoth⟩
  · have key : ∀ a ∈ N, (fixNodeNameX gen st n).nname a ≠ (fixNodeNameX gen st n).nname n := by
      intro a ha e
      rw [hothN a ha, hself] at e
      exact hftop ((good.top_iff f).mpr ⟨a, ha, e⟩)
    intro a ha b hb hab
    simp only [List.mem_append, List.mem_singleton] at ha hb
    rcases ha with ha | rfl <;> rcases hb with hb | rfl
    · rw [hothN a ha, hothN b hb]; exact good.inj a ha b hb hab
    · exact key a ha
    · exact fun e => key b hb e.symm
    · exact absurd rfl hab
  · intro m hm
    simp only [List.mem_append, List.mem_singleton] at hm
    rcases hm with hm | rfl
    · rw [hothN m hm]; exact good.named m hm
    · rw [hself]; exact truthy_iff.mpr ⟨f, rfl, hfne⟩
  · intro x hx h1 h2
    simp only [List.mem_append, List.mem_singleton] at hx
    rcases hx with hx | rfl
    · rw [hothN x hx]; exact good.kept x hx h1 (fun m hm => h2 m (List.mem_append_left _ hm))
    · obtain ⟨s, hs, hsne⟩ := truthy_iff.mp h1
      have hs' : st.nname x = some s := horig.trans hs
      have hnot : s ∉ topOf st.nstack := by
        intro hin
        obtain ⟨m, hm, hms⟩ := (good.top_iff s).mp hin
        have hmx : m ≠ x := fun e => hn (e ▸ hm)
        rcases good.gen m hm with g | ⟨s', e1, e2⟩
        · exact h2 m (List.mem_append_left _ hm) hmx (by rw [← g, hms, hs])
        · rw [hms] at e1; cases e1; exact e2 (hcol s hs hsne)
      rw [hself, hfkeep s hs' hsne hnot, hs]
  · intro s
    rw [htop, List.mem_cons]
    simp only [List.mem_append, List.mem_singleton]
    constructor
    · rintro (rfl | hs)
      · exact ⟨n, Or.inr rfl, hself⟩
      · obtain ⟨m, hm, hms⟩ := (good.top_iff s).mp hs
        exact ⟨m, Or.inl hm, by rw [hothN m hm]; exact hms⟩
    · rintro ⟨m, hm | rfl, hms⟩
      · exact Or.inr ((good.top_iff s).mpr ⟨m, hm, by rw [← hothN m hm]; exact hms⟩)
      · rw [hself] at hms; exact Or.inl (Option.some.inj hms).symm
  · intro m hm
    simp only [List.mem_append, List.mem_singleton] at hm
    rcases hm with hm | rfl
    · rw [hothN m hm]; exact good.gen m hm
    · rw [hself]
      rcases hfres with e | e
      · exact Or.inl (by rw [← horig, e])
      · exact Or.inr ⟨f, rfl, hres ▸ e⟩


theorem exitGraphX_nodes {st : FixStX} (h : st.raised = false) :
    (exitGraphX st).nname = st.nname ∧ (exitGraphX st).nstack = st.nstack.tail ∧ (exitGraphX st).resN = st.resN := by
  rw [exitGraphX_eq h]; exact ⟨rfl, rfl, rfl⟩

/-- **node names**: the induction over the traversal (node ids pairwise different) -/
theorem runTrX_nodes (hgen : gen.NonEmpty) {c : NCfg} : ∀ (t : Tr) {st : FixStX} {N : List Nat},
    (runTrX gen t st).raised = false → st.resN = c.resN → NGoodX c st N →
    (allNodes t).Nodup → (∀ n ∈ allNodes t, n ∉ N ∧ st.nname n = c.orign n) →
    (∀ n ∈ allNodes t, ∀ s, c.orign n = some s → s ≠ "" → s ∈ c.resN) →
      NGoodX c (runTrX gen t st) (N ++ bodyNodes t)
      ∧ (runTrX gen t st).nstack.tail = st.nstack.tail
      ∧ (∀ m, m ∉ allNodes t → (runTrX gen t st).nname m = st.nname m)
      ∧ (runTrX gen t st).resN = st.resN
      ∧ ∀ L ∈ allNodeScopes t, NScopeOKX c (runTrX gen t st) L := by
  intro t
  induction t with
  | nil =>
    intro st N _ _ good _ _ _
    simp only [runTrX, bodyNodes, List.append_nil]
    exact ⟨good, trivial, fun _ _ => trivial, trivial, fun L hL => by simp [allNodeScopes] at hL⟩
  | node n ins outs subs rest ihs ihr =>
    intro st N hfin hres good hnd hfresh hcol
    simp only [runTrX, visitNodeX] at hfin ⊢
    simp only [allNodes, List.nodup_cons, List.mem_append, not_or, List.nodup_append] at hnd
    obtain ⟨⟨hn_s, hn_r⟩, hnd_s, hnd_r, hdisj⟩ := hnd
    -- nothing raised on the way
    have h3 : (runTrX gen subs (processValuesX gen (fixNodeNameX gen st n) (nodeVals ins outs))).raised = false :=
      raisedX_of (fun s h => runTrX_raised rest h) hfin
    have h2 : (processValuesX gen (fixNodeNameX gen st n) (nodeVals ins outs)).raised = false :=
      raisedX_of (fun s h => runTrX_raised subs h) h3
    have h1 : (fixNodeNameX gen st n).raised = false := raisedX_of (fun s h => processValuesX_raised h _) h2
    have h0 : st.raised = false := raisedX_of (fun s h => fixNodeNameX_raised h n) h1
    have hn := hfresh n (by simp [allNodes])
    -- this node
    obtain ⟨g1, o1⟩ := fixNodeNameX_NGood hgen h0 good hres hn.1 hn.2 (hcol n (by simp [allNodes]))
    have r1 : (fixNodeNameX gen st n).resN = st.resN := (fixNodeNameX_spec hgen h0 n).choose_spec.2.2.2.2.2.2
    have e2 := processValuesX_NEq (gen := gen) (nodeVals ins outs) (fixNodeNameX gen st n)
    have g2 : NGoodX c (processValuesX gen (fixNodeNameX gen st n) (nodeVals ins outs)) (N ++ [n]) :=
      g1.of_eq (fun m _ => by rw [e2.nname]) (by rw [e2.nstack])
    -- the graphs it holds
    obtain ⟨g3, t3, f3, r3, s3⟩ := ihs h3 (by rw [e2.resN, r1, hres]) g2 hnd_s
      (fun m hm => by
        have hmn : m ≠ n := fun e => hn_s (e ▸ hm)
        refine ⟨?_, ?_⟩
        · simp only [List.mem_append, List.mem_singleton, not_or]
          exact ⟨(hfresh m (by simp [allNodes, hm])).1, hmn⟩
        · rw [e2.nname, o1 m hmn]; exact (hfresh m (by simp [allNodes, hm])).2)
      (fun m hm => hcol m (by simp [allNodes, hm]))
    -- the following nodes
    obtain ⟨g4, t4, f4, r4, s4⟩ := ihr hfin (by rw [r3, e2.resN, r1, hres]) g3 hnd_r
      (fun m hm => by
        have hmn : m ≠ n := fun e => hn_r (e ▸ hm)
        have hms : m ∉ allNodes subs := fun h => hdisj m h m hm rfl
        refine ⟨?_, ?_⟩
        · simp only [List.mem_append, List.mem_singleton, not_or]
          exact ⟨⟨(hfresh m (by simp [allNodes, hm])).1, hmn⟩, fun h => hms (bodyNodes_sub_allNodes subs m h)⟩
        · rw [f3 m hms, e2.nname, o1 m hmn]; exact (hfresh m (by simp [allNodes, hm])).2)
      (fun m hm => hcol m (by simp [allNodes, hm]))
    refine ⟨?_, ?_, ?_, ?_, ?_⟩
    · simpa [bodyNodes, List.append_assoc] using g4
    · rw [t4, t3, e2.nstack, (fixNodeNameX_spec hgen h0 n).choose_spec.2.2.2.1]; rfl
    · intro m hm
      simp only [allNodes, List.mem_cons, List.mem_append, not_or] at hm
      rw [f4 m hm.2.2, f3 m hm.2.1, e2.nname, o1 m hm.1]
    · rw [r4, r3, e2.resN, r1]
    · intro L hL
      simp only [allNodeScopes, List.mem_append] at hL
      rcases hL with hL | hL
      · refine (s3 L hL).of_eq (fun m hm => f4 m ?_)
        exact fun h => hdisj m (allNodeScopes_sub subs L hL m hm) m h rfl
      · exact s4 L hL
  | graph g isG ins outs body rest ihb ihr =>
    intro st N hfin hres good hnd hfresh hcol
    simp only [runTrX] at hfin ⊢
    simp only [allNodes, List.nodup_append] at hnd
    obtain ⟨hnd_b, hnd_r, hdisj⟩ := hnd
    have h5 : (exitGraphX (exitGraphX (runTrX gen body (enterGraphX gen (enterGraphX gen st g isG ins outs (bodyOuts body)) g isG ins outs (bodyOuts body))))).raised = false :=
      raisedX_of (fun s h => runTrX_raised rest h) hfin
    have h4 := raisedX_of (fun s h => exitGraphX_raised h) h5
    have h3 := raisedX_of (fun s h => exitGraphX_raised h) h4
    have h2 := raisedX_of (fun s h => runTrX_raised body h) h3
    have h1 := raisedX_of (fun s h => enterGraphX_raised h g isG ins outs (bodyOuts body)) h2
    have h0 := raisedX_of (fun s h => enterGraphX_raised h g isG ins outs (bodyOuts body)) h1
    obtain ⟨n1, k1, _, r1⟩ := enterGraphX_nodes h0 g isG ins outs (bodyOuts body)
    obtain ⟨n2, k2, _, r2⟩ := enterGraphX_nodes h1 g isG ins outs (bodyOuts body)
    have g2 : NGoodX c (enterGraphX gen (enterGraphX gen st g isG ins outs (bodyOuts body)) g isG ins outs (bodyOuts body)) [] :=
      { inj := fun a ha => by simp at ha, named := fun a ha => by simp at ha, kept := fun a ha => by simp at ha
        first := FirstB.nil _ _
        top_iff := fun s => by rw [k2]; simp [topOf]
        gen := fun a ha => by simp at ha }
    obtain ⟨g3, t3, f3, r3, s3⟩ := ihb h3 (by rw [r2, r1, hres]) g2 hnd_b
      (fun m hm => ⟨by simp, by rw [n2, n1]; exact (hfresh m (by simp [allNodes, hm])).2⟩)
      (fun m hm => hcol m (by simp [allNodes, hm]))
    obtain ⟨n4, k4, r4⟩ := exitGraphX_nodes h3
    obtain ⟨n5, k5, r5⟩ := exitGraphX_nodes h4
    have hname5 : ∀ m, (exitGraphX (exitGraphX (runTrX gen body (enterGraphX gen (enterGraphX gen st g isG ins outs (bodyOuts body)) g isG ins outs (bodyOuts body))))).nname m
        = (runTrX gen body (enterGraphX gen (enterGraphX gen st g isG ins outs (bodyOuts body)) g isG ins outs (bodyOuts body))).nname m := by
      intro m; rw [n5, n4]
    have hstk5 : (exitGraphX (exitGraphX (runTrX gen body (enterGraphX gen (enterGraphX gen st g isG ins outs (bodyOuts body)) g isG ins outs (bodyOuts body))))).nstack = st.nstack := by
      rw [k5, k4, t3, k2, k1]; rfl
    have g5 : NGoodX c (exitGraphX (exitGraphX (runTrX gen body (enterGraphX gen (enterGraphX gen st g isG ins outs (bodyOuts body)) g isG ins outs (bodyOuts body))))) N :=
      good.of_eq (fun m hm => by
        have : m ∉ allNodes body := fun h => (hfresh m (by simp [allNodes, h])).1 hm
        rw [hname5, f3 m this, n2, n1]) (by rw [hstk5])
    obtain ⟨g6, t6, f6, r6, s6⟩ := ihr hfin (by rw [r5, r4, r3, r2, r1, hres]) g5 hnd_r
      (fun m hm => by
        have hmb : m ∉ allNodes body := fun h => hdisj m h m hm rfl
        exact ⟨(hfresh m (by simp [allNodes, hm])).1, by
          rw [hname5, f3 m hmb, n2, n1]; exact (hfresh m (by simp [allNodes, hm])).2⟩)
      (fun m hm => hcol m (by simp [allNodes, hm]))
    refine ⟨by simpa [bodyNodes] using g6, by rw [t6, hstk5], ?_, by rw [r6, r5, r4, r3, r2, r1], ?_⟩
    · intro m hm
      simp only [allNodes, List.mem_append, not_or] at hm
      rw [f6 m hm.2, hname5, f3 m hm.1, n2, n1]
    · intro L hL
      simp only [allNodeScopes, List.mem_cons, List.mem_append] at hL
      have key : ∀ L', (∀ m ∈ L', m ∈ allNodes body) →
          NScopeOKX c (runTrX gen body (enterGraphX gen (enterGraphX gen st g isG ins outs (bodyOuts body)) g isG ins outs (bodyOuts body))) L' →
          NScopeOKX c (runTrX gen rest (exitGraphX (exitGraphX (runTrX gen body (enterGraphX gen (enterGraphX gen st g isG ins outs (bodyOuts body)) g isG ins outs (bodyOuts body)))))) L' := by
        intro L' hsub hok
        refine hok.of_eq (fun m hm => ?_)
        rw [f6 m (fun h => hdisj m (hsub m hm) m h rfl), hname5]
      rcases hL with rfl | hL | hL
      · refine key _ (fun m hm => bodyNodes_sub_allNodes body m hm) ?_
        simpa using g3.toNScopeOKX
      · exact key L (allNodeScopes_sub body L hL) (s3 L hL)
      · exact s6 L hL


end IrVerif.Names

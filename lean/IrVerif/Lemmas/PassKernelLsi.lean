/-
C14 (wave 5): LiftSubgraphInitializersToMainGraph as a kernel program renames only the initializers it lifts: after a
run that returns, a value that had a name has exactly that name or is an initializer of the main graph.
-/
import IrVerif.Lemmas.PassKernelOuts3
import IrVerif.Lemmas.KernelInit
namespace IrVerif.PassKernel
open IrVerif.Kernel IrVerif.Kernel.World

/-- `u` is an initializer of graph `main` -/
def Lifted (main : Nat) (w : World) (u : Nat) : Prop := (w.val u).isInit = true ∧ (w.val u).graph = some main

/-- an accepted `initializers.pop(key)`: only the popped value changes, and it is no initializer afterwards -/
theorem initPop_ok (w : World) (g : Nat) (key : String) (v : Nat) (hl : lookupInit (w.gr g).inits key = some v) :
    (∀ u, u ≠ v → ((initMut w g (.pop key)).1.val u) = w.val u) ∧
    ((initMut w g (.pop key)).1.val v).isInit = false := by
  simp only [initMut]
  have hb : (lookupInit (w.gr g).inits key).isNone = false := by simp [hl]
  rw [hb, guardOp_fst_false]
  refine ⟨fun u hu => ?_, ?_⟩
  · rw [initDel_val w g key v hl, if_neg hu]
  · rw [initDel_val w g key v hl, if_pos rfl]; rfl

/-- `Value.name = s` for a value that is no initializer: every other value is untouched -/
theorem setName_noninit_val (w : World) (v : Nat) (s : Option String) (hi : (w.val v).isInit = false) (u : Nat) (hu : u ≠ v) :
    ((setName w v s).1.val u) = w.val u := by
  unfold setName; simp only [hi, Bool.false_and, Bool.or_false, Bool.false_eq_true, if_false]
  cases hb : (decide ((w.val v).name ≠ s) && constLocked w v) with
  | true => rw [guardOp_true]
  | false =>
    rw [guardOp_fst_false]
    split
    · rfl
    · rw [setNamePlain_val, if_neg hu]

/-- an accepted `register_initializer(v)`: `v` is an initializer of the graph, every other value is untouched -/
theorem initRegister_ok (w : World) (g v : Nat) (h : (initMut w g (.register v)).2 = .ok) :
    Lifted g (initMut w g (.register v)).1 v ∧ ∀ u, u ≠ v → ((initMut w g (.register v)).1.val u) = w.val u := by
  simp only [initMut] at h ⊢
  have hbad := guardOp_ok _ _ _ _ h
  rw [hbad, guardOp_fst_false]
  simp only [Bool.or_eq_false_iff, Bool.not_eq_false'] at hbad
  obtain ⟨⟨⟨⟨_, _⟩, hold⟩, _⟩, hok⟩ := hbad
  refine ⟨?_, fun u hu => ?_⟩
  · unfold Lifted
    rw [initPut_val _ _ _ _ hok, if_pos rfl]
    exact ⟨rfl, rfl⟩
  · rw [initPut_val _ _ _ _ hok, if_neg hu]
    split
    · rename_i hlu
      rw [hlu] at hold
      simp only [ne_eq, decide_eq_false_iff_not, not_not] at hold
      exact absurd hold hu
    · rfl

/-- what the fold carries: in a run that has not raised, a value that had a name has it or was lifted -/
def LsiNames (w0 : World) (main : Nat) (st : KSt) : Prop :=
  st.raised = false → ∀ u nm, (w0.val u).name = some nm → (st.w.val u).name = some nm ∨ Lifted main st.w u

theorem lsiInitK_names (w0 : World) (main g : Nat) (outN inN : List String) (p : KSt × List (String × Nat) × Nat)
    (key : String) (h : LsiNames w0 main p.1) : LsiNames w0 main (lsiInitK main g outN inN p key).1 := by
  unfold lsiInitK
  by_cases hr : p.1.raised = true
  · simp only [hr, if_true]; exact h
  · have hr' : p.1.raised = false := by simpa using hr
    simp only [hr', Bool.false_eq_true, if_false]
    split
    · intro hc; simp [KSt.fail] at hc
    · rename_i v hl
      split
      · exact h
      · split
        · exact h
        · split
          · intro hc; simp [KSt.fail] at hc
          · rename_i nn c _
            intro hr3 u nm hn
            obtain ⟨hr2, hok3⟩ := KSt.call_ok hr3
            obtain ⟨hr1, _⟩ := KSt.call_ok hr2
            -- the three worlds
            have e1 : (p.1.call (.one (.init g (.pop key)))).w = (initMut p.1.w g (.pop key)).1 := KSt.call_w _ _ hr'
            have e2 := KSt.call_w (p.1.call (.one (.init g (.pop key)))) (.one (.setName v (some nn))) hr1
            have e3 := KSt.call_w ((p.1.call (.one (.init g (.pop key)))).call (.one (.setName v (some nn))))
              (.one (.init main (.register v))) hr2
            obtain ⟨hpop, hpopv⟩ := initPop_ok p.1.w g key v hl
            simp only [stepAny, step] at e2 e3 hok3
            have hreg := initRegister_ok _ main v hok3
            by_cases huv : u = v
            · subst huv
              right
              rw [e3]; exact hreg.1
            · have hv1 : ((p.1.call (.one (.init g (.pop key)))).w.val v).isInit = false := by rw [e1]; exact hpopv
              have hu3 : ((((p.1.call (.one (.init g (.pop key)))).call (.one (.setName v (some nn)))).call
                  (.one (.init main (.register v)))).w.val u) = p.1.w.val u := by
                rw [e3, hreg.2 u huv, e2, setName_noninit_val _ v _ hv1 u huv, e1, hpop u huv]
              rcases h hr' u nm hn with hk | hk
              · left; rw [hu3]; exact hk
              · right; unfold Lifted at hk ⊢; rw [hu3]; exact hk

theorem lsiModelK_names (fuel : Nat) (w : World) (g : Nat) : LsiNames w g (lsiModelK fuel w g).1 := by
  simp only [lsiModelK]
  refine foldl_inv (fun p : KSt × List (String × Nat) × Nat => LsiNames w g p.1) _ (fun p sub hp => ?_) _ _
    (fun _ u nm hn => Or.inl hn)
  exact foldl_inv (fun p : KSt × List (String × Nat) × Nat => LsiNames w g p.1) _
    (fun p key hp => lsiInitK_names w g sub _ _ p key hp) _ p hp

end IrVerif.PassKernel

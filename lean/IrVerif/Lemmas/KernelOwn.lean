/-
Kernel, stage 2: tracked graph input / output lists.  The guarded primitives `ioInsert`,
`ioRemoveAt`, `ioReverse` preserve every clause of the invariant.
-/
import IrVerif.Lemmas.KernelProd
namespace IrVerif.Kernel

/-! ### list facts -/

theorem count_insertAt (l : List Nat) (pos v u : Nat) :
    (insertAt l pos v).count u = l.count u + if v = u then 1 else 0 := by
  unfold insertAt
  have h : l.count u = (l.take pos).count u + (l.drop pos).count u := by
    rw [← List.count_append, List.take_append_drop]
  simp [List.count_append, List.count_cons, h]
  split <;> omega

theorem mem_insertAt (l : List Nat) (pos v u : Nat) : u ∈ insertAt l pos v ↔ u = v ∨ u ∈ l := by
  unfold insertAt
  have h : u ∈ l ↔ u ∈ l.take pos ∨ u ∈ l.drop pos := by
    rw [← List.mem_append, List.take_append_drop]
  simp only [List.mem_append, List.mem_cons, h]
  grind

theorem count_eraseIdx_of (l : List Nat) (pos v u : Nat) (h : l[pos]? = some v) :
    (l.eraseIdx pos).count u = l.count u - if v = u then 1 else 0 := by
  induction l generalizing pos with
  | nil => simp at h
  | cons a as ih =>
    cases pos with
    | zero => simp at h; subst h; simp [List.count_cons]
    | succ p =>
      simp at h
      have := ih p h
      simp [List.count_cons, this]
      have hv : v ∈ as := List.mem_of_getElem? h
      have : 0 < as.count v := List.count_pos_iff.2 hv
      split <;> split <;> simp_all <;> omega

/-! ### accessors of the kind-indexed setters -/

@[simp] theorem ioList_setIoList (k' k : IOKind) (r : GraphS) (l : List Nat) :
    ioList k' (setIoList k r l) = if k' = k then l else ioList k' r := by
  cases k <;> cases k' <;> simp [ioList, setIoList]
@[simp] theorem ioList_setIoCnt (k' k : IOKind) (r : GraphS) (l : List Nat) :
    ioList k' (setIoCnt k r l) = ioList k' r := by
  cases k <;> cases k' <;> simp [ioList, setIoCnt]
@[simp] theorem ioCnt_setIoCnt (k' k : IOKind) (r : GraphS) (l : List Nat) :
    ioCnt k' (setIoCnt k r l) = if k' = k then l else ioCnt k' r := by
  cases k <;> cases k' <;> simp [ioCnt, setIoCnt]
@[simp] theorem ioCnt_setIoList (k' k : IOKind) (r : GraphS) (l : List Nat) :
    ioCnt k' (setIoList k r l) = ioCnt k' r := by
  cases k <;> cases k' <;> simp [ioCnt, setIoList]
@[simp] theorem inits_setIoList (k : IOKind) (r : GraphS) (l : List Nat) : (setIoList k r l).inits = r.inits := by
  cases k <;> rfl
@[simp] theorem inits_setIoCnt (k : IOKind) (r : GraphS) (l : List Nat) : (setIoCnt k r l).inits = r.inits := by
  cases k <;> rfl
@[simp] theorem nodes_setIoList (k : IOKind) (r : GraphS) (l : List Nat) : (setIoList k r l).nodes = r.nodes := by
  cases k <;> rfl
@[simp] theorem nodes_setIoCnt (k : IOKind) (r : GraphS) (l : List Nat) : (setIoCnt k r l).nodes = r.nodes := by
  cases k <;> rfl
@[simp] theorem ioFlag_setIoFlag (k' k : IOKind) (x : ValueS) (b : Bool) :
    ioFlag k' (setIoFlag k x b) = if k' = k then b else ioFlag k' x := by
  cases k <;> cases k' <;> simp [ioFlag, setIoFlag]
@[simp] theorem graph_setIoFlag (k : IOKind) (x : ValueS) (b : Bool) : (setIoFlag k x b).graph = x.graph := by
  cases k <;> rfl
@[simp] theorem isInit_setIoFlag (k : IOKind) (x : ValueS) (b : Bool) : (setIoFlag k x b).isInit = x.isInit := by
  cases k <;> rfl
@[simp] theorem producer_setIoFlag (k : IOKind) (x : ValueS) (b : Bool) :
    (setIoFlag k x b).producer = x.producer := by cases k <;> rfl
@[simp] theorem index_setIoFlag (k : IOKind) (x : ValueS) (b : Bool) : (setIoFlag k x b).index = x.index := by
  cases k <;> rfl
@[simp] theorem name_setIoFlag (k : IOKind) (x : ValueS) (b : Bool) : (setIoFlag k x b).name = x.name := by
  cases k <;> rfl
@[simp] theorem uses_setIoFlag (k : IOKind) (x : ValueS) (b : Bool) : (setIoFlag k x b).uses = x.uses := by
  cases k <;> rfl
@[simp] theorem ioFlag_graph (k : IOKind) (x : ValueS) (o : Option Nat) :
    ioFlag k { x with graph := o } = ioFlag k x := by cases k <;> rfl

theorem owned_iff (x : ValueS) : owned x = true ↔ (ioFlag .inp x = true ∨ ioFlag .out x = true ∨ x.isInit = true) := by
  simp [owned, ioFlag, or_assoc]

theorem owned_of_flag (k : IOKind) (x : ValueS) (h : ioFlag k x = true) : owned x = true := by
  rw [owned_iff]; cases k <;> simp_all

theorem isIn_eq (x : ValueS) : x.isIn = ioFlag .inp x := rfl
theorem isOut_eq (x : ValueS) : x.isOut = ioFlag .out x := rfl

/-! ### what the primitives do to each store -/

theorem ioInsert_gr (w : World) (g : Nat) (k : IOKind) (pos v : Nat) (hc : checkIO w g k v = true) (g' : Nat) :
    (ioInsert w g k pos v).gr g' =
      if g' = g then
        setIoList k (setIoCnt k (w.gr g) (lset (ioCnt k (w.gr g)) v (lget (ioCnt k (w.gr g)) v + 1)))
          (insertAt (ioList k (w.gr g)) pos v)
      else w.gr g' := by
  simp [ioInsert, hc, setIO]
  split <;> simp

theorem ioInsert_val (w : World) (g : Nat) (k : IOKind) (pos v : Nat) (hc : checkIO w g k v = true) (u : Nat) :
    (ioInsert w g k pos v).val u =
      if u = v then setIoFlag k { w.val v with graph := some g } true else w.val u := by
  simp [ioInsert, hc, setIO]

theorem ioInsert_node (w : World) (g : Nat) (k : IOKind) (pos v : Nat) (n : Nat) :
    (ioInsert w g k pos v).node n = w.node n := by
  unfold ioInsert setIO; split <;> simp


/-! ### `ioInsert` -/


theorem ioInsert_I_own (w : World) (g : Nat) (k : IOKind) (pos v : Nat) (h : I_own w) :
    I_own (ioInsert w g k pos v) := by
  by_cases hc : checkIO w g k v = true
  · have hgr : (w.val v).graph = none ∨ (w.val v).graph = some g := by
      simp [checkIO] at hc; exact hc.1
    constructor
    · intro k' g' u
      have := h.cnt k' g' u
      rw [ioInsert_gr _ _ _ _ _ hc]
      by_cases hg : g' = g <;> by_cases hk : k' = k <;> simp [hg, hk]
      · subst hg hk; simp [lget_lset, count_insertAt]
        by_cases hu : u = v
        · subst hu; simp [this]
        · simp [hu, this]; omega
      · subst hg; exact this
      · subst hk; exact this
      · exact this
    · intro k' g' u
      have := h.io_mem k' g' u
      rw [ioInsert_gr _ _ _ _ _ hc, ioInsert_val _ _ _ _ _ hc]
      by_cases hg : g' = g <;> by_cases hk : k' = k <;> by_cases hu : u = v <;>
        simp [hg, hk, hu, mem_insertAt] <;> grind
    · intro k' u
      have := h.io_flag k' u
      rw [ioInsert_val _ _ _ _ _ hc]
      by_cases hk : k' = k <;> by_cases hu : u = v <;> simp [hk, hu]
      · simp [ioInsert_gr _ _ _ _ _ hc, mem_insertAt]
      · intro hf; subst hk
        obtain ⟨g', hg', hm⟩ := this hf
        refine ⟨g', hg', ?_⟩
        rw [ioInsert_gr _ _ _ _ _ hc]; split
        · subst_vars; simp [mem_insertAt, hm]
        · exact hm
      · intro hf; subst hu
        obtain ⟨g', hg', hm⟩ := this hf
        have : g' = g := by grind
        subst this
        simp [ioInsert_gr _ _ _ _ _ hc, hk]; exact hm
      · intro hf
        obtain ⟨g', hg', hm⟩ := this hf
        refine ⟨g', hg', ?_⟩
        rw [ioInsert_gr _ _ _ _ _ hc]; split
        · subst_vars; simp [hk, hm]
        · exact hm
    · intro g' key u
      have := h.init_mem g' key u
      rw [ioInsert_gr _ _ _ _ _ hc, ioInsert_val _ _ _ _ _ hc]
      by_cases hg : g' = g <;> by_cases hu : u = v <;> simp [hg, hu] <;> grind
    · intro u
      have := h.init_flag u
      rw [ioInsert_val _ _ _ _ _ hc]
      by_cases hu : u = v <;> simp [hu]
      · intro hf
        obtain ⟨g', key, hg', hm⟩ := this (by subst hu; exact hf)
        have : g' = g := by grind
        subst this
        exact ⟨key, by simp [ioInsert_gr _ _ _ _ _ hc]; subst hu; exact hm⟩
      · intro hf
        obtain ⟨g', key, hg', hm⟩ := this hf
        refine ⟨g', hg', key, ?_⟩
        rw [ioInsert_gr _ _ _ _ _ hc]; split
        · subst_vars; simpa using hm
        · exact hm
    · intro u g'
      have := h.graph_owned u g'
      rw [ioInsert_val _ _ _ _ _ hc]
      by_cases hu : u = v <;> simp [hu]
      · intro _; exact owned_of_flag k _ (by simp)
      · exact this
  · simp [ioInsert, hc]; exact I_own_bump h

/-! ### `ioRemoveAt` -/


/-- the record of `v` after its last reference in a tracked list went away -/
def released (k : IOKind) (x : ValueS) : ValueS :=
  { setIoFlag k x false with graph := if owned (setIoFlag k x false) then x.graph else none }

theorem ioRemoveAt_gr (w : World) (g : Nat) (k : IOKind) (pos v : Nat)
    (hv : (ioList k (w.gr g))[pos]? = some v) (g' : Nat) :
    (ioRemoveAt w g k pos).gr g' =
      if g' = g then
        setIoCnt k (setIoList k (w.gr g) ((ioList k (w.gr g)).eraseIdx pos))
          (lset (ioCnt k (w.gr g)) v (lget (ioCnt k (w.gr g)) v - 1))
      else w.gr g' := by
  simp [ioRemoveAt, hv, unsetIO]
  split <;> simp <;> split <;> simp

theorem ioRemoveAt_val (w : World) (g : Nat) (k : IOKind) (pos v : Nat)
    (hv : (ioList k (w.gr g))[pos]? = some v) (u : Nat) :
    (ioRemoveAt w g k pos).val u =
      if u = v ∧ lget (ioCnt k (w.gr g)) v - 1 = 0 then released k (w.val v) else w.val u := by
  simp [ioRemoveAt, hv, unsetIO, released]
  split <;> simp <;> split <;> simp_all <;> omega

theorem ioRemoveAt_node (w : World) (g : Nat) (k : IOKind) (pos : Nat) (n : Nat) :
    (ioRemoveAt w g k pos).node n = w.node n := by
  unfold ioRemoveAt unsetIO; split <;> simp; split <;> simp

@[simp] theorem released_flag (k' k : IOKind) (x : ValueS) :
    ioFlag k' (released k x) = if k' = k then false else ioFlag k' x := by
  cases k <;> cases k' <;> simp [released, ioFlag, setIoFlag]
@[simp] theorem released_isInit (k : IOKind) (x : ValueS) : (released k x).isInit = x.isInit := by
  cases k <;> rfl
@[simp] theorem released_graph (k : IOKind) (x : ValueS) :
    (released k x).graph = if owned (setIoFlag k x false) then x.graph else none := by
  cases k <;> rfl
@[simp] theorem owned_released (k : IOKind) (x : ValueS) : owned (released k x) = owned (setIoFlag k x false) := by
  cases k <;> rfl

theorem owned_clear_of_other (k' k : IOKind) (x : ValueS) (hk : ¬ k' = k) (h : ioFlag k' x = true) :
    owned (setIoFlag k x false) = true := by
  cases k <;> cases k' <;> simp_all [owned, ioFlag, setIoFlag]
theorem owned_clear_of_init (k : IOKind) (x : ValueS) (h : x.isInit = true) :
    owned (setIoFlag k x false) = true := by
  cases k <;> simp_all [owned, setIoFlag]
theorem owned_clear_elim (k : IOKind) (x : ValueS) (h : owned (setIoFlag k x false) = true) :
    (∃ k', ¬ k' = k ∧ ioFlag k' x = true) ∨ x.isInit = true := by
  cases k <;> simp [owned, setIoFlag] at h
  · rcases h with h | h
    · exact Or.inl ⟨.out, by simp, h⟩
    · exact Or.inr h
  · rcases h with h | h
    · exact Or.inl ⟨.inp, by simp, h⟩
    · exact Or.inr h

theorem mem_eraseIdx_iff_count (l : List Nat) (pos v u : Nat) (h : l[pos]? = some v) :
    u ∈ l.eraseIdx pos ↔ (u ∈ l ∧ (u = v → 2 ≤ l.count v)) := by
  rw [← List.count_pos_iff, count_eraseIdx_of l pos v u h, ← List.count_pos_iff]
  have hv : 0 < l.count v := List.count_pos_iff.2 (List.mem_of_getElem? h)
  by_cases hu : u = v
  · subst hu; simp only [if_true, true_implies]; omega
  · have : ¬ v = u := fun e => hu e.symm
    simp [hu, this]

theorem ioRemoveAt_I_own (w : World) (g : Nat) (k : IOKind) (pos : Nat) (h : I_own w) :
    I_own (ioRemoveAt w g k pos) := by
  cases hv : (ioList k (w.gr g))[pos]? with
  | none => simp [ioRemoveAt, hv]; exact I_own_bump h
  | some v =>
    have hmem : v ∈ ioList k (w.gr g) := List.mem_of_getElem? hv
    have hcnt := h.cnt k g v
    have hpos : 0 < (ioList k (w.gr g)).count v := List.count_pos_iff.2 hmem
    obtain ⟨hvf, hvg⟩ := h.io_mem k g v hmem
    constructor
    · intro k' g' u
      have := h.cnt k' g' u
      rw [ioRemoveAt_gr _ _ _ _ _ hv]
      by_cases hg : g' = g <;> by_cases hk : k' = k <;> simp [hg, hk]
      · subst hg hk; simp [lget_lset, count_eraseIdx_of _ _ _ _ hv]
        by_cases hu : u = v
        · subst hu; simp [this]
        · have : ¬ v = u := fun e => hu e.symm
          simp_all
      · subst hg; exact this
      · subst hk; exact this
      · exact this
    · intro k' g' u
      have := h.io_mem k' g' u
      rw [ioRemoveAt_gr _ _ _ _ _ hv, ioRemoveAt_val _ _ _ _ _ hv]
      by_cases hg : g' = g <;> by_cases hk : k' = k <;> by_cases hu : u = v <;>
        simp [hg, hk, hu, mem_eraseIdx_iff_count _ _ _ _ hv]
      all_goals intros
      all_goals (try split)
      all_goals simp_all
      all_goals grind [owned_clear_of_other]
    · intro k' u hf
      rw [ioRemoveAt_val _ _ _ _ _ hv] at hf ⊢
      by_cases hu : u = v ∧ lget (ioCnt k (w.gr g)) v - 1 = 0
      · obtain ⟨hu, hz⟩ := hu
        subst hu
        simp [hz] at hf ⊢
        obtain ⟨hk, hf⟩ := hf
        obtain ⟨g', hg', hm⟩ := h.io_flag k' u hf
        have hgg : g' = g := by grind
        subst hgg
        refine ⟨g', ⟨owned_clear_of_other k' k _ hk hf, hg'⟩, ?_⟩
        simp [ioRemoveAt_gr _ _ _ _ _ hv, hk]; exact hm
      · simp only [hu, if_false] at hf ⊢
        obtain ⟨g', hg', hm⟩ := h.io_flag k' u hf
        refine ⟨g', hg', ?_⟩
        rw [ioRemoveAt_gr _ _ _ _ _ hv]
        by_cases hg : g' = g <;> by_cases hk : k' = k <;> simp [hg, hk]
        · subst hg hk
          rw [mem_eraseIdx_iff_count _ _ _ _ hv]
          refine ⟨hm, ?_⟩
          intro huv; subst huv
          simp at hu; omega
        · subst hg; exact hm
        · subst hk; exact hm
        · exact hm
    · intro g' key u hm
      rw [ioRemoveAt_gr _ _ _ _ _ hv] at hm
      have hm' : (key, u) ∈ (w.gr g').inits := by
        by_cases hg : g' = g <;> simp [hg] at hm <;> (try subst hg) <;> exact hm
      obtain ⟨hi, hgr⟩ := h.init_mem g' key u hm'
      rw [ioRemoveAt_val _ _ _ _ _ hv]
      split
      · rename_i hc; obtain ⟨hu, -⟩ := hc; subst hu
        simp [hi, owned_clear_of_init k _ hi, hgr]
      · exact ⟨hi, hgr⟩
    · intro u hf
      rw [ioRemoveAt_val _ _ _ _ _ hv] at hf ⊢
      have hf' : (w.val u).isInit = true := by
        split at hf
        · rename_i hc; obtain ⟨hu, -⟩ := hc; subst hu; simpa using hf
        · exact hf
      obtain ⟨g', key, hgr, hm⟩ := h.init_flag u hf'
      refine ⟨g', key, ?_, ?_⟩
      · split
        · rename_i hc; obtain ⟨hu, -⟩ := hc; subst hu
          simp [owned_clear_of_init k _ hf', hgr]
        · exact hgr
      · rw [ioRemoveAt_gr _ _ _ _ _ hv]; split
        · subst_vars; simpa using hm
        · exact hm
    · intro u g' hgr
      rw [ioRemoveAt_val _ _ _ _ _ hv] at hgr ⊢
      split at hgr
      · rename_i hc; simp only [hc, and_self, if_true]
        simp at hgr ⊢
        exact hgr.1
      · rename_i hc; simp only [hc, if_false]
        exact h.graph_owned u g' hgr

/-! ### `ioReverse` -/

theorem ioReverse_I_own (w : World) (g : Nat) (k : IOKind) (h : I_own w) : I_own (ioReverse w g k) := by
  have hl : ∀ k' g', ∀ u, u ∈ ioList k' ((ioReverse w g k).gr g') ↔ u ∈ ioList k' (w.gr g') := by
    intro k' g' u; simp [ioReverse]; split <;> simp; split <;> simp_all
  have hc : ∀ k' g', ∀ u, (ioList k' ((ioReverse w g k).gr g')).count u = (ioList k' (w.gr g')).count u := by
    intro k' g' u; simp [ioReverse]; split <;> simp; split <;> simp_all
  have hcnt : ∀ k' g', ioCnt k' ((ioReverse w g k).gr g') = ioCnt k' (w.gr g') := by
    intro k' g'; simp [ioReverse]; split <;> simp_all
  have hi : ∀ g', ((ioReverse w g k).gr g').inits = (w.gr g').inits := by
    intro g'; simp [ioReverse]; split <;> simp_all
  have hv : ∀ u, (ioReverse w g k).val u = w.val u := fun u => rfl
  constructor
  · intro k' g' u; rw [hcnt, hc]; exact h.cnt k' g' u
  · intro k' g' u; rw [hl, hv]; exact h.io_mem k' g' u
  · intro k' u; rw [hv]; simp only [hl]; exact h.io_flag k' u
  · intro g' key u; rw [hi, hv]; exact h.init_mem g' key u
  · intro u; rw [hv]; simp only [hi]; exact h.init_flag u
  · intro u g'; rw [hv]; exact h.graph_owned u g'

/-! ### the other clauses -/

theorem ioInsert_I_root (w : World) (g : Nat) (k : IOKind) (pos v : Nat) (h : I_root w) :
    I_root (ioInsert w g k pos v) := by
  by_cases hc : checkIO w g k v = true
  · intro u
    rw [ioInsert_val _ _ _ _ _ hc]
    split
    · subst_vars
      have := h u
      simp [checkIO] at hc
      cases k <;> simp_all [setIoFlag]
    · exact h u
  · simp [ioInsert, hc]; exact h

theorem ioRemoveAt_I_root (w : World) (g : Nat) (k : IOKind) (pos : Nat) (h : I_root w) :
    I_root (ioRemoveAt w g k pos) := by
  cases hv : (ioList k (w.gr g))[pos]? with
  | none => simp [ioRemoveAt, hv]; exact h
  | some v =>
    intro u
    rw [ioRemoveAt_val _ _ _ _ _ hv]
    split
    · rename_i hc; obtain ⟨hu, -⟩ := hc; subst hu
      have := h u
      cases k <;> simp_all [released, setIoFlag]
    · exact h u

theorem ioInsert_I_use (w : World) (g : Nat) (k : IOKind) (pos v : Nat) (h : I_use w) :
    I_use (ioInsert w g k pos v) := by
  apply I_use_congr _ _ h
  · intro u; unfold ioInsert setIO; split <;> simp; split <;> simp_all
  · intro n; rw [ioInsert_node]

theorem ioInsert_I_prod (w : World) (g : Nat) (k : IOKind) (pos v : Nat) (h : I_prod w) :
    I_prod (ioInsert w g k pos v) := by
  apply I_prod_congr _ _ h
  · intro u; unfold ioInsert setIO; split <;> simp; split <;> simp_all
  · intro n; rw [ioInsert_node]

theorem ioInsert_I_key (w : World) (g : Nat) (k : IOKind) (pos v : Nat) (h : I_key w) :
    I_key (ioInsert w g k pos v) := by
  apply I_key_congr _ _ h
  · intro u; unfold ioInsert setIO; split <;> simp; split <;> simp_all
  · intro g'; unfold ioInsert setIO; split <;> simp; split <;> simp_all

theorem ioInsert_I_node (w : World) (g : Nat) (k : IOKind) (pos v : Nat) (h : I_node w) :
    I_node (ioInsert w g k pos v) := by
  apply I_node_congr _ _ h
  · intro n; rw [ioInsert_node]
  · intro g'; unfold ioInsert setIO; split <;> simp; split <;> simp_all

theorem ioRemoveAt_I_use (w : World) (g : Nat) (k : IOKind) (pos : Nat) (h : I_use w) :
    I_use (ioRemoveAt w g k pos) := by
  apply I_use_congr _ _ h
  · intro u
    cases hv : (ioList k (w.gr g))[pos]? with
    | none => simp [ioRemoveAt, hv]
    | some v => rw [ioRemoveAt_val _ _ _ _ _ hv]; split <;> simp_all [released]
  · intro n; rw [ioRemoveAt_node]

theorem ioRemoveAt_I_prod (w : World) (g : Nat) (k : IOKind) (pos : Nat) (h : I_prod w) :
    I_prod (ioRemoveAt w g k pos) := by
  apply I_prod_congr _ _ h
  · intro u
    cases hv : (ioList k (w.gr g))[pos]? with
    | none => simp [ioRemoveAt, hv]
    | some v => rw [ioRemoveAt_val _ _ _ _ _ hv]; split <;> simp_all [released]
  · intro n; rw [ioRemoveAt_node]

theorem ioRemoveAt_I_key (w : World) (g : Nat) (k : IOKind) (pos : Nat) (h : I_key w) :
    I_key (ioRemoveAt w g k pos) := by
  cases hv : (ioList k (w.gr g))[pos]? with
  | none => simp [ioRemoveAt, hv]; exact I_key_bump h
  | some v =>
    apply I_key_congr _ _ h
    · intro u; rw [ioRemoveAt_val _ _ _ _ _ hv]; split <;> simp_all [released]
    · intro g'; rw [ioRemoveAt_gr _ _ _ _ _ hv]; split <;> simp_all

theorem ioRemoveAt_I_node (w : World) (g : Nat) (k : IOKind) (pos : Nat) (h : I_node w) :
    I_node (ioRemoveAt w g k pos) := by
  cases hv : (ioList k (w.gr g))[pos]? with
  | none => simp [ioRemoveAt, hv]; exact I_node_bump h
  | some v =>
    apply I_node_congr _ _ h
    · intro n; rw [ioRemoveAt_node]
    · intro g'; rw [ioRemoveAt_gr _ _ _ _ _ hv]; split <;> simp_all

end IrVerif.Kernel

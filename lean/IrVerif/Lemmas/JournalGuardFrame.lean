import IrVerif.Lemmas.JournalGuard
/-!
Helper development for C20 round 5, second part: what holds of the checked wrappers (`dispatchG`, `runBlockG`,
`runFlatG`) in ANY world - frames (no instrumented call touches the control state), restoration of blocks and of
properly nested flat words from any class table, what `__exit__` puts back in arbitrary words, and: a journal
that is not active receives no entry, whatever wrappers of it are still installed or kept.  The block / flat
lemmas are the ones of Lemmas/Journal.lean and Lemmas/JournalFlat.lean with `dispatchG` in the place of
`dispatch` (their proofs only use the frame of the dispatcher).  Core Lean only.
-/
namespace IrVerif.Journal

variable {σ : Type}

theorem runImplGuarded_stable {I : World σ → Prop} (hI : Stable I) (cfg : Cfg σ)
    {body : Nat → Obj → Val → World σ → World σ × Outcome}
    (hb : ∀ k s a w, I w → I (body k s a w).1) :
    ∀ (impl : Impl) (s : Obj) (a : Val) (w : World σ), I w → I (runImplGuarded cfg body impl s a w).1 := by
  intro impl
  induction impl with
  | orig k => intro s a w h; simpa [runImplGuarded] using hb k s a w h
  | wrap j k inner ih =>
    intro s a w h
    cases hk : kindOf k
    · have h1 := ih s a w h
      simp only [runImplGuarded, hk]
      split
      · split
        · exact h1
        · split
          · exact hI.record _ _ _ _ (hI.put _ _ h1)
          · exact h1
      · exact h1
    all_goals
      simp only [runImplGuarded, hk]
      split
      · exact ih s a w h
      · split
        · exact h
        · next s' _ =>
          have h1 := ih s a _ (hI.put w s' h)
          split
          · exact hI.record _ _ _ _ h1
          · exact h1

theorem dispatchG_stable {I : World σ → Prop} (hI : Stable I) (cfg : Cfg σ) :
    ∀ (f slot : Nat) (s : Obj) (a : Val) (w : World σ), I w → I (dispatchG cfg f slot s a w).1 := by
  intro f
  induction f with
  | zero => intro slot s a w h; simpa [dispatchG] using h
  | succ f ih =>
    intro slot s a w h
    simp only [dispatchG]
    exact runImplGuarded_stable hI cfg (runOrig_stable hI cfg ih) _ _ _ _ h

theorem dispatchG_frame (cfg : Cfg σ) (f slot : Nat) (s : Obj) (a : Val) (w : World σ) :
    SameCtl w (dispatchG cfg f slot s a w).1 :=
  dispatchG_stable (sameCtl_stable w) cfg f slot s a w (SameCtl.refl w)

theorem runProgG_frame (cfg : Cfg σ) (f : Nat) (p : Prog σ) (w : World σ) :
    SameCtl w (runProg (dispatchG cfg f) p w).1 :=
  runProg_stable (sameCtl_stable w) (fun s o a w' h => dispatchG_stable (sameCtl_stable w) cfg f s o a w' h)
    p w (SameCtl.refl w)

/-! ### a journal that is not active receives nothing -/

/-- journal `j` is not active and its entries are `E` -/
def Silent (j : Nat) (E : List Entry) (w : World σ) : Prop :=
  (w.journals j).active = false ∧ (w.journals j).entries = E

theorem silent_record (j : Nat) (E : List Entry) (i k t : Nat) (w : World σ) (hij : i ≠ j)
    (h : Silent j E w) : Silent j E (record i k t w) := by
  have : (record i k t w).journals j = w.journals j := by
    simp only [record, upd]
    split
    · next e => exact absurd e.symm hij
    · rfl
  exact ⟨by rw [this]; exact h.1, by rw [this]; exact h.2⟩

theorem runProg_silent (j : Nat) (E : List Entry)
    {disp : Nat → Obj → Val → World σ → World σ × Outcome}
    (hd : ∀ s o a w, Silent j E w → Silent j E (disp s o a w).1) :
    ∀ (p : Prog σ) (w : World σ), Silent j E w → Silent j E (runProg disp p w).1 := by
  intro p
  induction p with
  | done o => intro w h; exact h
  | get k ih => intro w h; simp only [runProg]; exact ih _ w h
  | put s k ih => intro w h; simp only [runProg]; exact ih _ h
  | call slot self arg k ih => intro w h; simp only [runProg]; exact ih _ _ (hd slot self arg w h)

theorem runImplGuarded_silent (cfg : Cfg σ) (j : Nat) (E : List Entry)
    {body : Nat → Obj → Val → World σ → World σ × Outcome}
    (hb : ∀ k s a w, Silent j E w → Silent j E (body k s a w).1) :
    ∀ (impl : Impl) (s : Obj) (a : Val) (w : World σ), Silent j E w →
      Silent j E (runImplGuarded cfg body impl s a w).1 := by
  intro impl
  induction impl with
  | orig k => intro s a w h; simpa [runImplGuarded] using hb k s a w h
  | wrap i k inner ih =>
    intro s a w h
    cases hk : kindOf k
    · have h1 := ih s a w h
      simp only [runImplGuarded, hk]
      split
      · split
        · exact h1
        · next hact =>
          have hij : i ≠ j := by
            intro e; subst e
            rw [h1.1] at hact; simp at hact
          split
          · exact silent_record j E i k _ _ hij h1
          · exact h1
      · exact h1
    all_goals
      simp only [runImplGuarded, hk]
      split
      · exact ih s a w h
      · next hact =>
        have hij : i ≠ j := by
          intro e; subst e
          rw [h.1] at hact; simp at hact
        split
        · exact h
        · next s' _ =>
          have h1 := ih s a { w with ir := s' } h
          split
          · exact silent_record j E i k _ _ hij h1
          · exact h1

theorem runOrig_silent (cfg : Cfg σ) (j : Nat) (E : List Entry)
    {disp : Nat → Obj → Val → World σ → World σ × Outcome}
    (hd : ∀ s o a w, Silent j E w → Silent j E (disp s o a w).1) :
    ∀ k s a w, Silent j E w → Silent j E (runOrig cfg disp k s a w).1 := by
  intro k s a w h
  simp only [runOrig]
  exact runProg_silent j E hd _ _ h

theorem dispatchG_silent (cfg : Cfg σ) (j : Nat) (E : List Entry) :
    ∀ (f slot : Nat) (s : Obj) (a : Val) (w : World σ), Silent j E w →
      Silent j E (dispatchG cfg f slot s a w).1 := by
  intro f
  induction f with
  | zero => intro slot s a w h; simpa [dispatchG] using h
  | succ f ih =>
    intro slot s a w h
    simp only [dispatchG]
    exact runImplGuarded_silent cfg j E (runOrig_silent cfg j E ih) _ _ _ _ h

/-- any flat word that does not enter `j`: the inactive journal `j` has the same entries afterwards -/
theorem runFlatG_silent (cfg : Cfg σ) (fuel j : Nat) (E : List Entry) : ∀ (u : List (FEv σ)) (w : World σ),
    j ∉ flatEnters u → Silent j E w → Silent j E (runFlatG cfg fuel u w) := by
  intro u
  induction u with
  | nil => intro w _ h; exact h
  | cons e r ih =>
    intro w hu h
    cases e with
    | enter i =>
      have hij : j ≠ i := by intro e; apply hu; simp [flatEnters, e]
      have hu' : j ∉ flatEnters r := by intro hm; apply hu; simp [flatEnters, hm]
      simp only [runFlatG]
      refine ih _ hu' ?_
      cases hi : (w.journals i).active with
      | true => simp [enter, hi]; exact h
      | false =>
        simp only [enter, hi, Bool.false_eq_true, if_false, Option.getD_some]
        exact ⟨by rw [enterRaw_other i j w hij]; exact h.1, by rw [enterRaw_other i j w hij]; exact h.2⟩
    | exit i x =>
      have hu' : j ∉ flatEnters r := by simpa [flatEnters] using hu
      simp only [runFlatG]
      refine ih _ hu' ⟨?_, by rw [exit_entries]; exact h.2⟩
      by_cases hij : j = i
      · subst hij
        simp only [exit]
        split
        · exact h.1
        · simp [upd]
      · rw [exit_other i j w hij]; exact h.1
    | op p =>
      have hu' : j ∉ flatEnters r := by simpa [flatEnters] using hu
      simp only [runFlatG]
      exact ih _ hu' (runProg_silent j E (dispatchG_silent cfg j E fuel) p w h)

/-! ### blocks and flat words over the checked wrappers, from any world -/

theorem runBlockG_withJ_refused (cfg : Cfg σ) (fuel j : Nat) (body : Block σ) (w : World σ)
    (h : (w.journals j).active = true) :
    runBlockG cfg fuel (.withJ j body) w = (w, some enterExn) := by
  simp [runBlockG, enter, h]

theorem runBlockG_withJ_entered (cfg : Cfg σ) (fuel j : Nat) (body : Block σ) (w : World σ)
    (h : (w.journals j).active = false) :
    runBlockG cfg fuel (.withJ j body) w =
      (exit j (runBlockG cfg fuel body (enterRaw j w)).1, (runBlockG cfg fuel body (enterRaw j w)).2) := by
  simp [runBlockG, enter, h]

theorem runBlockG_frame_active (cfg : Cfg σ) (fuel : Nat) :
    ∀ (b : Block σ) (w : World σ) (i : Nat), (w.journals i).active = true →
      ((runBlockG cfg fuel b w).1.journals i).captured = (w.journals i).captured ∧
      ((runBlockG cfg fuel b w).1.journals i).previous = (w.journals i).previous ∧
      ((runBlockG cfg fuel b w).1.journals i).active = true := by
  intro b
  induction b with
  | skip => intro w i h; exact ⟨rfl, rfl, h⟩
  | op p =>
    intro w i h
    have hf := runProgG_frame cfg fuel p w
    exact ⟨hf.captured i, hf.previous i, (hf.active i).trans h⟩
  | seq a b iha ihb =>
    intro w i hi
    have h1 := iha w i hi
    simp only [runBlockG]
    split
    · have h2 := ihb (runBlockG cfg fuel a w).1 i h1.2.2
      exact ⟨h2.1.trans h1.1, h2.2.1.trans h1.2.1, h2.2.2⟩
    · exact h1
  | withJ j body ih =>
    intro w i hi
    cases hj : (w.journals j).active with
    | true => rw [runBlockG_withJ_refused cfg fuel j body w hj]; exact ⟨rfl, rfl, hi⟩
    | false =>
      rw [runBlockG_withJ_entered cfg fuel j body w hj]
      have hij : i ≠ j := by intro e; subst e; rw [hi] at hj; cases hj
      have hi1 : ((enterRaw j w).journals i).active = true := by rw [enterRaw_other j i w hij]; exact hi
      have h1 := ih (enterRaw j w) i hi1
      rw [enterRaw_other j i w hij] at h1
      show ((exit j _).journals i).captured = _ ∧ ((exit j _).journals i).previous = _ ∧ ((exit j _).journals i).active = true
      rw [exit_other j i _ hij]
      exact h1
  | attempt body ih =>
    intro w i hi
    exact ih w i hi

theorem blockG_restore (cfg : Cfg σ) (fuel : Nat) :
    ∀ (b : Block σ) (w : World σ),
      (runBlockG cfg fuel b w).1.table = w.table ∧ (runBlockG cfg fuel b w).1.current = w.current := by
  intro b
  induction b with
  | skip => intro w; exact ⟨rfl, rfl⟩
  | op p =>
    intro w
    have h := runProgG_frame cfg fuel p w
    exact ⟨h.table, h.current⟩
  | seq a b iha ihb =>
    intro w
    have h1 := iha w
    simp only [runBlockG]
    split
    · have h2 := ihb (runBlockG cfg fuel a w).1
      exact ⟨h2.1.trans h1.1, h2.2.trans h1.2⟩
    · exact h1
  | withJ j body ih =>
    intro w
    cases hj : (w.journals j).active with
    | true => rw [runBlockG_withJ_refused cfg fuel j body w hj]; exact ⟨rfl, rfl⟩
    | false =>
      rw [runBlockG_withJ_entered cfg fuel j body w hj]
      have hact : ((enterRaw j w).journals j).active = true := by simp [enterRaw, upd]
      have hc := runBlockG_frame_active cfg fuel body (enterRaw j w) j hact
      have hcap : ((runBlockG cfg fuel body (enterRaw j w)).1.journals j).captured = some w.table := by
        rw [hc.1]; simp [enterRaw, upd]
      have hprev : ((runBlockG cfg fuel body (enterRaw j w)).1.journals j).previous = w.current := by
        rw [hc.2.1]; simp [enterRaw, upd]
      simp [exit, hcap, hprev]
  | attempt body ih =>
    intro w
    exact ih w

theorem blockG_active_restore (cfg : Cfg σ) (fuel : Nat) :
    ∀ (b : Block σ) (w : World σ) (i : Nat),
      ((runBlockG cfg fuel b w).1.journals i).active = (w.journals i).active := by
  intro b
  induction b with
  | skip => intro w i; rfl
  | op p => intro w i; exact (runProgG_frame cfg fuel p w).active i
  | seq a b iha ihb =>
    intro w i
    simp only [runBlockG]
    split
    · exact (ihb _ i).trans (iha w i)
    · exact iha w i
  | withJ j body ih =>
    intro w i
    cases hj : (w.journals j).active with
    | true => rw [runBlockG_withJ_refused cfg fuel j body w hj]
    | false =>
      rw [runBlockG_withJ_entered cfg fuel j body w hj]
      by_cases hij : i = j
      · subst hij
        have hact : ((enterRaw i w).journals i).active = true := by simp [enterRaw, upd]
        have hc := runBlockG_frame_active cfg fuel body (enterRaw i w) i hact
        have hcap : ((runBlockG cfg fuel body (enterRaw i w)).1.journals i).captured = some w.table := by
          rw [hc.1]; simp [enterRaw, upd]
        simp [exit, hcap, upd, hj]
      · show ((exit j _).journals i).active = _
        rw [exit_other j i _ hij, ih (enterRaw j w) i, enterRaw_other j i w hij]
  | attempt body ih => intro w i; exact ih w i

theorem runFlatG_append (cfg : Cfg σ) (fuel : Nat) : ∀ (u v : List (FEv σ)) (w : World σ),
    runFlatG cfg fuel (u ++ v) w = runFlatG cfg fuel v (runFlatG cfg fuel u w) := by
  intro u
  induction u with
  | nil => intro v w; rfl
  | cons e r ih =>
    intro v w
    cases e with
    | enter j => simp only [List.cons_append, runFlatG]; exact ih v _
    | exit j x => simp only [List.cons_append, runFlatG]; exact ih v _
    | op p => simp only [List.cons_append, runFlatG]; exact ih v _

theorem opG_frame (cfg : Cfg σ) (fuel : Nat) (p : Prog σ) (w : World σ) :
    let x := runProg (dispatchG cfg fuel) p w
    let w' : World σ := { x.1 with log := x.1.log ++ [x.2] }
    w'.table = w.table ∧ w'.current = w.current ∧
      (∀ i, (w'.journals i).captured = (w.journals i).captured ∧
        (w'.journals i).previous = (w.journals i).previous ∧ (w'.journals i).active = (w.journals i).active) := by
  have h := runProgG_frame cfg fuel p w
  exact ⟨h.table, h.current, fun i => ⟨h.captured i, h.previous i, h.active i⟩⟩

theorem flatG_inv (cfg : Cfg σ) (fuel : Nat) : ∀ (u : List (FEv σ)) (st : List Nat) (w : World σ) (T : Table)
    (C : Option Nat) (A : Nat → Bool),
    wbAux st u = true → st.Nodup → Stk w.journals st w.table w.current T C →
    (∀ i, i ∉ st → (w.journals i).active = A i) → (∀ i ∈ st, A i = false) →
    (∀ j ∈ flatEnters u, A j = false) →
    (runFlatG cfg fuel u w).table = T ∧ (runFlatG cfg fuel u w).current = C ∧
      ∀ i, ((runFlatG cfg fuel u w).journals i).active = A i := by
  intro u
  induction u with
  | nil =>
    intro st w T C A hwb _ hs hact _ _
    cases st with
    | nil => exact ⟨hs.1, hs.2, fun i => hact i (by simp)⟩
    | cons a l => simp [wbAux] at hwb
  | cons e r ih =>
    intro st w T C A hwb hnd hs hact hstA hent
    cases e with
    | enter j =>
      simp only [wbAux, Bool.and_eq_true, Bool.not_eq_true', List.contains_eq_mem, decide_eq_false_iff_not] at hwb
      obtain ⟨hjst, hwb'⟩ := hwb
      have hAj : A j = false := hent j (by simp [flatEnters])
      have hjact : (w.journals j).active = false := by rw [hact j hjst]; exact hAj
      have hen : enter j w = some (enterRaw j w) := by simp [enter, hjact]
      simp only [runFlatG, hen, Option.getD_some]
      refine ih (j :: st) (enterRaw j w) T C A hwb' (List.nodup_cons.mpr ⟨hjst, hnd⟩) ?_ ?_ ?_ ?_
      · refine ⟨w.table, by simp [enterRaw, upd], by simp [enterRaw, upd], ?_⟩
        have hp : ((enterRaw j w).journals j).previous = w.current := by simp [enterRaw, upd]
        rw [hp]
        refine Stk_congr w.journals _ st _ _ T C ?_ hs
        intro i hi
        have hij : i ≠ j := fun e => hjst (e ▸ hi)
        rw [enterRaw_other j i w hij]
        exact ⟨rfl, rfl, rfl⟩
      · intro i hi
        have hij : i ≠ j := fun e => hi (e ▸ List.mem_cons_self ..)
        rw [enterRaw_other j i w hij]
        exact hact i (fun h => hi (List.mem_cons_of_mem _ h))
      · intro i hi
        rcases List.mem_cons.mp hi with h | h
        · subst h; exact hAj
        · exact hstA i h
      · intro i hi
        exact hent i (by simp [flatEnters, hi])
    | exit j x =>
      cases st with
      | nil => simp [wbAux] at hwb
      | cons t st' =>
        simp only [wbAux, Bool.and_eq_true, beq_iff_eq] at hwb
        obtain ⟨htj, hwb'⟩ := hwb
        subst htj
        obtain ⟨tb, hcap, hactive, hs'⟩ := hs
        obtain ⟨htst, hnd'⟩ := List.nodup_cons.mp hnd
        simp only [runFlatG]
        refine ih st' (exit t w) T C A hwb' hnd' ?_ ?_ ?_ ?_
        · have ht : (exit t w).table = tb := by simp [exit, hcap]
          have hc : (exit t w).current = (w.journals t).previous := by simp [exit, hcap]
          rw [ht, hc]
          refine Stk_congr w.journals _ st' _ _ T C ?_ hs'
          intro i hi
          have hij : i ≠ t := fun e => htst (e ▸ hi)
          rw [exit_other t i w hij]
          exact ⟨rfl, rfl, rfl⟩
        · intro i hi
          by_cases hij : i = t
          · subst hij
            have : ((exit i w).journals i).active = false := by simp [exit, hcap, upd]
            rw [this]
            exact (hstA i (List.mem_cons_self ..)).symm
          · rw [exit_other t i w hij]
            exact hact i (fun h => by
              rcases List.mem_cons.mp h with h | h
              · exact hij h
              · exact hi h)
        · intro i hi
          exact hstA i (List.mem_cons_of_mem _ hi)
        · intro i hi
          exact hent i (by simp [flatEnters, hi])
    | op p =>
      simp only [wbAux] at hwb
      simp only [runFlatG]
      obtain ⟨ht, hc, hj⟩ := opG_frame cfg fuel p w
      refine ih st _ T C A hwb hnd ?_ ?_ hstA ?_
      · rw [ht, hc]
        exact Stk_congr w.journals _ st _ _ T C (fun i _ => hj i) hs
      · intro i hi
        rw [(hj i).2.2]
        exact hact i hi
      · intro i hi
        exact hent i (by simp [flatEnters, hi])

theorem flatG_frame_active (cfg : Cfg σ) (fuel : Nat) (j : Nat) : ∀ (u : List (FEv σ)) (w : World σ),
    (w.journals j).active = true → j ∉ flatExits u →
    ((runFlatG cfg fuel u w).journals j).captured = (w.journals j).captured ∧
    ((runFlatG cfg fuel u w).journals j).previous = (w.journals j).previous ∧
    ((runFlatG cfg fuel u w).journals j).active = true := by
  intro u
  induction u with
  | nil => intro w h _; exact ⟨rfl, rfl, h⟩
  | cons e r ih =>
    intro w h hx
    cases e with
    | enter i =>
      have hx' : j ∉ flatExits r := by simpa [flatExits] using hx
      simp only [runFlatG]
      cases hi : (w.journals i).active with
      | true =>
        have : enter i w = none := by simp [enter, hi]
        simp only [this, Option.getD_none]
        exact ih w h hx'
      | false =>
        have hen : enter i w = some (enterRaw i w) := by simp [enter, hi]
        have hij : j ≠ i := by intro e; subst e; rw [h] at hi; cases hi
        simp only [hen, Option.getD_some]
        have h1 := ih (enterRaw i w) (by rw [enterRaw_other i j w hij]; exact h) hx'
        rw [enterRaw_other i j w hij] at h1
        exact h1
    | exit i x =>
      have hij : j ≠ i := by intro e; apply hx; simp [flatExits, e]
      have hx' : j ∉ flatExits r := by
        intro hm; apply hx; simp [flatExits, hm]
      simp only [runFlatG]
      have h1 := ih (exit i w) (by rw [exit_other i j w hij]; exact h) hx'
      rw [exit_other i j w hij] at h1
      exact h1
    | op p =>
      have hx' : j ∉ flatExits r := by simpa [flatExits] using hx
      simp only [runFlatG]
      obtain ⟨_, _, hj⟩ := opG_frame cfg fuel p w
      have h1 := ih _ (by rw [(hj j).2.2]; exact h) hx'
      rw [(hj j).1, (hj j).2.1] at h1
      exact h1

end IrVerif.Journal

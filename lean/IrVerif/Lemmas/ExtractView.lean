/-
C18: the order that `node_index` (a dict comprehension over `enumerate(graph)`) induces on a node list that
may repeat nodes (a `GraphView` may list a node several times): position of the LAST occurrence.
-/
import IrVerif.Lemmas.Extract
namespace IrVerif.Extract

theorem mem_dedupLast : ∀ {g : List NId} {n : NId}, n ∈ dedupLast g ↔ n ∈ g
  | [], n => by simp [dedupLast]
  | x :: xs, n => by
    unfold dedupLast
    by_cases hx : x ∈ xs
    · rw [if_pos hx, mem_dedupLast (g := xs), List.mem_cons]
      constructor
      · exact Or.inr
      · rintro (rfl | h)
        · exact hx
        · exact h
    · rw [if_neg hx, List.mem_cons, List.mem_cons, mem_dedupLast (g := xs)]

theorem dedupLast_nodup : ∀ (g : List NId), (dedupLast g).Nodup
  | [] => List.nodup_nil
  | x :: xs => by
    unfold dedupLast
    by_cases hx : x ∈ xs
    · rw [if_pos hx]; exact dedupLast_nodup xs
    · rw [if_neg hx]
      exact List.nodup_cons.mpr ⟨fun h => hx (mem_dedupLast.mp h), dedupLast_nodup xs⟩

theorem dedupLast_sublist : ∀ (g : List NId), (dedupLast g).Sublist g
  | [] => List.Sublist.slnil
  | x :: xs => by
    unfold dedupLast
    by_cases hx : x ∈ xs
    · rw [if_pos hx]; exact (dedupLast_sublist xs).cons _
    · rw [if_neg hx]; exact (dedupLast_sublist xs).cons₂ _

/-- a duplicate-free list is its own `dedupLast` -/
theorem dedupLast_of_nodup : ∀ {g : List NId}, g.Nodup → dedupLast g = g
  | [], _ => rfl
  | x :: xs, h => by
    rw [List.nodup_cons] at h
    unfold dedupLast
    rw [if_neg h.1, dedupLast_of_nodup h.2]

/-- along `dedupLast g` the last positions strictly increase -/
theorem dedupLast_pairwise : ∀ (g : List NId),
    (dedupLast g).Pairwise (fun a b => lastIdx g a < lastIdx g b)
  | [] => List.Pairwise.nil
  | x :: xs => by
    have ih := dedupLast_pairwise xs
    have tail : (dedupLast xs).Pairwise (fun a b => lastIdx (x :: xs) a < lastIdx (x :: xs) b) := by
      refine ih.imp_of_mem ?_
      intro a b ha hb hab
      have ha' : a ∈ xs := mem_dedupLast.mp ha
      have hb' : b ∈ xs := mem_dedupLast.mp hb
      simp only [lastIdx, ha', hb', if_true]
      omega
    unfold dedupLast
    by_cases hx : x ∈ xs
    · rw [if_pos hx]; exact tail
    · rw [if_neg hx, List.pairwise_cons]
      refine ⟨?_, tail⟩
      intro b hb
      have hb' : b ∈ xs := mem_dedupLast.mp hb
      simp only [lastIdx, hx, hb', if_true, if_false]
      omega

/-- sorting a duplicate-free list `l` by a key that strictly increases along `g'` (which contains `l`)
    gives `g'` filtered by `l` -/
theorem sortByKey_eq_filter {key : Nat → Nat} {g' l : List Nat}
    (hg : g'.Pairwise (fun a b => key a < key b)) (hl : l.Nodup) (hsub : ∀ x, x ∈ l → x ∈ g') :
    sortByKey key l = g'.filter (fun n => decide (n ∈ l)) := by
  have hinj : ∀ a b, a ∈ g' → b ∈ g' → key a = key b → a = b := by
    intro a b ha hb e
    apply Classical.byContradiction
    intro hne
    rcases List.mem_iff_getElem.mp ha with ⟨i, hi, rfl⟩
    rcases List.mem_iff_getElem.mp hb with ⟨j, hj, rfl⟩
    have hij : i ≠ j := fun e' => hne (by subst e'; rfl)
    rcases Nat.lt_or_gt_of_ne hij with h | h
    · have := List.pairwise_iff_getElem.mp hg i j hi hj h; omega
    · have := List.pairwise_iff_getElem.mp hg j i hj hi h; omega
  apply strict_sorted_ext (key := key)
  · have hs := sortByKey_sorted key l
    have hn := sortByKey_nodup (key := key) hl
    have hboth := hs.and (List.nodup_iff_pairwise_ne.mp hn)
    refine hboth.imp_of_mem ?_
    intro a b ha hb hab
    have hne : a ≠ b := hab.2
    have hle := hab.1
    have : key a ≠ key b := fun e =>
      hne (hinj a b (hsub a (mem_sortByKey.mp ha)) (hsub b (mem_sortByKey.mp hb)) e)
    omega
  · exact hg.filter _
  · intro x
    rw [mem_sortByKey, List.mem_filter]
    simp only [decide_eq_true_eq]
    exact ⟨fun h => ⟨hsub x h, h⟩, fun h => h.2⟩

/-- sorting a duplicate-free subset of `g` by `node_index` gives the last occurrences of `g`, filtered -/
theorem sortByKey_lastIdx_eq_filter {g l : List Nat} (hl : l.Nodup) (hsub : ∀ x, x ∈ l → x ∈ g) :
    sortByKey (fun n => lastIdx g n) l = (dedupLast g).filter (fun n => decide (n ∈ l)) :=
  sortByKey_eq_filter (dedupLast_pairwise g) hl (fun x hx => mem_dedupLast.mpr (hsub x hx))

end IrVerif.Extract
